------------------------------ MODULE SyltPurity ------------------------------
(***************************************************************************)
(* C04: constants are immutable and pure functions stay pure.              *)
(*                                                                         *)
(* The universe is a set of CASES.  A case names a forbidden construct     *)
(* (kind, form) and a PLACEMENT (nesting path) and denotes                 *)
(*   - a planted program that contains the forbidden construct, and        *)
(*   - one or two base programs that differ from it only in the thing the  *)
(*     property forbids (the constant is declared mutable / the construct  *)
(*     is replaced by its allowed sibling / every `pu` is written `fn`).   *)
(* Expectation (the property): every base is accepted, the planted program *)
(* is rejected.  Clause(c) names the sentence of the property it violates. *)
(*                                                                         *)
(* Part A  assignment to a constant          (kind = how it became constant)*)
(* Part B  forbidden construct inside `pu`   (kind = the construct)        *)
(* Part C  impure function into a `pu` type  (kind = position, form = how  *)
(*         the impure function arrives)                                    *)
(* Part D  Part B's constructs x kind of value x syntactic position        *)
(***************************************************************************)
EXTENDS SyltAst, FiniteSets, TLC

(* ---- binder ids.  Globals carry name hints; `names` tables rename the few binders whose text matters. *)
GStart == 1000   GF == 1001   GInc == 1002   GMkf == 1003   GGc == 1004   GGm == 1005
GGb == 1006      GMf == 1007  GP == 1008     GK == 1010     GHost == 1011
GG == 1020       GH == 1021   GMkg == 1023   GVia == 1024   GGf == 1025   GGp == 1026   GMkgi == 1027
IdC == 2001      IdD == 2002  IdIdx == 2003
TB == TName("B")
TM == TName("M")
FnT(pure) == [k |-> "tfn", ps |-> <<TInt>>, r |-> TInt, pure |-> pure]
FnT0(pure) == [k |-> "tfn", ps |-> <<>>, r |-> TInt, pure |-> pure]
MkFn(pure, params, ret, body) == [k |-> "fn", pure |-> pure, params |-> params, ret |-> ret, body |-> body]
Raw(text) == [k |-> "raw", text |-> text]
StartDef(body) == DefN(GStart, "const", TNone, Fn(<<>>, TVoid, body), "start")
Nm(b, n) == [b |-> b, n |-> n]
False01 == Bin("<", I(1), I(0))

(* declarations every program starts with *)
Common == <<
  EnumD("E", <<VD1("X", TInt), VD0("Y")>>),
  BlobD("B", <<FD("n", TInt), FD("get", FnT0(FALSE))>>),
  BlobD("M", <<FD("n", TInt), FD("m", [k |-> "tfn", ps |-> <<>>, r |-> TVoid, pure |-> FALSE])>>),
  DefN(GInc, "const", TNone, Pu(<<P(40, TInt)>>, TInt, <<Ex(Bin("+", V(40), I(1)))>>), "inc")
>>
One == Fn(<<>>, TInt, <<Ex(I(1))>>)                       \* fn -> int do 1 end
MkB == BlobL("B", <<FI("n", I(1)), FI("get", One)>>)

---------------------------------------------------------------------------
(* (A block `do .. end` that is the FIRST statement of a case arm, or of an if-branch inside parentheses, is
   taken by Sylt's parser for the arm's own optional `do`; arms and if-expressions therefore start with a
   constant declaration.)
   Placements.  A path is a sequence of elements, outermost first.  Elements are two-sorted: they take a
   statement list ("S") or an int expression ("E") and yield one.  The body of the host function is "S". *)
Elems == {"block", "ifbr", "elsebr", "loopbody", "casearm", "fnclo", "puclo", "method",
          "loopcond", "arg", "ifexpr", "iifepu"}
InSort(e)  == IF e \in {"loopcond", "arg"} THEN "E" ELSE "S"
OutSort(e) == IF e \in {"ifexpr", "iifepu"} THEN "E" ELSE "S"
ElemIdx(e) == CASE e = "block" -> 1 [] e = "ifbr" -> 2 [] e = "elsebr" -> 3 [] e = "loopbody" -> 4
                [] e = "casearm" -> 5 [] e = "fnclo" -> 6 [] e = "puclo" -> 7 [] e = "method" -> 8
                [] e = "loopcond" -> 9 [] e = "arg" -> 10 [] e = "ifexpr" -> 11 [] e = "iifepu" -> 12

\* element e at depth d around `inner`; `pure` = FALSE writes every `pu` of the placement as `fn`
Wrap(e, d, pure, inner) ==
  LET h == 100 * d + 1  x == 100 * d + 2  q == 100 * d + 3  bv == 100 * d + 4 IN
  CASE e = "block"    -> <<Block(inner)>>
    [] e = "ifbr"     -> <<Ex(If1(False01, inner))>>
    [] e = "elsebr"   -> <<Ex(If2(False01, <<DefC(x, TNone, I(0))>>, inner))>>
    [] e = "loopbody" -> <<Loop(Bo(FALSE), inner)>>
    [] e = "casearm"  -> <<Ex(CaseT(Var1("E", "X", I(1)), <<CArmB("X", q, <<DefC(x, TNone, V(q))>> \o inner), CArm("Y", <<>>)>>))>>
    [] e = "fnclo"    -> <<DefC(h, TNone, Fn(<<>>, TVoid, inner))>>
    [] e = "puclo"    -> <<DefC(h, TNone, MkFn(pure, <<>>, TVoid, inner)), Ex(Call(V(h), <<>>))>>
    [] e = "method"   -> <<DefC(bv, TM, BlobL("M", <<FI("n", I(1)), FI("m", Fn(<<>>, TVoid, inner))>>))>>
    [] e = "loopcond" -> <<Loop(Bin("<", inner, I(0)), <<>>)>>
    [] e = "arg"      -> <<DefC(x, TNone, Call(V(GInc), <<inner>>))>>
    [] e = "ifexpr"   -> If2(Bo(TRUE), <<DefC(x, TNone, I(0))>> \o inner \o <<Ex(I(1))>>, <<Ex(I(0))>>)
    [] e = "iifepu"   -> Call(MkFn(pure, <<>>, TInt, inner \o <<Ex(I(1))>>), <<>>)

RECURSIVE Build(_, _, _, _)
Build(path, i, pure, hole) ==
  IF i > Len(path) THEN hole ELSE Wrap(path[i], i, pure, Build(path, i + 1, pure, hole))

HoleSort(path) == IF path = <<>> THEN "S" ELSE InSort(path[Len(path)])
WellSorted(path) ==
  /\ path # <<>> => OutSort(path[1]) = "S"
  /\ \A i \in 1..(Len(path) - 1) : InSort(path[i]) = OutSort(path[i + 1])

SeqsUpTo(S, n) == UNION {[1..m -> S] : m \in 0..n}
PathsOver(S, n) == {p \in SeqsUpTo(S, n) : WellSorted(p)}
PathText(path) ==
  LET RECURSIVE T(_)
      T(i) == IF i > Len(path) THEN "" ELSE (IF i > 1 THEN ">" ELSE "") \o path[i] \o T(i + 1)
  IN IF path = <<>> THEN "direct" ELSE T(1)
PathWeight(path) ==
  LET RECURSIVE W(_)
      W(i) == IF i > Len(path) THEN 0 ELSE ElemIdx(path[i]) + 13 * W(i + 1)
  IN W(1)

---------------------------------------------------------------------------
(* Part B: forbidden constructs inside a pure function.
   Host function (global `p`, or a local closure of start so that start's mutable local m is in scope):
     p :: pu a: int, k: fn int -> int, pb: B -> int do
         c :: 1 ; lb :: B {..} ; l :: [1, 2] ; lt :: (1, 2) ; lf :: fn -> int do 1 end
         <placement around the construct>
         a
     end                                                                                                *)
BKinds == {"asg-outer", "asg-global", "asg-field-local", "asg-field-param", "asg-field-global", "asg-index",
           "decl-mut", "decl-mut-annot", "read-outer", "read-global",
           "call-fn", "call-fn-param", "call-print", "call-push", "call-mutvar-closure", "call-local-fn",
           "call-fn-field", "call-result-fn", "call-fn-literal"}
BIsAsg(kind) == kind \in {"asg-outer", "asg-global", "asg-field-local", "asg-field-param", "asg-field-global", "asg-index"}
BForms(kind) == IF BIsAsg(kind) THEN {"=", "+="} ELSE {"-"}
BHasE(kind) == kind \in {"read-outer", "read-global", "call-fn", "call-fn-param", "call-mutvar-closure",
                         "call-local-fn", "call-fn-field", "call-result-fn", "call-fn-literal"}
BNeedsLocalHost(kind) == kind \in {"asg-outer", "read-outer"}
BClause(kind) ==
  CASE BIsAsg(kind) -> "pure-no-assignment"
    [] kind \in {"decl-mut", "decl-mut-annot"} -> "pure-no-mutable-declaration"
    [] kind \in {"read-outer", "read-global"} -> "pure-no-read-of-mutable"
    [] OTHER -> "pure-no-call-of-impure"

BTarget(kind) ==
  CASE kind = "asg-outer" -> V(20) [] kind = "asg-global" -> V(GGm)
    [] kind = "asg-field-local" -> Fld(V(5), "n") [] kind = "asg-field-param" -> Fld(V(3), "n")
    [] kind = "asg-field-global" -> Fld(V(GGb), "n") [] kind = "asg-index" -> V(IdIdx)

\* the forbidden construct as an int expression (kinds with BHasE)
BExpr(kind) ==
  CASE kind = "read-outer" -> V(20) [] kind = "read-global" -> V(GGm)
    [] kind = "call-fn" -> Call(V(GF), <<>>) [] kind = "call-fn-param" -> Call(V(2), <<I(1)>>)
    [] kind = "call-mutvar-closure" -> Call(V(GMf), <<>>) [] kind = "call-local-fn" -> Call(V(8), <<>>)
    [] kind = "call-fn-field" -> Call(Fld(V(5), "get"), <<>>)
    [] kind = "call-result-fn" -> Call(Call(V(GMkf), <<>>), <<>>)
    [] kind = "call-fn-literal" -> Call(One, <<>>)
\* its allowed sibling
BAllowedExpr(kind) == IF kind \in {"read-outer", "read-global"} THEN V(4) ELSE Call(V(GInc), <<I(1)>>)

BHole(kind, form, sort, planted) ==
  IF sort = "E" THEN (IF planted THEN BExpr(kind) ELSE BAllowedExpr(kind))
  ELSE IF ~planted THEN
         (CASE kind = "decl-mut-annot" -> <<DefC(90, TInt, I(1))>>
            [] kind \in {"read-outer", "read-global"} -> <<DefC(90, TNone, V(4))>>
            [] BIsAsg(kind) \/ kind = "decl-mut" -> <<DefC(90, TNone, I(2))>>
            [] OTHER -> <<Ex(Call(V(GInc), <<I(1)>>))>>)
  ELSE CASE BIsAsg(kind) -> <<Asg(form, BTarget(kind), I(2))>>
         [] kind = "decl-mut" -> <<DefM(90, TNone, I(1))>>
         [] kind = "decl-mut-annot" -> <<DefM(90, TInt, I(1))>>
         [] kind \in {"read-outer", "read-global"} -> <<DefC(90, TNone, BExpr(kind))>>
         [] kind = "call-print" -> <<Print(I(1))>>
         [] kind = "call-push" -> <<Ex(Call(Std("list.push"), <<V(6), I(1)>>))>>
         [] OTHER -> <<Ex(BExpr(kind))>>

BGlobals == Common \o <<
  DefN(GF, "const", TNone, One, "f"),
  DefN(GMkf, "const", TNone, Pu(<<>>, FnT0(FALSE), <<Ex(One)>>), "mkf"),
  DefN(GGc, "const", TNone, I(1), "gc"),
  DefN(GGm, "mut", TNone, I(1), "gm"),
  DefN(GGb, "const", TNone, MkB, "gb"),
  DefN(GMf, "mut", TNone, One, "mf") >>
BLocals == <<DefC(4, TNone, I(1)), DefC(5, TNone, MkB), DefC(6, TNone, Lst(<<I(1), I(2)>>)),
             DefC(7, TNone, Tup(<<I(1), I(2)>>)), DefC(8, TNone, One)>>
BArgs == <<I(1), Fn(<<P(41, TInt)>>, TInt, <<Ex(V(41))>>), V(GGb)>>
BNames == <<Nm(1, "a"), Nm(2, "k"), Nm(3, "pb"), Nm(4, "c"), Nm(5, "lb"), Nm(6, "l"), Nm(7, "lt"), Nm(8, "lf"),
            Nm(20, "m"), Nm(21, "p"), Nm(90, "x"), Nm(IdIdx, "lt[0]")>>

\* pure: write the host and the placement's `pu`s as `pu` (TRUE) or `fn` (FALSE); planted: forbidden construct or its sibling
BProg(kind, form, path, host, pure, planted) ==
  LET body == Build(path, 1, pure, BHole(kind, form, HoleSort(path), planted))
      pf == MkFn(pure, <<P(1, TInt), P(2, FnT(FALSE)), P(3, TB)>>, TInt, BLocals \o body \o <<Ex(V(1))>>)
  IN [names |-> BNames, mods |-> <<>>,
      main |-> IF host = "global"
               THEN BGlobals \o <<DefN(GP, "const", TNone, pf, "p"),
                                  StartDef(<<DefM(20, TInt, I(1)), Print(Call(V(GP), BArgs))>>)>>
               ELSE BGlobals \o <<StartDef(<<DefM(20, TInt, I(1)), DefC(21, TNone, pf), Print(Call(V(21), BArgs))>>)>>]

BPaths == PathsOver(Elems, 3)
BHosts(kind, path) == IF BNeedsLocalHost(kind) THEN {"local"}
                      ELSE IF Len(path) <= 1 THEN {"global", "local"} ELSE {"global"}
BCases == {[part |-> "B", kind |-> kd, form |-> f, path |-> p, host |-> h] :
             kd \in BKinds, f \in {"=", "+=", "-"}, p \in BPaths, h \in {"global", "local"}}
BCaseOk(c) == /\ c.form \in BForms(c.kind) /\ c.host \in BHosts(c.kind, c.path)
              /\ (HoleSort(c.path) = "E" => BHasE(c.kind))

---------------------------------------------------------------------------
(* Part A: assignment to a constant.  Host:
     host :: fn p: T do  m := lit ; <declaration of the constant k, per kind> ; <placement around `k op= v`> end
   T is int, except for `/=` (int / int is a float in Sylt) where it is float.  The base declares the same name
   mutable (`:=`, `x: T = ..`); parameters and case bindings cannot be declared mutable, their base assigns the
   mutable local m in the same place. *)
AKinds == {"local", "local-annot", "global", "global-annot", "param", "casebind", "import-own", "import-alias",
           "namespace", "global-fn", "local-alias", "local-fn"}
AForms(kind) == IF kind \in {"global-fn", "local-fn"} THEN {"="} ELSE {"=", "+=", "-=", "*=", "/="}
AElems == Elems \ {"puclo", "iifepu"}
APaths == PathsOver(AElems, 2)
ATy(form) == IF form = "/=" THEN TFloat ELSE TInt
ALit(form) == IF form = "/=" THEN Fl(3, 1) ELSE I(1)
AVal(form) == IF form = "/=" THEN Fl(5, 1) ELSE I(2)
Two == Fn(<<>>, TInt, <<Ex(I(2))>>)

ATarget(kind, planted) ==
  CASE kind \in {"local", "local-annot", "local-alias", "local-fn"} -> V(11)
    [] kind \in {"global", "global-annot", "global-fn"} -> V(GK)
    [] kind = "param" -> IF planted THEN V(1) ELSE V(10)
    [] kind = "casebind" -> IF planted THEN V(12) ELSE V(10)
    [] kind = "import-own" -> V(IdC)
    [] kind = "import-alias" -> V(IdD)
    [] kind = "namespace" -> Fld(Std("m"), "c")

ANames == <<Nm(1, "p"), Nm(10, "m"), Nm(11, "k"), Nm(12, "q"), Nm(IdC, "c"), Nm(IdD, "d")>>

AProg(kind, form, path, planted) ==
  LET ty == ATy(form)  lit == ALit(form)
      dk == IF planted THEN "const" ELSE "mut"
      isfn == kind \in {"global-fn", "local-fn"}
      asg == <<Asg(form, ATarget(kind, planted), IF isfn THEN Two ELSE AVal(form))>>
      placed == Build(path, 1, FALSE, asg)
      decl == CASE kind = "local" -> <<DefN(11, dk, TNone, lit, "")>>
                [] kind = "local-annot" -> <<DefN(11, dk, ty, lit, "")>>
                [] kind = "local-alias" -> <<DefN(11, dk, TNone, V(GGc), "")>>
                [] kind = "local-fn" -> <<DefN(11, dk, TNone, One, "")>>
                [] OTHER -> <<>>
      inner == IF kind = "casebind"
               THEN <<Ex(CaseT(Var1("EK", "X", lit), <<CArmB("X", 12, <<DefC(13, TNone, V(12))>> \o placed), CArm("Y", <<>>)>>))>>
               ELSE placed
      gdecl == CASE kind = "global" -> <<DefN(GK, dk, TNone, lit, "gk")>>
                 [] kind = "global-annot" -> <<DefN(GK, dk, ty, lit, "gk")>>
                 [] kind = "global-fn" -> <<DefN(GK, dk, TNone, One, "gk")>>
                 [] kind = "import-own" -> <<Raw("from m use c")>>
                 [] kind = "import-alias" -> <<Raw("from m use c as d")>>
                 [] kind = "namespace" -> <<Raw("use m")>>
                 [] OTHER -> <<>>
      mods == IF kind \in {"import-own", "import-alias", "namespace"}
              THEN <<[name |-> "m", tops |-> <<DefN(IdC, dk, TNone, lit, "c")>>]>> ELSE <<>>
  IN [names |-> ANames, mods |-> mods,
      main |-> gdecl \o Common \o
               <<EnumD("EK", <<VD1("X", ty), VD0("Y")>>),
                 DefN(GGc, "const", TNone, lit, "gc"),
                 DefN(GHost, "const", TNone, Fn(<<P(1, ty)>>, TVoid, <<DefM(10, TNone, lit)>> \o decl \o inner), "host"),
                 StartDef(<<Ex(Call(V(GHost), <<lit>>))>>)>>]

ACases == {[part |-> "A", kind |-> kd, form |-> f, path |-> p, host |-> "host"] :
             kd \in AKinds, f \in {"=", "+=", "-=", "*=", "/="}, p \in APaths}
ACaseOk(c) == c.form \in AForms(c.kind) /\ HoleSort(c.path) = "S"

---------------------------------------------------------------------------
(* Part C: an impure function arriving at a position whose declared type is `pu int -> int`.
     g :: fn x: int -> int do x + 1 end           the impure function
     via :: fn kk: fn int -> int do <arrival's locals> <position> end ;  start :: fn do via(g) end
   posPure / arrPure: planted = (TRUE, FALSE); base 1 = (FALSE, FALSE): the position is `fn`-typed;
   base 2 = (TRUE, TRUE): the function (and every annotation on its way) is pure.
   kind = position, form = arrival.  The initial value gp of the assigned positions has the position's purity.
   The printer drops the annotation of a definition whose value is a function literal, so the literal arrival
   is written as verbatim expression text (a `std` node prints its name as is). *)
CPositions == {"var-annot", "var-annot-mut", "param", "return", "blob-field", "list-elem", "tuple-elem",
               "assign-var", "assign-field", "push", "global-annot"}
CArrivals == {"name", "literal", "const-alias", "mut-alias", "fn-annot-alias", "fn-annot-mut-alias",
              "returned-inferred", "returned-fn-annot", "fn-param", "fn-field", "if-expr"}
CArrHasLocals(arr) == arr \in {"const-alias", "mut-alias", "fn-annot-alias", "fn-annot-mut-alias", "fn-param", "fn-field"}

GBody == <<Ex(Bin("+", V(60), I(1)))>>
CArrLocals(arr, ap) ==
  CASE arr = "const-alias" -> <<DefC(61, TNone, V(GG))>>
    [] arr = "mut-alias" -> <<DefM(61, TNone, V(GG))>>
    [] arr = "fn-annot-alias" -> <<DefC(61, FnT(ap), V(GG))>>
    [] arr = "fn-annot-mut-alias" -> <<DefM(61, FnT(ap), V(GG))>>
    [] arr = "fn-field" -> <<DefC(62, TName("FB"), BlobL("FB", <<FI("f", V(GG))>>))>>
    [] OTHER -> <<>>
CArrExpr(arr, ap) ==
  CASE arr = "name" -> V(GG)
    [] arr = "literal" -> Std(IF ap THEN "pu y: int -> int do y + 1 end" ELSE "fn y: int -> int do y + 1 end")
    [] arr \in {"const-alias", "mut-alias", "fn-annot-alias", "fn-annot-mut-alias"} -> V(61)
    [] arr = "returned-inferred" -> Call(V(GMkgi), <<>>)
    [] arr = "returned-fn-annot" -> Call(V(GMkg), <<>>)
    [] arr = "fn-param" -> V(50)
    [] arr = "fn-field" -> Fld(V(62), "f")
    [] arr = "if-expr" -> If2(Bo(TRUE), <<Ex(V(GG))>>, <<Ex(V(GG))>>)

CPosStmts(pos, pp, e) ==
  CASE pos = "var-annot" -> <<DefC(70, FnT(pp), e)>>
    [] pos = "var-annot-mut" -> <<DefM(70, FnT(pp), e)>>
    [] pos = "param" -> <<Ex(Call(V(GH), <<e>>))>>
    [] pos = "return" -> <<DefC(71, TNone, Fn(<<>>, FnT(pp), <<Ex(e)>>)), Ex(Call(V(71), <<>>))>>
    [] pos = "blob-field" -> <<DefC(72, TName("PB"), BlobL("PB", <<FI("f", e)>>))>>
    [] pos = "list-elem" -> <<DefC(73, TList(FnT(pp)), Lst(<<e>>))>>
    [] pos = "tuple-elem" -> <<DefC(74, TTuple(<<FnT(pp), TInt>>), Tup(<<e, I(1)>>))>>
    [] pos = "assign-var" -> <<DefM(75, FnT(pp), V(GGp)), Asg("=", V(75), e)>>
    [] pos = "assign-field" -> <<DefC(72, TName("PB"), BlobL("PB", <<FI("f", V(GGp))>>)), Asg("=", Fld(V(72), "f"), e)>>
    [] pos = "push" -> <<DefC(73, TList(FnT(pp)), Lst(<<V(GGp)>>)), Ex(Call(Std("list.push"), <<V(73), e>>))>>
    [] pos = "global-annot" -> <<>>

CNames == <<Nm(50, "kk"), Nm(60, "x"), Nm(61, "a"), Nm(62, "hb"), Nm(70, "t"), Nm(71, "r"), Nm(72, "pb"),
            Nm(73, "l"), Nm(74, "tt"), Nm(75, "fm")>>

CProg(pos, arr, pp, ap) ==
  LET e == CArrExpr(arr, ap) IN
  [names |-> CNames, mods |-> <<>>,
   main |-> <<
     BlobD("PB", <<FD("f", FnT(pp))>>),
     BlobD("FB", <<FD("f", FnT(ap))>>),
     DefN(GG, "const", TNone, MkFn(ap, <<P(60, TInt)>>, TInt, GBody), "g"),
     DefN(GGp, "const", TNone, MkFn(pp, <<P(60, TInt)>>, TInt, <<Ex(V(60))>>), "gp"),
     DefN(GMkgi, "const", TNone, Fn(<<>>, TNone, <<Ex(V(GG))>>), "mkgi"),
     DefN(GMkg, "const", TNone, Fn(<<>>, FnT(ap), <<Ex(V(GG))>>), "mkg"),
     DefN(GH, "const", TNone, Fn(<<P(51, FnT(pp))>>, TInt, <<Ex(Call(V(51), <<I(1)>>))>>), "h") >>
     \o (IF pos = "global-annot" THEN <<DefN(GGf, "const", FnT(pp), e, "gf")>> ELSE <<>>)
     \o <<DefN(GVia, "const", TNone, Fn(<<P(50, FnT(ap))>>, TVoid, CArrLocals(arr, ap) \o CPosStmts(pos, pp, e)), "via"),
          StartDef(<<Ex(Call(V(GVia), <<V(GG)>>))>>)>>]

CCases == {[part |-> "C", kind |-> pos, form |-> arr, path |-> <<>>, host |-> "via"] : pos \in CPositions, arr \in CArrivals}
CCaseOk(c) == c.kind = "global-annot" => ~CArrHasLocals(c.form)

---------------------------------------------------------------------------
(* Part D: the constructs forbidden inside `pu` crossed with the KIND of value involved and the syntactic POSITION
   in which the name / value occurs (round 3).  kind = construct family (+ scope of the variable / shape of the
   callee), form = value kind and position / target / call surface.
     xread-global / xread-outer   read of a mutable global / of a mutable local of the enclosing fn that holds an int,
                                  a list, a blob, a tuple, a PURE function or an impure function, in every position
                                  a name can take: alias, argument, arrow-call receiver, tuple / list element,
                                  argument of a pure std function, operand (left / right / negated), receiver of a
                                  field read / of a call of a pu-typed field, index base, receiver of list.get, and
                                  - for function values - CALLEE of `f(x)`, `f' x`, `x -> f()`, `x -> f'`, `f(f(x))`.
                                  base 1: the same program with the variable declared constant.
     xdecl / xdecl-annot          `x := v` / `x: T = v` for every kind of value v: int, str, list, blob, tuple, variant,
                                  pu / fn FUNCTION LITERAL, name of a pu / fn function, if-expression, call result.
                                  base 1: `x :: v` / `x: T : v`.
     xasg-global / xasg-outer     assignment to a mutable variable per kind of value and target shape (variable, `+=`,
                                  field, field holding a function, tuple index; function literal / function name as value).
                                  base 1: `x :: <the value>` in the same place.
     xcall-<callee>               call of a function not known to be pure per callee shape (global fn, fn-typed parameter,
                                  local fn, fn of the enclosing fn, fn-typed blob field, mutable variable holding a fn,
                                  print, list.push) crossed with the call's surface: `f(a)`, `f' a`, `a -> f()`, `a -> f'`.
                                  base 1: `inc` called in the same surface form.
   base 2 (all families): every `pu` of host and placement written `fn`.
   Host:  p :: pu a: int, k: fn int -> int -> int do  c :: 1 ; lb :: B1 {..} ; l :: [1, 2] ; lf :: fn y: int -> int ..
                <placement, paths of length <= 2> ; a end
   (global, or a closure of start when the variable / callee is a local of start). *)
GTk == 1030   GGv == 1031   GF1 == 1032   GMf1 == 1033
TK == TName("K")
TB1 == TName("B1")
CallF(f, args, form) == [k |-> "call", f |-> f, args |-> args, form |-> form]   \* form: 0 f(a) 1 f' a 2 a -> f() 3 a -> f'
DVKinds == {"int", "list", "blob", "tuple", "pufn", "fn"}
DTy(vk) == CASE vk = "int" -> TInt [] vk = "list" -> TList(TInt) [] vk = "blob" -> TK
             [] vk = "tuple" -> TTuple(<<TInt, TInt>>) [] vk = "pufn" -> FnT(TRUE) [] vk = "fn" -> FnT(FALSE)
Fn1(pure, n) == MkFn(pure, <<P(42, TInt)>>, TInt, <<Ex(Bin("+", V(42), I(n)))>>)
MkK(n) == BlobL("K", <<FI("n", I(n)), FI("pg", MkFn(TRUE, <<>>, TInt, <<Ex(I(n))>>))>>)
DLit(vk, n) == CASE vk = "int" -> I(n) [] vk = "list" -> Lst(<<I(n), I(2)>>) [] vk = "blob" -> MkK(n)
                 [] vk = "tuple" -> Tup(<<I(n), I(2)>>) [] vk = "pufn" -> Fn1(TRUE, n) [] vk = "fn" -> Fn1(FALSE, n)

DPair(a, b) == a \o "@" \o b

\* ---- reads
DReadPos(vk) == {"alias", "arg", "arrow-lhs", "tuple-elem", "list-elem", "std-arg"} \cup
  (CASE vk = "int" -> {"operand-l", "operand-r", "neg"}
     [] vk = "list" -> {"std-recv", "std-arrow-recv"}
     [] vk = "blob" -> {"field-recv", "method-recv"}
     [] vk = "tuple" -> {"index-base"}
     [] vk = "pufn" -> {"callee", "callee-prime", "arrow-target", "arrow-prime-target", "callee-nested"}
     [] vk = "fn" -> {})
DReadPairs == {<<vk, pos>> : vk \in DVKinds, pos \in UNION {DReadPos(v) : v \in DVKinds}}
DReadOk(pr) == pr[2] \in DReadPos(pr[1])
DReadEPos == {"arg", "operand-l", "operand-r", "field-recv", "method-recv", "index-base", "callee", "callee-nested"}
DReadE(pos, v) ==
  CASE pos = "arg" -> CallF(V(GTk), <<v>>, 0)
    [] pos = "operand-l" -> Bin("+", v, I(1)) [] pos = "operand-r" -> Bin("+", I(1), v)
    [] pos = "field-recv" -> Fld(v, "n") [] pos = "method-recv" -> CallF(Fld(v, "pg"), <<>>, 0)
    [] pos = "index-base" -> Idx(v, 0)
    [] pos = "callee" -> CallF(v, <<I(1)>>, 0)
    [] pos = "callee-nested" -> CallF(v, <<CallF(v, <<I(1)>>, 0)>>, 0)
DReadS(pos, v) ==
  CASE pos = "alias" -> <<DefC(90, TNone, v)>>
    [] pos = "arrow-lhs" -> <<Ex(CallF(V(GTk), <<v>>, 2))>>
    [] pos = "tuple-elem" -> <<DefC(90, TNone, Tup(<<v, I(1)>>))>>
    [] pos = "list-elem" -> <<DefC(90, TNone, Lst(<<v>>))>>
    [] pos = "std-arg" -> <<DefC(90, TNone, CallF(Std("as_str"), <<v>>, 0))>>
    [] pos = "neg" -> <<DefC(90, TNone, Un("-", v))>>
    [] pos = "std-recv" -> <<DefC(90, TNone, CallF(Std("list.get"), <<v, I(0)>>, 0))>>
    [] pos = "std-arrow-recv" -> <<DefC(90, TNone, CallF(Std("list.get"), <<v, I(0)>>, 2))>>
    [] pos = "callee-prime" -> <<Ex(CallF(v, <<I(1)>>, 1))>>
    [] pos = "arrow-target" -> <<Ex(CallF(v, <<I(1)>>, 2))>>
    [] pos = "arrow-prime-target" -> <<Ex(CallF(v, <<I(1)>>, 3))>>
    [] OTHER -> <<DefC(90, TNone, DReadE(pos, v))>>

\* ---- declarations: value kinds
DDeclVals == {"int", "str", "list", "blob", "tuple", "variant", "pufn-lit", "fn-lit", "pufn-name", "fn-name", "ifexpr", "call"}
DDeclTy(dv) == CASE dv \in {"int", "ifexpr", "call"} -> TInt [] dv = "str" -> TStr [] dv = "list" -> TList(TInt)
                 [] dv = "blob" -> TK [] dv = "tuple" -> TTuple(<<TInt, TInt>>) [] dv = "variant" -> TName("E")
                 [] dv \in {"pufn-lit", "pufn-name"} -> FnT(TRUE) [] dv \in {"fn-lit", "fn-name"} -> FnT(FALSE)
\* (the printer drops the annotation of a definition whose value is a function-literal NODE: the annotated
\*  declarations of function literals carry the literal as verbatim one-line text, as in Part C)
DDeclVal(dv, annot) ==
  CASE dv = "int" -> I(1) [] dv = "str" -> St("s") [] dv = "list" -> Lst(<<I(1), I(2)>>) [] dv = "blob" -> MkK(1)
    [] dv = "tuple" -> Tup(<<I(1), I(2)>>) [] dv = "variant" -> Var1("E", "X", I(1))
    [] dv = "pufn-lit" -> IF annot THEN Std("pu y: int -> int do y + 1 end") ELSE Fn1(TRUE, 1)
    [] dv = "fn-lit" -> IF annot THEN Std("fn y: int -> int do y + 1 end") ELSE Fn1(FALSE, 1)
    [] dv = "pufn-name" -> V(GInc) [] dv = "fn-name" -> V(GF1)
    [] dv = "ifexpr" -> If2(Bin("<", V(1), I(0)), <<Ex(I(1))>>, <<Ex(I(2))>>)
    [] dv = "call" -> CallF(V(GInc), <<I(1)>>, 0)

\* ---- assignments: <value kind>@<target shape>
DAsgShapes(vk) == {"var="} \cup
  (CASE vk = "int" -> {"var+="} [] vk = "blob" -> {"field=", "field+=", "fnfield="} [] vk = "tuple" -> {"index="}
     [] vk \in {"pufn", "fn"} -> {"var=name"} [] OTHER -> {})
DAsgPairs == {<<vk, sh>> : vk \in DVKinds, sh \in UNION {DAsgShapes(v) : v \in DVKinds}}
DAsgOk(pr) == pr[2] \in DAsgShapes(pr[1])
DAsgVal(vk, sh) ==
  CASE sh \in {"var+=", "field=", "field+=", "index="} -> I(2)
    [] sh = "fnfield=" -> MkFn(TRUE, <<>>, TInt, <<Ex(I(2))>>)
    [] sh = "var=name" -> IF vk = "pufn" THEN V(GInc) ELSE V(GF1)
    [] OTHER -> DLit(vk, 2)
DAsgStmt(vk, sh, v) ==
  LET t == CASE sh \in {"field=", "field+="} -> Fld(v, "n") [] sh = "fnfield=" -> Fld(v, "pg")
             [] sh = "index=" -> Idx(v, 0) [] OTHER -> v
      op == IF sh \in {"var+=", "field+="} THEN "+=" ELSE "="
  IN <<Asg(op, t, DAsgVal(vk, sh))>>

\* ---- calls: callee shape x surface form
DCallees == {"global-fn", "param-fn", "local-fn", "outer-fn", "field-fn", "mutvar-fn", "std-print", "std-push"}
DSurfaces == {"paren", "prime", "arrow", "arrow-prime"}
DSurfIdx(sf) == CASE sf = "paren" -> 0 [] sf = "prime" -> 1 [] sf = "arrow" -> 2 [] sf = "arrow-prime" -> 3
DCallKind(c) == "xcall-" \o c
DCalleeOf(kind) == CHOOSE c \in DCallees : DCallKind(c) = kind
DCallExpr(c, sf) ==
  LET n == DSurfIdx(sf) IN
  CASE c = "global-fn" -> CallF(V(GF1), <<I(1)>>, n) [] c = "param-fn" -> CallF(V(2), <<I(1)>>, n)
    [] c = "local-fn" -> CallF(V(8), <<I(1)>>, n) [] c = "outer-fn" -> CallF(V(22), <<I(1)>>, n)
    [] c = "field-fn" -> CallF(Fld(V(5), "get1"), <<I(1)>>, n) [] c = "mutvar-fn" -> CallF(V(GMf1), <<I(1)>>, n)
    [] c = "std-print" -> CallF(Std("print"), <<I(1)>>, n)
    [] c = "std-push" -> CallF(Std("list.push"), <<V(6), I(1)>>, n)

\* ---- kinds, forms, holes
DKinds == {"xread-global", "xread-outer", "xdecl", "xdecl-annot", "xasg-global", "xasg-outer"} \cup {DCallKind(c) : c \in DCallees}
DFam(kind) == CASE kind \in {"xread-global", "xread-outer"} -> "read" [] kind \in {"xdecl", "xdecl-annot"} -> "decl"
                [] kind \in {"xasg-global", "xasg-outer"} -> "asg" [] OTHER -> "call"
DLocalHost(kind) == kind \in {"xread-outer", "xasg-outer", DCallKind("outer-fn")}
DForms(kind) ==
  CASE DFam(kind) = "read" -> {DPair(pr[1], pr[2]) : pr \in {q \in DReadPairs : DReadOk(q)}}
    [] DFam(kind) = "decl" -> DDeclVals
    [] DFam(kind) = "asg" -> {DPair(pr[1], pr[2]) : pr \in {q \in DAsgPairs : DAsgOk(q)}}
    [] OTHER -> DSurfaces
DAllForms == UNION {DForms(kd) : kd \in DKinds}
DReadPr(form) == CHOOSE pr \in DReadPairs : DReadOk(pr) /\ DPair(pr[1], pr[2]) = form
DAsgPr(form) == CHOOSE pr \in DAsgPairs : DAsgOk(pr) /\ DPair(pr[1], pr[2]) = form
DHasE(kind, form) ==
  CASE DFam(kind) = "read" -> DReadPr(form)[2] \in DReadEPos
    [] DFam(kind) = "call" -> form = "paren" /\ DCalleeOf(kind) \notin {"std-print", "std-push"}
    [] OTHER -> FALSE
DClause(kind) == CASE DFam(kind) = "read" -> "pure-no-read-of-mutable" [] DFam(kind) = "decl" -> "pure-no-mutable-declaration"
                   [] DFam(kind) = "asg" -> "pure-no-assignment" [] OTHER -> "pure-no-call-of-impure"
DVk(kind, form) == CASE DFam(kind) = "read" -> DReadPr(form)[1] [] DFam(kind) = "asg" -> DAsgPr(form)[1] [] OTHER -> "int"

DHole(kind, form, sort, planted) ==
  LET v == IF DLocalHost(kind) THEN V(20) ELSE V(GGv) IN
  CASE DFam(kind) = "read" ->
         (IF sort = "E" THEN DReadE(DReadPr(form)[2], v) ELSE DReadS(DReadPr(form)[2], v))
    [] DFam(kind) = "decl" ->
         LET an == kind = "xdecl-annot"
             ty == IF an THEN DDeclTy(form) ELSE TNone
         IN <<DefN(90, IF planted THEN "mut" ELSE "const", ty, DDeclVal(form, an), "")>>
    [] DFam(kind) = "asg" ->
         LET pr == DAsgPr(form) IN
         IF planted THEN DAsgStmt(pr[1], pr[2], v) ELSE <<DefC(90, TNone, DAsgVal(pr[1], pr[2]))>>
    [] OTHER ->
         LET e == IF planted THEN DCallExpr(DCalleeOf(kind), form) ELSE CallF(V(GInc), <<I(1)>>, DSurfIdx(form))
         IN IF sort = "E" THEN e ELSE <<Ex(e)>>

DNames == <<Nm(1, "a"), Nm(2, "k"), Nm(4, "c"), Nm(5, "lb"), Nm(6, "l"), Nm(8, "lf"), Nm(20, "m"), Nm(21, "p"),
            Nm(22, "of"), Nm(42, "y"), Nm(43, "t"), Nm(90, "x")>>
MkB1 == BlobL("B1", <<FI("n", I(1)), FI("get1", Fn1(FALSE, 0))>>)
DLocals == <<DefC(4, TNone, I(1)), DefC(5, TNone, MkB1), DefC(6, TNone, Lst(<<I(1), I(2)>>)), DefC(8, TNone, Fn1(FALSE, 0))>>

\* pure / planted as in Part B; for reads `planted` decides the variable's declaration, for the others the hole
DProg(kind, form, path, pure, planted) ==
  LET fam == DFam(kind)
      vk == DVk(kind, form)
      body == Build(path, 1, pure, DHole(kind, form, HoleSort(path), planted))
      pf == MkFn(pure, <<P(1, TInt), P(2, FnT(FALSE))>>, TInt, DLocals \o body \o <<Ex(V(1))>>)
      vdk == IF fam = "read" /\ ~planted THEN "const" ELSE "mut"
      hasvar == fam \in {"read", "asg"}
      globals == Common \o
        <<BlobD("K", <<FD("n", TInt), FD("pg", FnT0(TRUE))>>),
          BlobD("B1", <<FD("n", TInt), FD("get1", FnT(FALSE))>>),
          DefN(GTk, "const", TNone, MkFn(TRUE, <<P(43, DTy(vk))>>, TInt, <<Ex(I(1))>>), "tk"),
          DefN(GF1, "const", TNone, Fn1(FALSE, 1), "f1"),
          DefN(GMf1, "mut", TNone, Fn1(FALSE, 1), "mf1")>>
        \o (IF hasvar /\ ~DLocalHost(kind) THEN <<DefN(GGv, vdk, TNone, DLit(vk, 1), "gv")>> ELSE <<>>)
      lvar == IF hasvar THEN <<DefN(20, vdk, TNone, DLit(vk, 1), "")>> ELSE <<DefC(22, TNone, Fn1(FALSE, 0))>>
      args == <<I(1), V(GF1)>>
  IN [names |-> DNames, mods |-> <<>>,
      main |-> IF DLocalHost(kind)
               THEN globals \o <<StartDef(lvar \o <<DefC(21, TNone, pf), Print(Call(V(21), args))>>)>>
               ELSE globals \o <<DefN(GP, "const", TNone, pf, "p"), StartDef(<<Print(Call(V(GP), args))>>)>>]

\* (built like BCases - a plain product filtered by a constant-set membership - which TLC evaluates once, at start-up)
DCells == UNION {{<<kd, f>> : f \in DForms(kd)} : kd \in DKinds}
DCellsE == {cell \in DCells : DHasE(cell[1], cell[2])}
DPaths == {p \in BPaths : Len(p) <= 2}
DHostOf(kind) == IF DLocalHost(kind) THEN "local" ELSE "global"
DCases == {[part |-> "D", kind |-> cell[1], form |-> cell[2], path |-> p, host |-> DHostOf(cell[1])] : cell \in DCells, p \in DPaths}
DCaseOk(c) == HoleSort(c.path) = "E" => <<c.kind, c.form>> \in DCellsE

---------------------------------------------------------------------------
(* The universe, the programs of a case, and the expectation *)
(* (TLC's `\cup` looks every element of its right operand up in the left one - by binary search only when the left
   operand is a normalised value, which cached constant definitions are: the union is built as a chain of constants.) *)
CasesA == {c \in ACases : ACaseOk(c)}
CasesB == {c \in BCases : BCaseOk(c)}
CasesC == {c \in CCases : CCaseOk(c)}
CasesD == {c \in DCases : DCaseOk(c)}
CasesBA == CasesB \cup CasesA
CasesBAC == CasesBA \cup CasesC
Cases == CasesBAC \cup CasesD

Planted(c) ==
  CASE c.part = "A" -> AProg(c.kind, c.form, c.path, TRUE)
    [] c.part = "B" -> BProg(c.kind, c.form, c.path, c.host, TRUE, TRUE)
    [] c.part = "C" -> CProg(c.kind, c.form, TRUE, FALSE)
    [] c.part = "D" -> DProg(c.kind, c.form, c.path, TRUE, TRUE)
Bases(c) ==
  CASE c.part = "A" -> <<AProg(c.kind, c.form, c.path, FALSE)>>
    [] c.part = "B" -> <<BProg(c.kind, c.form, c.path, c.host, TRUE, FALSE), BProg(c.kind, c.form, c.path, c.host, FALSE, TRUE)>>
    [] c.part = "C" -> <<CProg(c.kind, c.form, FALSE, FALSE), CProg(c.kind, c.form, TRUE, TRUE)>>
    [] c.part = "D" -> <<DProg(c.kind, c.form, c.path, TRUE, FALSE), DProg(c.kind, c.form, c.path, FALSE, TRUE)>>

Clause(c) ==
  CASE c.part = "A" -> "constant-not-assignable"
    [] c.part = "B" -> BClause(c.kind)
    [] c.part = "C" -> "impure-not-accepted-as-pu"
    [] c.part = "D" -> DClause(c.kind)

\* what the property demands of the compile results
ExpectBase == "ok"
ExpectPlanted == "err"

CaseId(c) == [part |-> c.part, kind |-> c.kind, form |-> c.form, path |-> PathText(c.path), host |-> c.host]
CaseWeight(c) == PathWeight(c.path) + 7 * Len(c.kind) + 3 * Len(c.form) + Len(c.host)
=============================================================================
