---------------------------- MODULE SyltLibReent ----------------------------
(***************************************************************************)
(* C10, re-entrancy of the LIBRARY.  The standard higher-order functions   *)
(* (filter, map, fold, find, for_each on lists; map / for_each on sets and *)
(* dicts; maybe.map / maybe.andThen) call user code while they hold the    *)
(* element, the accumulator and the partial result.  That user code may    *)
(* call the library again - another function, or the SAME function nested *)
(* - so every activation of a library function needs temporaries of its   *)
(* own, exactly as an activation of a user function does.                  *)
(*                                                                         *)
(* The library functions themselves are the ones of SyltSem (CallBuiltin / *)
(* StdExtra: FilterList, MapList, FoldList, FindList, ForEach, ...): this  *)
(* module only builds the programs; TLC runs them through SyltSem.         *)
(*                                                                         *)
(* One program per key <<"lib", outer, dir, inner, leaf, lst>>:            *)
(*   outer  the higher-order function applied to xs = [1, 2, 3, 4, 5]      *)
(*   dir    "ax" / "xa": the callback uses its element x AFTER / BEFORE    *)
(*          the action (the element is held across the library call)       *)
(*   inner  "direct" or a higher-order function the callback applies to another *)
(*          list / a one-element dict or set / a Maybe (its own callback   *)
(*          again performs the leaf action and reads the outer element x:  *)
(*          three activations deep)                                        *)
(*   leaf   a first-order library call: list.get (element-dependent or     *)
(*          constant index), last, len, contains, pop, dict.get,           *)
(*          set.contains, or none                                          *)
(*   lst    the list inner / leaf work on: "ys" = [10, 20, 30], another    *)
(*          list, or "xs", the very list the outer function is traversing  *)
(*          (read only)                                                    *)
(* Callbacks of filter / map / fold / find / set.map / dict.map / maybe.*  *)
(* are `pu`: only the pure library functions may be called in them         *)
(* (LibValid).  The traversed list is never changed by a callback (the     *)
(* effect of that is not specified).                                       *)
(***************************************************************************)
EXTENDS SyltGen

LXs == 71
LYs == 72
LZs == 73
LD == 74
LS == 75
LAcc == 76
LSet1 == 77
LDict1 == 78
LOut == 79

LibOuters == <<"filter", "map", "fold", "find", "for_each", "setmap", "dictmap", "setforeach", "dictforeach", "maybemap", "maybeandthen">>
LibDirs == <<"ax", "xa">>
LibInners == <<"direct", "filter", "map", "fold", "find", "for_each", "dictmap", "maybemap", "setmap", "setforeach", "dictforeach">>
LibLeaves == <<"none", "get", "get0", "last", "len", "contains", "pop", "dget", "scont">>
LibLists == <<"ys", "xs">>

OrDefault(m, d) == Call(Std("maybe.orDefault"), <<m, d>>)
PuFn(ps, ret, body) == Pu(ps, ret, body)
ListVar(l) == IF l = "xs" THEN V(LXs) ELSE V(LYs)

PureLeaf(lf) == lf \in {"none", "get", "get0", "dget", "scont"}
PureInner(h) == h \in {"direct", "filter", "map", "fold", "dictmap", "maybemap"}

\* the leaf action on element e (an int expression), working on list l
Leaf(lf, e, l) ==
  CASE lf = "none"     -> I(0)
    [] lf = "get"      -> OrDefault(Call(Std("list.get"), <<ListVar(l), Bin("-", e, I(1))>>), I(0))
    [] lf = "get0"     -> OrDefault(Call(Std("list.get"), <<ListVar(l), I(0)>>), I(0))
    [] lf = "last"     -> OrDefault(Call(Std("list.last"), <<ListVar(l)>>), I(0))
    [] lf = "len"      -> Call(Std("list.len"), <<ListVar(l)>>)
    [] lf = "contains" -> If2(Call(Std("list.contains"), <<ListVar(l), Bin("*", e, I(10))>>), <<Ex(I(1))>>, <<Ex(I(0))>>)
    [] lf = "pop"      -> OrDefault(Call(Std("list.pop"), <<V(LZs)>>), I(0))
    [] lf = "dget"     -> OrDefault(Call(Std("dict.get"), <<V(LD), e>>), I(0))
    [] lf = "scont"    -> If2(Call(Std("set.contains"), <<V(LS), Bin("*", e, I(10))>>), <<Ex(I(1))>>, <<Ex(I(0))>>)

SumFn(b) == Pu(<<P(b + 1, TInt), P(b + 2, TInt)>>, TInt, <<Ex(Bin("+", V(b + 2), V(b + 1)))>>)
CountFn(b) == Pu(<<P(b + 1, TInt), P(b + 2, TInt)>>, TInt, <<Ex(Bin("+", V(b + 2), I(1)))>>)

\* the action of the OUTER callback on its element e: an int expression (b: base for fresh binder ids)
Action(h, lf, l, e, b) ==
  LET y == V(b + 1)
      mk(ret, body) == Pu(<<P(b + 1, TInt)>>, ret, body)      \* the library declares these callbacks `pu`
      w == Bin("+", y, Leaf(lf, y, l)) IN     \* what the inner callback makes of its own element y
  CASE h = "direct" -> Leaf(lf, e, l)
    \* how many y of the list have y + leaf(y) > 10 * e
    [] h = "filter" -> Call(Std("fold"), <<Call(Std("filter"), <<ListVar(l), mk(TBool, <<Ex(Bin(">", w, Bin("*", e, I(10))))>>)>>),
                                           I(0), CountFn(b + 10)>>)
    \* the sum of (y + leaf(y) + e)
    [] h = "map"    -> Call(Std("fold"), <<Call(Std("map"), <<ListVar(l), mk(TInt, <<Ex(Bin("+", w, e))>>)>>), I(0), SumFn(b + 10)>>)
    [] h = "fold"   -> Call(Std("fold"), <<ListVar(l), e,
                          Pu(<<P(b + 1, TInt), P(b + 2, TInt)>>, TInt, <<Ex(Bin("+", V(b + 2), w))>>)>>)
    [] h = "find"   -> OrDefault(Call(Std("list.find"), <<ListVar(l), mk(TBool, <<Ex(Bin(">", w, Bin("*", e, I(10))))>>)>>), I(0))
    [] h = "for_each" ->
         IIFE(TInt, <<DefM(b + 3, TInt, I(0)),
                      Ex(Call(Std("for_each"), <<ListVar(l), Fn(<<P(b + 1, TInt)>>, TVoid, <<Asg("+=", V(b + 3), w)>>)>>)),
                      Ex(Bin("+", V(b + 3), e))>>)
    \* the one-element containers: the value of key 3 after mapping / the sum of what for_each visits
    [] h = "dictmap" ->
         OrDefault(Call(Std("dict.get"), <<Call(Std("dict.map"), <<V(LDict1),
                      Pu(<<P(b + 4, TPair)>>, TPair,
                         <<DefC(b + 1, TInt, Idx(V(b + 4), 0)), Ex(Tup(<<y, Bin("+", Bin("+", Idx(V(b + 4), 1), w), e)>>))>>)>>), I(3)>>), I(0))
    [] h = "maybemap" ->
         OrDefault(Call(Std("maybe.map"), <<Call(Std("list.get"), <<ListVar(l), I(1)>>), mk(TInt, <<Ex(Bin("+", w, e))>>)>>), I(0))
    [] h = "setmap" ->
         IIFE(TInt, <<DefM(b + 3, TInt, I(0)),
                      Ex(Call(Std("set.for_each"), <<Call(Std("set.map"), <<V(LSet1), mk(TInt, <<Ex(Bin("+", w, e))>>)>>),
                                                     Fn(<<P(b + 5, TInt)>>, TVoid, <<Asg("+=", V(b + 3), V(b + 5))>>)>>)),
                      Ex(Bin("+", V(b + 3), e))>>)
    [] h = "setforeach" ->
         IIFE(TInt, <<DefM(b + 3, TInt, I(0)),
                      Ex(Call(Std("set.for_each"), <<V(LSet1), Fn(<<P(b + 1, TInt)>>, TVoid, <<Asg("+=", V(b + 3), w)>>)>>)),
                      Ex(Bin("+", V(b + 3), e))>>)
    [] h = "dictforeach" ->
         IIFE(TInt, <<DefM(b + 3, TInt, I(0)),
                      Ex(Call(Std("dict.for_each"), <<V(LDict1),
                            Fn(<<P(b + 4, TPair)>>, TVoid, <<DefC(b + 1, TInt, Idx(V(b + 4), 0)), Asg("+=", V(b + 3), w)>>)>>)),
                      Ex(Bin("+", V(b + 3), e))>>)

PureAction(h, lf) == PureInner(h) /\ PureLeaf(lf)
PureOuter(o) == o \notin {"for_each", "setforeach", "dictforeach"}

\* a key names a program of the universe
LibValid(o, h, lf, l) ==
  /\ (PureOuter(o) => PureAction(h, lf))
  /\ (h \in {"filter", "map", "fold", "find", "dictmap", "maybemap", "setmap"} => PureLeaf(lf))     \* their callbacks are declared `pu`
  /\ (lf \in {"pop", "dget", "scont"} => l = "ys")        \* these have a container of their own
  /\ ~(h = "direct" /\ lf = "none" /\ l = "xs")

\* what the outer callback computes from its element x: the action and x, in either order
Mixed(a, x, dir) == IF dir = "ax" THEN Bin("+", a, Bin("*", x, I(100))) ELSE Bin("+", Bin("*", x, I(100)), a)
Accept(a, x, dir) == Bin(">", Mixed(a, x, dir), I(250))

LibStmts(o, dir, h, lf, l) ==
  LET x == V(81)
      a == Action(h, lf, l, x, 90)
      pure == PureAction(h, lf)
      cb(ret, body) == IF pure THEN Pu(<<P(81, TInt)>>, ret, body) ELSE Fn(<<P(81, TInt)>>, ret, body) IN
  CASE o = "filter"   -> <<Print(Call(Std("filter"), <<V(LXs), cb(TBool, <<Ex(Accept(a, x, dir))>>)>>))>>
    [] o = "map"      -> <<Print(Call(Std("map"), <<V(LXs), cb(TInt, <<Ex(Mixed(a, x, dir))>>)>>))>>
    [] o = "fold"     -> <<Print(Call(Std("fold"), <<V(LXs), I(0),
                               Pu(<<P(81, TInt), P(82, TInt)>>, TInt, <<Ex(Bin("+", V(82), Mixed(a, x, dir)))>>)>>))>>
    [] o = "find"     -> <<Print(Call(Std("list.find"), <<V(LXs), cb(TBool, <<Ex(Accept(a, x, dir))>>)>>))>>
    [] o = "for_each" -> <<Ex(Call(Std("for_each"), <<V(LXs), Fn(<<P(81, TInt)>>, TVoid, <<Print(Mixed(a, x, dir))>>)>>))>>
    \* sets and dicts: one element (the order in which several would be visited is not specified)
    [] o = "setmap"   -> <<DefC(LOut, TNone, Call(Std("set.map"), <<V(LSet1), cb(TInt, <<Ex(Mixed(a, x, dir))>>)>>)),
                           Ex(Call(Std("set.for_each"), <<V(LOut), Fn(<<P(86, TInt)>>, TVoid, <<Print(V(86))>>)>>))>>
    [] o = "dictmap"  -> <<DefC(LOut, TNone, Call(Std("dict.map"), <<V(LDict1),
                               (IF pure THEN Pu(<<P(85, TPair)>>, TPair, <<DefC(81, TInt, Idx(V(85), 0)), Ex(Tup(<<x, Mixed(a, x, dir)>>))>>)
                                        ELSE Fn(<<P(85, TPair)>>, TPair, <<DefC(81, TInt, Idx(V(85), 0)), Ex(Tup(<<x, Mixed(a, x, dir)>>))>>))>>)),
                           Ex(Call(Std("dict.for_each"), <<V(LOut), Fn(<<P(86, TPair)>>, TVoid, <<Print(V(86))>>)>>))>>
    [] o = "setforeach"  -> <<Ex(Call(Std("set.for_each"), <<V(LSet1), Fn(<<P(81, TInt)>>, TVoid, <<Print(Mixed(a, x, dir))>>)>>))>>
    [] o = "dictforeach" -> <<Ex(Call(Std("dict.for_each"), <<V(LDict1),
                                   Fn(<<P(85, TPair)>>, TVoid, <<DefC(81, TInt, Idx(V(85), 0)), Print(Mixed(a, x, dir))>>)>>))>>
    [] o = "maybemap"    -> <<Print(Call(Std("maybe.map"), <<Call(Std("list.get"), <<V(LXs), I(2)>>), cb(TInt, <<Ex(Mixed(a, x, dir))>>)>>))>>
    [] o = "maybeandthen" -> <<Print(Call(Std("maybe.andThen"), <<Call(Std("list.get"), <<V(LXs), I(2)>>),
                                   cb(TNone, <<Ex(Call(Std("list.get"), <<V(LXs), Bin("-", Mixed(a, x, dir), I(299))>>))>>)>>))>>

LibProg(key) ==
  LET o == key[2]  dir == key[3]  h == key[4]  lf == key[5]  l == key[6] IN
  Prelude \o
  <<StartDef(<<DefC(LXs, TListI, Lst(<<I(1), I(2), I(3), I(4), I(5)>>)),
               DefC(LYs, TListI, Lst(<<I(10), I(20), I(30)>>)),
               DefC(LZs, TListI, Lst(<<I(7), I(8), I(9), I(6)>>)),
               DefC(LD, TNone, Call(Std("dict.from_list"), <<Lst(<<Tup(<<I(1), I(100)>>), Tup(<<I(2), I(200)>>), Tup(<<I(20), I(7)>>)>>)>>)),
               DefC(LS, TNone, Call(Std("set.from_list"), <<Lst(<<I(20), I(40), I(100)>>)>>)),
               DefC(LSet1, TNone, Call(Std("set.from_list"), <<Lst(<<I(3)>>)>>)),
               DefC(LDict1, TNone, Call(Std("dict.from_list"), <<Lst(<<Tup(<<I(3), I(30)>>)>>)>>))>> \o
             LibStmts(o, dir, h, lf, l) \o
             \* the lists as they are afterwards, and the same call once more (a first call must leave nothing behind)
             <<Print(V(LXs)), Print(V(LYs)), Print(V(LZs)), Block(LibStmts(o, dir, h, lf, l))>>)>>

LibIdx == {x \in (1..Len(LibOuters)) \X (1..Len(LibDirs)) \X (1..Len(LibInners)) \X (1..Len(LibLeaves)) \X (1..Len(LibLists)) :
             LibValid(LibOuters[x[1]], LibInners[x[3]], LibLeaves[x[4]], LibLists[x[5]])}
LibKeys(stride) ==
  {<<"lib", LibOuters[x[1]], LibDirs[x[2]], LibInners[x[3]], LibLeaves[x[4]], LibLists[x[5]]>> :
     x \in {y \in LibIdx : (y[1] + y[2] + y[3] + y[4] + y[5]) % stride = 0}}
LibId(key) == [o |-> "lib-" \o key[2] \o "-" \o key[3], pos |-> 0, i |-> key[4] \o "-" \o key[5] \o "-" \o key[6], h |-> "libreent"]
=============================================================================
