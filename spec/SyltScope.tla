------------------------------ MODULE SyltScope ------------------------------
(***************************************************************************)
(* C09 - lexical scoping of Sylt as a scope-stack machine.                 *)
(*                                                                         *)
(* The language rule (not the compiler's code): a program is walked in     *)
(* source order; the walk produces SCOPE EVENTS                            *)
(*   enterfn/exitfn        a function literal: parameters and body locals  *)
(*   enterblock/exitblock  `do .. end`                                     *)
(*   enterbranch/exitbranch  the body of an if / elif / else arm (the      *)
(*                         condition is evaluated OUTSIDE the arm)         *)
(*   enterarm/exitarm      a case arm (its optional binding is declared    *)
(*                         in the arm) or the case's else body             *)
(*   enterloop/exitloop    a loop body (the condition is outside)          *)
(*   declare(b)            a local definition: a NON-function local        *)
(*                         becomes visible AFTER its initialiser, a local  *)
(*                         function BEFORE it (so it can call itself)      *)
(*   use(b)                an identifier that is meant to refer to b       *)
(*   entermethod/exitmethod  a field of a blob literal whose value is a    *)
(*                         function literal (parenthesised or not): the    *)
(*                         literal's implicit binder `self` is declared    *)
(*                         for this field ONLY - not for the data fields   *)
(*                         written before or after it, not for a nested    *)
(*                         blob literal's fields                           *)
(* Jumps (ret / break / continue) are no scope events: the text after an   *)
(* unconditional jump is resolved like any other text of its block.        *)
(* The machine keeps a stack of (name, binder) entries and a stack of      *)
(* frames; every exit pops its frame's entries.  use(name) resolves to the *)
(* innermost stack entry of that name, else to the module global of that   *)
(* name (module globals are visible everywhere, whatever the order of the  *)
(* top-level definitions), else it is UNRESOLVED (0) - the program must be *)
(* rejected.                                                               *)
(*                                                                         *)
(* Binders carry ids (SyltAst); a NAMING maps binder ids to names.  Names  *)
(* are abstract values: only their equality matters (integers here, the    *)
(* strings of PoolName / ColourName in the program text).  A naming is     *)
(* LEGAL iff no two binders of one frame (or two module globals) share a   *)
(* name and every use resolves to its intended binder.  The property says: *)
(* all legal namings of a program compile to the same bytes, and a use     *)
(* placed where its binder is not visible is rejected.                     *)
(*                                                                         *)
(* Modules: a program may consist of several files.  Every file has its    *)
(* own module globals; std names (module 0) are visible in every file;     *)
(* `m.x` (quse) looks x up among the globals of module m only.  The        *)
(* program's entry is an implicit use of `start` at the top level of the   *)
(* main module.  Type, std and namespace names are binders with a fixed    *)
(* name, so that a naming may give a variable a name WITH A ROLE (`start`, *)
(* `print`, `list`, `E`): it is legal iff nothing that needs the role is   *)
(* hidden by it.                                                           *)
(***************************************************************************)
EXTENDS SyltAst, FiniteSets, TLC

MaxOfSet(S) == CHOOSE m \in S : \A x \in S : x <= m
MinOf2(a, b) == IF a <= b THEN a ELSE b

(* ------------------------------------------------------------------ events *)
Ev(k, fk, b, bk, s) == [k |-> k, fk |-> fk, b |-> b, bk |-> bk, s |-> s]
Enter(k, fk) == Ev(k, fk, 0, "-", 0)
Exit(k, fk) == Ev(k, fk, 0, "-", 0)
DeclareEv(b, bk) == Ev("declare", "-", b, bk, 0)
UseEv(b) == Ev("use", "-", b, "-", 0)
FldUseEv(b) == Ev("use", "fldbase", b, "-", 0)       \* the use is the base of a field access `b.f` (same scope rule)
PlantedUseEv(b) == Ev("use", "-", b, "-", 1)       \* s = 1 marks the planted use of an out-of-scope variant
SlotEv(s) == Ev("slot", "-", 0, "-", s)
QUseEv(b) == Ev("quse", "-", b, "-", 0)            \* `m.x`: x among the globals of b's module
ModuleEv(m) == Ev("module", "-", m, "-", 0)        \* what follows is top-level text of module m
TopEv(b) == Ev("top", "-", b, "-", 0)              \* what follows is the initialiser of global b

EnterKinds == {"enterfn", "enterblock", "enterbranch", "enterarm", "enterloop", "entermethod"}
ExitKinds == {"exitfn", "exitblock", "exitbranch", "exitarm", "exitloop", "exitmethod"}
EventKinds == EnterKinds \cup ExitKinds \cup {"declare", "use", "quse", "slot", "module", "top"}
FrameKinds == {"fn", "block", "if-branch", "elif-branch", "else-branch", "case-arm", "case-else", "loop", "method"}

(* ------------------------------------------------ binders with a fixed name *)
SStart == 1000
StdPrint == 2001
StdList == 2002
StdOther == 2003
IsPrefix(p, t) == Len(t) >= Len(p) /\ SubSeq(t, 1, Len(p)) = p
StdId(name) == IF name = "print" THEN StdPrint ELSE IF IsPrefix("list.", name) THEN StdList ELSE StdOther
TypeId(name) == CASE name = "E" -> 3001 [] name = "B" -> 3002 [] name = "M" -> 3003 [] name = "P" -> 3004
                  [] name = "Q" -> 3005 [] name = "QA" -> 3006 [] name = "QB" -> 3007 [] name = "QC" -> 3008
                  [] name = "QD" -> 3010 [] OTHER -> 3009
NsId(name) == 4002
StdMap == (StdPrint :> 0) @@ (StdList :> 0) @@ (StdOther :> 0)
\* the implicit binder `self` of a blob literal: ids 41..49 (node field `sb`); all of them carry the one reserved name
\* `self`, which no other binder can take.  A `self` node that names its intended binder (field `b`) is a use.
SelfIds == 41..49
IsSelfId(b) == b \in SelfIds
NSelf == 0 - 40
Unparen(e) == IF e.k = "paren" THEN e.e ELSE e          \* (skeletons nest parentheses at most once)
IsFnLit(e) == Unparen(e).k = "fn"

(* ------------------------------------------------- the walk: AST -> events *)
RECURSIVE LinTy(_)
RECURSIVE LinTys(_, _)
LinTys(ts, i) == IF i > Len(ts) THEN <<>> ELSE LinTy(ts[i]) \o LinTys(ts, i + 1)
\* a written type mentions type names
LinTy(t) ==
    CASE t.k = "tname" -> <<UseEv(TypeId(t.n))>>
      [] t.k = "ttuple" -> LinTys(t.es, 1)
      [] t.k = "tlist" -> LinTy(t.e)
      [] t.k = "tfn" -> LinTys(t.ps, 1) \o LinTy(t.r)
      [] OTHER -> <<>>

RECURSIVE LinE(_)
RECURSIVE LinS(_)
RECURSIVE LinSeqE(_, _)
RECURSIVE LinSeqS(_, _)
RECURSIVE LinArms(_, _)
RECURSIVE LinCArms(_, _)
RECURSIVE LinParams(_, _)
RECURSIVE LinFields(_, _)

LinSeqE(es, i) == IF i > Len(es) THEN <<>> ELSE LinE(es[i]) \o LinSeqE(es, i + 1)
LinSeqS(ss, i) == IF i > Len(ss) THEN <<>> ELSE LinS(ss[i]) \o LinSeqS(ss, i + 1)
LinParams(ps, i) == IF i > Len(ps) THEN <<>> ELSE <<DeclareEv(ps[i].b, "param")>> \o LinTy(ps[i].ty) \o LinParams(ps, i + 1)
LinFields(fs, i) == IF i > Len(fs) THEN <<>> ELSE LinE(fs[i].e) \o LinFields(fs, i + 1)
\* the fields of a blob literal with an implicit `self` (binder sb), in the order they are written: `self` is declared
\* around every field that is a function literal, and around nothing else
RECURSIVE LinSelfFields(_, _, _)
LinSelfFields(fs, i, sb) ==
    IF i > Len(fs) THEN <<>>
    ELSE (IF IsFnLit(fs[i].e)
          THEN <<Ev("entermethod", "method", sb, "self", 0)>> \o LinE(fs[i].e) \o <<Exit("exitmethod", "method")>>
          ELSE LinE(fs[i].e))
         \o LinSelfFields(fs, i + 1, sb)

\* if / elif / else: the condition belongs to the enclosing scope, the body is a scope of its own
LinArms(arms, i) ==
    IF i > Len(arms) THEN <<>>
    ELSE LET a == arms[i]
             fk == IF a.els THEN "else-branch" ELSE IF i = 1 THEN "if-branch" ELSE "elif-branch"
         IN (IF a.els THEN <<>> ELSE LinE(a.c))
            \o <<Enter("enterbranch", fk)>> \o LinSeqS(a.body, 1) \o <<Exit("exitbranch", fk)>>
            \o LinArms(arms, i + 1)

\* case arms: the binding (if any) is declared on entering the arm
LinCArms(arms, i) ==
    IF i > Len(arms) THEN <<>>
    ELSE <<Ev("enterarm", "case-arm", IF arms[i].bind THEN arms[i].b ELSE 0, "casebind", 0)>>
         \o LinSeqS(arms[i].body, 1) \o <<Exit("exitarm", "case-arm")>> \o LinCArms(arms, i + 1)

LinE(e) ==
    CASE e.k \in {"int", "float", "str", "bool", "nil"} -> <<>>
      [] e.k = "self" -> IF "b" \in DOMAIN e
                         THEN (IF "planted" \in DOMAIN e THEN <<PlantedUseEv(e.b)>> ELSE <<UseEv(e.b)>>)
                         ELSE <<>>                     \* (programs of other universes: `self` without a binder id)
      [] e.k = "paren" -> LinE(e.e)
      [] e.k = "std" -> <<UseEv(StdId(e.name))>>
      [] e.k = "qvar" -> <<UseEv(NsId(e.ns)), QUseEv(e.b)>>
      [] e.k = "var" -> IF "planted" \in DOMAIN e THEN <<PlantedUseEv(e.b)>> ELSE <<UseEv(e.b)>>
      [] e.k = "eslot" -> <<SlotEv(e.id)>>
      [] e.k = "bin" -> LinE(e.l) \o LinE(e.r)
      [] e.k = "un" -> LinE(e.a)
      [] e.k = "if" -> LinArms(e.arms, 1)
      [] e.k = "case" -> LinE(e.e) \o LinCArms(e.arms, 1)
                         \o (IF e.hasels
                             THEN <<Ev("enterarm", "case-else", 0, "-", 0)>> \o LinSeqS(e.els, 1) \o <<Exit("exitarm", "case-else")>>
                             ELSE <<>>)
      [] e.k = "fn" -> <<Ev("enterfn", "fn", 0, IF e.ret.k = "tvoid" THEN "void" ELSE IF e.ret.k = "tint" THEN "value" ELSE "other", 0)>>
                       \o LinParams(e.params, 1) \o LinTy(e.ret) \o LinSeqS(e.body, 1) \o <<Exit("exitfn", "fn")>>
      [] e.k = "call" -> LinE(e.f) \o LinSeqE(e.args, 1)
      [] e.k \in {"tuple", "list"} -> LinSeqE(e.es, 1)
      [] e.k = "blob" -> <<UseEv(TypeId(e.name))>>
                         \o (IF "sb" \in DOMAIN e THEN LinSelfFields(e.fields, 1, e.sb) ELSE LinFields(e.fields, 1))
      [] e.k = "fld" -> IF e.e.k = "var" /\ "planted" \notin DOMAIN e.e THEN <<FldUseEv(e.e.b)>> ELSE LinE(e.e)
      [] e.k = "idx" -> LinE(e.e)
      [] e.k = "variant" -> <<UseEv(TypeId(e.enum))>> \o (IF e.has THEN LinE(e.e) ELSE <<>>)

\* the ways a local function can be declared: `f :: fn`, `f := fn`, `f: T : fn`, `f: T = fn`, `f := (fn)`;
\* the binder kind records it (for signatures), the scope rule is the same for all
DeclKind(st) == (IF st.e.k = "paren" THEN "paren-" ELSE "") \o (IF st.ty.k = "tnone" THEN "" ELSE "t") \o st.kind
FnLocalKind(st) == IF DeclKind(st) = "const" THEN "fnlocal" ELSE "fnlocal-" \o DeclKind(st)
LinS(st) ==
    CASE st.k = "def" -> IF IsFnLit(st.e)                                   \* whatever the declaration kind
                         THEN <<DeclareEv(st.b, FnLocalKind(st))>> \o LinE(st.e) \o LinTy(st.ty)   \* visible in its own body
                         ELSE LinE(st.e) \o <<DeclareEv(st.b, "local")>> \o LinTy(st.ty)   \* visible after the initialiser
                         \* (the written type is walked last: a variable that takes its own type's name is not legal)
      [] st.k = "asg" -> LinE(st.e) \o (IF st.t.k = "var" THEN LinE(st.t) ELSE LinE(st.t.e))
      [] st.k = "loop" -> LinE(st.c) \o <<Enter("enterloop", "loop")>> \o LinSeqS(st.body, 1) \o <<Exit("exitloop", "loop")>>
      [] st.k = "ret" -> IF st.has THEN LinE(st.e) ELSE <<>>
      [] st.k = "block" -> <<Enter("enterblock", "block")>> \o LinSeqS(st.body, 1) \o <<Exit("exitblock", "block")>>
      [] st.k = "expr" -> LinE(st.e)
      [] st.k = "slot" -> <<SlotEv(st.id)>>
      [] st.k \in {"break", "continue", "unreach", "enum", "blobdecl", "raw"} -> <<>>

\* top level: every definition is a global of the module it is written in (a "module" node switches to the next
\* file); its initialiser is walked with an empty stack.  The program ends with the implicit call of the main
\* module's `start`.
RECURSIVE LinTopsFrom(_, _)
LinTopsFrom(tops, i) ==
    IF i > Len(tops) THEN <<>>
    ELSE (IF tops[i].k = "def" THEN <<TopEv(tops[i].b)>> \o LinE(tops[i].e) \o LinTy(tops[i].ty)
          ELSE IF tops[i].k = "module" THEN <<ModuleEv(tops[i].m)>>
          ELSE <<>>) \o LinTopsFrom(tops, i + 1)
HasStart(tops) == \E i \in 1..Len(tops) : tops[i].k = "def" /\ tops[i].b = SStart
LinTops(tops) == LinTopsFrom(tops, 1) \o (IF HasStart(tops) THEN <<ModuleEv(1), TopEv(0), UseEv(SStart)>> ELSE <<>>)

\* the module globals: binder -> module (0 = std, visible everywhere; 1 = main file; 2.. = further files)
RECURSIVE GMapFrom(_, _, _)
GMapFrom(tops, i, m) ==
    IF i > Len(tops) THEN StdMap
    ELSE IF tops[i].k = "module" THEN GMapFrom(tops, i + 1, tops[i].m)
    ELSE IF tops[i].k = "def" THEN (tops[i].b :> m) @@ GMapFrom(tops, i + 1, m)
    ELSE IF tops[i].k \in {"enum", "blobdecl"} THEN (TypeId(tops[i].name) :> m) @@ GMapFrom(tops, i + 1, m)
    ELSE IF tops[i].k = "use" THEN (NsId(tops[i].name) :> m) @@ GMapFrom(tops, i + 1, m)
    ELSE GMapFrom(tops, i + 1, m)
Globals(tops) == GMapFrom(tops, 1, 1)
DefIdx(tops) == {i \in 1..Len(tops) : tops[i].k = "def"}
GlobalKind(tops, g) ==
    IF \E j \in DefIdx(tops) : tops[j].b = g
    THEN (IF tops[CHOOSE j \in DefIdx(tops) : tops[j].b = g].e.k = "fn" THEN "globalfn" ELSE "global")
    ELSE "fixed"
SameScope(G, g, h) == G[g] = G[h] \/ G[g] = 0 \/ G[h] = 0
VisibleIn(G, g, m) == G[g] = m \/ G[g] = 0

(* ------------------------------------------------------- the scope machine *)
\* nm: function binder id -> name; binders outside its domain keep a fixed private name
NameOf(nm, b) == IF b \in DOMAIN nm THEN nm[b] ELSE IF IsSelfId(b) THEN NSelf ELSE 0 - b

EmptySt == [stack |-> <<>>, frames |-> <<>>, res |-> <<>>, dup |-> FALSE, mod |-> 1]
InitSt(G, nm) == [EmptySt EXCEPT !.dup = \E g \in DOMAIN G : \E h \in DOMAIN G :
                                           g # h /\ SameScope(G, g, h) /\ NameOf(nm, g) = NameOf(nm, h)]

TopFrame(st) == st.frames[Len(st.frames)]
FrameBase(st) == IF Len(st.frames) = 0 THEN 0 ELSE TopFrame(st).base
Push(st, fk, id) == [st EXCEPT !.frames = Append(@, [fk |-> fk, base |-> Len(st.stack), id |-> id])]
CanPop(st, fk) == Len(st.frames) > 0 /\ TopFrame(st).fk = fk
Pop(st) == [st EXCEPT !.stack = SubSeq(@, 1, TopFrame(st).base), !.frames = SubSeq(@, 1, Len(@) - 1)]

DeclareB(st, b, nm) ==
    LET n == NameOf(nm, b) IN
    [st EXCEPT !.dup = @ \/ \E i \in (FrameBase(st) + 1)..Len(st.stack) : st.stack[i].n = n,
               !.stack = Append(@, [n |-> n, b |-> b])]

Innermost(stack, n) ==
    LET hits == {i \in 1..Len(stack) : stack[i].n = n} IN IF hits = {} THEN 0 ELSE stack[MaxOfSet(hits)].b
Lookup(st, n, G, nm) ==
    LET l == Innermost(st.stack, n) IN
    IF l # 0 THEN l
    ELSE LET M == {g \in DOMAIN G : VisibleIn(G, g, st.mod) /\ NameOf(nm, g) = n} IN IF M = {} THEN 0 ELSE CHOOSE g \in M : TRUE
UseB(st, b, planted, G, nm) ==
    [st EXCEPT !.res = Append(@, [u |-> b, r |-> Lookup(st, NameOf(nm, b), G, nm), p |-> planted])]
\* `m.x`: only the globals of module m (the module of the intended binder) are candidates
QUseB(st, b, G, nm) ==
    LET M == {g \in DOMAIN G : G[g] = G[b] /\ NameOf(nm, g) = NameOf(nm, b)} IN
    [st EXCEPT !.res = Append(@, [u |-> b, r |-> IF M = {} THEN 0 ELSE CHOOSE g \in M : TRUE, p |-> 0])]

EnterArmB(st, ev, nm, id) == IF ev.b = 0 THEN Push(st, ev.fk, id) ELSE DeclareB(Push(st, ev.fk, id), ev.b, nm)

Step(st, ev, G, nm, idx) ==
    CASE ev.k = "enterfn" -> Push(st, "fn", idx)
      [] ev.k = "enterblock" -> Push(st, "block", idx)
      [] ev.k = "enterbranch" -> Push(st, ev.fk, idx)
      [] ev.k = "enterarm" -> EnterArmB(st, ev, nm, idx)
      [] ev.k = "entermethod" -> EnterArmB(st, ev, nm, idx)          \* a frame that declares the literal's `self`
      [] ev.k = "enterloop" -> Push(st, "loop", idx)
      [] ev.k \in ExitKinds -> Pop(st)
      [] ev.k = "declare" -> DeclareB(st, ev.b, nm)
      [] ev.k = "use" -> UseB(st, ev.b, ev.s, G, nm)
      [] ev.k = "quse" -> QUseB(st, ev.b, G, nm)
      [] ev.k = "module" -> [st EXCEPT !.mod = ev.b]
      [] ev.k \in {"slot", "top"} -> st

RECURSIVE RunFrom(_, _, _, _, _)
RunFrom(evs, i, st, G, nm) == IF i > Len(evs) THEN st ELSE RunFrom(evs, i + 1, Step(st, evs[i], G, nm, i), G, nm)
Run(evs, G, nm) == RunFrom(evs, 1, InitSt(G, nm), G, nm)

\* Resolve(prog, naming): for every use, in source order, the binder it is meant for (u) and the one it resolves to (r)
Resolve(evs, G, nm) == Run(evs, G, nm).res
LegalRun(r) == ~r.dup /\ \A i \in 1..Len(r.res) : r.res[i].r = r.res[i].u
Legal(evs, G, nm) == LegalRun(Run(evs, G, nm))

\* the events are well nested: every exit closes a frame of its own kind, nothing stays open
RECURSIVE NestedFrom(_, _, _)
NestedFrom(evs, i, open) ==
    IF i > Len(evs) THEN open = <<>>
    ELSE IF evs[i].k \in EnterKinds THEN NestedFrom(evs, i + 1, Append(open, evs[i].fk))
    ELSE IF evs[i].k \in ExitKinds
         THEN Len(open) > 0 /\ open[Len(open)] = evs[i].fk /\ NestedFrom(evs, i + 1, SubSeq(open, 1, Len(open) - 1))
    ELSE NestedFrom(evs, i + 1, open)
WellNested(evs) == NestedFrom(evs, 1, <<>>)

(* --------------------------------- name-free structure of a program (Scan) *)
\* Which binders are visible where, independent of any naming: the frames a binder is declared in (home),
\* the binders visible at every slot, and the CONFLICTS: pairs of binders that must not share a name
\* (same frame / both global, or one is used while the other would hide it).
ScanInit(G, gk) ==
    [stack |-> <<>>, frames |-> <<>>, home |-> [g \in DOMAIN G |-> <<>>], declAt |-> [g \in DOMAIN G |-> 0], bk |-> gk,
     fkOf |-> <<>>, rtOf |-> <<>>, exitAt |-> <<>>, slots |-> <<>>, order |-> <<>>, mod |-> 1, top |-> 0,
     conf |-> {p \in (DOMAIN G) \X (DOMAIN G) : p[1] < p[2] /\ SameScope(G, p[1], p[2])}]

STop(sc) == sc.frames[Len(sc.frames)]
SBase(sc) == IF Len(sc.frames) = 0 THEN 0 ELSE STop(sc).base
FrameIds(sc) == [i \in 1..Len(sc.frames) |-> sc.frames[i].id]
OnStack(sc) == {sc.stack[i] : i \in 1..Len(sc.stack)}

SPush(sc, fk, rt, id) == [sc EXCEPT !.frames = Append(@, [fk |-> fk, base |-> Len(sc.stack), id |-> id]),
                                    !.fkOf = @ @@ (id :> fk), !.rtOf = @ @@ (id :> rt)]
SPop(sc, idx) == [sc EXCEPT !.stack = SubSeq(@, 1, STop(sc).base), !.frames = SubSeq(@, 1, Len(@) - 1),
                            !.exitAt = @ @@ (STop(sc).id :> idx)]
SDeclare(sc, b, bk, idx) ==
    \* (a literal's `self` is declared once per method field: its home is the first of these frames; it is no
    \*  renamable binder, so it is left out of the declaration order)
    [sc EXCEPT !.conf = @ \cup {<<sc.stack[i], b>> : i \in (SBase(sc) + 1)..Len(sc.stack)},
               !.stack = Append(@, b), !.home = @ @@ (b :> FrameIds(sc)), !.declAt = @ @@ (b :> idx),
               !.bk = @ @@ (b :> bk), !.order = IF IsSelfId(b) THEN @ ELSE Append(@, b)]
SUse(sc, c, G) ==
    LET hits == {i \in 1..Len(sc.stack) : sc.stack[i] = c} IN
    IF hits = {} /\ ~(c \in DOMAIN G /\ VisibleIn(G, c, sc.mod)) THEN sc    \* a use outside its binder's scope constrains nothing
    ELSE LET pos == IF hits = {} THEN 0 ELSE MaxOfSet(hits)
         IN [sc EXCEPT !.conf = @ \cup {<<c, sc.stack[j]>> : j \in (pos + 1)..Len(sc.stack)}]
\* the return kind of the innermost function around the current point ("none" at module level)
FnRt(sc) == LET F == {i \in 1..Len(sc.frames) : sc.frames[i].fk = "fn"} IN
            IF F = {} THEN "none" ELSE sc.rtOf[sc.frames[MaxOfSet(F)].id]
\* is the current point inside a loop body of the innermost function (break / continue can be written there)
InLoop(sc) == LET F == {i \in 1..Len(sc.frames) : sc.frames[i].fk = "fn"}
                  f0 == IF F = {} THEN 0 ELSE MaxOfSet(F)
              IN \E i \in (f0 + 1)..Len(sc.frames) : sc.frames[i].fk = "loop"
\* the innermost `self` visible at the current point (0: none)
SelfIn(sc) == LET S == {i \in 1..Len(sc.stack) : IsSelfId(sc.stack[i])} IN IF S = {} THEN 0 ELSE sc.stack[MaxOfSet(S)]
SSlot(sc, s, idx) == [sc EXCEPT !.slots = @ @@ (s :> [path |-> FrameIds(sc), idx |-> idx, vis |-> OnStack(sc),
                                                       mod |-> sc.mod, top |-> sc.top, fnrt |-> FnRt(sc),
                                                       inloop |-> InLoop(sc), selfin |-> SelfIn(sc)])]

ScanStep(sc, ev, G, idx) ==
    CASE ev.k \in {"enterfn", "enterblock", "enterbranch", "enterloop"} -> SPush(sc, ev.fk, ev.bk, idx)
      [] ev.k \in {"enterarm", "entermethod"} ->
            IF ev.b = 0 THEN SPush(sc, ev.fk, "-", idx) ELSE SDeclare(SPush(sc, ev.fk, "-", idx), ev.b, ev.bk, idx)
      [] ev.k \in ExitKinds -> SPop(sc, idx)
      [] ev.k = "declare" -> SDeclare(sc, ev.b, ev.bk, idx)
      [] ev.k = "use" -> SUse(sc, ev.b, G)
      [] ev.k = "slot" -> SSlot(sc, ev.s, idx)
      [] ev.k = "quse" -> sc                      \* the member of a named module cannot be hidden by a local
      [] ev.k = "module" -> [sc EXCEPT !.mod = ev.b]
      [] ev.k = "top" -> [sc EXCEPT !.top = ev.b]

RECURSIVE ScanFrom(_, _, _, _)
ScanFrom(evs, i, sc, G) == IF i > Len(evs) THEN sc ELSE ScanFrom(evs, i + 1, ScanStep(sc, evs[i], G, i), G)
Scan(evs, G, gk) == ScanFrom(evs, 1, ScanInit(G, gk), G)
ScanTops(tops) == LET G == Globals(tops) IN Scan(LinTops(tops), G, [g \in DOMAIN G |-> GlobalKind(tops, g)])

ProperColouring(conf, nm) == \A p \in conf : NameOf(nm, p[1]) # NameOf(nm, p[2])

\* where a binder is visible
\* (all `self` binders share one name: a literal's `self` is what the word means only where it is the innermost one)
InScope(sc, G, b, s) == IF IsSelfId(b) THEN sc.slots[s].selfin = b
                        ELSE (b \in DOMAIN G /\ VisibleIn(G, b, sc.slots[s].mod)) \/ b \in sc.slots[s].vis
\* what the word written for binder b at slot s refers to when b is not in scope there: nothing (0), or - for `self` -
\* the instance of another blob literal
OtherReferent(sc, b, s) == IF IsSelfId(b) THEN sc.slots[s].selfin ELSE 0
CommonLen(h, p) == MaxOfSet({i \in 0..MinOf2(Len(h), Len(p)) : \A j \in 1..i : h[j] = p[j]})
\* position class of a slot where b is NOT visible: inside b's own frame it can only be before the declaration;
\* otherwise the outermost frame of b's home that does not enclose the slot separates them
PosClass(sc, b, s) ==
    LET h == sc.home[b]
        sl == sc.slots[s]
        c == CommonLen(h, sl.path)
    IN IF sc.bk[b] \in {"global", "globalfn"} THEN "other-module"
       ELSE IF OtherReferent(sc, b, s) # 0 THEN "other-instance"
       ELSE IF c = Len(h) THEN "before-decl"
       ELSE (IF sl.idx < h[c + 1] THEN "before-" ELSE "after-") \o sc.fkOf[h[c + 1]]
OwnFrame(sc, b) == IF Len(sc.home[b]) = 0 THEN "module" ELSE sc.fkOf[sc.home[b][Len(sc.home[b])]]
\* declared in a scope that sits directly in a global's initialiser (no function around it)
InGlobalInit(sc, b) == Len(sc.home[b]) > 0 /\ \A j \in 1..Len(sc.home[b]) : sc.fkOf[sc.home[b][j]] # "fn"
\* b is declared while a is visible (b can shadow a) / the two never coexist
Nests(sc, a, b) == LET ha == sc.home[a] hb == sc.home[b] IN
    /\ Len(ha) <= Len(hb) /\ SubSeq(hb, 1, Len(ha)) = ha /\ (Len(ha) = 0 \/ sc.declAt[a] <= sc.declAt[b])
PairDescr(sc, a, b) ==
    LET x == IF sc.declAt[a] <= sc.declAt[b] THEN a ELSE b      \* the one declared first is written first
        y == IF x = a THEN b ELSE a
    IN (IF Nests(sc, x, y) THEN "nested" ELSE "disjoint") \o "|"
       \o OwnFrame(sc, x) \o ":" \o sc.bk[x] \o "~" \o OwnFrame(sc, y) \o ":" \o sc.bk[y]

(* ----------------------------------------------------------------- namings *)
NumNames(nm) == Cardinality({nm[i] : i \in DOMAIN nm})
AllDistinct(n) == [i \in 1..n |-> i]
PairMerge(n, i, j) == [x \in 1..n |-> IF x = j THEN i ELSE x]          \* binder j takes binder i's name
PairMerges(n) == {PairMerge(n, p[1], p[2]) : p \in {q \in (1..n) \X (1..n) : q[1] < q[2]}}
MergedPair(nm) == CHOOSE p \in (DOMAIN nm) \X (DOMAIN nm) : p[1] < p[2] /\ nm[p[1]] = nm[p[2]]

\* namings up to a permutation of the names (restricted growth strings)
MaxOfSeq(s) == IF Len(s) = 0 THEN 0 ELSE MaxOfSet({s[i] : i \in 1..Len(s)})
RECURSIVE RGS(_)
RGS(n) == IF n = 0 THEN {<<>>} ELSE UNION {{Append(s, j) : j \in 1..(MaxOfSeq(s) + 1)} : s \in RGS(n - 1)}

\* a legal naming with the fewest distinct names
MaxShadow(evs, G, n) ==
    LET L == {nm \in RGS(n) : Legal(evs, G, nm)} IN CHOOSE nm \in L : \A m \in L : NumNames(nm) <= NumNames(m)

\* a (not necessarily minimal) heavily shadowing naming of a big program: greedy colouring of the conflict
\* relation in declaration order; its legality is checked with the machine wherever it is used
RECURSIVE ColourFrom(_, _, _, _)
ColourFrom(order, i, conf, col) ==
    IF i > Len(order) THEN col
    ELSE LET b == order[i]
             used == {col[d] : d \in {d \in DOMAIN col : <<b, d>> \in conf \/ <<d, b>> \in conf}}
             c == CHOOSE x \in 1..(Cardinality(used) + 1) : x \notin used /\ \A y \in 1..(x - 1) : y \in used
         IN ColourFrom(order, i + 1, conf, col @@ (b :> c))
Greedy(order, conf) == ColourFrom(order, 1, conf, <<>>)

PoolName == <<"ka", "kb", "kc", "kd", "ke", "kf", "kg">>
Letters == <<"a", "b", "c", "d", "e", "f", "g", "h", "i", "j", "k", "l", "m",
             "n", "o", "p", "q", "r", "s", "t", "u", "v", "w", "x", "y", "z">>
ColourName(c) == "k" \o Letters[((c - 1) \div 26) + 1] \o Letters[((c - 1) % 26) + 1]

\* names with a role: the entry point, a std function, a std module, a member of a std module (no binder of its own),
\* a type of the program.  As a naming value a role name is the fixed name of its binder (NameOf: 0 - id).
NLen == 0 - 2999
SpecialNames == {0 - SStart, 0 - StdPrint, 0 - StdList, NLen, 0 - TypeId("E")}
NameStr(n) == IF n > 0 THEN PoolName[n]
              ELSE CASE n = 0 - SStart -> "start" [] n = 0 - StdPrint -> "print" [] n = 0 - StdList -> "list"
                     [] n = NLen -> "len" [] n = 0 - TypeId("E") -> "E"
\* all distinct except that binder j carries a role name
SpecialNaming(n, j, r) == [x \in 1..n |-> IF x = j THEN r ELSE x]
SpecialNamings(n) == {SpecialNaming(n, j, r) : j \in 1..n, r \in SpecialNames}
IsSpecial(nm) == \E j \in DOMAIN nm : nm[j] < 0
SpecialAt(nm) == CHOOSE j \in DOMAIN nm : nm[j] < 0

(* --------------------------------------------------------------- skeletons *)
(* Small programs over the binder kinds of the property: parameters, block-, branch- and loop-locals, case  *)
(* bindings, nested functions, module globals, recursion; scopes inside global initialisers that are not     *)
(* function literals; a two-file program.  Renamable binders have ids 1..NB(i).  A skeleton is a function of *)
(* a FILLER f: f[s] for s <= 20 is a sequence of statements spliced in at statement slot s, f[s] for s > 20  *)
(* an int expression at expression slot s.  EmptyFill gives the base program, MarkFill marks the slots (to   *)
(* ask the machine what is visible there), PlantFill(s, b, form) plants one use of b at slot s in the        *)
(* syntactic position `form`.                                                                                *)
TE == TName("E")
EnumE == EnumD("E", <<VD1("X", TInt), VD0("Y")>>)
BlobP == BlobD("P", <<FD("x", TInt)>>)
BlobQ == BlobD("Q", <<FD("n", TInt), FD("get", TFn(<<>>, TInt))>>)
StartD(body) == DefN(SStart, "const", TNone, Fn(<<>>, TVoid, body), "start")
GDef(b, kind, ty, e) == DefN(b, kind, ty, e, "")
UseTop(name) == [k |-> "use", name |-> name]
ModuleTop(m, name) == [k |-> "module", m |-> m, name |-> name]
QV(ns, b) == [k |-> "qvar", ns |-> ns, b |-> b]
\* a blob literal whose implicit `self` is binder sb
BlobS(name, sb, fields) == [k |-> "blob", name |-> name, sb |-> sb, fields |-> fields]
FnIntInt == TFn(<<TInt>>, TInt)
TypedDef(b, kind, ty, e) == [k |-> "def", b |-> b, kind |-> kind, ty |-> ty, e |-> e, n |-> "", tyfn |-> TRUE]
\* a local function under each way of declaring it (dk: DeclKind of the resulting node)
LocalFnDef(dk, b, fn) ==
    CASE dk = "const" -> DefC(b, TNone, fn)
      [] dk = "mut" -> DefM(b, TNone, fn)
      [] dk = "tconst" -> TypedDef(b, "const", FnIntInt, fn)
      [] dk = "tmut" -> TypedDef(b, "mut", FnIntInt, fn)
      [] dk = "paren-mut" -> DefM(b, TNone, Paren(fn))

SlotIds == 1..40
IsStmtSlot(s) == s <= 20
EmptyFill == [s \in SlotIds |-> IF IsStmtSlot(s) THEN <<>> ELSE I(0)]
MarkFill == [s \in SlotIds |-> IF IsStmtSlot(s) THEN <<[k |-> "slot", id |-> s]>> ELSE [k |-> "eslot", id |-> s]]
\* the text written for binder b: its name, or - for the `self` of a blob literal - `self.<f>` with the int field f
\* that only this literal's blob type has (so that the types tell the instances apart)
SelfB(b) == [k |-> "self", b |-> b]
SelfFld(b) == <<"sa", "sb", "sc", "sd">>[b - 40]
PlantedV(b) == IF IsSelfId(b) THEN Fld([k |-> "self", b |-> b, planted |-> TRUE], SelfFld(b))
               ELSE [k |-> "var", b |-> b, planted |-> TRUE]

\* the syntactic positions a use can be written at (statement slots); "expr" is the expression slot itself
StmtForms == {"arg", "ret-call", "ret-val", "cond", "loop-cond", "callee", "operand", "neg", "assert-eq", "tuple-elem",
              "list-elem", "blob-field", "index-base", "field-base", "asg-target", "asg-value", "scrutinee"}
\* DEAD CODE: the use stands behind an unconditional jump of its block.  Direct forms put the jump at the slot itself
\* (`ret` in a void function, `ret 0` in an int function, break / continue inside a loop); the wrapped forms bring
\* their own function / loop, so that every kind of block is met behind every kind of jump at every slot
DeadDirect == {"dead-ret", "dead-retv", "dead-break", "dead-continue"}
DeadWrapped == {"dead-fn-ret", "dead-block-break", "dead-if-break", "dead-else-continue", "dead-loop-continue"}
DeadWrappedE == {"dead-caseelse-break", "dead-arm-continue"}          \* (need the enum E)
DeadForms == DeadDirect \cup DeadWrapped \cup DeadWrappedE
Never == Bin("<", I(1), I(0))
TmpA == 90
TmpB == 91
FormStmts(form, b) ==
    LET v == PlantedV(b) IN
    CASE form = "arg" -> <<Print(v)>>
      [] form = "ret-call" -> <<Ret(Call(Std("print"), <<v>>))>>                      \* `ret f(v)` handing over a void call
      [] form = "ret-val" -> <<Ret(v)>>
      [] form = "cond" -> <<Ex(If1(Bin("<", v, I(1)), <<Print(I(0))>>))>>
      [] form = "loop-cond" -> <<Loop(Bin("<", v, I(0)), <<Break>>)>>
      [] form = "callee" -> <<Ex(Call(v, <<>>)), Print(I(0))>>
      [] form = "operand" -> <<Print(Bin("+", I(1), v))>>
      [] form = "neg" -> <<Print(Un("-", v))>>
      [] form = "assert-eq" -> <<Ex(Bin("<=>", v, I(1))), Print(I(0))>>
      [] form = "tuple-elem" -> <<Print(Idx(Tup(<<v, I(1)>>), 0))>>
      [] form = "list-elem" -> <<Print(Lst(<<I(1), v>>))>>
      [] form = "blob-field" -> <<Print(Fld(BlobL("P", <<FI("x", v)>>), "x"))>>
      [] form = "index-base" -> <<Print(Idx(v, 0))>>
      [] form = "field-base" -> <<Print(Fld(v, "x"))>>
      [] form = "asg-target" -> <<Asg("=", v, I(1))>>
      [] form = "asg-value" -> <<DefM(TmpA, TInt, I(0)), Asg("=", V(TmpA), v)>>
      [] form = "scrutinee" -> <<Ex(CaseE(v, <<CArmB("X", TmpB, <<Print(V(TmpB))>>)>>, <<Print(I(0))>>))>>
      [] form = "dead-ret" -> <<Ret0, Print(v)>>
      [] form = "dead-retv" -> <<Ret(I(0)), Print(v)>>
      [] form = "dead-break" -> <<Break, Print(v)>>
      [] form = "dead-continue" -> <<Cont, Print(v)>>
      [] form = "dead-fn-ret" -> <<DefC(TmpA, TNone, Fn(<<>>, TVoid, <<Ret0, Print(v)>>))>>
      [] form = "dead-block-break" -> <<Loop(Bo(TRUE), <<Block(<<Break, Print(v)>>), Break>>)>>
      [] form = "dead-if-break" -> <<Loop(Bo(TRUE), <<Ex(If1(Never, <<Break, Print(v)>>)), Break>>)>>
      [] form = "dead-else-continue" -> <<Loop(Never, <<Ex(If2(Never, <<Print(I(0))>>, <<Cont, Print(v)>>))>>)>>
      [] form = "dead-loop-continue" -> <<Loop(Never, <<Cont, Print(v)>>)>>
      [] form = "dead-caseelse-break" -> <<Loop(Bo(TRUE), <<Ex(CaseE(Var0("E", "Y"), <<CArm("X", <<Print(I(0))>>)>>, <<Break, Print(v)>>)), Break>>)>>
      [] form = "dead-arm-continue" -> <<Loop(Never, <<Ex(CaseE(Var0("E", "Y"), <<CArm("Y", <<Cont, Print(v)>>)>>, <<Print(I(0))>>))>>)>>
PlantFill(s0, b, form) ==
    [s \in SlotIds |-> IF IsStmtSlot(s)
                       THEN (IF s = s0 THEN FormStmts(form, b) ELSE <<>>)
                       ELSE (IF s = s0 THEN PlantedV(b) ELSE I(0))]

NSkel == 23
SkName(i) == <<"blocks", "ifelse", "ifvalue", "case", "caseelse", "loop", "params", "localfn", "global",
               "fninbranch", "shadowparam", "mixed", "ginit-if", "ginit-case", "ginit-lambda", "ginit-blob", "twofile",
               "localrec-mut", "localrec-const", "localrec-tconst", "localrec-tmut", "localrec-paren-mut", "blobself">>[i]
NB(i) == <<3, 4, 4, 5, 4, 3, 5, 5, 4, 3, 5, 6, 6, 6, 6, 3, 4, 7, 7, 7, 7, 7, 4>>[i]
\* skeletons 18..22 are ONE program under the five ways of declaring its recursive local function
DeclKindOf(i) == <<"mut", "const", "tconst", "tmut", "paren-mut">>[i - 17]
\* (the first gets the whole naming universe, its four twins all-distinct, max-shadow, the single-pair merges and the
\*  role names)
PoolSkel(i) == i \notin 19..22
\* the `self` binders of a skeleton's blob literals
SelfBinders(i) == IF i = 23 THEN 41..44 ELSE {}
HasE(i) == i \in {4, 5, 12, 14}
\* binders holding an int / a mutable int / a function without parameters / an enum value: the planted forms that
\* need such a type are expected to be ACCEPTED only for them (out-of-scope uses are planted in every form)
IntBinders(i) == <<{1, 2, 3}, {1, 2, 3, 4}, {1, 2, 3, 4}, {2, 3, 4, 5}, {2, 3, 4}, {1, 2, 3}, {2, 3, 5}, {1, 3, 4, 5},
                   {1, 3, 4}, {1, 3}, {2, 3, 5}, {2, 4, 5, 6}, {1, 2, 3, 4, 5, 6}, {2, 3, 4, 5, 6}, {1, 3, 5, 6}, {1, 3},
                   {1, 2, 4}, {2, 7}, {2, 7}, {2, 7}, {2, 7}, {2, 7}, {2, 4, 41, 42, 43, 44}>>[i]
MutIntBinders(i) == <<{1, 2, 3}, {1, 2, 3, 4}, {1, 2, 3, 4}, {2, 4, 5}, {3, 4}, {1, 2, 3}, {3}, {1, 4, 5},
                      {1, 4}, {1, 3}, {}, {5, 6}, {1, 3, 4, 5}, {2, 5, 6}, {1, 3, 6}, {1, 3}, {1, 2},
                      {}, {}, {}, {}, {}, {2, 4, 41, 42, 43, 44}>>[i]
Fn0Binders(i) == IF i = 10 THEN {2} ELSE {}
EnumBinders(i) == CASE i = 4 -> {1} [] i = 5 -> {1} [] i = 12 -> {3} [] i = 14 -> {1} [] OTHER -> {}

\* (binder, slot) pairs left out: sylt rejects mutually dependent global definitions (a rule about initialisation
\* order, not about scoping), so a global function is not planted inside a global it already calls
NoPlant(i) == IF i = 7 THEN {<<4, 1>>, <<4, 2>>} ELSE {}

SkelTops(i, f) ==
  CASE i = 1 ->   \* nested blocks
    <<StartD(f[1] \o <<DefM(1, TInt, I(1))>> \o f[2]
        \o <<Block(f[3] \o <<DefM(2, TInt, Bin("+", V(1), f[21])), Print(V(2))>> \o f[4]
                   \o <<Block(<<DefM(3, TInt, Bin("+", V(2), I(1))), Print(Bin("+", V(3), V(1)))>> \o f[5])>> \o f[6])>>
        \o f[7] \o <<Print(V(1))>>)>>
    [] i = 2 ->   \* if / elif / else bodies; the elif condition is outside the bodies
    <<StartD(f[9] \o <<DefM(1, TInt, I(1))>> \o f[1]
        \o <<Ex(If(<<ArmC(Bin("<", V(1), I(2)), f[2] \o <<DefM(2, TInt, Bin("+", V(1), I(1))), Print(V(2))>> \o f[3]),
                     ArmC(Bin("<", V(1), Bin("+", I(3), f[21])), f[4] \o <<DefM(3, TInt, I(3)), Print(V(3))>> \o f[5]),
                     ArmE(f[6] \o <<DefM(4, TInt, I(4)), Print(Bin("+", V(4), V(1)))>> \o f[7])>>))>>
        \o f[8] \o <<Print(V(1))>>)>>
    [] i = 3 ->   \* an if used for its value, with locals in its bodies
    <<StartD(f[9] \o <<DefM(1, TInt, I(2))>> \o f[1]
        \o <<DefM(2, TInt, If2(Bin("<", V(1), I(3)),
                               f[2] \o <<DefM(3, TInt, Bin("+", V(1), I(1)))>> \o f[5] \o <<Ex(Bin("*", V(3), I(2)))>>,
                               f[3] \o <<DefM(4, TInt, I(7))>> \o f[6] \o <<Ex(V(4))>>))>>
        \o f[4] \o <<Print(Bin("+", V(2), V(1)))>>)>>
    [] i = 4 ->   \* case arms, one with a binding
    <<EnumE,
      StartD(f[9] \o <<DefC(1, TE, Var1("E", "X", I(1))), DefM(2, TInt, I(5))>> \o f[1]
        \o <<Ex(CaseT(V(1), <<CArmB("X", 3, f[2] \o <<DefM(4, TInt, Bin("+", V(3), V(2))), Print(V(4))>> \o f[3]),
                              CArm("Y", f[4] \o <<DefM(5, TInt, I(2)), Print(V(5))>> \o f[5])>>))>>
        \o f[6] \o <<Print(V(2))>>)>>
    [] i = 5 ->   \* case with an else body
    <<EnumE,
      StartD(f[9] \o <<DefC(1, TE, Var0("E", "Y")), DefM(4, TInt, I(1))>>
        \o <<Ex(CaseE(V(1), <<CArmB("X", 2, <<Print(V(2))>> \o f[1])>>,
                      f[2] \o <<DefM(3, TInt, I(3)), Print(Bin("+", V(3), V(4)))>> \o f[3]))>>
        \o f[4] \o <<Print(V(4))>>)>>
    [] i = 6 ->   \* loop body, an if inside it; the loop condition is outside the body
    <<StartD(f[9] \o <<DefM(1, TInt, I(0))>> \o f[1]
        \o <<Loop(Bin("<", V(1), Bin("+", I(2), f[21])),
                  f[2] \o <<DefM(2, TInt, Bin("+", V(1), I(1))), Asg("=", V(1), V(2)),
                            Ex(If1(Bin(">", V(2), I(5)), f[6] \o <<DefM(3, TInt, V(2)), Print(V(3))>> \o f[5] \o <<Break>>))>> \o f[3])>>
        \o f[4] \o <<Print(V(1))>>)>>
    [] i = 7 ->   \* parameters and locals of sibling global functions
    <<GDef(1, "const", TNone, Fn(<<P(2, TInt)>>, TInt, f[1] \o <<DefM(3, TInt, Bin("+", V(2), I(1)))>> \o f[2] \o <<Ex(V(3))>>)),
      GDef(4, "const", TNone, Fn(<<P(5, TInt)>>, TInt, f[3] \o <<Ex(Bin("+", V(5), Call(V(1), <<V(5)>>)))>>)),
      StartD(f[4] \o <<Print(Call(V(4), <<I(1)>>))>>)>>
    [] i = 8 ->   \* a recursive local function capturing a local
    <<StartD(f[1] \o <<DefM(1, TInt, I(3)), DefM(5, TInt, I(7))>> \o f[2]
        \o <<DefC(2, TNone, Fn(<<P(3, TInt)>>, TInt,
                   f[3] \o <<Ex(If1(Bin("<=", V(3), I(0)), <<Ret(V(5))>>)),
                             DefM(4, TInt, Bin("-", V(3), I(1)))>> \o f[5]
                          \o <<Ex(Bin("+", Call(V(2), <<V(4)>>), V(5)))>>))>>
        \o f[4] \o <<Print(Call(V(2), <<V(1)>>))>>)>>
    [] i = 9 ->   \* module globals: a value, a recursive function; a local initialised from the global it may shadow
    <<GDef(1, "mut", TInt, I(5)),
      GDef(2, "const", TNone, Fn(<<P(3, TInt)>>, TInt,
             f[1] \o <<Ex(If1(Bin("<=", V(3), I(0)), <<Ret(V(1))>>)),
                       Ex(Bin("+", Call(V(2), <<Bin("-", V(3), I(1))>>), I(1)))>>)),
      StartD(<<DefM(4, TInt, Bin("+", V(1), f[21]))>> \o f[2] \o <<Print(Call(V(2), <<V(4)>>))>>)>>
    [] i = 10 ->  \* a function defined inside an if body
    <<StartD(f[9] \o <<DefM(1, TInt, I(1))>>
        \o <<Ex(If1(Bin("<", V(1), I(2)),
                    <<DefC(2, TNone, Fn(<<>>, TInt, <<DefM(3, TInt, Bin("+", V(1), I(1)))>> \o f[3] \o <<Ex(V(3))>>)),
                      Print(Call(V(2), <<>>))>> \o f[1]))>>
        \o f[2] \o <<Print(V(1))>>)>>
    [] i = 11 ->  \* parameters of a nested function may shadow the outer function's
    <<GDef(1, "const", TNone, Fn(<<P(2, TInt), P(3, TInt)>>, TInt,
             <<DefC(4, TNone, Fn(<<P(5, TInt)>>, TInt, f[1] \o <<Ex(Bin("+", V(5), V(3)))>>))>> \o f[2]
             \o <<Ex(Call(V(4), <<V(2)>>))>>)),
      StartD(f[3] \o <<Print(Call(V(1), <<I(1), I(2)>>))>>)>>
    [] i = 12 ->  \* a function with a loop, a case with else and a block inside the loop
    <<EnumE,
      GDef(1, "const", TNone, Fn(<<P(2, TInt)>>, TInt,
             <<DefM(3, TE, Var1("E", "X", V(2))),
               Loop(Bin("<", V(2), I(1)),
                    <<Ex(CaseE(V(3), <<CArmB("X", 4, <<Print(V(4))>> \o f[1] \o <<Block(<<DefM(5, TInt, Bin("+", V(4), I(1))), Print(V(5))>> \o f[2])>> \o f[3] \o <<Print(V(4))>>)>>,
                               <<DefM(6, TInt, I(0)), Print(V(6))>> \o f[4])),
                      Break>>)>>
             \o f[5] \o <<Ex(V(2))>>)),
      StartD(f[6] \o <<Print(Call(V(1), <<I(0)>>))>>)>>
    [] i = 13 ->  \* scopes inside a global's initialiser that is an if expression: bodies, a block, a loop
    <<GDef(1, "mut", TInt, I(2)),
      GDef(2, "const", TInt,
           If2(Bin("<", V(1), I(3)),
               f[1] \o <<DefM(3, TInt, Bin("+", V(1), f[21]))>> \o f[2]
                    \o <<Block(<<DefM(5, TInt, V(3)), Print(V(5))>> \o f[3]),
                         Loop(Bin("<", V(3), I(0)), <<Asg("=", V(3), I(1))>>)>> \o f[4] \o <<Ex(Bin("*", V(3), I(2)))>>,
               f[5] \o <<DefM(4, TInt, I(7))>> \o f[6] \o <<Ex(V(4))>>)),
      GDef(6, "const", TInt, Bin("+", I(1), f[22])),
      StartD(f[7] \o <<Print(V(2)), Print(V(1)), Print(V(6))>>)>>
    [] i = 14 ->  \* case arms (with and without a binding) inside a global's initialiser
    <<EnumE,
      GDef(1, "const", TE, Var1("E", "X", I(1))),
      GDef(2, "mut", TInt, I(5)),
      GDef(3, "const", TInt,
           CaseT(V(1), <<CArmB("X", 4, f[1] \o <<DefM(5, TInt, Bin("+", V(4), V(2)))>> \o f[2] \o <<Ex(V(5))>>),
                         CArm("Y", f[3] \o <<DefM(6, TInt, I(3))>> \o f[4] \o <<Ex(V(6))>>)>>)),
      StartD(f[5] \o <<Print(V(3)), Print(V(2))>>)>>
    [] i = 15 ->  \* function literals inside a list and inside a tuple at module level
    <<GDef(1, "mut", TInt, I(4)),
      GDef(2, "const", TNone, Lst(<<Fn(<<>>, TInt, f[1] \o <<DefM(3, TInt, Bin("+", V(1), I(1)))>> \o f[2] \o <<Ex(V(3))>>)>>)),
      GDef(4, "const", TNone, Tup(<<Fn(<<P(5, TInt)>>, TInt, <<DefM(6, TInt, V(5))>> \o f[3] \o <<Ex(V(6))>>), I(3)>>)),
      StartD(f[4] \o <<Print(Call(Std("list.len"), <<V(2)>>)), Print(Idx(V(4), 1)), Print(V(1))>>)>>
    [] i = 16 ->  \* a method (function literal in a blob literal) at module level
    <<BlobQ,
      GDef(1, "mut", TInt, I(4)),
      GDef(2, "const", TNone, BlobL("Q", <<FI("n", I(1)),
                                           FI("get", Fn(<<>>, TInt, f[1] \o <<DefM(3, TInt, Bin("+", Fld(Self, "n"), V(1)))>>
                                                                     \o f[2] \o <<Ex(V(3))>>))>>)),
      StartD(f[3] \o <<Print(Call(Fld(V(2), "get"), <<>>)), Print(V(1))>>)>>
    [] i = 17 ->  \* two files: the main module uses globals of module `other` by qualified name
    <<UseTop("other"),
      GDef(1, "mut", TInt, I(1)),
      StartD(f[1] \o <<Ex(Call(QV("other", 3), <<I(2)>>)), Print(QV("other", 2)), Print(V(1))>>),
      ModuleTop(2, "other"),
      GDef(2, "mut", TInt, I(5)),
      GDef(3, "const", TNone, Fn(<<P(4, TInt)>>, TVoid, f[2] \o <<Print(Bin("+", V(4), V(2)))>>))>>

    [] i \in 18..22 ->  \* a recursive local function under each declaration kind; a global function, a parameter and an
                      \* enclosing local of ITS type are in scope around it (each may lend it its name)
    <<GDef(1, "const", TNone, Fn(<<P(2, TInt)>>, TInt, f[7] \o <<Ex(Bin("+", V(2), I(100)))>>)),
      GDef(3, "const", TNone, Fn(<<P(4, FnIntInt)>>, TInt,
             f[1] \o <<DefC(5, TNone, V(4))>>
             \o <<Block(f[2] \o <<LocalFnDef(DeclKindOf(i), 6,
                                       Fn(<<P(7, TInt)>>, TInt,
                                          f[3] \o <<Ex(If1(Bin("<=", V(7), I(0)), <<Ret(I(1))>>)),
                                                    Ex(Bin("*", V(7), Call(V(6), <<Bin("-", V(7), I(1))>>)))>>))>>
                        \o f[4] \o <<Print(Call(V(6), <<I(2)>>))>>)>>
             \o f[5] \o <<Ex(I(0))>>)),
      StartD(f[6] \o <<Print(Call(V(3), <<V(1)>>))>>)>>
    [] i = 23 ->  \* blob literals: `self` is declared for the fields that are function literals, and only for them -
                  \* data fields before / between / after the methods, a parenthesised method, a nested literal (its
                  \* fields are no methods of the outer one), a literal built inside a method of another blob
    <<BlobD("QA", <<FD("da", TInt), FD("ma", TFn(<<>>, TInt)), FD("sa", TInt), FD("mp", TFn(<<>>, TInt)), FD("db", TInt),
                    FD("nb", TName("QB")), FD("dd", TInt)>>),
      BlobD("QB", <<FD("sb", TInt), FD("mb", TFn(<<>>, TInt)), FD("dc", TInt)>>),
      BlobD("QC", <<FD("sc", TInt), FD("mk", TFn(<<>>, TName("QD")))>>),
      BlobD("QD", <<FD("sd", TInt), FD("md", TFn(<<>>, TInt)), FD("de", TInt)>>),
      StartD(f[1]
        \o <<DefC(1, TNone, BlobS("QA", 41,
                 <<FI("da", Bin("+", I(1), f[21])),
                   FI("ma", Fn(<<>>, TInt, f[2] \o <<DefM(2, TInt, Fld(SelfB(41), "sa")), Asg("=", Fld(SelfB(41), "sa"), I(4))>>
                                               \o f[7] \o <<Ret(V(2))>>)),
                   FI("sa", Bin("+", I(2), f[22])),
                   FI("mp", Paren(Fn(<<>>, TInt, f[3] \o <<Ret(Fld(SelfB(41), "sa"))>>))),
                   FI("db", Bin("+", I(3), f[23])),
                   FI("nb", BlobS("QB", 42, <<FI("sb", Bin("+", I(5), f[24])),
                                              FI("mb", Fn(<<>>, TInt, f[4] \o <<Ret(Fld(SelfB(42), "sb"))>>)),
                                              FI("dc", Bin("+", I(6), f[25]))>>)),
                   FI("dd", Bin("+", I(7), f[26]))>>)),
              DefC(3, TNone, BlobS("QC", 43,
                 <<FI("sc", I(42)),
                   FI("mk", Fn(<<>>, TName("QD"),
                               f[5] \o <<DefM(4, TInt, Fld(SelfB(43), "sc")),
                                         Ret(BlobS("QD", 44,
                                               <<FI("sd", Bin("+", Fld(SelfB(43), "sc"), f[27])),
                                                 FI("md", Fn(<<>>, TInt, <<Ret(Bin("+", Fld(SelfB(44), "sd"), f[28]))>>)),
                                                 FI("de", Bin("+", V(4), f[29]))>>))>>))>>))>>
        \o f[6] \o <<Print(Bin("+", Call(Fld(V(1), "ma"), <<>>), Fld(V(1), "sa"))),
                      Print(Call(Fld(Call(Fld(V(3), "mk"), <<>>), "md"), <<>>))>>)>>

\* every skeleton declares the blob P the "blob-field" form needs
Skel(i, f) == <<BlobP>> \o SkelTops(i, f)

\* everything the specification derives from skeleton i (TLC does not cache definitions that depend on RECURSIVE
\* operators, so this record is built once per use site with LET and passed around)
SkInfo(i) ==
    LET base == Skel(i, EmptyFill)
        sc == ScanTops(Skel(i, MarkFill))
    IN [i |-> i, nb |-> NB(i), base |-> base, G |-> Globals(base), evs |-> LinTops(base), sc |-> sc, slots |-> DOMAIN sc.slots]
MaxShadowOf(k) == MaxShadow(k.evs, k.G, k.nb)

\* the namings tried for a skeleton: all maps into a pool of `pool` names, all distinct, max shadow (ms), every single
\* pair merged, every binder under every role name
\* (sylt's grammar wants a case binding to start with a lower-case letter: a type's name is not offered to one)
Namings(k, pool, ms) ==
    (IF PoolSkel(k.i) THEN [1..k.nb -> 1..pool] ELSE {}) \cup {AllDistinct(k.nb), ms} \cup PairMerges(k.nb)
    \cup {nm \in SpecialNamings(k.nb) : ~(nm[SpecialAt(nm)] = 0 - TypeId("E") /\ k.sc.bk[SpecialAt(nm)] = "casebind")}
LegalNamings(k, pool, ms) == {nm \in Namings(k, pool, ms) : Legal(k.evs, k.G, nm)}
NamingDescr(k, nm) ==
    IF IsSpecial(nm)
    THEN "special|" \o NameStr(nm[SpecialAt(nm)]) \o "|" \o OwnFrame(k.sc, SpecialAt(nm)) \o ":" \o k.sc.bk[SpecialAt(nm)]
         \* (the binder is written as the base of a field access somewhere: `list.f` where `list` is a variable)
         \o (IF \E j \in 1..Len(k.evs) : k.evs[j].k = "use" /\ k.evs[j].fk = "fldbase" /\ k.evs[j].b = SpecialAt(nm)
             THEN "+fldbase" ELSE "")
    ELSE PairDescr(k.sc, MergedPair(nm)[1], MergedPair(nm)[2])

\* the planted-use universe: (binder, slot, form).  A global is not planted inside its own initialiser unless it is a
\* function (sylt calls that a dependency cycle: initialisation order, not scoping).
Pairs(k) == {p \in ((1..k.nb) \cup SelfBinders(k.i)) \X k.slots :
               /\ (IsStmtSlot(p[2]) \/ p[1] \in IntBinders(k.i))
               /\ p \notin NoPlant(k.i)
               /\ ~(k.sc.bk[p[1]] = "global" /\ k.sc.slots[p[2]].top = p[1])}
PairInScope(k, b, s) == InScope(k.sc, k.G, b, s)
\* where a jump can be written: `ret` in a void function, `ret 0` in an int function, break / continue in a loop body
DeadDirectOk(k, s, form) ==
    CASE form = "dead-ret" -> k.sc.slots[s].fnrt = "void"
      [] form = "dead-retv" -> k.sc.slots[s].fnrt = "value"
      [] form \in {"dead-break", "dead-continue"} -> k.sc.slots[s].inloop
\* is the form well typed for this binder at this slot (only then an in-scope use must be ACCEPTED)
Fits(k, b, s, form) ==
    CASE form \in {"arg", "expr"} -> TRUE
      [] form = "ret-call" -> k.sc.slots[s].fnrt = "void"
      [] form = "ret-val" -> k.sc.slots[s].fnrt = "value" /\ b \in IntBinders(k.i)
      [] form \in {"cond", "loop-cond", "operand", "neg", "assert-eq", "tuple-elem", "list-elem", "asg-value"} ->
            b \in IntBinders(k.i)
      [] form = "blob-field" -> b \in IntBinders(k.i) /\ k.sc.slots[s].mod = 1        \* the blob P is a type of the main module
      [] form = "callee" -> b \in Fn0Binders(k.i)
      [] form = "asg-target" -> b \in MutIntBinders(k.i)
      [] form = "scrutinee" -> b \in EnumBinders(k.i)
      [] form \in {"index-base", "field-base"} -> FALSE
      [] form \in DeadDirect -> DeadDirectOk(k, s, form)
      [] form \in DeadForms \ DeadDirect -> FALSE          \* (the wrapped dead-code forms are planted out of scope only)
\* the syntactic positions tried in the statement slots of a skeleton: everything for the round-1/2 skeletons, a
\* selection for the later ones (`self` is written as `self.<field>`, an int)
SkForms(i, b) ==
    IF i <= 17 THEN StmtForms \cup DeadForms
    ELSE IF i = 18 THEN {"arg", "callee", "operand", "asg-value", "ret-val"} \cup DeadDirect
    ELSE IF i \in 19..22 THEN {"arg", "callee"}
    ELSE IF IsSelfId(b) THEN {"arg", "cond", "asg-target", "asg-value", "ret-val", "list-elem", "dead-ret", "dead-retv"}
    ELSE {"arg", "operand"}
FormsAt(k, b, s) ==
    IF ~IsStmtSlot(s) THEN {"expr"}
    ELSE IF PairInScope(k, b, s) THEN {fm \in SkForms(k.i, b) : Fits(k, b, s, fm)}
    ELSE {fm \in SkForms(k.i, b) : /\ (fm \in {"ret-call", "ret-val"} => k.sc.slots[s].fnrt # "none")
                                    /\ (fm = "blob-field" => k.sc.slots[s].mod = 1)
                                    /\ (fm \in DeadDirect => DeadDirectOk(k, s, fm))
                                    /\ (fm \in DeadWrappedE => HasE(k.i))}
Triples(k) == UNION {{<<p[1], p[2], fm>> : fm \in FormsAt(k, p[1], p[2])} : p \in Pairs(k)}
TriplesOf(k, b) == UNION {{<<p[1], p[2], fm>> : fm \in FormsAt(k, p[1], p[2])} : p \in {q \in Pairs(k) : q[1] = b}}
IsTriple(k, b, s, fm) == <<b, s>> \in Pairs(k) /\ fm \in FormsAt(k, b, s)
PlantedTops(i, b, s, form) == Skel(i, PlantFill(s, b, form))
\* what the machine says about the planted use under the all-distinct naming
PlantedResult(k, b, s, form) ==
    LET r == Resolve(LinTops(PlantedTops(k.i, b, s, form)), k.G, AllDistinct(k.nb))
        pl == {j \in 1..Len(r) : r[j].p = 1}
    IN [n |-> Cardinality(pl), r |-> IF pl = {} THEN 0 - 1 ELSE r[CHOOSE j \in pl : TRUE].r]
PosClasses == {"before-decl", "after-block", "after-if-branch", "after-elif-branch", "after-else-branch",
               "after-case-arm", "after-case-else", "after-loop", "after-fn", "before-fn", "other-module",
               "before-method", "after-method", "other-instance"}
\* the kind of the block a slot stands in directly
InnerFk(k, s) == LET pth == k.sc.slots[s].path IN IF Len(pth) = 0 THEN "module" ELSE k.sc.fkOf[pth[Len(pth)]]
(* ---------------------------------------- big programs (SyltGen's universe) *)
\* every binder except `start` is renamed: globals in top-level order, then locals in declaration order
IsRenamableGlobal(b) == b # 0 /\ b # SStart
GOrder(tops) == SelectSeq([i \in 1..Len(tops) |-> IF tops[i].k = "def" THEN tops[i].b ELSE 0], IsRenamableGlobal)
GenNaming(tops) ==
    LET G == Globals(tops)
        evs == LinTops(tops)
        sc == Scan(evs, G, [g \in DOMAIN G |-> "global"])
        order == GOrder(tops) \o sc.order
        col == Greedy(order, sc.conf)
    IN [legal |-> WellNested(evs) /\ Legal(evs, G, col),
        shadow |-> [j \in 1..Len(order) |-> [b |-> order[j], n |-> ColourName(col[order[j]])]],
        nc |-> NumNames(col), nb |-> Len(order), uses |-> Cardinality({j \in 1..Len(evs) : evs[j].k = "use"})]
=============================================================================
