------------------------------ MODULE Trace_Scope ------------------------------
(* C09: validation of the recorded compile results against SyltScope.  One record per case; record k is checked    *)
(* independently (Init ranges over all k).  The universe is decided HERE: TLC re-derives the legal namings of each  *)
(* skeleton, the (binder, slot) pairs and their classification, and (when GEN is given) the shadowing naming of     *)
(* every big program; a record that does not carry exactly the derived case is a tool error (Assert).  With FULL=1  *)
(* the trace must cover the whole universe.  The verdicts are the REJECT lines:                                     *)
(*   nam  all legal namings of a skeleton must be accepted with one and the same Lua digest                         *)
(*   oos  a use planted where its binder is visible must be accepted; where it is not visible it must be rejected   *)
(*        (an error list that is not empty, nothing written), and not by the parser                                 *)
(*   gen  the all-distinct and the shadowing rendering of a program must be accepted with the same digest           *)
EXTENDS SyltScope, Json, IOUtils

Pool == IF "POOL" \in DOMAIN IOEnv THEN atoi(IOEnv.POOL) ELSE 2
Full == "FULL" \in DOMAIN IOEnv /\ IOEnv.FULL = "1"
HasGen == "GEN" \in DOMAIN IOEnv
Rec == ndJsonDeserialize(IOEnv.TRACE)
GenCases == IF HasGen THEN ndJsonDeserialize(IOEnv.GEN) ELSE <<>>

VARIABLES k, pc
tvars == <<k, pc>>

TraceInit == k \in 1..Len(Rec) /\ pc = "start"
R == Rec[k]
Take(t) == pc = "start" /\ R.t = t /\ pc' = "done" /\ k' = k
Reject(x) == PrintT(<<"REJECT", ToJson(x)>>)

VNam == /\ Take("nam")
        /\ LET info == SkInfo(R.sk)
               legal == LegalNamings(info, Pool, MaxShadowOf(info))
               res == R.results
               recorded == {res[j].nm : j \in 1..Len(res)}
               ref == {j \in 1..Len(res) : res[j].nm = AllDistinct(info.nb)}
           IN /\ Assert(recorded = legal, <<"the record does not carry exactly the legal namings of the skeleton", R.sk>>)
              /\ Assert(Cardinality(ref) = 1 /\ Len(res) = Cardinality(legal), <<"a naming is recorded twice", R.sk>>)
              /\ LET r0 == res[CHOOSE j \in ref : TRUE]
                     anyok == \E j \in 1..Len(res) : res[j].class = "ok"
                     \* the reference: the all-distinct rendering; when it is rejected, any accepted one
                     d0 == IF r0.class = "ok" THEN r0.digest
                           ELSE IF anyok THEN res[CHOOSE j \in 1..Len(res) : res[j].class = "ok"].digest ELSE ""
                     bad == {j \in 1..Len(res) : res[j].class # "ok" \/ res[j].digest # d0}
                     described == {j \in 1..Len(res) : res[j].nm \in PairMerges(info.nb) \/ IsSpecial(res[j].nm)}
                     \* when the all-distinct program itself is rejected the ACCEPTED renamings are the telling ones
                     telling == IF r0.class = "ok" THEN bad \cap described
                                ELSE {j \in described : res[j].class = "ok"}
                 IN IF ~anyok
                    THEN Reject([rec |-> k, t |-> "nam", sk |-> R.sk, name |-> SkName(R.sk), why |-> "base-rejected"])
                    ELSE IF bad = {} THEN TRUE
                    ELSE Reject([rec |-> k, t |-> "nam", sk |-> R.sk, name |-> SkName(R.sk),
                                 why |-> IF r0.class # "ok" THEN "renaming-changes-verdict"
                                         ELSE IF \E j \in bad : res[j].class # "ok" THEN "renaming-rejected"
                                         ELSE "renaming-changes-output",
                                 bad |-> bad, nbad |-> Cardinality(bad), nlegal |-> Len(res),
                                 pairs |-> {NamingDescr(info, res[j].nm) : j \in telling}])

\* is the skeleton itself (all-distinct names, nothing planted) accepted in this trace?
NamOk(sk) == \E i \in 1..Len(Rec) : /\ Rec[i].t = "nam" /\ Rec[i].sk = sk
                                     /\ \E j \in 1..Len(Rec[i].results) : /\ Rec[i].results[j].nm = AllDistinct(NB(sk))
                                                                          /\ Rec[i].results[j].class = "ok"
\* a use planted where the binder IS visible must be accepted: rejecting it although the skeleton itself is accepted
\* means the compiler's scope is smaller than the language's; without an accepted skeleton the case says nothing
OosWhy(in, r, sk) ==
    IF in THEN (IF r.class = "ok" THEN "" ELSE IF NamOk(sk) THEN "in-scope-rejected" ELSE "base-rejected")
    ELSE IF r.class = "ok" THEN "out-of-scope-accepted"
    ELSE IF r.class = "panic" THEN "out-of-scope-panic"
    ELSE IF r.class # "err" THEN "out-of-scope-empty-error"
    ELSE IF r.stage = "syntax" THEN "rejected-by-parser"
    ELSE IF r.bytes # 0 THEN "out-of-scope-bytes-written"
    ELSE ""

VOos == /\ Take("oos")
        /\ LET info == SkInfo(R.sk) IN
           /\ Assert(IsTriple(info, R.b, R.slot, R.form),
                     <<"the record is not a (binder, slot, form) triple of the universe", R.sk, R.b, R.slot, R.form>>)
           /\ LET in == PairInScope(info, R.b, R.slot)
                  why == OosWhy(in, R, R.sk)
              IN IF why = "" THEN TRUE
                 ELSE Reject([rec |-> k, t |-> "oos", sk |-> R.sk, name |-> SkName(R.sk), b |-> R.b, slot |-> R.slot, form |-> R.form, why |-> why,
                              ginit |-> InGlobalInit(info.sc, R.b),
                              cls |-> IF in THEN "in-scope" ELSE PosClass(info.sc, R.b, R.slot),
                              bk |-> info.sc.bk[R.b], own |-> OwnFrame(info.sc, R.b)])

VGen == /\ Take("gen")
        /\ (HasGen => LET c == GenCases[R.rec]
                          g == GenNaming(c.tops)
                      IN Assert(c.id = R.id /\ g.legal /\ g.shadow = R.shadow,
                                <<"the record was not made with the naming the specification derives", R.rec>>))
        /\ LET why == IF R.distinct.class # "ok" /\ R.shadowed.class # "ok" THEN "base-rejected"
                      ELSE IF R.distinct.class # "ok" THEN "renaming-changes-verdict"
                      ELSE IF R.shadowed.class # "ok" THEN "renaming-rejected"
                      ELSE IF R.shadowed.digest # R.distinct.digest THEN "renaming-changes-output"
                      ELSE ""
           IN IF why = "" THEN TRUE ELSE Reject([rec |-> k, t |-> "gen", id |-> R.id, why |-> why])

TraceNext == VNam \/ VOos \/ VGen
TraceSpec == TraceInit /\ [][TraceNext]_tvars

TypeOk == pc \in {"start", "done"} /\ (pc = "start" => R.t \in {"nam", "oos", "gen"})

(* with FULL=1 the trace covers exactly the universe *)
RecIdx(t) == {i \in 1..Len(Rec) : Rec[i].t = t}
AllPairs == UNION {{<<i, p[1], p[2], p[3]>> : p \in Triples(SkInfo(i))} : i \in 1..NSkel}
ASSUME TraceComplete == Full =>
    /\ {Rec[i].sk : i \in RecIdx("nam")} = 1..NSkel /\ Cardinality(RecIdx("nam")) = NSkel
    /\ {<<Rec[i].sk, Rec[i].b, Rec[i].slot, Rec[i].form>> : i \in RecIdx("oos")} = AllPairs /\ Cardinality(RecIdx("oos")) = Cardinality(AllPairs)
    /\ (HasGen => {Rec[i].rec : i \in RecIdx("gen")} = 1..Len(GenCases) /\ Cardinality(RecIdx("gen")) = Len(GenCases))
=============================================================================
