SPECIFICATION Spec
CONSTANTS
  PoolSize <- MCPoolSize
  MaxMembers <- MCMaxMembers
INVARIANTS TypeOk
CHECK_DEADLOCK FALSE
