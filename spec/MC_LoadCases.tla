---------------------------- MODULE MC_LoadCases ----------------------------
(* C06: the lexical-corner universe of SyltCorners - well-formedness (ASSUMEs; a failure is a wrong
   specification, exit 2) and emission of every case (one REPLAY line per index). *)
EXTENDS SyltCorners, Json, IOUtils

VARIABLES k, pc
vars == <<k, pc>>

Range(s) == {s[i] : i \in 1..Len(s)}
\* here (and only here, and in the complete validation of the lexical trace) the whole universe is materialised
\* (`\o` turns the lazy function expression into an evaluated tuple: every case is derived exactly once)
Cases == [i \in 1..NCases |-> CaseAt(i)] \o <<>>
Ids == {Cases[i].id : i \in 1..NCases}
Contains(t, w) == \E i \in 1..(Len(t) - Len(w) + 1) : SubSeq(t, i, i + Len(w) - 1) = w

\* the keyword rows are DERIVED (Lua's reserved words minus Sylt's) and are the ten the design lists
ASSUME KwDerivation ==
    /\ KwSeq = <<"elseif", "for", "function", "goto", "local", "repeat", "return", "then", "until", "while">>
    /\ \A w \in Range(LuaKeywordSeq) : IsLegalSyltName(w) => \E sp \in Range(LowerSpell) : sp.nm = w /\ sp.cls = "kw:" \o w
    /\ Cardinality(Range(LuaKeywordSeq)) = 22
ASSUME IdsUnique == Cardinality(Ids) = NCases
ASSUME TextsUnique == Cardinality({<<Cases[i].files, Cases[i].req>> : i \in 1..NCases}) = NCases
ASSUME FilesSane == \A i \in 1..NCases : /\ Len(Cases[i].files) \in {1, 2}
                                         /\ Cases[i].files[1].name = "main.sy"
                                         /\ \A q \in 1..Len(Cases[i].files) : Len(Cases[i].files[q].text) > 0
ASSUME FamiliesCovered == {Cases[i].id.fam : i \in 1..NCases} = Range(Families)
\* every cell of every grid is inhabited
Cell(fam, a, b, n) == [fam |-> fam, a |-> a, b |-> b, n |-> n]
ASSUME CellsInhabited ==
    /\ \A sp \in Range(LowerSpell), st \in Range(LowerSites) : Cell("name", sp.cls, st, 0) \in Ids
    /\ \A sp \in Range(UpperSpell), st \in Range(UpperSites) : Cell("cname", sp.cls, st, 0) \in Ids
    /\ \A c \in Range(StrContents), st \in Range(StrSites) : Cell("str", c.cls, st, 0) \in Ids
    /\ \A c \in Range(NumLits), st \in Range(NumSites) : Cell("num", c.cls, st, 0) \in Ids
    /\ \A c \in Range(UForms), p \in Range(UPositions) : Cell("unused", c.cls, p, 0) \in Ids
    /\ \A g \in Range(SizeGrid) : \A n \in Range(g.ns) : Cell("size", g.shape, "n" \o Num(n), n) \in Ids
    /\ \A c \in Range(CtlKinds), p \in {"start", "helper"} : Cell("ctl", c.cls, p, 0) \in Ids
    /\ \A t \in Range(CfTransfers), f \in Range(CfFlavours), w \in Range(CfContexts), c \in Range(CfConstructs) :
          (c # "loop-nodo" \/ f \in {"direct", "arg-fn", "arg-pu"}) => Cell("ctlfn", t \o "/" \o f, w \o "/" \o c, 0) \in Ids
    /\ \A d \in Range(DeadTransfers), kd \in Range(DeadKinds), w \in Range(DeadWraps), bk \in Range(DeadBlocks) :
          (Thorough \/ w = "top" \/ bk = "plain") => Cell("dead", d.cls \o "/" \o kd, w \o "/" \o bk, 0) \in Ids
    /\ Thorough => \A c1 \in Range(UOperands), c2 \in Range(UOperands) : Cell("unused2", c1.cls, c2.cls, 0) \in Ids
    /\ \A t \in Range(CxTransfers), f \in Range(CxForms), st \in Range(CxSites), lp \in Range(CxLoops), w \in Range(CxContexts) :
          (Thorough \/ CxInQuick(<<<<t, f>>, <<<<st, lp>>, w>>>>)) => Cell("ctlx", t \o "/" \o f, st \o "/" \o lp \o "/" \o w, 0) \in Ids
    /\ \A ch \in Range(ScChars), f \in Range(ScFollows), p \in Range(ScPositions), st \in Range(ScSites) :
          (Thorough \/ ScInQuick(<<<<ch, f>>, <<p, st>>>>)) => Cell("strc", ch.cls \o "/" \o f, p \o "/" \o st, 0) \in Ids
    /\ \A kd \in Range(WideKinds), n \in Range(WideNs) : Cell("wide", kd, "n" \o Num(n), n) \in Ids
    /\ Len(UOperands) >= 50
\* the spelling / literal under test really occurs in the program text
ASSUME SpellingOccurs ==
    /\ \A sp \in Range(LowerSpell), st \in Range(LowerSites) : Contains(NameText(st, sp.nm), sp.nm)
    /\ \A sp \in Range(UpperSpell), st \in Range(UpperSites) : Contains(CNameText(st, sp.nm), sp.nm)
    /\ \A c \in Range(StrContents), st \in Range(StrSites) \ {"require-arg"} : Contains(StrText(st, c.s), Q(c.s))
    /\ \A c \in Range(NumLits), st \in Range(NumSites) : Contains(NumText(st, c.s), c.s)
    /\ \A ch \in Range(ScChars), f \in Range(ScFollows), p \in Range(ScPositions), st \in Range(ScSites) :
          Contains(ScProg(st, ScContent(ch, f, p)).text, Q(ScContent(ch, f, p)))
\* round 3: the byte expectations are well-formed (only the string-content family has them, never for a content with a
\* backslash; an expectation is the literal's content, once, followed by the line `1`), the control-character rows are
\* the C0 set + DEL + C1 / separator samples, widths straddle 12 / 13
ASSUME ExpectSane ==
    /\ \A i \in 1..NCases : Cases[i].expect # "-" => Cases[i].id.fam = "strc" /\ ~Contains(Cases[i].files[1].text, BS)
    /\ \A ch \in Range(ScChars), f \in Range(ScFollows), p \in Range(ScPositions), st \in Range(ScSites) :
          ~ScHasBs(f, p) => Contains(ScExpect(st, ch, f, p), ScContent(ch, f, p) \o (IF st = "concat" THEN ">" ELSE "") \o LF \o "1" \o LF)
    /\ \E i \in 1..NCases : Cases[i].expect # "-"
    /\ {"nul", "bel", "esc", "us", "del", "tab", "lf", "cr"} \subseteq {ch.cls : ch \in Range(ScChars)}
    /\ {"digit", "digits2", "letter", "end"} \subseteq Range(ScFollows)
    /\ {12, 13} \subseteq Range(WideNs) /\ \E n \in Range(WideNs) : n >= 40
\* size classes straddle Lua's static limits (200 locals, 255 upvalues, 200 levels)
ASSUME SizesStraddle ==
    /\ \A g \in Range(SizeGrid) : \E n \in Range(g.ns) : n < 200
    /\ \A sh \in {"locals", "calls", "reads", "params", "globals", "closures"} :
          \E g \in Range(SizeGrid) : g.shape = sh /\ {199, 201} \subseteq Range(g.ns)
    /\ \E g \in Range(SizeGrid) : g.shape = "upvalues" /\ \E n \in Range(g.ns) : n > 255
    /\ \E g \in Range(SizeGrid) : g.shape = "elif-chain" /\ 210 \in Range(g.ns)

Init == pc = "start" /\ k \in 1..NCases
\* (one reference to Cases: see the note at SyltCorners!MkSegTable)
EmitRec(c, i) == [idx |-> i, id |-> c.id, files |-> c.files, req |-> c.req, must |-> c.must, expect |-> c.expect]
Emit == /\ pc = "start" /\ pc' = "done" /\ k' = k
        /\ PrintT(<<"REPLAY", ToJson(EmitRec(Cases[k], k))>>)
Next == Emit
Spec == Init /\ [][Next]_vars
TypeOk == pc \in {"start", "done"}
=============================================================================
