----------------------------- MODULE SyltCapture -----------------------------
(***************************************************************************)
(* C10, capture BY REFERENCE.  "Closures created by the same activation    *)
(* share captured variables by reference, so a mutation through one is     *)
(* visible through the others", and each closure captures the variable of  *)
(* the activation / loop iteration that created it - the VARIABLE, never   *)
(* the value it happened to have when the closure was made.                *)
(*                                                                         *)
(* One program per key <<"cap", vk, shape, rd, gb, sb>>:                   *)
(*   vk     where the variable x lives and who creates the closures        *)
(*          local   x := 3 in start, closures made in start                *)
(*          glob    x is the mutable global g                              *)
(*          upval   x := 3 in start, closures made by a nested function    *)
(*          iter    x is a local of a loop body (one per iteration); the   *)
(*                  getters of all iterations are called after the loop    *)
(*          rec     x is a local of rec(n) (one per activation), closures  *)
(*                  are made before the recursive call and used after it   *)
(*          block   x is a local of a nested block                         *)
(*   shape  the ONE expression that reads x AND creates a getter and a     *)
(*          setter closure over x: elements of a tuple, arguments of a     *)
(*          call, a list inside a tuple, fields of a blob literal          *)
(*   rd     where that expression reads x itself: before the closures,     *)
(*          after them, both, not at all                                   *)
(*   gb     body of the getter (how it reads x)                            *)
(*   sb     body of the setter (how it changes x)                          *)
(* Protocol after creation (G() = call the getter, S() = the setter):      *)
(*   print G(), S(), G() ; x = 20 ; print G() ; x += 1 ; print S(), x, G() *)
(* so a change by the creator must be seen by the closures, a change by    *)
(* the setter by the getter and by the creator.                            *)
(***************************************************************************)
EXTENDS SyltGen

CPk == 51        \* the created package
CI == 52         \* loop counter
CKeepL == 53     \* list of getters kept across iterations
CMk == 54        \* nested creator function
CF == 55
CR == 56         \* result of the recursive call
GKeep == 1020
GNth == 1021
GCRec == 1022
TGet == TFn(<<>>, TInt)

CapVarKinds == <<"local", "glob", "upval", "iter", "rec", "block">>
CapShapes == <<"tuple", "args", "list", "blob">>
CapReads == <<"before", "after", "both", "none">>
CapGetBodies == <<"id", "add", "neg", "sq", "call", "ifx", "local", "nested", "ret", "tup">>
CapSetBodies == <<"inc", "readfirst">>

CapX(vk) == IF vk = "glob" THEN V(GG) ELSE X

GetBody(gb, x) ==
  CASE gb = "id"     -> <<Ex(x)>>
    [] gb = "add"    -> <<Ex(Bin("+", x, I(1)))>>
    [] gb = "neg"    -> <<Ex(Un("-", x))>>
    [] gb = "sq"     -> <<Ex(Bin("*", x, x))>>
    [] gb = "call"   -> <<Ex(Call(V(GInc), <<x>>))>>
    [] gb = "ifx"    -> <<Ex(If2(Bin(">", x, I(5)), <<Ex(x)>>, <<Ex(Un("-", x))>>))>>
    [] gb = "local"  -> <<DefC(57, TInt, x), Ex(V(57))>>
    [] gb = "nested" -> <<Ex(IIFE(TInt, <<Ex(x)>>))>>
    [] gb = "ret"    -> <<Ret(x)>>
    [] gb = "tup"    -> <<Ex(Idx(Tup(<<x, I(0)>>), 0))>>
SetBody(sb, x) ==
  CASE sb = "inc"       -> <<Asg("+=", x, I(1)), Ex(x)>>
    [] sb = "readfirst" -> <<DefC(58, TInt, x), Asg("=", x, Bin("+", V(58), I(1))), Ex(x)>>

\* the creating expression
CapCreate(shape, rd, x, gb, sb) ==
  LET pre == IF rd \in {"before", "both"} THEN x ELSE I(0)
      post == IF rd \in {"after", "both"} THEN x ELSE I(0)
      G == Fn(<<>>, TInt, GetBody(gb, x))
      S == Fn(<<>>, TInt, SetBody(sb, x)) IN
  CASE shape = "tuple" -> Tup(<<pre, G, S, post>>)
    [] shape = "args"  -> Call(V(GKeep), <<pre, G, S, post>>)
    [] shape = "list"  -> Tup(<<pre, Lst(<<G, S>>), post>>)
    [] shape = "blob"  -> BlobL("CB", <<FI("seed", pre), FI("get", G), FI("inc", S), FI("post", post)>>)
\* calling the getter / the setter of package pk
CapG(shape, pk) ==
  CASE shape = "tuple" -> Call(Idx(pk, 1), <<>>)
    [] shape = "args"  -> Call(Idx(pk, 0), <<>>)
    [] shape = "list"  -> Call(V(GNth), <<Idx(pk, 1), I(0)>>)
    [] shape = "blob"  -> Call(Fld(pk, "get"), <<>>)
CapS(shape, pk) ==
  CASE shape = "tuple" -> Call(Idx(pk, 2), <<>>)
    [] shape = "args"  -> Call(Idx(pk, 1), <<>>)
    [] shape = "list"  -> Call(V(GNth), <<Idx(pk, 1), I(1)>>)
    [] shape = "blob"  -> Call(Fld(pk, "inc"), <<>>)
\* the getter itself, as a value (kept in a list by the loop family)
CapGVal(shape, pk) ==
  CASE shape = "tuple" -> Idx(pk, 1)
    [] shape = "args"  -> Idx(pk, 0)
    [] shape = "list"  -> Fn(<<>>, TInt, <<Ex(Call(V(GNth), <<Idx(pk, 1), I(0)>>))>>)
    [] shape = "blob"  -> Fld(pk, "get")

CapUse(shape, x) ==
  LET pk == V(CPk) IN
  <<Print(CapG(shape, pk)), Print(CapS(shape, pk)), Print(CapG(shape, pk)),
    Asg("=", x, I(20)), Print(CapG(shape, pk)),
    Asg("+=", x, I(1)), Print(CapS(shape, pk)), Print(x), Print(CapG(shape, pk))>>

CapDecls == <<
  BlobD("CB", <<FD("seed", TInt), FD("get", TGet), FD("inc", TGet), FD("post", TInt)>>),
  \* keep :: fn a: int, f: fn -> int, h: fn -> int, b: int -> (fn -> int, fn -> int) do (f, h) end
  DefN(GKeep, "const", TNone,
       Fn(<<P(61, TInt), P(62, TGet), P(63, TGet), P(64, TInt)>>, TTuple(<<TGet, TGet>>), <<Ex(Tup(<<V(62), V(63)>>))>>), "keep"),
  \* nth :: fn l: [fn -> int], i: int -> int do case list.get(l, i) do Just f -> f() end None -> -1 end end end
  DefN(GNth, "const", TNone,
       Fn(<<P(65, TList(TGet)), P(66, TInt)>>, TInt,
          <<Ex(CaseT(Call(Std("list.get"), <<V(65), V(66)>>),
                     <<CArmB("Just", 67, <<Ex(Call(V(67), <<>>))>>), CArm("None", <<Ex(Un("-", I(1)))>>)>>))>>), "nth")>>

CapProg(key) ==
  LET vk == key[2]  shape == key[3]  rd == key[4]  gb == key[5]  sb == key[6]
      x == CapX(vk)
      create == CapCreate(shape, rd, x, gb, sb)
      use == CapUse(shape, x) IN
  Prelude \o CapDecls \o
  CASE vk \in {"local", "glob"} ->
         <<StartDef(Locals \o <<DefC(CPk, TNone, create)>> \o use \o <<Print(V(GG))>>)>>
    [] vk = "upval" ->
         <<StartDef(Locals \o <<DefC(CMk, TNone, Fn(<<>>, TNone, <<Ex(create)>>)), DefC(CPk, TNone, Call(V(CMk), <<>>))>>
                    \o use \o <<Print(V(GG))>>)>>
    [] vk = "block" ->
         <<StartDef(<<DefC(12, TInt, I(5)),
                      Block(<<DefM(11, TInt, I(3)), DefC(CPk, TNone, create)>> \o use),
                      Print(V(12))>>)>>
    [] vk = "iter" ->
         <<StartDef(<<DefC(CKeepL, TList(TGet), Lst(<<>>)), DefM(CI, TInt, I(0)),
                      Loop(Bin("<", V(CI), I(2)),
                           <<DefM(11, TInt, Bin("+", Bin("*", V(CI), I(100)), I(3))), DefC(CPk, TNone, create),
                             Ex(Call(Std("list.push"), <<V(CKeepL), CapGVal(shape, V(CPk))>>))>> \o use \o
                           <<Asg("+=", V(CI), I(1))>>),
                      Ex(Call(Std("for_each"), <<V(CKeepL), Fn(<<P(CF, TGet)>>, TVoid, <<Print(Call(V(CF), <<>>))>>)>>))>>)>>
    [] vk = "rec" ->
         <<DefN(GCRec, "const", TNone,
                Fn(<<P(13, TInt)>>, TInt,
                   <<Ex(If1(Bin("<=", V(13), I(0)), <<Ret(I(0))>>)),
                     DefM(11, TInt, Bin("*", V(13), I(100))), DefC(CPk, TNone, create),
                     DefC(CR, TInt, Call(V(GCRec), <<Bin("-", V(13), I(1))>>))>> \o use \o
                   <<Ex(Bin("+", V(CR), V(11)))>>), "crec"),
           StartDef(<<Print(Call(V(GCRec), <<I(2)>>))>>)>>

CapIdx == (1..Len(CapVarKinds)) \X (1..Len(CapShapes)) \X (1..Len(CapReads)) \X (1..Len(CapGetBodies)) \X (1..Len(CapSetBodies))
CapKeys(stride) ==
  {<<"cap", CapVarKinds[x[1]], CapShapes[x[2]], CapReads[x[3]], CapGetBodies[x[4]], CapSetBodies[x[5]]>> :
     x \in {y \in CapIdx : (y[1] + y[2] + y[3] + y[4] + y[5]) % stride = 0}}
CapId(key) == [o |-> "cap-" \o key[2] \o "-" \o key[3], pos |-> 0, i |-> key[4] \o "-" \o key[5] \o "-" \o key[6], h |-> "capture"]
=============================================================================
