------------------------------ MODULE MC_Driver ------------------------------
(* Generator model for C20: TLC walks every configuration of SyltDriver to its end, checks the contract in
   every state and prints one REPLAY record per behaviour (configuration + expected observation classes). *)
EXTENDS SyltDriver, Json

MCFalse == FALSE
MCTrue == TRUE

ASSUME UniverseWellFormed
ASSUME SinkIndependence
ASSUME NoStdNeutralForStdFree
ASSUME NoStdRejectsStdUsers

Emit == Settled => PrintT(<<"REPLAY", ToJson([base |-> IndexOfCfg(cfg), cfg |-> cfg, success |-> Success(cfg),
                                            eff |-> Eff(cfg), exit_fixed |-> ExitFixed(cfg),
                                            expect |-> Expectation])>>)
=============================================================================
