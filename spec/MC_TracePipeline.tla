-------------------------- MODULE MC_TracePipeline --------------------------
(* Trace validation of recorded compilations (C07). Run with environment
   TRACE=<file.ndjson> UNIVERSE=tok20|tok31|cases MAXLEN=<n>. The model bounds of
   SyltPipeline are not used in trace mode (the recorded values bind the parameters). *)
EXTENDS Trace_Pipeline
=============================================================================
