------------------------------ MODULE SyltDiag ------------------------------
(***************************************************************************)
(* Diagnostics name the file and line of the offending construct (C15).    *)
(*                                                                         *)
(* A case plants ONE local error construct, written on ONE line, in one    *)
(* file of an otherwise valid three-file program.  The universe of cases   *)
(* is index-addressed (Case(i)), so TLC - not the harness - decides what   *)
(* is explored.  For a rendered file text t and the character offset p of  *)
(* the planted construct (the "marker"), the expected primary location is  *)
(*      file  PathOf(case.file)                                            *)
(*      line  LineOf(t, OffendingPos(case, t, p))                          *)
(* where LineOf is SyltLex's text-derived line index (1 + number of "\n"   *)
(* before the character); nothing here keeps a running line counter.       *)
(*                                                                         *)
(* Duplicate names involve two definition sites.  "The duplicate" is the   *)
(* textually LATER site (the earlier one was valid until the later one was *)
(* written; the compiler's own help text calls the other site the "first   *)
(* definition"), so OffendingPos is the later site, found in the TEXT.     *)
(***************************************************************************)
EXTENDS SyltLex

VARIABLE ln     \* generator model: a running line counter; trace model: the expected line

diagvars == <<text, pos, toks, ln>>

---------------------------------------------------------------------------
(* The universe *)
Kinds  == <<"syn_rparen", "syn_char", "unresolved", "dup_global", "const_local", "const_global",
            "const_param", "op_mismatch", "arg_mismatch", "annot_mismatch", "break_outside", "conflict",
            "dup_import", "dup_from_import">>
Files  == <<"main", "sibling", "sub">>
Poss   == <<"top_first", "top_mid", "top_last", "fn_body", "if_branch">>
Shapes == <<"none", "ascii_comment", "nonascii_comment", "nonascii_string", "ml_string2", "ml_string3",
            "blank_lines", "crlf", "tabs">>

Range(s) == {s[q] : q \in 1..Len(s)}

NK == Len(Kinds)
NF == Len(Files)
NP == Len(Poss)
NS == Len(Shapes)
NCases == NK * NF * NP * NS

\* mixed radix, kind fastest
Case(i) == LET m == i - 1 IN
           [kind  |-> Kinds[(m % NK) + 1],
            file  |-> Files[((m \div NK) % NF) + 1],
            pos   |-> Poss[((m \div (NK * NF)) % NP) + 1],
            shape |-> Shapes[((m \div (NK * NF * NP)) % NS) + 1]]

TopPos  == {"top_first", "top_mid", "top_last"}
InFnPos == {"fn_body", "if_branch", "nested"}      \* "nested" only occurs in the random variations

(* Where a kind can be written at all: a global can only be (re)defined at the top level; a local
   constant and its assignment need two statements, which a one-line top-level function cannot hold. *)
DupKinds == {"dup_global", "dup_import", "dup_from_import"}
Applicable(c) == CASE c.kind \in DupKinds -> c.pos \in TopPos
                   [] c.kind = "const_local" -> c.pos \in InFnPos
                   [] OTHER -> TRUE

ApplicableIdx == {i \in 1..NCases : Applicable(Case(i))}

PathOf(f) == CASE f = "main" -> "main.sy" [] f = "sibling" -> "other.sy" [] f = "sub" -> "sub/inner.sy"

(* The planted construct as written.  Statements cannot stand at the top level, there they are the
   body of a one-line function definition (still one construct on one line). *)
Construct(kind, top) ==
    CASE kind = "syn_rparen"     -> "pz :: )"
      [] kind = "syn_char"       -> "pz :: $"
      [] kind = "unresolved"     -> "pz :: nope"
      [] kind = "dup_global"     -> "ga :: 7"
      [] kind = "const_local"    -> "c = 5"
      [] kind = "const_global"   -> IF top THEN "pf :: fn do ga = 5 end" ELSE "ga = 5"
      [] kind = "const_param"    -> IF top THEN "pf :: fn k: int do k = 5 end" ELSE "a = 5"
      [] kind = "op_mismatch"    -> "pz :: 1 + \"a\""
      [] kind = "arg_mismatch"   -> "pz :: helper(\"s\", 1)"
      [] kind = "annot_mismatch" -> "pz: int = \"s\""
      [] kind = "break_outside"  -> IF top THEN "pf :: fn do break end" ELSE "break"
      [] kind = "conflict"       -> "<<<<<<< HEAD"
      [] kind = "dup_import"     -> "leaf :: 7"
      [] kind = "dup_from_import" -> "lw :: 7"

(* The line(s) a preceding-text shape puts directly before the planted line ('@' stands for any
   non-ASCII character).  "crlf" and "tabs" are whole-file styles, "none" adds nothing. *)
LineShapes == {"ascii_comment", "nonascii_comment", "nonascii_string", "ml_string2", "ml_string3", "blank_lines"}
ShapeLine(shape) ==
    CASE shape = "ascii_comment"    -> "// a plain comment: x :: ) $ break"
      [] shape = "nonascii_comment" -> "// kommentar @@@ @ @ @@"
      [] shape = "nonascii_string"  -> "s1 :: \"gr@@e @ @ @@\""
      [] shape = "ml_string2"       -> "s1 :: \"first\nsecond\""
      [] shape = "ml_string3"       -> "s1 :: \"first\nsecond\nthird\""
      [] shape = "blank_lines"      -> "\n"

---------------------------------------------------------------------------
(* Text-derived expectation *)
InText(t, p, s) == p >= 1 /\ p + Len(s) - 1 <= Len(t) /\ Sub(t, p, Len(s)) = s

\* p is the first non-blank character of its line
LineStartOK(t, p) == AllIn(t, LastNLBefore(t, p) + 1, p - 1, Blank)

Indent(t, p) == SubSeq(t, LastNLBefore(t, p) + 1, p - 1)

IsTop(c) == c.pos \in TopPos

\* the marker really points at the planted construct, alone on its line
MarkerOK(c, t, p) ==
    LET C == Construct(c.kind, IsTop(c)) e == p + Len(C) IN
    /\ InText(t, p, C)
    /\ LineStartOK(t, p)
    /\ e <= Len(t) /\ Ch(t, e) \in {NL, "\r"}

\* spellings that define the duplicated name (the planted one and the one already in the template)
DefSpellings(kind) == CASE kind = "dup_global" -> {"ga :: "}
                        [] kind = "dup_import" -> {"leaf :: ", "use /leaf"}
                        [] kind = "dup_from_import" -> {"lw :: ", "from /leaf use lv as lw"}
                        [] OTHER               -> {}

Sites(t, kind) == {q \in 1..Len(t) : /\ \E s \in DefSpellings(kind) : InText(t, q, s)
                                     /\ LineStartOK(t, q)}

OffendingPos(c, t, p) == IF DefSpellings(c.kind) = {} THEN p ELSE SetMax(Sites(t, c.kind) \cup {p})

ExpectedFile(c) == PathOf(c.file)
ExpectedLine(c, t, p) == LineOf(t, OffendingPos(c, t, p))

\* how an observation (result class, first error's file and line) relates to the expected file and line el
Verdict(c, el, res, efile, eline) ==
    CASE res = "ok"              -> "accepted"
      [] res = "panic"           -> "panic"
      [] efile # ExpectedFile(c) -> "other-file"
      [] eline < el              -> "earlier"
      [] eline > el              -> "later"
      [] OTHER                   -> "conforms"

\* the text before the marker has the shape the case names
ShapeOK(c, t, p) ==
    LET I == Indent(t, p) IN
    CASE c.shape \in LineShapes ->
            LET S == I \o ShapeLine(c.shape) \o NL \o I IN InText(t, p - Len(S), S)
      [] c.shape = "crlf" -> \A q \in 1..Len(t) : Ch(t, q) = NL => (q > 1 /\ Ch(t, q - 1) = "\r")
      [] c.shape = "tabs" -> /\ \A q \in 1..(Len(t) - 1) : Ch(t, q) = NL => Ch(t, q + 1) # " "
                             /\ \E q \in 1..Len(t) : Ch(t, q) = "\t"
      [] OTHER -> \A q \in 1..Len(t) : Ch(t, q) \notin {"\r", "\t", "@"}

---------------------------------------------------------------------------
(* Generator model: walk the spec's own sample texts with a running counter and compare it with the
   text-derived line index in every state (the counter exists only here). *)
Indents == {"", "    ", "\t\t"}
Ends == {NL, "\r\n"}
SampleTexts ==
    {I \o ShapeLine(s) \o e \o I \o Construct(kd, top) \o e \o "end" \o e :
        I \in Indents, s \in LineShapes, kd \in Range(Kinds), top \in BOOLEAN, e \in Ends}

DiagInit == /\ text \in SampleTexts
            /\ pos = 1 /\ toks = <<>> /\ ln = 1

DiagStep == /\ pos <= Len(text)
            /\ pos' = pos + 1
            /\ ln' = IF Ch(text, pos) = NL THEN ln + 1 ELSE ln
            /\ UNCHANGED <<text, toks>>

DiagSpec == DiagInit /\ [][DiagStep]_diagvars

LineAgrees == ln = LineOf(text, pos)
ColSane == /\ ColOf(text, pos) >= 1
           /\ (pos > 1 /\ Ch(text, pos - 1) = NL) => ColOf(text, pos) = 1
           /\ (pos > 1 /\ Ch(text, pos - 1) # NL) => LineOf(text, pos) = LineOf(text, pos - 1)

RECURSIVE CountNL(_, _)
CountNL(t, n) == IF n = 0 THEN 0 ELSE CountNL(t, n - 1) + (IF Ch(t, n) = NL THEN 1 ELSE 0)

\* the sample's planted construct sits where counting newlines says it does
SampleMarker(t) == CHOOSE p \in 1..Len(t) : \E kd \in Range(Kinds), top \in BOOLEAN :
                        /\ InText(t, p, Construct(kd, top) \o NL) \/ InText(t, p, Construct(kd, top) \o "\r\n")
                        /\ LineStartOK(t, p) /\ p > 1
SampleLineOK == pos = 1 => LET p == SampleMarker(text) IN LineOf(text, p) = 1 + CountNL(text, p - 1)

(* The universe is well formed: every dimension value occurs in an applicable case, cases are pairwise
   different, every construct is one line, multi-line shapes span exactly the lines they claim. *)
NLs(s) == CountNL(s, Len(s))
UniverseOK ==
    /\ \A kd \in Range(Kinds)  : \E i \in ApplicableIdx : Case(i).kind = kd
    /\ \A f \in Range(Files)   : \E i \in ApplicableIdx : Case(i).file = f
    /\ \A kd \in Range(Kinds), f \in Range(Files) : \E i \in ApplicableIdx : Case(i).kind = kd /\ Case(i).file = f
    /\ \A q \in Range(Poss)    : \E i \in ApplicableIdx : Case(i).pos = q
    /\ \A s \in Range(Shapes), kd \in Range(Kinds) : \E i \in ApplicableIdx : Case(i).shape = s /\ Case(i).kind = kd
    /\ Cardinality({Case(i) : i \in 1..NCases}) = NCases
    /\ Cardinality(Range(Kinds)) = NK
    /\ \A kd \in Range(Kinds), top \in BOOLEAN : Len(Construct(kd, top)) > 0 /\ NLs(Construct(kd, top)) = 0
    /\ Cardinality({Construct(kd, FALSE) : kd \in Range(Kinds)}) = NK
    /\ NLs(ShapeLine("ml_string2")) = 1 /\ NLs(ShapeLine("ml_string3")) = 2 /\ NLs(ShapeLine("blank_lines")) = 1
    /\ \A s \in LineShapes \ {"ml_string2", "ml_string3", "blank_lines"} : NLs(ShapeLine(s)) = 0
    /\ LineShapes \subseteq Range(Shapes)
=============================================================================
