------------------------------ MODULE SyltDiag ------------------------------
(***************************************************************************)
(* Diagnostics name the file and line of the offending construct (C15).    *)
(*                                                                         *)
(* A case plants ONE local error construct, written on ONE line, in one    *)
(* file of an otherwise valid three-file program.  The universe of cases   *)
(* is index-addressed (Case(i)), so TLC - not the harness - decides what   *)
(* is explored.  For a rendered file text t and the character offset p of  *)
(* the planted construct (the "marker"), the expected primary location is  *)
(*      file  PathOf(case.file)                                            *)
(*      line  LineOf(t, OffendingPos(case, t, p))                          *)
(* where LineOf is SyltLex's text-derived line index (1 + number of "\n"   *)
(* before the character); nothing here keeps a running line counter.       *)
(*                                                                         *)
(* Duplicate names involve two definition sites.  "The duplicate" is the   *)
(* textually LATER site (the earlier one was valid until the later one was *)
(* written; the compiler's own help text calls the other site the "first   *)
(* definition"), so OffendingPos is the later site, found in the TEXT.     *)
(* The two introductions of a duplicated name are each a definition, a     *)
(* `use` (namespace import) or a `from .. use` (name import): every ordered *)
(* pair of these occurs (the position dimension puts the planted one first *)
(* or second).  Both introductions stand in ONE file, the case's file; the *)
(* expected location is always in that file, also when the colliding name  *)
(* was imported from other modules (for import/import: the second import   *)
(* statement).  The "rel" dimension lays out the modules a name is         *)
(* imported from so that the name's own definition stands on an earlier,   *)
(* the same or a later LINE NUMBER than the colliding import statement -   *)
(* line numbers of different files must never be related to each other.    *)
(*                                                                         *)
(* Multi-line statements (the ml_.. kinds): the planted form spans several *)
(* lines and the offending ELEMENT (an argument, a list / tuple / blob     *)
(* element, a name of a `from .. use ( .. )` list, an operand expression,  *)
(* a statement of a block lambda) is written on a LATER line than the      *)
(* form's first line.  The marker is the element's offset, so the expected *)
(* line is the element's line, not the line where the statement begins.    *)
(*                                                                         *)
(* Round 5.  (a) Duplicate top-level names for every ordered pair of KINDS  *)
(* of definition (constant, function, blob, enum): the dd_<planted>_<orig>  *)
(* kinds; the later writing is the duplicate whatever the two kinds are;   *)
(* likewise an import against a definition of each kind (di_<imp>_<orig>). *)
(* (b) Names declared twice INSIDE one declaration (blob fields, enum      *)
(* variants), on one line and on different lines: the offending element is *)
(* the second writing of the name.  (c) Conflict markers: the begin marker *)
(* alone, a whole conflict block (element = its first line), the other two *)
(* markers alone, and two begin markers in one file (BOTH must be located: *)
(* the second error of the compiler is observed for TwoKinds).  (d) Marker *)
(* look-alikes as preceding text: `<<<<<<<` not at the start of a line (in  *)
(* a comment, in a string, on a continuation line of a string), `=======`  *)
(* and `>>>>>>>` in comments and at the start of a line inside a string.   *)
(*                                                                         *)
(* Preceding text shapes: string literals whose content spans lines in     *)
(* every way (ends with / begins with / consists only of newlines, holds a *)
(* blank line, holds CRLF, ends with CRLF), in every place a string can    *)
(* stand (initialiser, call argument, expression statement), also directly *)
(* after a comment and directly before a trailing comment.                 *)
(***************************************************************************)
EXTENDS SyltLex

VARIABLE ln     \* generator model: a running line counter; trace model: the expected line

diagvars == <<text, pos, toks, ln>>

---------------------------------------------------------------------------
(* The universe *)
(* The kinds of definition a top-level name can have; a duplicate name is one kind written against another
   (dd_<planted>_<orig>, planted fastest): the templates hold one definition of each kind (OrigName). *)
DefForms == <<"val", "fn", "blob", "enum">>
NDF == Len(DefForms)
DDName(pf, of) == "dd_" \o pf \o "_" \o of
DDKindSeq == [i \in 1..(NDF * NDF) |-> DDName(DefForms[((i - 1) % NDF) + 1], DefForms[((i - 1) \div NDF) + 1])]
DDKinds == {DDKindSeq[i] : i \in 1..Len(DDKindSeq)}
DDPair(kind) == CHOOSE pr \in {<<DefForms[a], DefForms[b]>> : a, b \in 1..NDF} : DDName(pr[1], pr[2]) = kind
OrigName(of) == CASE of = "val" -> "Dv" [] of = "fn" -> "Df" [] of = "blob" -> "Db" [] of = "enum" -> "De"
\* a definition of kind pf of the name nm, on one line
PlantDef(pf, nm) == CASE pf = "val"  -> nm \o " :: 7"
                      [] pf = "fn"   -> nm \o " :: fn -> int do ret 7 end"
                      [] pf = "blob" -> nm \o " :: blob { z: int }"
                      [] pf = "enum" -> nm \o " :: enum Za, Zb end"
\* an import (`use .. as`, `from .. use .. as`) that brings a name in against a definition of each kind: di_<import>_<orig>
ImpForms == <<"use", "from">>
NIF == Len(ImpForms)
DIName(im, of) == "di_" \o im \o "_" \o of
DIKindSeq == [i \in 1..(NIF * NDF) |-> DIName(ImpForms[((i - 1) % NIF) + 1], DefForms[((i - 1) \div NIF) + 1])]
DIKinds == {DIKindSeq[i] : i \in 1..Len(DIKindSeq)}
DIPair(kind) == CHOOSE pr \in {<<ImpForms[a], DefForms[b]>> : a \in 1..NIF, b \in 1..NDF} : DIName(pr[1], pr[2]) = kind
PlantImp(im, nm) == CASE im = "use" -> "use /twin as " \o nm [] im = "from" -> "from /twin use lv as " \o nm

Kinds  == <<"syn_rparen", "syn_char", "unresolved", "dup_global", "const_local", "const_global",
            "const_param", "op_mismatch", "arg_mismatch", "annot_mismatch", "break_outside", "conflict",
            "dup_import", "dup_from_import",
            "dup_use_use", "dup_from_from", "dup_from_use", "dup_use_from",
            "ml_arg_paren", "ml_arg_prime", "ml_arg_nested",
            "ml_unres_arg", "ml_unres_list", "ml_unres_tuple", "ml_unres_blob",
            "ml_from_2nd", "ml_from_3rd", "ml_from_last",
            "ml_op_paren", "ml_op_cond", "ml_const_lambda">>
          \o <<"conflict_eq", "conflict_gt", "conflict_block", "conflict_two">> \o DDKindSeq \o DIKindSeq
          \o <<"dup_field1", "dup_variant1", "ml_dup_field_adj", "ml_dup_field_gap", "ml_dup_field_last",
               "ml_dup_field_col", "ml_dup_variant_adj", "ml_dup_variant_gap", "ml_dup_variant_last">>
Files  == <<"main", "sibling", "sub">>
Poss   == <<"top_first", "top_mid", "top_last", "fn_body", "if_branch">>
BaseShapes == <<"none", "ascii_comment", "nonascii_comment", "nonascii_string", "ml_string2", "ml_string3",
                "blank_lines", "crlf", "tabs">>

Range(s) == {s[q] : q \in 1..Len(s)}

(* String literals that span lines: content x place.  (two, init) and (three, init) are the older shapes
   ml_string2 / ml_string3; every other pair is a shape named str_<content>_<place>. *)
Contents  == <<"two", "three", "endnl", "startnl", "onlynl", "blankmid", "endnl2", "crlfmid", "crlfend">>
StrPlaces == <<"init", "arg", "stmt">>
StrText(ct) == CASE ct = "two"      -> "first\nsecond"
                 [] ct = "three"    -> "first\nsecond\nthird"
                 [] ct = "endnl"    -> "first\n"             \* the closing quote starts a line
                 [] ct = "startnl"  -> "\nsecond"
                 [] ct = "onlynl"   -> "\n\n"
                 [] ct = "blankmid" -> "first\n\nthird"
                 [] ct = "endnl2"   -> "first\n\n"
                 [] ct = "crlfmid"  -> "first\r\nsecond"
                 [] ct = "crlfend"  -> "first\r\n"
NCt == Len(Contents)
AllPairs == [i \in 1..(NCt * Len(StrPlaces)) |->
                <<Contents[((i - 1) % NCt) + 1], StrPlaces[((i - 1) \div NCt) + 1]>>]     \* content fastest
IsNewPair(cp) == ~(cp[2] = "init" /\ cp[1] \in {"two", "three"})
NewPairs == SelectSeq(AllPairs, IsNewPair)
StrShapeName(ct, pl) == "str_" \o ct \o "_" \o pl
ShapeFor(ct, pl) == IF pl = "init" /\ ct = "two" THEN "ml_string2"
                    ELSE IF pl = "init" /\ ct = "three" THEN "ml_string3" ELSE StrShapeName(ct, pl)
StrShapes == [i \in 1..Len(NewPairs) |-> StrShapeName(NewPairs[i][1], NewPairs[i][2])]
PairOf(shape) == CHOOSE cp \in Range(NewPairs) : StrShapeName(cp[1], cp[2]) = shape
\* a comment directly followed by such a literal, such a literal directly followed by a comment, non-ASCII inside one
ComboShapes == <<"cmt_endnl", "cmt_startnl", "cmt_onlynl", "endnl_cmt", "nonascii_endnl">>

\* conflict-marker look-alikes: the begin marker where it is no conflict (not at the start of a line), the other two
\* markers in comments and at the start of a line inside a string literal
MarkShapes == <<"mk_lt_cmt", "mk_lt_str", "mk_lt_mlstr", "mk_eq_mlstr", "mk_gt_mlstr", "mk_eqgt_cmt", "mk_lt_two">>

Shapes == BaseShapes \o StrShapes \o ComboShapes \o MarkShapes

(* Layout of the modules a colliding name is imported from (leaf.sy and twin.sy both define lv): the line number of
   that definition relative to the line number of the colliding `from .. use` statement in the case's file. *)
Rels == <<"def_earlier", "def_equal", "def_later">>

NK == Len(Kinds)
NF == Len(Files)
NP == Len(Poss)
NS == Len(Shapes)
NR == Len(Rels)
NCases == NK * NF * NP * NS * NR

\* mixed radix, kind fastest, rel slowest
Case(i) == LET m == i - 1 IN
           [kind  |-> Kinds[(m % NK) + 1],
            file  |-> Files[((m \div NK) % NF) + 1],
            pos   |-> Poss[((m \div (NK * NF)) % NP) + 1],
            shape |-> Shapes[((m \div (NK * NF * NP)) % NS) + 1],
            rel   |-> Rels[((m \div (NK * NF * NP * NS)) % NR) + 1]]

TopPos  == {"top_first", "top_mid", "top_last"}
InFnPos == {"fn_body", "if_branch", "nested"}      \* "nested" only occurs in the random variations

(* Where a kind can be written at all: a global can only be (re)defined at the top level; a local
   constant and its assignment need two statements, which a one-line top-level function cannot hold. *)
DupKinds == {"dup_global", "dup_import", "dup_from_import", "dup_use_use", "dup_from_from", "dup_from_use", "dup_use_from"}
            \cup DDKinds \cup DIKinds
\* duplicates one of whose introductions is a `from .. use` of a name defined in another module: only for these does
\* the layout of that module (rel) mean anything; all other kinds keep the plain layout (definition on line 1)
FromKinds == {"dup_from_import", "dup_from_from", "dup_from_use", "dup_use_from"}
\* the planted form spans lines, its offending element stands on a later line than its first line
MLKinds == {"ml_arg_paren", "ml_arg_prime", "ml_arg_nested", "ml_unres_arg", "ml_unres_list", "ml_unres_tuple",
            "ml_unres_blob", "ml_from_2nd", "ml_from_3rd", "ml_from_last", "ml_op_paren", "ml_op_cond", "ml_const_lambda",
            "ml_dup_field_adj", "ml_dup_field_gap", "ml_dup_field_last", "ml_dup_field_col",
            "ml_dup_variant_adj", "ml_dup_variant_gap", "ml_dup_variant_last"}
MLFromKinds == {"ml_from_2nd", "ml_from_3rd", "ml_from_last"}      \* imports: top level only
\* the planted form spans lines and its (first) offending element is its FIRST line
BlockKinds == {"conflict_block", "conflict_two"}
MultiKinds == MLKinds \cup BlockKinds
\* forms with TWO offending elements, each of which the compiler must locate (its first and its second error)
TwoKinds == {"conflict_two"}
\* a name declared twice inside one type declaration (type declarations stand at the top level)
DeclKinds == {"dup_field1", "dup_variant1", "ml_dup_field_adj", "ml_dup_field_gap", "ml_dup_field_last", "ml_dup_field_col",
              "ml_dup_variant_adj", "ml_dup_variant_gap", "ml_dup_variant_last"}
ConflictKinds == {"conflict", "conflict_eq", "conflict_gt", "conflict_block", "conflict_two"}
Applicable(c) == /\ CASE c.kind \in DupKinds \cup MLFromKinds \cup DeclKinds -> c.pos \in TopPos
                      [] c.kind = "const_local" -> c.pos \in InFnPos
                      [] OTHER -> TRUE
                 /\ c.rel # "def_earlier" => c.kind \in FromKinds

ApplicableIdx == {i \in 1..NCases : Applicable(Case(i))}

PathOf(f) == CASE f = "main" -> "main.sy" [] f = "sibling" -> "other.sy" [] f = "sub" -> "sub/inner.sy"

(* The planted construct as written.  Statements cannot stand at the top level, there they are the
   body of a one-line function definition (still one construct on one line). *)
Construct(kind, top) ==
    CASE kind = "syn_rparen"     -> "pz :: )"
      [] kind = "syn_char"       -> "pz :: $"
      [] kind = "unresolved"     -> "pz :: nope"
      [] kind = "dup_global"     -> "ga :: 7"
      [] kind = "const_local"    -> "c = 5"
      [] kind = "const_global"   -> IF top THEN "pf :: fn do ga = 5 end" ELSE "ga = 5"
      [] kind = "const_param"    -> IF top THEN "pf :: fn k: int do k = 5 end" ELSE "a = 5"
      [] kind = "op_mismatch"    -> "pz :: 1 + \"a\""
      [] kind = "arg_mismatch"   -> "pz :: helper(\"s\", 1)"
      [] kind = "annot_mismatch" -> "pz: int = \"s\""
      [] kind = "break_outside"  -> IF top THEN "pf :: fn do break end" ELSE "break"
      [] kind = "conflict"       -> "<<<<<<< HEAD"
      [] kind = "dup_import"     -> "leaf :: 7"
      [] kind = "dup_from_import" -> "lw :: 7"
      [] kind = "dup_use_use"    -> "use /twin as leaf"            \* collides with `use /leaf`
      [] kind = "dup_from_from"  -> "from /twin use lv as lw"      \* collides with `from /leaf use lv as lw`
      [] kind = "dup_from_use"   -> "from /twin use lv as leaf"    \* collides with `use /leaf`
      [] kind = "dup_use_from"   -> "use /twin as lw"              \* collides with `from /leaf use lv as lw`
      [] kind = "conflict_eq"    -> "======="
      [] kind = "conflict_gt"    -> ">>>>>>> other"
      [] kind \in DDKinds        -> PlantDef(DDPair(kind)[1], OrigName(DDPair(kind)[2]))
      [] kind \in DIKinds        -> PlantImp(DIPair(kind)[1], OrigName(DIPair(kind)[2]))
      [] kind = "dup_field1"     -> "Pb :: blob { x: int, y: int, x: str }"
      [] kind = "dup_variant1"   -> "Pe :: enum Va, Vb int, Va str end"

(* The planted form of every kind: its lines as <<relative indentation level, text>> and the offending element as
   <<line of the form, characters before it on that line, spelling>>.  The older kinds are one line, the element is
   the whole line.  An `if` cannot stand at the top level: there ml_op_cond is the body of a function. *)
SL(kind, top) == <<<<0, Construct(kind, top)>>>>
FormLines(kind, top) ==
    CASE kind = "ml_arg_paren"   -> <<<<0, "pz :: helper(">>, <<1, "1,">>, <<1, "\"s\",">>, <<0, ")">>>>
      [] kind = "ml_arg_prime"   -> <<<<0, "pz :: helper' 1,">>, <<1, "\"s\"">>>>
      [] kind = "ml_arg_nested"  -> <<<<0, "pz :: helper(">>, <<1, "helper(">>, <<2, "1,">>, <<2, "\"s\",">>, <<1, "),">>,
                                      <<1, "2,">>, <<0, ")">>>>
      [] kind = "ml_unres_arg"   -> <<<<0, "pz :: helper(">>, <<1, "1,">>, <<1, "nope,">>, <<0, ")">>>>
      [] kind = "ml_unres_list"  -> <<<<0, "pz :: [">>, <<1, "1,">>, <<1, "nope,">>, <<0, "]">>>>
      [] kind = "ml_unres_tuple" -> <<<<0, "pz :: (">>, <<1, "1,">>, <<1, "nope,">>, <<0, ")">>>>
      [] kind = "ml_unres_blob"  -> <<<<0, "pz :: Bl {">>, <<1, "x: 1,">>, <<1, "y: nope,">>, <<0, "}">>>>
      [] kind = "ml_from_2nd"    -> <<<<0, "from /leaf use (">>, <<1, "lu as m1,">>, <<1, "nope as m2,">>, <<1, "lt as m3,">>,
                                      <<0, ")">>>>
      [] kind = "ml_from_3rd"    -> <<<<0, "from /leaf use (">>, <<1, "lu as m1,">>, <<1, "lt as m2,">>, <<1, "nope as m3,">>,
                                      <<1, "lv as m4,">>, <<0, ")">>>>
      [] kind = "ml_from_last"   -> <<<<0, "from /leaf use (">>, <<1, "lu as m1,">>, <<1, "lt as m2,">>, <<1, "lv as m3,">>,
                                      <<1, "nope">>, <<0, ")">>>>
      [] kind = "ml_op_paren"    -> <<<<0, "pz :: (">>, <<1, "2 * (">>, <<2, "1 + \"a\"">>, <<1, ")">>, <<0, ")">>>>
      [] kind = "ml_op_cond"     -> IF top
                                    THEN <<<<0, "pf :: fn do">>, <<1, "if (">>, <<2, "ga > 0 and">>, <<2, "1 < \"a\"">>,
                                           <<1, ") do">>, <<2, "ga">>, <<1, "end">>, <<0, "end">>>>
                                    ELSE <<<<0, "if (">>, <<1, "ga > 0 and">>, <<1, "1 < \"a\"">>, <<0, ") do">>, <<1, "ga">>,
                                           <<0, "end">>>>
      [] kind = "ml_const_lambda" -> <<<<0, "pz :: apply(fn do">>, <<1, "ga = 5">>, <<0, "end)">>>>
      [] kind = "conflict_block" -> <<<<0, "<<<<<<< HEAD">>, <<0, "pa :: 1">>, <<0, "=======">>, <<0, "pa :: 2">>,
                                      <<0, ">>>>>>> other">>>>
      \* two begin markers, a look-alike between them
      [] kind = "conflict_two"   -> <<<<0, "<<<<<<< HEAD">>, <<0, "pa :: \"<<<<<<< mine\"">>, <<0, "<<<<<<< other">>>>
      [] kind = "ml_dup_field_adj"  -> <<<<0, "Pb :: blob {">>, <<1, "x: int,">>, <<1, "x: str,">>, <<0, "}">>>>
      [] kind = "ml_dup_field_gap"  -> <<<<0, "Pb :: blob {">>, <<1, "x: int,">>, <<1, "y: int,">>, <<1, "x: str,">>,
                                         <<1, "z: int,">>, <<0, "}">>>>
      [] kind = "ml_dup_field_last" -> <<<<0, "Pb :: blob {">>, <<1, "x: int,">>, <<1, "y: int,">>, <<1, "z: int,">>,
                                         <<1, "x: str">>, <<0, "}">>>>
      [] kind = "ml_dup_field_col"  -> <<<<0, "Pb :: blob {">>, <<1, "x: int,">>, <<1, "y: int, x: str,">>, <<0, "}">>>>
      [] kind = "ml_dup_variant_adj"  -> <<<<0, "Pe :: enum">>, <<1, "Va,">>, <<1, "Va,">>, <<0, "end">>>>
      [] kind = "ml_dup_variant_gap"  -> <<<<0, "Pe :: enum">>, <<1, "Va,">>, <<1, "Vb int,">>, <<1, "Va str,">>, <<1, "Vc,">>,
                                           <<0, "end">>>>
      [] kind = "ml_dup_variant_last" -> <<<<0, "Pe :: enum">>, <<1, "Va">>, <<1, "Vb">>, <<1, "Vc">>, <<1, "Va">>, <<0, "end">>>>
      [] OTHER -> SL(kind, top)
Elem(kind, top) ==
    CASE kind \in {"ml_arg_paren"}  -> <<3, 0, "\"s\"">>
      [] kind = "ml_arg_prime"      -> <<2, 0, "\"s\"">>
      [] kind = "ml_arg_nested"     -> <<4, 0, "\"s\"">>
      [] kind \in {"ml_unres_arg", "ml_unres_list", "ml_unres_tuple"} -> <<3, 0, "nope">>
      [] kind = "ml_unres_blob"     -> <<3, 3, "nope">>
      [] kind = "ml_from_2nd"       -> <<3, 0, "nope">>
      [] kind = "ml_from_3rd"       -> <<4, 0, "nope">>
      [] kind = "ml_from_last"      -> <<5, 0, "nope">>
      [] kind = "ml_op_paren"       -> <<3, 0, "1 + \"a\"">>
      [] kind = "ml_op_cond"        -> <<IF top THEN 4 ELSE 3, 0, "1 < \"a\"">>
      [] kind = "ml_const_lambda"   -> <<2, 0, "ga = 5">>
      [] kind \in BlockKinds        -> <<1, 0, "<<<<<<< HEAD">>
      [] kind = "dup_field1"        -> <<1, 29, "x: str">>
      [] kind = "dup_variant1"      -> <<1, 23, "Va str">>
      [] kind = "ml_dup_field_adj"  -> <<3, 0, "x: str">>
      [] kind = "ml_dup_field_gap"  -> <<4, 0, "x: str">>
      [] kind = "ml_dup_field_last" -> <<5, 0, "x: str">>
      [] kind = "ml_dup_field_col"  -> <<3, 8, "x: str">>
      [] kind = "ml_dup_variant_adj"  -> <<3, 0, "Va">>
      [] kind = "ml_dup_variant_gap"  -> <<4, 0, "Va str">>
      [] kind = "ml_dup_variant_last" -> <<5, 0, "Va">>
      [] OTHER -> <<1, 0, Construct(kind, top)>>
\* the second offending element of a TwoKinds form
Elem2(kind, top) == <<3, 0, "<<<<<<< other">>

(* The line(s) a preceding-text shape puts directly before the planted line ('@' stands for any
   non-ASCII character).  "crlf" and "tabs" are whole-file styles, "none" adds nothing. *)
BaseLineShapes == {"ascii_comment", "nonascii_comment", "nonascii_string", "ml_string2", "ml_string3", "blank_lines"}
LineShapes == BaseLineShapes \cup Range(StrShapes) \cup Range(ComboShapes) \cup Range(MarkShapes)
Cmt == "// a plain comment: x :: ) $ break"
\* a string literal in one of the places a string can stand; an expression statement cannot stand at the top level,
\* there it is the body of a one-line function definition (like Construct)
WrapStr(pl, s, top) == CASE pl = "init" -> "s1 :: \"" \o s \o "\""
                         [] pl = "arg"  -> "s1 :: sid(\"" \o s \o "\")"
                         [] pl = "stmt" -> IF top THEN "sf1 :: fn do \"" \o s \o "\" end" ELSE "\"" \o s \o "\""
\* the source lines of a shape (a "line" holds the newlines of its literal); top: written at the top level
ShapeLines(shape, top) ==
    CASE shape = "ascii_comment"    -> <<Cmt>>
      [] shape = "nonascii_comment" -> <<"// kommentar @@@ @ @ @@">>
      [] shape = "nonascii_string"  -> <<"s1 :: \"gr@@e @ @ @@\"">>
      [] shape = "ml_string2"       -> <<WrapStr("init", StrText("two"), top)>>
      [] shape = "ml_string3"       -> <<WrapStr("init", StrText("three"), top)>>
      [] shape = "blank_lines"      -> <<"\n">>
      [] shape = "cmt_endnl"        -> <<Cmt, WrapStr("init", StrText("endnl"), top)>>
      [] shape = "cmt_startnl"      -> <<Cmt, WrapStr("init", StrText("startnl"), top)>>
      [] shape = "cmt_onlynl"       -> <<Cmt, WrapStr("init", StrText("onlynl"), top)>>
      [] shape = "endnl_cmt"        -> <<WrapStr("init", StrText("endnl"), top) \o " // trailing: x :: ) $">>
      [] shape = "nonascii_endnl"   -> <<"s1 :: \"gr@@e @ @ @@\n\"">>
      [] shape = "mk_lt_cmt"        -> <<"// after a merge look for \"<<<<<<< HEAD\" in here">>
      [] shape = "mk_lt_str"        -> <<WrapStr("init", "<<<<<<< HEAD", top)>>
      [] shape = "mk_lt_mlstr"      -> <<WrapStr("init", "first\n  <<<<<<< HEAD", top)>>
      [] shape = "mk_eq_mlstr"      -> <<WrapStr("init", "first\n=======\nsecond", top)>>
      [] shape = "mk_gt_mlstr"      -> <<WrapStr("init", "first\n>>>>>>> other", top)>>
      [] shape = "mk_eqgt_cmt"      -> <<"// =======", "// >>>>>>> other">>
      [] shape = "mk_lt_two"        -> <<"// <<<<<<< HEAD and <<<<<<<<<<<<<< again", WrapStr("init", "x <<<<<<< y", top)>>
      [] OTHER -> LET cp == PairOf(shape) IN <<WrapStr(cp[2], StrText(cp[1]), top)>>
\* the shape as text: every line indented by I and ended by a newline
ShapeText(shape, top, I) == LET ls == ShapeLines(shape, top) IN
    IF Len(ls) = 1 THEN I \o ls[1] \o NL ELSE I \o ls[1] \o NL \o I \o ls[2] \o NL

---------------------------------------------------------------------------
(* Text-derived expectation *)
InText(t, p, s) == p >= 1 /\ p + Len(s) - 1 <= Len(t) /\ Sub(t, p, Len(s)) = s

\* SyltLex!LastNLBefore, found by walking back from p instead of collecting every newline before p (the generator
\* model checks the two agree at every position: PrevNLAgrees)
RECURSIVE PrevNL(_, _)
PrevNL(t, p) == IF p <= 1 THEN 0 ELSE IF Ch(t, p - 1) = NL THEN p - 1 ELSE PrevNL(t, p - 1)

\* p is the first non-blank character of its line
LineStartOK(t, p) == AllIn(t, PrevNL(t, p) + 1, p - 1, Blank)

Indent(t, p) == SubSeq(t, PrevNL(t, p) + 1, p - 1)

IsTop(c) == c.pos \in TopPos

\* The form as text: lines a..b, every line indented by I and its level times the unit U and ended by E; the
\* indentation of line 1 is left out (the form start fs points behind it).
Units == {"    ", "\t"}
Ends == {NL, "\r\n"}
Rep(U, n) == CASE n = 0 -> "" [] n = 1 -> U [] n = 2 -> U \o U [] n = 3 -> U \o U \o U
RECURSIVE FormSeg(_, _, _, _, _, _)
FormSeg(fl, a, b, I, U, E) ==
    IF a > b THEN ""
    ELSE (IF a = 1 THEN "" ELSE I \o Rep(U, fl[a][1])) \o fl[a][2] \o E \o FormSeg(fl, a + 1, b, I, U, E)
\* characters from the form start to the offending element
ElemOff(fl, el, I, U, E) ==
    IF el[1] = 1 THEN el[2]
    ELSE Len(FormSeg(fl, 1, el[1] - 1, I, U, E)) + Len(I) + fl[el[1]][1] * Len(U) + el[2]

\* the form start fs is line-initial, the whole planted form stands there (its lines alone on their lines) and the
\* marker p points at the offending element inside it
\* (p2: the second offending element of a TwoKinds form, 0 for every other kind)
MarkerOK(c, t, p, fs, p2) ==
    LET fl == FormLines(c.kind, IsTop(c)) el == Elem(c.kind, IsTop(c)) I == Indent(t, fs) IN
    /\ fs >= 1 /\ fs <= p /\ LineStartOK(t, fs)
    /\ \E U \in Units, E \in Ends :
          /\ InText(t, fs, FormSeg(fl, 1, Len(fl), I, U, E))
          /\ p = fs + ElemOff(fl, el, I, U, E)
          /\ IF c.kind \in TwoKinds THEN p2 = fs + ElemOff(fl, Elem2(c.kind, IsTop(c)), I, U, E) ELSE p2 = 0
    /\ InText(t, p, el[3])
    /\ c.kind \in TwoKinds => InText(t, p2, Elem2(c.kind, IsTop(c))[3]) /\ LineOf(t, p2) > LineOf(t, p)
    /\ (c.kind \in MLKinds) = (\E q \in fs..(p - 1) : Ch(t, q) = NL)      \* the element is on a later line than fs

\* spellings that define the duplicated name (the planted one and the one already in the template)
DefSpellings(kind) == CASE kind = "dup_global" -> {"ga :: "}
                        [] kind = "dup_import" -> {"leaf :: ", "use /leaf"}
                        [] kind = "dup_from_import" -> {"lw :: ", "from /leaf use lv as lw"}
                        [] kind = "dup_use_use"   -> {"use /twin as leaf", "use /leaf"}
                        [] kind = "dup_from_from" -> {"from /twin use lv as lw", "from /leaf use lv as lw"}
                        [] kind = "dup_from_use"  -> {"from /twin use lv as leaf", "use /leaf"}
                        [] kind = "dup_use_from"  -> {"use /twin as lw", "from /leaf use lv as lw"}
                        [] kind \in DDKinds       -> {OrigName(DDPair(kind)[2]) \o " :: "}
                        [] kind \in DIKinds       -> {PlantImp(DIPair(kind)[1], OrigName(DIPair(kind)[2])),
                                                      OrigName(DIPair(kind)[2]) \o " :: "}
                        [] OTHER               -> {}

Sites(t, kind) == LET sp == DefSpellings(kind) first == {Ch(s, 1) : s \in sp} IN
                  {q \in 1..Len(t) : /\ Ch(t, q) \in first              \* (cheap conjunct first)
                                     /\ \E s \in sp : InText(t, q, s)
                                     /\ LineStartOK(t, q)}

OffendingPos(c, t, p) == IF DefSpellings(c.kind) = {} THEN p ELSE SetMax(Sites(t, c.kind) \cup {p})

\* both introductions stand in the case's file, whatever modules the names come from
ExpectedFile(c) == PathOf(c.file)
ExpectedLine(c, t, p) == LineOf(t, OffendingPos(c, t, p))

\* how an observation (result class, first error's file and line) relates to the expected file and line el
Verdict(c, el, res, efile, eline) ==
    CASE res = "ok"              -> "accepted"
      [] res = "panic"           -> "panic"
      [] efile # ExpectedFile(c) -> "other-file"
      [] eline < el              -> "earlier"
      [] eline > el              -> "later"
      [] OTHER                   -> "conforms"
\* the second error against the second offending element (line el2) of a TwoKinds form
Verdict2(c, el2, efile2, eline2) ==
    CASE eline2 = 0               -> "second-missing"
      [] efile2 # ExpectedFile(c) -> "second-other-file"
      [] eline2 < el2             -> "second-earlier"
      [] eline2 > el2             -> "second-later"
      [] OTHER                    -> "conforms"

\* the text before the marker has the shape the case names
\* (p: the start of the planted form)
ShapeOK(c, t, p) ==
    LET I == Indent(t, p) IN
    CASE c.shape \in LineShapes ->
            LET S == ShapeText(c.shape, IsTop(c), I) \o I IN InText(t, p - Len(S), S)
      [] c.shape = "crlf" -> \A q \in 1..Len(t) : Ch(t, q) = NL => (q > 1 /\ Ch(t, q - 1) = "\r")
      [] c.shape = "tabs" -> /\ \A q \in 1..(Len(t) - 1) : Ch(t, q) = NL => Ch(t, q + 1) # " "
                             /\ \E q \in 1..Len(t) : Ch(t, q) = "\t"
      [] OTHER -> \A q \in 1..Len(t) : Ch(t, q) \notin {"\r", "\t", "@"}

\* the colliding `from .. use` statement of a FromKinds case: the later one if there are two
RefPos(c, t) == SetMax({q \in Sites(t, c.kind) : InText(t, q, "from /")})
\* the line on which a module text (leaf.sy, twin.sy) defines lv
DefLineIn(mt) == LineOf(mt, CHOOSE q \in 1..Len(mt) : InText(mt, q, "lv :: ") /\ LineStartOK(mt, q))
\* the imported modules are laid out as the case's rel says (lt, tt: texts of leaf.sy and twin.sy)
RelOK(c, t, lt, tt) ==
    LET dl == DefLineIn(lt) IN
    /\ DefLineIn(tt) = dl
    /\ IF c.kind \in FromKinds
       THEN LET rl == LineOf(t, RefPos(c, t)) IN
            CASE c.rel = "def_earlier" -> dl = 1 /\ (dl < rl \/ rl = 1)   \* (an import on line 1 has nothing earlier)
              [] c.rel = "def_equal"   -> dl = rl
              [] c.rel = "def_later"   -> dl > rl
       ELSE c.rel = "def_earlier" /\ dl = 1

---------------------------------------------------------------------------
(* Generator model: walk the spec's own sample texts with a running counter and compare it with the
   text-derived line index in every state (the counter exists only here). *)
Indents == {"", "    ", "\t\t"}
Sample(I, s, kd, top, e) == LET ls == ShapeLines(s, top) IN
    (IF Len(ls) = 1 THEN I \o ls[1] \o e ELSE I \o ls[1] \o e \o I \o ls[2] \o e)
        \o I \o Construct(kd, top) \o e \o "end" \o e
SampleKinds == {"syn_rparen", "const_global", "dup_from_from"}     \* for the newer shapes (the construct matters little here)
\* (of the 16 duplicate definitions one per planted kind)
OneLineSampleKinds == ((Range(Kinds) \ MultiKinds) \ {DDName(pf, of) : pf \in Range(DefForms), of \in {"val", "fn", "enum"}})
                          \ {DIName(im, of) : im \in Range(ImpForms), of \in {"val", "fn", "enum"}}
SLSampleTexts ==
    {Sample(I, s, kd, top, e) : I \in Indents, s \in BaseLineShapes, kd \in OneLineSampleKinds, top \in BOOLEAN, e \in Ends}
    \cup {Sample(I, s, kd, top, e) : I \in Indents, s \in LineShapes \ BaseLineShapes, kd \in SampleKinds,
                                     top \in BOOLEAN, e \in Ends}
\* the multi-line forms, in every indentation, unit and line end
MLSampleTexts ==
    {I \o FormSeg(FormLines(kd, top), 1, Len(FormLines(kd, top)), I, U, e) :
        I \in Indents, U \in Units, kd \in MultiKinds, top \in BOOLEAN, e \in Ends}
SampleTexts == SLSampleTexts \cup MLSampleTexts

DiagInit == /\ text \in SampleTexts
            /\ pos = 1 /\ toks = <<>> /\ ln = 1

DiagStep == /\ pos <= Len(text)
            /\ pos' = pos + 1
            /\ ln' = IF Ch(text, pos) = NL THEN ln + 1 ELSE ln
            /\ UNCHANGED <<text, toks>>

DiagSpec == DiagInit /\ [][DiagStep]_diagvars

LineAgrees == ln = LineOf(text, pos)
PrevNLAgrees == PrevNL(text, pos) = LastNLBefore(text, pos)
ColSane == /\ ColOf(text, pos) >= 1
           /\ (pos > 1 /\ Ch(text, pos - 1) = NL) => ColOf(text, pos) = 1
           /\ (pos > 1 /\ Ch(text, pos - 1) # NL) => LineOf(text, pos) = LineOf(text, pos - 1)

\* the line of p counted as the number of line starts up to p (a second formulation next to SyltLex!LineOf, which
\* counts the newlines before p; the trace model compares the two on every recorded text)
LineByStarts(t, p) == Cardinality({q \in 1..p : q = 1 \/ Ch(t, q - 1) = NL})

RECURSIVE CountNL(_, _)
CountNL(t, n) == IF n = 0 THEN 0 ELSE CountNL(t, n - 1) + (IF Ch(t, n) = NL THEN 1 ELSE 0)

\* the sample's planted construct sits where counting newlines says it does
SampleMarker(t) == CHOOSE p \in 2..Len(t) :
                        /\ Ch(t, p) \notin Blank \cup {NL} /\ LineStartOK(t, p)      \* (cheap conjuncts first)
                        /\ \E kd \in OneLineSampleKinds, top \in BOOLEAN :
                              InText(t, p, Construct(kd, top) \o NL) \/ InText(t, p, Construct(kd, top) \o "\r\n")
SampleLineOK == (pos = 1 /\ text \in SLSampleTexts) => LET p == SampleMarker(text) IN LineOf(text, p) = 1 + CountNL(text, p - 1)

(* The universe is well formed: every dimension value occurs in an applicable case, cases are pairwise
   different, every construct is one line, multi-line shapes span exactly the lines they claim. *)
NLs(s) == CountNL(s, Len(s))
\* the ways a literal's content can span lines
StrClasses == {"ends_nl", "starts_nl", "only_nl", "blank_inside", "crlf_inside", "ends_crlf", "text_last"}
ClassOf(s) == LET n == Len(s) IN
    {cl \in StrClasses :
        CASE cl = "ends_nl"      -> Ch(s, n) = NL
          [] cl = "starts_nl"    -> Ch(s, 1) = NL
          [] cl = "only_nl"      -> \A q \in 1..n : Ch(s, q) = NL
          [] cl = "blank_inside" -> \E q \in 2..(n - 2) : Ch(s, q) = NL /\ Ch(s, q + 1) = NL
          [] cl = "crlf_inside"  -> \E q \in 2..(n - 2) : Ch(s, q) = "\r" /\ Ch(s, q + 1) = NL
          [] cl = "ends_crlf"    -> n >= 2 /\ Ch(s, n - 1) = "\r" /\ Ch(s, n) = NL
          [] cl = "text_last"    -> Ch(s, n) # NL /\ NLs(s) > 0}
\* shapes one of whose literals has a newline directly before its closing quote (told to the check for its controls)
NLBeforeQuote(l) == \E q \in 2..Len(l) : Ch(l, q) = DQ /\ Ch(l, q - 1) = NL
EndsNLShapes == {s \in LineShapes : \E l \in Range(ShapeLines(s, TRUE)) : NLBeforeQuote(l)}
MultiLineStringShapes == {s \in LineShapes \ {"blank_lines"} : \E l \in Range(ShapeLines(s, TRUE)) : NLs(l) > 0}
ContentNLs(ct) == CASE ct \in {"two", "endnl", "startnl", "crlfmid", "crlfend"} -> 1 [] OTHER -> 2
ApplicableCases == {Case(i) : i \in ApplicableIdx}
MkLt == "<<<<<<<"
MkEq == "======="
MkGt == ">>>>>>>"
Occurs(l, w) == {q \in 1..Len(l) : InText(l, q, w)}
IsCmt(l) == InText(l, 1, "//")
\* shapes that hold the begin marker (where it is no conflict): told to the check for its control (g)
LtDecoyShapes == {sh \in LineShapes : \E l \in Range(ShapeLines(sh, TRUE)) : Occurs(l, MkLt) # {}}
\* the declared name an element begins with (up to the first character that is not a letter), and the places
\* <<line of the form, column>> where a form writes that name as a whole word
Letters == {"a", "b", "c", "d", "e", "f", "g", "h", "i", "j", "k", "l", "m", "n", "o", "p", "q", "r", "s", "t", "u", "v",
            "w", "x", "y", "z", "A", "B", "C", "D", "E", "F", "G", "H", "I", "J", "K", "L", "M", "N", "O", "P", "Q", "R",
            "S", "T", "U", "V", "W", "X", "Y", "Z"}
DeclName(e) == LET n == CHOOSE d \in 1..Len(e) : /\ \A j \in 1..d : Ch(e, j) \in Letters
                                                  /\ (d = Len(e) \/ Ch(e, d + 1) \notin Letters)
               IN SubSeq(e, 1, n)
Writings(fl, nm) == {w \in (1..Len(fl)) \X (1..40) :
                        /\ InText(fl[w[1]][2], w[2], nm)
                        /\ (w[2] = 1 \/ Ch(fl[w[1]][2], w[2] - 1) \notin Letters)
                        /\ (w[2] + Len(nm) > Len(fl[w[1]][2]) \/ Ch(fl[w[1]][2], w[2] + Len(nm)) \notin Letters)}
UniverseOK ==
    /\ \A kd \in Range(Kinds)  : \E c \in ApplicableCases : c.kind = kd
    /\ \A f \in Range(Files)   : \E c \in ApplicableCases : c.file = f
    /\ {<<c.kind, c.file>> : c \in ApplicableCases} = Range(Kinds) \X Range(Files)
    /\ \A q \in Range(Poss)    : \E c \in ApplicableCases : c.pos = q
    /\ {<<c.shape, c.kind>> : c \in ApplicableCases} = Range(Shapes) \X Range(Kinds)
    /\ Cardinality({Case(i) : i \in 1..NCases}) = NCases /\ Cardinality(ApplicableCases) = Cardinality(ApplicableIdx)
    /\ Cardinality(Range(Kinds)) = NK /\ Cardinality(Range(Shapes)) = NS
    \* every form line is one line, the element is spelled where Elem says; the multi-line kinds - and only they - have
    \* their element on a later line than the form's first line; forms are pairwise different
    /\ \A kd \in Range(Kinds), top \in BOOLEAN :
          LET fl == FormLines(kd, top) el == Elem(kd, top) IN
          /\ Len(fl) >= 1 /\ fl[1][1] = 0 /\ el[1] \in 1..Len(fl) /\ Len(el[3]) > 0
          /\ \A j \in 1..Len(fl) : Len(fl[j][2]) > 0 /\ NLs(fl[j][2]) = 0 /\ fl[j][1] \in 0..3
          /\ InText(fl[el[1]][2], el[2] + 1, el[3])
          /\ (kd \in MLKinds) = (el[1] > 1)
          /\ (kd \in MultiKinds) = (Len(fl) > 1)
          /\ kd \notin MultiKinds \cup DeclKinds => el[2] = 0 /\ el[3] = fl[1][2]
          /\ kd \in TwoKinds => LET e2 == Elem2(kd, top) IN
                                 e2[1] \in (el[1] + 1)..Len(fl) /\ InText(fl[e2[1]][2], e2[2] + 1, e2[3])
    /\ Cardinality({FormLines(kd, FALSE) : kd \in Range(Kinds)}) = NK
    /\ MLKinds \subseteq Range(Kinds) /\ MLFromKinds \subseteq MLKinds /\ MLKinds \cap DupKinds = {}
    /\ BlockKinds \subseteq Range(Kinds) /\ BlockKinds \cap MLKinds = {} /\ TwoKinds \subseteq BlockKinds
    /\ DeclKinds \subseteq Range(Kinds) /\ DeclKinds \cap DupKinds = {} /\ ConflictKinds \subseteq Range(Kinds)
    \* duplicate definitions: every ordered pair of kinds of definition is a kind of the universe, the planted definition
    \* is of the first kind and bears the name the templates define with the second kind; at a first and at a later
    \* top-level position, so each pair of kinds is written in both orders
    /\ \A pf \in Range(DefForms), of \in Range(DefForms) :
          /\ DDName(pf, of) \in Range(Kinds) /\ DDPair(DDName(pf, of)) = <<pf, of>>
          /\ Construct(DDName(pf, of), TRUE) = PlantDef(pf, OrigName(of))
          /\ \A q \in TopPos, f \in Range(Files), sh \in Range(Shapes) :
                [kind |-> DDName(pf, of), file |-> f, pos |-> q, shape |-> sh, rel |-> "def_earlier"] \in ApplicableCases
    /\ \A im \in Range(ImpForms), of \in Range(DefForms) :
          /\ DIName(im, of) \in Range(Kinds) /\ DIPair(DIName(im, of)) = <<im, of>>
          /\ Construct(DIName(im, of), TRUE) = PlantImp(im, OrigName(of))
          /\ \A q \in TopPos, f \in Range(Files), sh \in Range(Shapes) :
                [kind |-> DIName(im, of), file |-> f, pos |-> q, shape |-> sh, rel |-> "def_earlier"] \in ApplicableCases
    /\ Cardinality(DIKinds) = NIF * NDF /\ DIKinds \cap FromKinds = {}
    /\ Cardinality(DDKinds) = NDF * NDF /\ Cardinality({OrigName(of) : of \in Range(DefForms)}) = NDF
    /\ Cardinality({PlantDef(pf, "N") : pf \in Range(DefForms)}) = NDF
    \* a name declared twice inside one declaration: the element is the LAST of exactly two writings of its name in the
    \* form; on the line of the first writing (one-line forms, _col has other text before it), directly after it, with
    \* declarations between, as the last declaration
    /\ \A kd \in DeclKinds, top \in BOOLEAN :
          LET fl == FormLines(kd, top) el == Elem(kd, top) ws == Writings(fl, DeclName(el[3])) IN
          /\ Cardinality(ws) = 2 /\ <<el[1], el[2] + 1>> \in ws
          /\ \A w \in ws : w[1] < el[1] \/ (w[1] = el[1] /\ w[2] <= el[2] + 1)
    /\ \E kd \in DeclKinds : Elem(kd, TRUE)[1] = 1 /\ Elem(kd, TRUE)[2] > 0
    /\ \E kd \in DeclKinds : Elem(kd, TRUE)[1] > 1 /\ Elem(kd, TRUE)[2] > 0
    /\ \E kd \in DeclKinds : Elem(kd, TRUE)[1] = Len(FormLines(kd, TRUE)) - 1
    \* conflict markers: each of the three markers alone is a kind; a block's element is its first line
    /\ {Construct(kd, TRUE) : kd \in {"conflict", "conflict_eq", "conflict_gt"}} = {"<<<<<<< HEAD", "=======", ">>>>>>> other"}
    /\ \A kd \in BlockKinds, top \in BOOLEAN : InText(FormLines(kd, top)[1][2], 1, MkLt)
    \* marker look-alikes: never the begin marker at the start of a line (that would be a conflict), but the begin marker
    \* in a comment, in a literal's first line and on a continuation line of a literal; the other two markers in comments
    \* and at the start of a line inside a literal; two look-alikes in one shape
    /\ \A sh \in Range(MarkShapes), top \in BOOLEAN : \A l \in Range(ShapeLines(sh, top)) :
          /\ ~InText(l, 1, MkLt) /\ Occurs(l, NL \o MkLt) = {}
          /\ Occurs(l, MkLt) \cup Occurs(l, MkEq) \cup Occurs(l, MkGt) # {}
    /\ \A top \in BOOLEAN :
          /\ \E sh \in Range(MarkShapes) : \E l \in Range(ShapeLines(sh, top)) : IsCmt(l) /\ Occurs(l, MkLt) # {}
          /\ \E sh \in Range(MarkShapes) : \E l \in Range(ShapeLines(sh, top)) : ~IsCmt(l) /\ NLs(l) = 0 /\ Occurs(l, MkLt) # {}
          /\ \E sh \in Range(MarkShapes) : \E l \in Range(ShapeLines(sh, top)) :
                \E q \in Occurs(l, MkLt) : CountNL(l, q) > 0
          /\ \A mk \in {MkEq, MkGt} :
                /\ \E sh \in Range(MarkShapes) : \E l \in Range(ShapeLines(sh, top)) : IsCmt(l) /\ Occurs(l, mk) # {}
                /\ \E sh \in Range(MarkShapes) : \E l \in Range(ShapeLines(sh, top)) : Occurs(l, NL \o mk) # {}
          /\ \E sh \in Range(MarkShapes) : Cardinality(UNION {Occurs(l, MkLt) : l \in Range(ShapeLines(sh, top))}) >= 2
    /\ LtDecoyShapes \subseteq Range(MarkShapes) /\ Cardinality(LtDecoyShapes) >= 3 /\ Range(MarkShapes) \ LtDecoyShapes # {}
    \* elements at the 2nd, 3rd and a later, last line of a form; some followed by further elements, some not
    /\ {2, 3, 4, 5} \subseteq {Elem(kd, FALSE)[1] : kd \in MLKinds}
    /\ \E kd \in MLKinds : Elem(kd, FALSE)[2] > 0
    /\ NLs(ShapeLines("ml_string2", TRUE)[1]) = 1 /\ NLs(ShapeLines("ml_string3", TRUE)[1]) = 2
    /\ NLs(ShapeLines("blank_lines", TRUE)[1]) = 1
    /\ \A s \in BaseLineShapes \ {"ml_string2", "ml_string3", "blank_lines"} : NLs(ShapeLines(s, TRUE)[1]) = 0
    /\ LineShapes \subseteq Range(Shapes) /\ Range(Shapes) \ LineShapes = {"none", "crlf", "tabs"}
    /\ \A s \in LineShapes, top \in BOOLEAN : Len(ShapeLines(s, top)) \in {1, 2}
    \* every duplicate kind has two different spellings of the name's introductions, the planted one among them
    /\ \A kd \in DupKinds : /\ Cardinality(DefSpellings(kd)) \in {1, 2}
                             /\ (\E sp \in DefSpellings(kd) : InText(Construct(kd, TRUE), 1, sp))
                             /\ (\A sq \in DefSpellings(kd), m \in MultiKinds, top \in BOOLEAN :
                                   \A j \in 1..Len(FormLines(m, top)) : ~InText(FormLines(m, top)[j][2], 1, sq))
    /\ \A kd \in Range(Kinds) \ DupKinds : DefSpellings(kd) = {}
    /\ FromKinds \subseteq DupKinds
    \* the cross-file dimension: every layout x every from-import duplicate x every file x every top-level position
    /\ \A r \in Range(Rels), kd \in FromKinds, f \in Range(Files), q \in TopPos, s \in Range(Shapes) :
          [kind |-> kd, file |-> f, pos |-> q, shape |-> s, rel |-> r] \in ApplicableCases
    /\ \A c \in ApplicableCases : c.kind \notin FromKinds => c.rel = "def_earlier"
    \* the string-shape dimension: every content spans the lines it claims, every class of line-spanning content
    \* occurs in every place a string can stand, and each such shape is in the universe
    /\ \A ct \in Range(Contents) : NLs(StrText(ct)) = ContentNLs(ct)
    /\ \A cl \in StrClasses, pl \in Range(StrPlaces) :
          \E ct \in Range(Contents) : cl \in ClassOf(StrText(ct)) /\ ShapeFor(ct, pl) \in Range(Shapes)
    /\ \A ct \in Range(Contents), pl \in Range(StrPlaces), top \in BOOLEAN :
          /\ ShapeFor(ct, pl) \in LineShapes
          /\ ShapeLines(ShapeFor(ct, pl), top) = <<WrapStr(pl, StrText(ct), top)>>
    /\ \A s \in {"cmt_endnl", "cmt_startnl", "cmt_onlynl"}, top \in BOOLEAN :
          LET ls == ShapeLines(s, top) IN Len(ls) = 2 /\ Sub(ls[1], 1, 2) = "//" /\ NLs(ls[1]) = 0 /\ NLs(ls[2]) > 0
    /\ {"cmt_endnl", "cmt_onlynl", "endnl_cmt", "nonascii_endnl"} \subseteq EndsNLShapes
    /\ \A pl \in Range(StrPlaces) : {ShapeFor(ct, pl) : ct \in {"endnl", "onlynl", "endnl2", "crlfend"}} \subseteq EndsNLShapes
    /\ {"ml_string2", "ml_string3", "str_startnl_init", "str_blankmid_arg", "str_crlfmid_stmt"} \cap EndsNLShapes = {}
=============================================================================
