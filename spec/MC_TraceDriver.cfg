SPECIFICATION TraceSpec
CONSTANTS
  MaxErrs = 1024
  Faulty <- MCFalse
  StrictSink <- MCStrictSink
INVARIANTS TraceInv TraceTotal
CHECK_DEADLOCK FALSE
