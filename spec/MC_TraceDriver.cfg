SPECIFICATION TraceSpec
CONSTANTS
  MaxErrs = 16
  Faulty <- MCFalse
INVARIANTS TraceInv TraceTotal
CHECK_DEADLOCK FALSE
