SPECIFICATION TraceSpec
CONSTANTS
  MaxErrs = 16
  Faulty <- MCFalse
  StrictSink <- MCStrictSink
INVARIANTS TraceInv TraceTotal
CHECK_DEADLOCK FALSE
