------------------------------- MODULE SyltAst -------------------------------
(***************************************************************************)
(* Constructors of the core-Sylt AST shared by the specification modules,  *)
(* the printer (harness/src/printer.rs) and the JSON case files.  Every    *)
(* node is a record tagged with k; JSON objects map to records, arrays to  *)
(* sequences.  Binders carry a unique integer id b; uses refer to it.      *)
(* A name hint n ("" = let the printer choose) only matters for globals    *)
(* the program text must call by a fixed name (start).                     *)
(***************************************************************************)
EXTENDS Naturals, Integers, Sequences

(* types *)
TInt == [k |-> "tint"]
TFloat == [k |-> "tfloat"]
TStr == [k |-> "tstr"]
TBool == [k |-> "tbool"]
TVoid == [k |-> "tvoid"]
TNone == [k |-> "tnone"]   \* no annotation possible/known
TTuple(es) == [k |-> "ttuple", es |-> es]
TList(e) == [k |-> "tlist", e |-> e]
TFn(ps, r) == [k |-> "tfn", ps |-> ps, r |-> r]
TName(n) == [k |-> "tname", n |-> n]

(* expressions *)
I(n) == [k |-> "int", v |-> n]
Fl(n, d) == [k |-> "float", n |-> n, d |-> d]          \* n / 2^d
St(s) == [k |-> "str", v |-> s]
Bo(b) == [k |-> "bool", v |-> b]
Nil == [k |-> "nil"]
IBig(text) == [k |-> "raw", text |-> text, num |-> "int"]   \* a decimal int literal beyond TLC's 32-bit integers (<= 2^63 - 1)
FInfLit(text) == [k |-> "raw", text |-> text, num |-> "inf"] \* a float literal beyond the largest double
FBig(n, e) == [k |-> "fbig", n |-> n, e |-> e]               \* the float literal n * 2^e, e >= 1
Paren(e) == [k |-> "paren", e |-> e]                         \* redundant parentheses (only where they could matter)
V(b) == [k |-> "var", b |-> b]
Std(name) == [k |-> "std", name |-> name]
Self == [k |-> "self"]
Bin(op, l, r) == [k |-> "bin", op |-> op, l |-> l, r |-> r]
Un(op, a) == [k |-> "un", op |-> op, a |-> a]
ArmC(c, body) == [els |-> FALSE, c |-> c, body |-> body]
ArmE(body) == [els |-> TRUE, body |-> body]
If(arms) == [k |-> "if", arms |-> arms]
If2(c, a, b) == If(<<ArmC(c, a), ArmE(b)>>)
If1(c, a) == If(<<ArmC(c, a)>>)
CArm(v, body) == [v |-> v, bind |-> FALSE, b |-> 0, body |-> body]
CArmB(v, b, body) == [v |-> v, bind |-> TRUE, b |-> b, body |-> body]
CaseT(e, arms) == [k |-> "case", e |-> e, arms |-> arms, hasels |-> FALSE, els |-> <<>>]
CaseE(e, arms, els) == [k |-> "case", e |-> e, arms |-> arms, hasels |-> TRUE, els |-> els]
P(b, ty) == [b |-> b, ty |-> ty]
Fn(params, ret, body) == [k |-> "fn", pure |-> FALSE, params |-> params, ret |-> ret, body |-> body]
Pu(params, ret, body) == [k |-> "fn", pure |-> TRUE, params |-> params, ret |-> ret, body |-> body]
Call(f, args) == [k |-> "call", f |-> f, args |-> args]
Tup(es) == [k |-> "tuple", es |-> es]
Lst(es) == [k |-> "list", es |-> es]
FI(f, e) == [f |-> f, e |-> e]
BlobL(name, fields) == [k |-> "blob", name |-> name, fields |-> fields]
Fld(e, f) == [k |-> "fld", e |-> e, f |-> f]
Idx(e, i) == [k |-> "idx", e |-> e, i |-> i]
Var1(enum, v, e) == [k |-> "variant", enum |-> enum, v |-> v, has |-> TRUE, e |-> e]
Var0(enum, v) == [k |-> "variant", enum |-> enum, v |-> v, has |-> FALSE]

(* statements *)
DefC(b, ty, e) == [k |-> "def", b |-> b, kind |-> "const", ty |-> ty, e |-> e, n |-> ""]
DefM(b, ty, e) == [k |-> "def", b |-> b, kind |-> "mut", ty |-> ty, e |-> e, n |-> ""]
DefN(b, kind, ty, e, n) == [k |-> "def", b |-> b, kind |-> kind, ty |-> ty, e |-> e, n |-> n]
Asg(op, t, e) == [k |-> "asg", op |-> op, t |-> t, e |-> e]
Loop(c, body) == [k |-> "loop", c |-> c, body |-> body]
Break == [k |-> "break"]
Cont == [k |-> "continue"]
Ret(e) == [k |-> "ret", has |-> TRUE, e |-> e]
Ret0 == [k |-> "ret", has |-> FALSE]
Block(body) == [k |-> "block", body |-> body]
Ex(e) == [k |-> "expr", e |-> e]
Unreach == [k |-> "unreach"]

(* top-level declarations *)
EnumD(name, variants) == [k |-> "enum", name |-> name, variants |-> variants]    \* variants: <<[v, has, ty]>>
VD1(v, ty) == [v |-> v, has |-> TRUE, ty |-> ty]
VD0(v) == [v |-> v, has |-> FALSE]
BlobD(name, fields) == [k |-> "blobdecl", name |-> name, fields |-> fields]      \* fields: <<[f, ty]>>
FD(f, ty) == [f |-> f, ty |-> ty]

Print(e) == Ex(Call(Std("print"), <<e>>))
IIFE(ret, body) == Call(Fn(<<>>, ret, body), <<>>)
=============================================================================
