SPECIFICATION Spec
CONSTANTS
  MaxErrs = 3
  Faulty <- MCFalse
INVARIANTS DriverContract Progress Bounded Emit
CHECK_DEADLOCK FALSE
