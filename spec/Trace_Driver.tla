---------------------------- MODULE Trace_Driver ----------------------------
(***************************************************************************)
(* Trace validation for C20.  The recorder (harness/src/bin/c20.rs) ran    *)
(* the built `sylt` binary once per configuration and wrote one record of  *)
(* raw facts per run (exit code, lengths / digests / common-prefix lengths *)
(* of stdout, of the chunk the child `lua` received and of FILE before and *)
(* after, the rendered error headings, the `require` sites, and the same   *)
(* facts for the reference: the library API on the same files).            *)
(*                                                                         *)
(* Record k is validated independently (Init ranges over all k).  TLC      *)
(* re-derives the configuration from the index (a record carrying another  *)
(* one is a tool error), replays SyltDriver's actions for it - the only    *)
(* choice, the number of compile errors, is bound by the recording - with  *)
(* the contract evaluated in every state, derives the observation classes  *)
(* from the raw facts and compares them with the final spec state.  The    *)
(* relational clauses (same bytes on every sink and for every spelling,    *)
(* exactly one require in front of the unchanged program, --no-std         *)
(* neutral for std-free programs) compare record k with partner records    *)
(* found by index arithmetic.  A non-conforming record goes to st = "fail" *)
(* and prints one REJECT line; those lines are the check's verdicts.       *)
(***************************************************************************)
EXTENDS SyltDriver, Json, IOUtils

VARIABLES k,      \* index of the record being validated
          st      \* "run" | "ok" | "fail"

tvars == <<cfg, pc, fs, chunk, soprog, sorun, errs, printed, exit, hist, streams, k, st>>

Rec == ndJsonDeserialize(IOEnv.TRACE)
N == Len(Rec)
Num(s) == CHOOSE n \in 0..64 : ToString(n) = s
NV == Num(IOEnv.V)                  \* program variants per class
NS == Num(IOEnv.S)                  \* command-line spellings per configuration
\* The property's words: non-zero exit, every error printed, nothing half-written. A panic message that names the
\* failure is a printed error under this reading; PANIC_OK = "0" makes the check strict about it.
PanicIsDiagnostic == IOEnv.PANIC_OK = "1"

---------------------------------------------------------------------------
(* Index arithmetic: idx = 1 + base + NBase * (v + NV * spell) *)
Base(i)  == (i - 1) % NBase
Var(i)   == ((i - 1) \div NBase) % NV
Spell(i) == (i - 1) \div (NBase * NV)
Case(i)  == CaseBase(Base(i))
Idx(b, v, sp) == 1 + b + NBase * (v + NV * sp)

FileAbsentSink == 3                 \* Sinks[3] = -o FILE, FILE absent
\* same program and flags, written to an absent FILE with the canonical spelling
Canon(i) == LET c == Case(i) IN Idx(BaseIndex(FileAbsentSink, ReqNo(c), c.nostd, ProgNo(c), c.std), Var(i), 0)
\* ... and without --require
NoReq(i) == LET c == Case(i) IN Idx(BaseIndex(FileAbsentSink, 0, c.nostd, ProgNo(c), c.std), Var(i), 0)
\* same everything, --no-std toggled
Flip(i)  == LET c == Case(i) IN Idx(BaseIndex(SinkNo(c), ReqNo(c), ~c.nostd, ProgNo(c), c.std), Var(i), Spell(i))

---------------------------------------------------------------------------
(* Observation classes, derived from the raw facts *)
RefOk(r) == r.ref.class = "ok"

ObsExit(r) == IF r.exit = 0 THEN "zero" ELSE "nonzero"

ObsFs(r) ==
    LET a == r.after  b == r.before IN
    IF r.cfg.mode # "file" THEN (IF a.k = "absent" THEN "none" ELSE "other")
    ELSE CASE a.k = "absent" -> "absent"
           [] a.k = "nofile" -> "none"             \* FILE = /dev/stdout: there is no file to look at, the bytes are on stdout
           [] a.k = "fifo" ->                      \* len / digest / lcp: what the reader at the other end received
                IF a.len = 0 THEN "fifo"
                ELSE IF RefOk(r) /\ a.digest = r.ref.lua_digest /\ a.len = r.ref.lua_len THEN "complete"
                ELSE IF a.lcp = a.len THEN "partial" ELSE "other"
           [] a.k = "noparent" -> "noparent"
           [] a.k = "dir" -> IF b.k = "dir" /\ a.digest = b.digest THEN "dir" ELSE "other"
           [] a.k = "device" -> "device"
           [] OTHER ->
                IF b.k = "file" /\ a.digest = b.digest /\ a.len = b.len THEN "old"
                ELSE IF RefOk(r) /\ a.digest = r.ref.lua_digest /\ a.len = r.ref.lua_len THEN "complete"
                ELSE IF a.lcp = a.len /\ (~RefOk(r) \/ a.len < r.ref.lua_len) THEN "partial"   \* a proper prefix (or emptied)
                ELSE "other"

ObsSoProg(r) == IF RefOk(r) /\ r.so.lcp_lua = r.ref.lua_len /\ r.so.len = r.ref.lua_len THEN "complete"
                ELSE IF r.so.lcp_lua >= 16 \/ r.so.markers > 0 THEN "partial"
                ELSE "none"

ObsChunk(r) == IF ~r.lua.started THEN "none"
               ELSE IF r.lua.chunk_len = 0 THEN "empty"
               ELSE IF RefOk(r) /\ r.lua.chunk_digest = r.ref.lua_digest /\ r.lua.chunk_len = r.ref.lua_len THEN "complete"
               ELSE "partial"

\* Was the program executed?  The property speaks of execution, not of what the command prints around it: the
\* output of the run (what minilua prints for the reference Lua, up to the failure if it fails) must appear on
\* stdout as one contiguous piece; anything before or after it is free.
RunOutputConforms(r, want) == (want \in {"all", "prefix"}) => r.so.has_out

\* a rendered error block names a file and a line; the wording (and the kind of error) is free.  The recorder gives
\* the number of blocks and a digest of the sorted list of their file:line sites (the order of printing is free)
SameSites(a, b) == a.n = b.n /\ a.bag = b.bag

\* whether the child `lua` is started before the compiler has accepted the program is free
ChunkNorm(o) == IF o = "none" THEN "empty" ELSE o

NCompile(e) == Cardinality({i \in 1..Len(e) : e[i] = "compile"})
Has(e, x) == \E i \in 1..Len(e) : e[i] = x

---------------------------------------------------------------------------
(* What disagrees between the final spec state and record r (the spec variables are read at pc = "done") *)
R == Rec[k]

\* when stdout itself is the unwritable path nothing printed there can be observed
StdoutObservable == cfg.path # "unwritable"

\* r.blocks: the error blocks found on stdout and stderr of the command; r.ref.blocks: the blocks the same recogniser
\* finds in the library's own rendering of the library's error list for the same files (both from the current tree)
ErrorsWhat(r) ==
    LET want == NCompile(printed)  got == r.blocks.n IN
    IF ~StdoutObservable THEN {}
    ELSE IF want = 0 /\ got > 0 THEN {"errors-spurious"}
    ELSE IF got < want THEN {"errors-missing"}
    ELSE IF got > want THEN {"errors-extra"}
    ELSE IF want > 0 /\ ~SameSites(r.blocks, r.ref.blocks) THEN {"errors-location"}
    ELSE {}

LuaErrWhat(r) == IF Has(printed, "lua") /\ ~(r.lua.err_len > 0 /\ r.lua.msg_printed) THEN {"errors-missing"} ELSE {}

\* (a command that wrongly claims success prints nothing by definition: the exit verdict covers that case)
IoErrWhat(r) == IF ~Has(printed, "io") \/ ObsExit(r) = "zero" THEN {}
                ELSE IF r.se.len = 0 /\ r.so.len = 0 THEN {"errors-missing"}
                ELSE IF r.se.panic /\ ~PanicIsDiagnostic THEN {"panic-message"}
                ELSE {}

\* errors without a source location: every imported file that does not exist (r.missing, from the program's
\* construction) is named by some printed error (r.blocks.named: the missing files named on stdout / stderr)
MissingWhat(r) ==
    IF ~StdoutObservable THEN {}
    ELSE IF \A i \in 1..Len(r.missing) : \E j \in 1..Len(r.blocks.named) : r.blocks.named[j] = r.missing[i]
    THEN {} ELSE {"errors-missing"}

\* errors planted by the program's construction (r.planted: the source files - existing or not - that carry an error of
\* their own): each of these files is named by some printed error block, whatever the library's error list says
\* (the library may itself lose errors: a change inside sylt_parser::tree is on both sides of the differential comparison)
PlantedWhat(r) ==
    IF ~StdoutObservable THEN {}
    ELSE IF \A i \in 1..Len(r.planted) : \E j \in 1..Len(r.blocks.files) : r.blocks.files[j] = r.planted[i]
    THEN {} ELSE {"errors-missing"}

\* The objects behind stdout and stderr, as pieces in file order.  r.world.so / .se: how many bytes the object held
\* before the command started (pre_len) and whether it still starts with exactly them (pre_ok), how many were written
\* through the original descriptor after the command ended (post_len) and whether the object ends with exactly them,
\* behind everything else (post_ok).  What lies between is the command's piece (all other facts are taken from it).
ObsStream(w) == (IF w.pre_len > 0 /\ w.pre_ok THEN <<"earlier">> ELSE <<>>) \o <<"command">>
                \o (IF w.post_len > 0 /\ w.post_ok THEN <<"later">> ELSE <<>>)
StreamWhat(r) == (IF ObsStream(r.world.so) = streams.out THEN {} ELSE {"stdout-disturbed"})
                 \cup (IF ObsStream(r.world.se) = streams.err THEN {} ELSE {"stderr-disturbed"})

FsWhat(r) == LET o == ObsFs(r) IN
             IF o = fs /\ r.extra_files = 0 /\ r.sources_intact THEN {}
             ELSE IF o \in {"partial", "other"} THEN {"partial-file"}
             ELSE {"file-state"}

SoWhat(r) == LET o == ObsSoProg(r) IN
             IF o = soprog THEN {}
             ELSE IF o = "partial" THEN {"partial-stdout"} ELSE {"stdout"}

ChunkWhat(r) == IF ChunkNorm(ObsChunk(r)) = ChunkNorm(chunk) THEN {} ELSE {"chunk"}

RunWhat(r) == IF RunOutputConforms(r, sorun) THEN {} ELSE {"run-output"}

\* (where the property leaves the status open the replayed behaviour was chosen by the recorded status: see TraceStep)
ExitWhat(r) == IF r.timed_out THEN {"hang"} ELSE IF ObsExit(r) = exit THEN {} ELSE {"exit"}

\* a complete program was emitted somewhere, according to the spec
Emits == fs = "complete" \/ soprog = "complete" \/ chunk = "complete"

BytesWhat(r) ==
    LET p == Rec[Canon(k)] IN
    IF Emits /\ r.emit.present /\ p.emit.present /\ (r.emit.digest # p.emit.digest \/ r.emit.len # p.emit.len)
    THEN {"bytes-differ"} ELSE {}

RequireWhat(r) ==
    LET e == r.emit  q == Rec[NoReq(k)] IN
    IF ~(Emits /\ e.present) THEN {}
    ELSE IF ~e.pre_ok \/ e.n_req_pre # 0 THEN {"require"}
    ELSE IF cfg.req
      THEN IF /\ e.req_names = <<ExpectedModule(cfg)>>              \* one require statement in the text, and it names M (without one trailing .lua)
              /\ e.req_lead_blank                                  \* nothing but blanks between the preamble's end and it
              /\ (e.run.status # "load_error" => e.run.requires = <<ExpectedModule(cfg)>>)   \* and executed exactly once, naming M (if the chunk loads at all)
              /\ (q.emit.present => e.wo_req_digest = q.emit.digest)   \* in front of the unchanged program
           THEN {} ELSE {"require"}
      ELSE IF Len(e.req_names) = 0 /\ Len(e.run.requires) = 0 THEN {} ELSE {"require"}

\* --no-std changes nothing for a program that does not use the standard library
NoStdWhat(r) ==
    LET p == Rec[Flip(k)] IN
    IF cfg.std THEN {}
    ELSE IF /\ ObsExit(r) = ObsExit(p) /\ ObsFs(r) = ObsFs(p) /\ ObsSoProg(r) = ObsSoProg(p)
            /\ ChunkNorm(ObsChunk(r)) = ChunkNorm(ObsChunk(p))
            /\ SameSites(r.blocks, p.blocks)
            /\ r.emit.present = p.emit.present
            /\ r.emit.pre_digest = p.emit.pre_digest          \* the same runtime preamble
            /\ r.emit.run.status = p.emit.run.status /\ r.emit.run.out_digest = p.emit.run.out_digest   \* the emitted programs behave alike
            /\ (cfg.mode = "run" /\ CompileSucceeds(cfg)) => (r.so.has_out = p.so.has_out /\ r.ref.run.out_digest = p.ref.run.out_digest)
         THEN {} ELSE {"no-std"}

Fails(r) == ExitWhat(r) \cup ErrorsWhat(r) \cup MissingWhat(r) \cup PlantedWhat(r) \cup StreamWhat(r) \cup LuaErrWhat(r) \cup IoErrWhat(r) \cup FsWhat(r) \cup SoWhat(r)
            \cup ChunkWhat(r) \cup RunWhat(r) \cup BytesWhat(r) \cup RequireWhat(r) \cup NoStdWhat(r)

---------------------------------------------------------------------------
(* Tool errors, never verdicts: the record is the one TLC derives, and the program is in its class *)
WantStatus(c) == CASE Eff(c) = "acc" -> {"done"}
                   [] Eff(c) = "rt" /\ c.why = "longline_nl" -> {"load_error"}
                   [] Eff(c) = "rt" /\ c.why = "assert" -> {"assert_failed"}
                   [] Eff(c) = "rt" /\ c.why = "unreachable" -> {"unreachable"}
                   [] Eff(c) = "rt" /\ c.why = "luaerr" -> {"lua_error:Call", "lua_error:Arith", "lua_error:Index", "lua_error:Other", "stack_overflow"}
                   [] OTHER -> {"none"}

RecordWellFormed(i) ==
    LET r == Rec[i]  c == Case(i) IN
    /\ Assert(N = NBase * NV * NS, <<"trace length is not NBase*V*S", N, NV, NS>>)
    /\ Assert(Sinks[FileAbsentSink] = [mode |-> "file", path |-> "absent", io |-> "fresh"], "FileAbsentSink does not name -o FILE/absent")
    /\ Assert(r.idx = i /\ r.base = Base(i) /\ r.v = Var(i) /\ r.spell = Spell(i), <<"record out of place", i>>)
    /\ Assert(r.cfg = c, <<"universe mismatch at record", i, r.cfg, c>>)
    /\ Assert((r.ref.class = "ok") = CompileSucceeds(c), <<"program not in its class (accept/reject)", i, r.ref.class>>)
    /\ Assert(r.ref.run.status \in WantStatus(c), <<"program not in its class (run)", i, r.ref.run.status>>)
    /\ Assert(~CompileSucceeds(c) => r.ref.nerrors \in 1..MaxErrs, <<"rejected program without errors, or with more than MaxErrs", i, r.ref.nerrors>>)
    /\ Assert(MinErrs(c) <= MaxErrs, <<"class written to have more than MaxErrs errors", i>>)
    /\ Assert(r.ref.blocks.n = r.ref.nerrors, <<"the block recogniser does not find one block per library error", i, r.ref.blocks.n, r.ref.nerrors>>)
    /\ Assert(c.std \/ r.ref.run.out_len = 0, <<"std-free program prints", i>>)
    /\ Assert(Len(r.missing) = PlantedMissing(c), <<"program does not miss the imports of its class", i, r.missing>>)
    /\ Assert(Len(r.planted) >= MinErrFiles(c) /\ (c.pk # "rej" => Len(r.planted) = 0), <<"program does not carry the planted errors of its class", i, r.planted>>)
    /\ Assert(\A j \in 1..Len(r.missing) : \E m \in 1..Len(r.planted) : r.planted[m] = r.missing[j], <<"a missing import is not among the planted errors", i>>)
    \* the world the recorder built around descriptors 1 and 2 is the one the configuration names
    /\ Assert(\A w \in {r.world.so, r.world.se} : (w.pre_len > 0) = (Earlier(c) # <<>>) /\ (w.post_len > 0) = WrittenLater(c),
              <<"stdout / stderr were not set up as the configuration says", i, r.world>>)
    /\ Assert(r.world.io = c.io, <<"stdout / stderr kind", i>>)
    /\ Assert(Canon(i) \in 1..N /\ NoReq(i) \in 1..N /\ Flip(i) \in 1..N, <<"partner outside the trace", i>>)

EarlyIoFailure(r) == /\ cfg.mode = "file" /\ ~Writable(cfg) /\ ~CompileSucceeds(cfg)
                     /\ r.blocks.n = 0                          \* no compile error was printed
                     /\ r.exit # 0

TraceInit ==
    /\ k \in 1..N
    /\ RecordWellFormed(k)
    /\ cfg = Case(k)
    /\ pc = "start" /\ fs = InitFs(cfg)
    /\ chunk = "none" /\ soprog = "none" /\ sorun = "none"
    /\ errs = <<>> /\ printed = <<>> /\ exit = "none" /\ hist = <<>>
    /\ streams = [out |-> Earlier(cfg), err |-> Earlier(cfg)]
    /\ st = "run"

TraceStep ==
    /\ st = "run" /\ ~Settled
    /\ \/ ParseArgs \/ CompileOk \/ RunOk \/ RunFail \/ Later
       \* a rejected program and an unwritable FILE: which of the two the command met first is read off the recording.
       \* The number of errors to print: what the library reports, and at least what the program was written to have
       \/ (~EarlyIoFailure(R) /\ CompileErrN(IF R.ref.nerrors >= MinErrs(cfg) THEN R.ref.nerrors ELSE MinErrs(cfg)))
       \/ (EarlyIoFailure(R) /\ OutputFailEarly)
       \/ WriteStdout \/ WriteFileOk \/ WriteFileFail \/ PrintErrors \/ Exit
       \* an unwritable stdout: the recorded status selects the behaviour where the property leaves it open
       \/ ((StrictSink \/ R.exit # 0) /\ WriteStdoutFail)
       \/ (R.exit = 0 /\ WriteStdoutLost)
    /\ UNCHANGED <<k, st>>

TraceAccept ==
    /\ st = "run" /\ Settled /\ Fails(R) = {}
    /\ st' = "ok"
    /\ UNCHANGED <<cfg, pc, fs, chunk, soprog, sorun, errs, printed, exit, hist, streams, k>>

TraceReject ==
    /\ st = "run" /\ Settled /\ Fails(R) # {}
    /\ st' = "fail"
    /\ PrintT(<<"REJECT", ToJson([rec |-> k, whats |-> Fails(R), expect |-> Expectation,
                                  observed |-> [exit |-> ObsExit(R), code |-> R.exit, fs |-> ObsFs(R), soprog |-> ObsSoProg(R),
                                                chunk |-> ObsChunk(R), blocks |-> R.blocks.n, panic |-> R.se.panic,
                                                streams |-> [out |-> ObsStream(R.world.so), err |-> ObsStream(R.world.se)]],
                                  partners |-> [canon |-> Canon(k), noreq |-> NoReq(k), flip |-> Flip(k)]])>>)
    /\ UNCHANGED <<cfg, pc, fs, chunk, soprog, sorun, errs, printed, exit, hist, streams, k>>

TraceNext == TraceStep \/ TraceAccept \/ TraceReject

TraceSpec == TraceInit /\ [][TraceNext]_tvars

\* the whole contract of SyltDriver is evaluated in every state of every replayed behaviour
TraceInv == DriverContract /\ Bounded

\* the trace machine never gets stuck silently
TraceTotal == st = "run" => ENABLED TraceNext
=============================================================================
