SPECIFICATION Spec
CONSTANTS
  MaxErrs = 3
  Faulty <- MCFalse
  StrictSink <- MCTrue
INVARIANTS DriverContract Progress Bounded
CHECK_DEADLOCK FALSE
