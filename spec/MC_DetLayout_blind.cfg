SPECIFICATION LSpec
CONSTANTS
  Inputs <- MCInputs
  Procs <- MCProcs
  Results <- MCResults
  Cfgs <- MCCfgs
  Mode <- MCStale
  MaxRuns = 4
INVARIANTS RepetitionIsBlind SeenIsImageOfHist TwoFormsAgree ContextFormsFollow
CHECK_DEADLOCK FALSE
