---------------------------- MODULE SyltAnnotFam ----------------------------
(***************************************************************************)
(* C08, second universe: programs built around the ANNOTATION TYPES that   *)
(* SyltGen's pairwise-nesting universe lacks.  Five families, all given    *)
(* as SyltAst trees, all well-typed by construction (type-directed, like   *)
(* SyltGen's templates):                                                   *)
(*                                                                         *)
(* G  generic and structured nominal types.  A KIND g (generic blob Box,   *)
(*    generic enum Opt, std Maybe, two-parameter blob Pair, generic blob   *)
(*    with a method Cell, generic blob over generic blobs WrapG, blob      *)
(*    whose fields are instantiated generics Wrap, blob with impure and    *)
(*    pure fn fields Act, blob with a `*` field Star) at an INSTANCE       *)
(*    (int / str; for Act: impure / pure implementation of the fn field)   *)
(*    is written as an annotation in a FORM: bare (`Box`), applied         *)
(*    (`Box(int)`), partially applied (`Pair(int)`), alone or nested in a  *)
(*    list, a tuple (both instances side by side), Opt(..) or Box(..);     *)
(*    the annotation sits at a SITE (constant / mutable variable,          *)
(*    parameter, return type, both, closure passed as an argument, global, *)
(*    top-level function) in a CONTEXT (function body, closure, loop, case *)
(*    arm, if branch, block, blob method).  A second unit uses the SAME    *)
(*    kind at the OTHER instance, before or after the first, in the same   *)
(*    function or in another one (written before or after).  Every value   *)
(*    is USED in a way that only its own instance allows (v + 1 / v + "s", *)
(*    calling the fn field, ...), so a declaration that one annotation has *)
(*    narrowed is noticed by the other unit.                               *)
(*                                                                         *)
(* S  generic function signatures (`fn x: *A -> *A`, `fn l: [*A], f: fn    *)
(*    *A -> *B -> [*B]`, ...), each called at two instantiations; as a     *)
(*    global, a local and a local inside a closure.                        *)
(*                                                                         *)
(* F  variable definitions whose value is function-typed but not a         *)
(*    function literal (result of a call returning a closure, alias of a   *)
(*    global / local / generic function, blob method, fn-typed field,      *)
(*    if / case / tuple-index selection, a call with closure arguments),   *)
(*    annotated `fn ..` or - where the value is pure - `pu ..`, constant   *)
(*    or mutable, in every context; pure values are also called from a     *)
(*    pure function, so the purity the annotation states matters.          *)
(*                                                                         *)
(* L  annotations naming types declared LATER in the file, in every order  *)
(*    of {annotated definition, the type, another type mentioning it}.     *)
(* M  QUALIFIED type names in the annotations of multi-file projects.      *)
(*    (Both are described where they are defined, further down.)           *)
(*                                                                         *)
(* SyltAnnot defines what a site is and which subsets are erased; the      *)
(* expectation is the same as for the first universe: every variant is     *)
(* accepted, all variants compile to the same bytes.                       *)
(*                                                                         *)
(* NOT sites (the property excludes them; they are written in every        *)
(* variant): the generic markers of a declaration (`blob` + `*T`), field and  *)
(* payload types of declarations, parameters of function type, `void`.     *)
(***************************************************************************)
EXTENDS SyltAst, FiniteSets, TLC

TApp(n, args) == [k |-> "tapp", n |-> n, args |-> args]       \* Box(int)
TGen(n) == [k |-> "tgen", n |-> n]                            \* *T
TAny == [k |-> "tany"]                                        \* *
TPu(ps, r) == [k |-> "tfn", ps |-> ps, r |-> r, pure |-> TRUE]  \* pu int -> int
(* A parameter whose annotation is NOT optional: a function value reached through the parameter (a field of it, of its
   elements, of its payload) is called in the body.  A call is typed where it is written, so the callee's type must
   be known there ("Unknown types cannot be called"); this is the reason the property excludes parameters of function
   type, and it applies to these parameters in the same way.  SyltAnnot does not count them, the printer always writes
   them. *)
PK(b, ty) == [b |-> b, ty |-> ty, keep |-> TRUE]
BlobG(name, gen, fields) == [k |-> "blobdecl", name |-> name, gen |-> gen, fields |-> fields]
EnumG(name, gen, variants) == [k |-> "enum", name |-> name, gen |-> gen, variants |-> variants]

(* global binder ids *)
FStart == 1000
FOther == 1020
FApp == 1021
FMkAdd == 1022
FInc == 1023
FDec == 1024
FPInc == 1025
FPDec == 1026
FMkP == 1027
FId == 1028
FComp == 1029
FPId == 1030

TII == TFn(<<TInt>>, TInt)
TPII == TPu(<<TInt>>, TInt)

(* declarations every program of the families starts with *)
Decls == <<
  BlobG("Box", <<"T">>, <<FD("v", TGen("T"))>>),
  EnumG("Opt", <<"T">>, <<VD1("Some", TGen("T")), VD0("Non")>>),
  BlobG("Pair", <<"A", "B">>, <<FD("a", TGen("A")), FD("b", TGen("B"))>>),
  BlobG("Cell", <<"T">>, <<FD("v", TGen("T")), FD("get", TFn(<<>>, TGen("T")))>>),
  BlobG("WrapG", <<"T">>, <<FD("b", TApp("Box", <<TGen("T")>>)), FD("l", TList(TApp("Box", <<TGen("T")>>)))>>),
  BlobD("Wrap", <<FD("b", TApp("Box", <<TInt>>)), FD("o", TApp("Opt", <<TStr>>))>>),
  BlobD("Act", <<FD("n", TInt), FD("run", TII), FD("p", TPII)>>),
  BlobD("Star", <<FD("x", TAny), FD("n", TInt)>>),
  BlobD("Host", <<FD("n", TInt), FD("m", TFn(<<>>, TVoid))>>)
>>

---------------------------------------------------------------------------
(* Family G *)

Inst == {"int", "str"}
Other(i) == IF i = "int" THEN "str" ELSE "int"
ElemT(i) == IF i = "int" THEN TInt ELSE TStr
Lit(i) == IF i = "int" THEN I(1) ELSE St("s")

Kinds == {"Box", "Opt", "Maybe", "Pair", "Cell", "WrapG", "Wrap", "Act", "Star"}
Generic(g) == g \in {"Box", "Opt", "Maybe", "Pair", "Cell", "WrapG"}
Inners(g) == IF g = "Pair" THEN {"bare", "app", "part"} ELSE IF Generic(g) THEN {"bare", "app"} ELSE {"bare"}
Nests == {"flat", "list", "tup", "opt", "box"}

(* kinds whose use calls a function stored in the value: a parameter of such a kind keeps its annotation (see PK) *)
CallsThrough(g) == g \in {"Cell", "Act"}
Par(g, b, ty) == IF CallsThrough(g) THEN PK(b, ty) ELSE P(b, ty)

(* the annotation of kind g at instance i written in the inner form f *)
InnerAnn(g, i, f) ==
  CASE f = "bare" -> TName(g)
    [] f = "part" -> TApp(g, <<ElemT(i)>>)
    [] f = "app" -> IF g = "Pair" THEN TApp(g, <<ElemT(i), ElemT(Other(i))>>) ELSE TApp(g, <<ElemT(i)>>)

(* a value of kind g at instance i; b = base for the binders it introduces *)
RECURSIVE Val(_, _, _)
Val(g, i, b) ==
  CASE g = "Box" -> BlobL("Box", <<FI("v", Lit(i))>>)
    [] g = "Opt" -> Var1("Opt", "Some", Lit(i))
    [] g = "Maybe" -> Var1("Maybe", "Just", Lit(i))
    [] g = "Pair" -> BlobL("Pair", <<FI("a", Lit(i)), FI("b", Lit(Other(i)))>>)
    [] g = "Cell" -> BlobL("Cell", <<FI("v", Lit(i)), FI("get", Fn(<<>>, ElemT(i), <<Ex(Fld(Self, "v"))>>))>>)
    [] g = "WrapG" -> BlobL("WrapG", <<FI("b", Val("Box", i, b)), FI("l", Lst(<<Val("Box", i, b)>>))>>)
    [] g = "Wrap" -> BlobL("Wrap", <<FI("b", Val("Box", "int", b)), FI("o", Val("Opt", "str", b))>>)
    [] g = "Act" -> BlobL("Act", <<FI("n", I(1)),
                        FI("run", IF i = "int"
                                  THEN Fn(<<P(b + 1, TInt)>>, TNone, <<Print(V(b + 1)), Ex(V(b + 1))>>)
                                  ELSE Pu(<<P(b + 1, TNone)>>, TInt, <<Ex(Bin("+", V(b + 1), I(1)))>>)),
                        FI("p", Pu(<<P(b + 2, TNone)>>, TNone, <<Ex(V(b + 2))>>))>>)
    [] g = "Star" -> BlobL("Star", <<FI("x", Lit(i)), FI("n", I(2))>>)

(* statements that use e, a value of kind g at instance i, as only that instance can be used *)
UseS(g, i, e, b) ==
  CASE g = "Box" -> <<Print(Bin("+", Fld(e, "v"), Lit(i)))>>
    [] g = "Opt" -> <<Print(CaseT(e, <<CArmB("Some", b + 3, <<Ex(Bin("+", V(b + 3), Lit(i)))>>), CArm("Non", <<Ex(Lit(i))>>)>>))>>
    [] g = "Maybe" -> <<Print(CaseT(e, <<CArmB("Just", b + 3, <<Ex(Bin("+", V(b + 3), Lit(i)))>>), CArm("None", <<Ex(Lit(i))>>)>>))>>
    [] g = "Pair" -> <<Print(Bin("+", Fld(e, "a"), Lit(i))), Print(Bin("+", Fld(e, "b"), Lit(Other(i))))>>
    [] g = "Cell" -> <<Print(Bin("+", Call(Fld(e, "get"), <<>>), Lit(i)))>>
    [] g = "WrapG" -> <<Print(Bin("+", Fld(Fld(e, "b"), "v"), Lit(i))), Print(Fld(e, "l"))>>
    [] g = "Wrap" -> <<Print(Bin("+", Fld(Fld(e, "b"), "v"), I(1))), Print(Fld(e, "o"))>>
    [] g = "Act" -> <<Print(Bin("+", Call(Fld(e, "run"), <<I(1)>>), Call(Fld(e, "p"), <<Fld(e, "n")>>)))>>
    [] g = "Star" -> <<Print(Fld(e, "x")), Print(Bin("+", Fld(e, "n"), I(1)))>>

(* the nested forms: annotation, value and use of the nest around (g, i, f) *)
Ann(g, i, f, n) ==
  CASE n = "flat" -> InnerAnn(g, i, f)
    [] n = "list" -> TList(InnerAnn(g, i, f))
    [] n = "tup"  -> TTuple(<<InnerAnn(g, i, f), InnerAnn(g, Other(i), f)>>)
    [] n = "opt"  -> TApp("Opt", <<InnerAnn(g, i, f)>>)
    [] n = "box"  -> TApp("Box", <<InnerAnn(g, i, f)>>)

NVal(g, i, n, b) ==
  CASE n = "flat" -> Val(g, i, b)
    [] n = "list" -> Lst(<<Val(g, i, b)>>)
    [] n = "tup"  -> Tup(<<Val(g, i, b), Val(g, Other(i), b + 5)>>)
    [] n = "opt"  -> Var1("Opt", "Some", Val(g, i, b))
    [] n = "box"  -> BlobL("Box", <<FI("v", Val(g, i, b))>>)

NUse(g, i, f, n, e, b) ==
  CASE n = "flat" -> UseS(g, i, e, b)
    [] n = "list" -> <<Ex(Call(Std("for_each"), <<e, Fn(<<IF CallsThrough(g) THEN PK(b + 4, InnerAnn(g, i, f)) ELSE P(b + 4, TNone)>>, TVoid, UseS(g, i, V(b + 4), b))>>))>>
    [] n = "tup"  -> UseS(g, i, Idx(e, 0), b) \o UseS(g, Other(i), Idx(e, 1), b + 5)
    [] n = "opt"  -> <<Ex(CaseT(e, <<CArmB("Some", b + 4, UseS(g, i, V(b + 4), b)), CArm("Non", <<Print(I(0))>>)>>))>>
    [] n = "box"  -> UseS(g, i, Fld(e, "v"), b)

(* A unit: the annotation A of a value v at a site of the given kind.  [globals, body]: top-level
   definitions and the statements that go into the hosting function body. *)
LocalSites == {"varc", "varm", "param", "ret", "pret", "lam", "lamret"}
GlobalSites == {"global", "gparam", "gret", "gpret"}
SiteKinds == LocalSites \cup GlobalSites

Unit(s, A, v, use(_), ct, b) ==
  LET x == V(b + 10)  f == V(b + 11)  p == V(b + 12)
      \* the parameter whose body uses it: not optional when the use calls through it (ct)
      par == IF ct THEN PK(b + 12, A) ELSE P(b + 12, A) IN
  CASE s = "varc"  -> [globals |-> <<>>, body |-> <<DefC(b + 10, A, v)>> \o use(x)]
    [] s = "varm"  -> [globals |-> <<>>, body |-> <<DefM(b + 10, A, v)>> \o use(x)]
    [] s = "param" -> [globals |-> <<>>,
                       body |-> <<DefC(b + 11, TNone, Fn(<<par>>, TVoid, use(p))), Ex(Call(f, <<v>>))>>]
    [] s = "ret"   -> [globals |-> <<>>,
                       body |-> <<DefC(b + 11, TNone, Fn(<<>>, A, <<Ex(v)>>)), DefC(b + 10, TNone, Call(f, <<>>))>> \o use(x)]
    [] s = "pret"  -> [globals |-> <<>>,
                       body |-> <<DefC(b + 11, TNone, Fn(<<P(b + 12, A)>>, A, <<Ex(p)>>)), DefC(b + 10, TNone, Call(f, <<v>>))>> \o use(x)]
    [] s = "lam"   -> [globals |-> <<>>,
                       body |-> <<Ex(Call(Std("for_each"), <<Lst(<<v>>), Fn(<<par>>, TVoid, use(p))>>))>>]
    [] s = "lamret" -> [globals |-> <<>>,
                       body |-> <<DefC(b + 10, TNone, Call(Idx(Tup(<<Fn(<<P(b + 12, TInt)>>, A, <<Ex(v)>>), I(0)>>), 0), <<I(0)>>))>> \o use(x)]
    [] s = "global" -> [globals |-> <<DefC(b + 10, A, v)>>, body |-> use(x)]
    [] s = "gparam" -> [globals |-> <<DefC(b + 11, TNone, Fn(<<par>>, TVoid, use(p)))>>, body |-> <<Ex(Call(f, <<v>>))>>]
    [] s = "gret"  -> [globals |-> <<DefC(b + 11, TNone, Fn(<<>>, A, <<Ex(v)>>))>>,
                       body |-> <<DefC(b + 10, TNone, Call(f, <<>>))>> \o use(x)]
    [] s = "gpret" -> [globals |-> <<DefC(b + 11, TNone, Fn(<<P(b + 12, A)>>, A, <<Ex(p)>>))>>,
                       body |-> <<DefC(b + 10, TNone, Call(f, <<v>>))>> \o use(x)]

GUnit(g, i, f, n, s, b) ==
  LET use(e) == NUse(g, i, f, n, e, b) IN Unit(s, Ann(g, i, f, n), NVal(g, i, n, b), use, CallsThrough(g), b)

(* contexts: where the statements of a unit are placed inside the hosting function *)
Contexts == {"plain", "clo", "loop", "arm", "ifarm", "block", "method"}
InCtx(c, stmts, b) ==
  CASE c = "plain" -> stmts
    [] c = "clo"   -> <<DefC(b + 20, TNone, Fn(<<>>, TVoid, stmts)), Ex(Call(V(b + 20), <<>>))>>
    [] c = "loop"  -> <<DefM(b + 21, TNone, I(0)),
                        Loop(Bin("<", V(b + 21), I(2)), stmts \o <<Asg("+=", V(b + 21), I(1))>>)>>
    [] c = "arm"   -> <<Ex(CaseT(Var1("Opt", "Some", I(0)),
                                 <<CArmB("Some", b + 22, stmts \o <<Print(V(b + 22))>>), CArm("Non", <<Print(I(0))>>)>>))>>
    [] c = "ifarm" -> <<Ex(If2(Bin("<", I(1), I(2)), stmts \o <<Print(I(1))>>, <<Print(I(0))>>))>>
    [] c = "block" -> <<Block(stmts)>>
    [] c = "method" -> <<DefC(b + 23, TNone, BlobL("Host", <<FI("n", I(1)), FI("m", Fn(<<>>, TVoid, stmts \o <<Print(Fld(Self, "n"))>>))>>)),
                         Ex(Call(Fld(V(b + 23), "m"), <<>>))>>

StartDef(body) == DefN(FStart, "const", TNone, Fn(<<>>, TVoid, body), "start")
OtherDef(body) == DefN(FOther, "const", TNone, Fn(<<>>, TVoid, body), "other")
CallOther == Ex(Call(V(FOther), <<>>))

(* placement of the two units: same function (first unit first / second unit first) or one of them in the function
   `other`, which is written before or after start.  Globals are type checked in dependency order, so `other` is
   checked before start wherever it is written: u1fn* put the first unit's annotation before the second unit's use,
   u2fn* the other way round. *)
Places == {"same12", "same21", "u1fn_before", "u1fn_after", "u2fn_before", "u2fn_after"}
Place(pl, u1, u2) ==
  LET g12 == u1.globals \o u2.globals
      g21 == u2.globals \o u1.globals IN
  CASE pl = "same12" -> g12 \o <<StartDef(u1.body \o u2.body)>>
    [] pl = "same21" -> g21 \o <<StartDef(u2.body \o u1.body)>>
    [] pl = "u1fn_before" -> g12 \o <<OtherDef(u1.body), StartDef(<<CallOther>> \o u2.body)>>
    [] pl = "u1fn_after"  -> g21 \o <<StartDef(u2.body \o <<CallOther>>), OtherDef(u1.body)>>
    [] pl = "u2fn_before" -> g21 \o <<OtherDef(u2.body), StartDef(<<CallOther>> \o u1.body)>>
    [] pl = "u2fn_after"  -> g12 \o <<StartDef(u1.body \o <<CallOther>>), OtherDef(u2.body)>>

(* a case of family G: first unit (g, i, f, n, s) in context c; second unit: kind g2 at the other instance, inner
   form f2, site s2; placement pl *)
GProg(g, i, f, n, s, c, g2, f2, s2, pl) ==
  LET u1 == GUnit(g, i, f, n, s, 100)
      u2 == GUnit(g2, Other(i), f2, "flat", s2, 200)
      u1c == [u1 EXCEPT !.body = InCtx(c, u1.body, 100)]
  IN Decls \o Place(pl, u1c, u2)

GId(g, i, f, n, s, c, g2, f2, s2, pl) ==
  [o |-> "G:" \o g \o ":" \o n \o ":" \o f, pos |-> 0, i |-> s \o ":" \o c \o ":" \o i,
   h |-> pl \o ":" \o g2 \o ":" \o f2 \o ":" \o s2]

GCase(g, i, f, n, s, c, g2, f2, s2, pl) ==
  [id |-> GId(g, i, f, n, s, c, g2, f2, s2, pl), tops |-> GProg(g, i, f, n, s, c, g2, f2, s2, pl), pre |-> Len(Decls)]

Kinds2(g) == {g} \cup (IF g \in {"Wrap", "WrapG"} THEN {"Box"} ELSE {})
Places4 == {"same12", "same21", "u1fn_before", "u2fn_after"}

(* GA: every form x every site x four placements; second unit = bare constant of the same kind (nested forms at
   instance int only) *)
GA == UNION { UNION { UNION {
        { <<"G", g, i, f, n, s, "plain", g, "bare", "varc", pl>> : s \in SiteKinds, pl \in Places4 }
      : n \in {m \in Nests : m = "flat" \/ i = "int"} } : f \in Inners(g) } : <<g, i>> \in Kinds \X Inst }

(* GB: the flat forms x the main sites x every second unit (kind, form, site) x every placement *)
GBSites == {"varc", "param", "ret", "global", "gpret"}
GB == UNION { UNION { UNION { UNION {
        { <<"G", g, "int", f, "flat", s, "plain", g2, f2, s2, pl>> : s \in GBSites, s2 \in {"varc", "param", "ret"}, pl \in Places }
      : f2 \in Inners(g2) \ {"part"} } : g2 \in Kinds2(g) } : f \in Inners(g) } : g \in Kinds }

(* GC: the flat forms x the local sites x every context *)
GC == UNION { UNION {
        { <<"G", g, "int", f, "flat", s, c, g, "bare", "varc", pl>> :
              s \in LocalSites, c \in Contexts \ {"plain"}, pl \in {"same12", "u1fn_before"} }
      : f \in Inners(g) } : g \in Kinds }

(* the cases of family G as parameter tuples <<"G", g, i, f, n, s, c, g2, f2, s2, pl>>; the program of a tuple is built
   by CaseOf - so a model can enumerate (and sample) the small tuples and build programs in its actions *)
GKeys == GA \cup GB \cup GC

---------------------------------------------------------------------------
(* Family S: generic function signatures.  Sig(name, b) = the function literal; Uses(name, f) = statements calling f
   at two instantiations. *)
A_ == TGen("A")
B_ == TGen("B")
C_ == TGen("C")
SigNames == {"id", "fst", "snd", "swap", "mapl", "compose", "wrap", "unwrap", "orelse", "twice", "pairup",
             "lastor", "rewrap", "optmap", "cellget", "boxes", "applyres"}

Sig(n, b) ==
  LET x == V(b + 1)  y == V(b + 2)  z == V(b + 3) IN
  CASE n = "id"   -> Fn(<<P(b + 1, A_)>>, A_, <<Ex(x)>>)
    [] n = "fst"  -> Fn(<<P(b + 1, A_), P(b + 2, B_)>>, A_, <<Ex(x)>>)
    [] n = "snd"  -> Fn(<<P(b + 1, A_), P(b + 2, B_)>>, B_, <<Ex(y)>>)
    [] n = "swap" -> Fn(<<P(b + 1, TTuple(<<A_, B_>>))>>, TTuple(<<B_, A_>>), <<Ex(Tup(<<Idx(x, 1), Idx(x, 0)>>))>>)
    \* mapl :: fn l: [*A], f: fn *A -> *B -> [*B] do r: [*B] = [] ; for_each(l, fn e: *A do list.push(r, f(e)) end) ; r end
    [] n = "mapl" -> Fn(<<P(b + 1, TList(A_)), P(b + 2, TFn(<<A_>>, B_))>>, TList(B_),
                        <<DefM(b + 3, TList(B_), Lst(<<>>)),
                          Ex(Call(Std("for_each"), <<x, Fn(<<P(b + 4, A_)>>, TVoid,
                                     <<Ex(Call(Std("list.push"), <<z, Call(y, <<V(b + 4)>>)>>))>>)>>)),
                          Ex(z)>>)
    [] n = "compose" -> Fn(<<P(b + 1, TFn(<<A_>>, B_)), P(b + 2, TFn(<<B_>>, C_))>>, TFn(<<A_>>, C_),
                           <<Ex(Fn(<<P(b + 3, A_)>>, C_, <<Ex(Call(y, <<Call(x, <<z>>)>>))>>))>>)
    [] n = "wrap" -> Fn(<<P(b + 1, A_)>>, TApp("Box", <<A_>>), <<Ex(BlobL("Box", <<FI("v", x)>>))>>)
    [] n = "unwrap" -> Fn(<<P(b + 1, TApp("Box", <<A_>>))>>, A_, <<Ex(Fld(x, "v"))>>)
    [] n = "orelse" -> Fn(<<P(b + 1, TApp("Opt", <<A_>>)), P(b + 2, A_)>>, A_,
                          <<Ex(CaseT(x, <<CArmB("Some", b + 3, <<Ex(z)>>), CArm("Non", <<Ex(y)>>)>>))>>)
    [] n = "twice" -> Fn(<<P(b + 1, TFn(<<A_>>, A_)), P(b + 2, A_)>>, A_, <<Ex(Call(x, <<Call(x, <<y>>)>>))>>)
    [] n = "pairup" -> Fn(<<P(b + 1, A_), P(b + 2, B_)>>, TApp("Pair", <<A_, B_>>), <<Ex(BlobL("Pair", <<FI("a", x), FI("b", y)>>))>>)
    [] n = "lastor" -> Fn(<<P(b + 1, TList(A_)), P(b + 2, A_)>>, A_,
                          <<Ex(CaseT(Call(Std("list.last"), <<x>>), <<CArmB("Just", b + 3, <<Ex(z)>>), CArm("None", <<Ex(y)>>)>>))>>)
    \* rewrap :: fn b: Box -> Box do Box { v: b.v } end      (bare generic types in a signature)
    [] n = "rewrap" -> Fn(<<P(b + 1, TName("Box"))>>, TName("Box"), <<Ex(BlobL("Box", <<FI("v", Fld(x, "v"))>>))>>)
    [] n = "optmap" -> Fn(<<P(b + 1, TApp("Opt", <<A_>>)), P(b + 2, TFn(<<A_>>, B_))>>, TApp("Opt", <<B_>>),
                          <<Ex(CaseT(x, <<CArmB("Some", b + 3, <<Ex(Var1("Opt", "Some", Call(y, <<z>>)))>>),
                                          CArm("Non", <<Ex(Var0("Opt", "Non"))>>)>>))>>)
    \* applyres :: fn f: fn *A -> *B, x: *A -> *B do f(x) end, whose RESULT is called by the use
    [] n = "applyres" -> Fn(<<P(b + 1, TFn(<<A_>>, B_)), P(b + 2, A_)>>, B_, <<Ex(Call(x, <<y>>))>>)
    [] n = "cellget" -> Fn(<<PK(b + 1, TApp("Cell", <<A_>>))>>, A_, <<Ex(Call(Fld(x, "get"), <<>>))>>)
    \* boxes: a list of boxes of A to the list of their contents, with an annotated accumulator and closure parameter
    [] n = "boxes" -> Fn(<<P(b + 1, TList(TApp("Box", <<A_>>)))>>, TList(A_),
                         <<DefM(b + 3, TList(A_), Lst(<<>>)),
                           Ex(Call(Std("for_each"), <<x, Fn(<<P(b + 4, TApp("Box", <<A_>>))>>, TVoid,
                                      <<Ex(Call(Std("list.push"), <<z, Fld(V(b + 4), "v")>>))>>)>>)),
                           Ex(z)>>)

\* argument closures of the uses: not annotated, so that the sites of a program are those of the signature
ToStr(b) == Fn(<<P(b, TNone)>>, TNone, <<Ex(Bin("+", St("a"), St("b")))>>)
ToInt(b) == Fn(<<P(b, TNone)>>, TNone, <<Ex(Bin("+", I(1), I(2)))>>)
IncL(b) == Fn(<<P(b, TNone)>>, TNone, <<Ex(Bin("+", V(b), I(1)))>>)
CatL(b) == Fn(<<P(b, TNone)>>, TNone, <<Ex(Bin("+", V(b), St("s")))>>)

\* the use at instance i, as a value that is then used as only type i allows
SigUse(n, f, i, b) ==
  LET l == Lit(i)  o == Lit(Other(i))
      plus(e) == Print(Bin("+", e, l))
      conv == IF i = "int" THEN ToStr(b + 1) ELSE ToInt(b + 1)        \* i -> other
      back == IF i = "int" THEN ToInt(b + 2) ELSE ToStr(b + 2)        \* other -> i
      same == IF i = "int" THEN IncL(b + 1) ELSE CatL(b + 1)
      pluso(e) == Print(Bin("+", e, o)) IN
  CASE n = "id"   -> <<plus(Call(f, <<l>>))>>
    [] n = "fst"  -> <<plus(Call(f, <<l, o>>))>>
    [] n = "snd"  -> <<plus(Call(f, <<o, l>>))>>
    [] n = "swap" -> <<plus(Idx(Call(f, <<Tup(<<o, l>>)>>), 0))>>
    [] n = "mapl" -> <<Print(Bin("==", Call(f, <<Lst(<<l, l>>), conv>>), Lst(<<o>>)))>>
    [] n = "compose" -> <<plus(Call(Call(f, <<conv, back>>), <<l>>))>>
    [] n = "wrap" -> <<plus(Fld(Call(f, <<l>>), "v"))>>
    [] n = "unwrap" -> <<plus(Call(f, <<BlobL("Box", <<FI("v", l)>>)>>))>>
    [] n = "orelse" -> <<plus(Call(f, <<Var1("Opt", "Some", l), l>>)), plus(Call(f, <<Var0("Opt", "Non"), l>>))>>
    [] n = "twice" -> <<plus(Call(f, <<same, l>>))>>
    [] n = "pairup" -> <<plus(Fld(Call(f, <<l, o>>), "a")), pluso(Fld(Call(f, <<l, o>>), "b"))>>
    [] n = "lastor" -> <<plus(Call(f, <<Lst(<<l>>), l>>))>>
    [] n = "rewrap" -> <<plus(Fld(Call(f, <<BlobL("Box", <<FI("v", l)>>)>>), "v"))>>
    [] n = "optmap" -> <<Print(Bin("==", Call(f, <<Var1("Opt", "Some", l), conv>>), Var1("Opt", "Some", o)))>>
    [] n = "cellget" -> <<plus(Call(f, <<Val("Cell", i, b)>>))>>
    [] n = "applyres" -> <<plus(Call(Call(f, <<Fn(<<P(b + 1, TNone)>>, TNone, <<Ex(Fn(<<>>, TNone, <<Ex(V(b + 1))>>))>>), l>>), <<>>))>>
    [] n = "boxes" -> <<Print(Bin("==", Call(f, <<Lst(<<BlobL("Box", <<FI("v", l)>>)>>)>>), Lst(<<l>>)))>>

SHosts == {"global", "local", "localclo", "localloop"}
SProg(n, h, first) ==
  LET f == V(500)
      uses == SigUse(n, f, first, 510) \o SigUse(n, f, Other(first), 520) \o SigUse(n, f, first, 530)
      def == DefC(500, TNone, Sig(n, 500)) IN
  Decls \o
  CASE h = "global"   -> <<def, StartDef(uses)>>
    [] h = "local"    -> <<StartDef(<<def>> \o uses)>>
    [] h = "localclo" -> <<StartDef(InCtx("clo", <<def>> \o uses, 540))>>
    [] h = "localloop" -> <<StartDef(InCtx("loop", <<def>> \o uses, 540))>>

SCase(n, h, first) == [id |-> [o |-> "S:" \o n, pos |-> 0, i |-> h, h |-> first], tops |-> SProg(n, h, first), pre |-> Len(Decls)]
SKeys == { <<"S", n, h, first>> : n \in SigNames, h \in SHosts, first \in Inst }

---------------------------------------------------------------------------
(* Family F: function-typed variable definitions whose value is not a function literal *)
FPrelude == <<
  \* mkadd :: fn k: int -> fn int -> int do fn x: int -> int do x + k end end
  DefN(FMkAdd, "const", TNone, Fn(<<P(3, TInt)>>, TII, <<Ex(Fn(<<P(4, TInt)>>, TInt, <<Ex(Bin("+", V(4), V(3)))>>))>>), "mkadd"),
  DefN(FMkP, "const", TNone, Pu(<<P(5, TInt)>>, TPII, <<Ex(Pu(<<P(6, TInt)>>, TInt, <<Ex(Bin("+", V(6), V(5)))>>))>>), "mkp"),
  DefN(FInc, "const", TNone, Fn(<<P(7, TInt)>>, TInt, <<Print(V(7)), Ex(Bin("+", V(7), I(1)))>>), "inc"),
  DefN(FDec, "const", TNone, Fn(<<P(8, TInt)>>, TInt, <<Print(V(8)), Ex(Bin("-", V(8), I(1)))>>), "dec"),
  DefN(FPInc, "const", TNone, Pu(<<P(9, TInt)>>, TInt, <<Ex(Bin("+", V(9), I(1)))>>), "pinc"),
  DefN(FPDec, "const", TNone, Pu(<<P(10, TInt)>>, TInt, <<Ex(Bin("-", V(10), I(1)))>>), "pdec"),
  DefN(FId, "const", TNone, Fn(<<P(11, A_)>>, A_, <<Print(V(11)), Ex(V(11))>>), "ident"),
  DefN(FPId, "const", TNone, Pu(<<P(12, A_)>>, A_, <<Ex(V(12))>>), "pident"),
  \* comp :: fn f: fn int -> int, g: fn int -> int -> fn int -> int do fn x: int -> int do g(f(x)) end end
  DefN(FComp, "const", TNone,
       Fn(<<P(13, TII), P(14, TII)>>, TII, <<Ex(Fn(<<P(15, TInt)>>, TInt, <<Ex(Call(V(14), <<Call(V(13), <<V(15)>>)>>))>>))>>), "comp")
>>

FValues == {"mk", "alias", "aliasl", "meth", "generic", "ifsel", "comp", "idx", "fld", "casesel", "iife", "pfld"}
\* values that exist in a pure flavour (a `pu` annotation is then correct as well)
PureAble(v) == v \in {"mk", "alias", "aliasl", "generic", "ifsel", "idx", "casesel", "pfld"}

(* [pre, e]: statements that must precede the definition, and the value; p = pure flavour *)
FVal(v, p, b) ==
  LET inc == IF p THEN V(FPInc) ELSE V(FInc)
      dec == IF p THEN V(FPDec) ELSE V(FDec)
      lam(id) == IF p THEN Pu(<<P(id, TInt)>>, TInt, <<Ex(Bin("*", V(id), I(2)))>>)
                 ELSE Fn(<<P(id, TInt)>>, TInt, <<Print(V(id)), Ex(Bin("*", V(id), I(2)))>>) IN
  CASE v = "mk"     -> [pre |-> <<>>, e |-> Call(IF p THEN V(FMkP) ELSE V(FMkAdd), <<I(3)>>)]
    [] v = "alias"  -> [pre |-> <<>>, e |-> inc]
    [] v = "aliasl" -> [pre |-> <<DefC(b + 1, TNone, lam(b + 2))>>, e |-> V(b + 1)]
    [] v = "meth"   -> [pre |-> <<DefC(b + 1, TNone, BlobL("Act", <<FI("n", I(5)),
                                      FI("run", Fn(<<P(b + 2, TInt)>>, TInt, <<Asg("+=", Fld(Self, "n"), V(b + 2)), Ex(Fld(Self, "n"))>>)),
                                      FI("p", Pu(<<P(b + 3, TInt)>>, TInt, <<Ex(V(b + 3))>>))>>))>>,
                        e |-> Fld(V(b + 1), "run")]
    [] v = "pfld"   -> [pre |-> <<DefC(b + 1, TNone, Val("Act", "str", b + 1))>>, e |-> Fld(V(b + 1), "p")]
    [] v = "fld"    -> [pre |-> <<DefC(b + 1, TNone, Val("Act", "int", b + 1))>>, e |-> Fld(V(b + 1), "run")]
    [] v = "generic" -> [pre |-> <<>>, e |-> IF p THEN V(FPId) ELSE V(FId)]
    [] v = "ifsel"  -> [pre |-> <<>>, e |-> If2(Bin("<", I(1), I(2)), <<Ex(inc)>>, <<Ex(dec)>>)]
    [] v = "comp"   -> [pre |-> <<>>, e |-> Call(V(FComp), <<lam(b + 2), V(FInc)>>)]
    [] v = "idx"    -> [pre |-> <<>>, e |-> Idx(Tup(<<inc, dec>>), 1)]
    [] v = "casesel" -> [pre |-> <<>>, e |-> CaseT(Var1("Opt", "Some", I(1)), <<CArmB("Some", b + 2, <<Ex(inc)>>), CArm("Non", <<Ex(dec)>>)>>)]
    [] v = "iife"   -> [pre |-> <<>>, e |-> Call(Fn(<<P(b + 2, TInt)>>, TII, <<Ex(Fn(<<P(b + 3, TInt)>>, TInt, <<Ex(Bin("+", V(b + 3), V(b + 2)))>>))>>), <<I(4)>>)]

(* a case of F: value v (pure flavour p), annotated `pu` (ap) or `fn`, constant or mutable (m), in context c or as a
   global.  The variable is called; a pure one is also called from a pure function. *)
FBody(v, p, ap, m, b) ==
  LET val == FVal(v, p, b)
      ty == IF ap THEN TPII ELSE TII
      def == IF m THEN DefM(b + 10, ty, val.e) ELSE DefC(b + 10, ty, val.e)
      call == Print(Call(V(b + 10), <<I(1)>>))
      pureuse == <<DefC(b + 11, TNone, Pu(<<P(b + 12, TNone)>>, TNone, <<Ex(Call(V(b + 10), <<V(b + 12)>>))>>)),
                   Print(Call(V(b + 11), <<I(2)>>))>> IN
  [pre |-> val.pre, def |-> def, use |-> <<call>> \o (IF p /\ ~m THEN pureuse ELSE <<>>)]

FProg(v, p, ap, m, c) ==
  LET u == FBody(v, p, ap, m, 100)
      \* a second function-typed definition of the same flavour, so that two annotated definitions follow each other
      w == FBody("mk", p, ap, FALSE, 200) IN
  Decls \o FPrelude \o
  (IF c = "global"
   THEN <<DefN(110, IF m THEN "mut" ELSE "const", u.def.ty, u.def.e, "gv"),
          StartDef((IF m THEN <<Print(Call(V(110), <<I(1)>>))>> ELSE u.use) \o w.pre \o <<w.def>> \o w.use)>>
   ELSE <<StartDef(InCtx(c, u.pre \o <<u.def>> \o u.use, 100) \o w.pre \o <<w.def>> \o w.use)>>)

FContexts == Contexts \cup {"global"}
FOk(v, p, ap, m, c) ==
  /\ (p => PureAble(v)) /\ (ap => p)
  /\ (v = "pfld" => p)
  /\ (c = "global" => FVal(v, p, 100).pre = <<>>)

FCase(v, p, ap, m, c) ==
  [id |-> [o |-> "F:" \o v, pos |-> 0,
           i |-> (IF p THEN "pure" ELSE "impure") \o ":" \o (IF ap THEN "pu" ELSE "fn") \o ":" \o (IF m THEN "mut" ELSE "const"), h |-> c],
   tops |-> FProg(v, p, ap, m, c), pre |-> Len(Decls) + Len(FPrelude)]
TF(x) == IF x THEN "T" ELSE "F"
FKeys == { <<"F", q[1], TF(q[2]), TF(q[3]), TF(q[4]), q[5]>> :
             q \in {q \in FValues \X BOOLEAN \X BOOLEAN \X BOOLEAN \X FContexts : FOk(q[1], q[2], q[3], q[4], q[5])} }

(* generic aliases at two instantiations in one program: i: fn int -> int : ident ; j: fn str -> str : ident *)
TSS == TFn(<<TStr>>, TStr)
F2Prog(c, first) ==
  LET di == <<DefC(301, TII, V(FId)), Print(Bin("+", Call(V(301), <<I(1)>>), I(1)))>>
      ds == <<DefC(302, TSS, V(FId)), Print(Bin("+", Call(V(302), <<St("a")>>), St("b")))>> IN
  Decls \o FPrelude \o <<StartDef(InCtx(c, IF first = "int" THEN di \o ds ELSE ds \o di, 300))>>
F2Case(c, first) == [id |-> [o |-> "F:generic2", pos |-> 0, i |-> first, h |-> c], tops |-> F2Prog(c, first), pre |-> Len(Decls) + Len(FPrelude)]
F2Keys == { <<"F2", c, first>> : c \in Contexts, first \in Inst }

---------------------------------------------------------------------------
(* Family L: annotations whose types are declared LATER in the file.
   Three top-level items in every order: D - an annotated definition whose annotation names Handler (or Slot) and
   whose value mentions neither ([], Opt.Non); T - `Handler :: blob { run: fn int -> int }`; U - `Slot`, a blob or enum
   that mentions Handler through a tuple / list / fn / generic-argument position.  `fire` calls Handler's fn field
   THROUGH a Slot, which needs Slot's field to have been resolved to the real Handler; fire and start are written before
   or after the three.  Types may be used before their declaration, and an annotation must never change what is
   accepted elsewhere: whatever order, whichever sites are erased - accepted, same bytes. *)
LBox == BlobG("Box", <<"T">>, <<FD("v", TGen("T"))>>)
LOpt == EnumG("Opt", <<"T">>, <<VD1("Some", TGen("T")), VD0("Non")>>)
THandler == TName("Handler")
TSlot == TName("Slot")
LT == BlobD("Handler", <<FD("run", TII)>>)

Mentions == {"tup", "list", "fnret", "garg", "tuplist", "nest", "enum", "opt"}
HI == TTuple(<<THandler, TInt>>)
LU(m) ==
  CASE m = "tup"     -> BlobD("Slot", <<FD("entry", HI)>>)
    [] m = "list"    -> BlobD("Slot", <<FD("entry", TList(THandler))>>)
    [] m = "fnret"   -> BlobD("Slot", <<FD("entry", TFn(<<>>, THandler))>>)
    [] m = "garg"    -> BlobD("Slot", <<FD("entry", TApp("Box", <<THandler>>))>>)
    [] m = "tuplist" -> BlobD("Slot", <<FD("entry", TList(HI))>>)
    [] m = "nest"    -> BlobD("Slot", <<FD("entry", TTuple(<<HI, TInt>>))>>)
    [] m = "enum"    -> EnumD("Slot", <<VD1("Full", HI), VD0("Empty")>>)
    [] m = "opt"     -> BlobD("Slot", <<FD("entry", TApp("Opt", <<THandler>>))>>)

SlotVal(m, h) ==
  LET hi == Tup(<<h, I(0)>>)  slot(e) == BlobL("Slot", <<FI("entry", e)>>) IN
  CASE m = "tup"     -> slot(hi)
    [] m = "list"    -> slot(Lst(<<h>>))
    [] m = "fnret"   -> slot(Fn(<<>>, TNone, <<Ex(h)>>))
    [] m = "garg"    -> slot(BlobL("Box", <<FI("v", h)>>))
    [] m = "tuplist" -> slot(Lst(<<hi>>))
    [] m = "nest"    -> slot(Tup(<<hi, I(0)>>))
    [] m = "enum"    -> Var1("Slot", "Full", hi)
    [] m = "opt"     -> slot(Var1("Opt", "Some", h))

(* s.entry ... .run(x): the call that needs the real Handler behind the Slot *)
Through(m, s, x, b) ==
  LET ent == Fld(s, "entry")  run(h) == Call(Fld(h, "run"), <<x>>) IN
  CASE m = "tup"     -> run(Idx(ent, 0))
    [] m = "list"    -> CaseT(Call(Std("list.last"), <<ent>>), <<CArmB("Just", b, <<Ex(run(V(b)))>>), CArm("None", <<Ex(I(0))>>)>>)
    [] m = "fnret"   -> run(Call(ent, <<>>))
    [] m = "garg"    -> run(Fld(ent, "v"))
    [] m = "tuplist" -> CaseT(Call(Std("list.last"), <<ent>>), <<CArmB("Just", b, <<Ex(run(Idx(V(b), 0)))>>), CArm("None", <<Ex(I(0))>>)>>)
    [] m = "nest"    -> run(Idx(Idx(ent, 0), 0))
    [] m = "enum"    -> CaseT(s, <<CArmB("Full", b, <<Ex(run(Idx(V(b), 0)))>>), CArm("Empty", <<Ex(I(0))>>)>>)
    [] m = "opt"     -> CaseT(ent, <<CArmB("Some", b, <<Ex(run(V(b)))>>), CArm("Non", <<Ex(I(0))>>)>>)

LFire == 1040
LD == 1041
LFireDef(m) == DefN(LFire, "const", TNone, Fn(<<PK(601, TSlot), P(602, TInt)>>, TInt, <<Ex(Through(m, V(601), V(602), 603))>>), "fire")

(* the annotated definition D: kind dk, annotation form af; [def, use] *)
LForms == {"list", "opt", "tuplist", "ulist", "uopt", "boxlist"}
LAnn(af) ==
  CASE af = "list" -> TList(THandler) [] af = "opt" -> TApp("Opt", <<THandler>>) [] af = "tuplist" -> TList(HI)
    [] af = "ulist" -> TList(TSlot) [] af = "uopt" -> TApp("Opt", <<TSlot>>) [] af = "boxlist" -> TList(TApp("Box", <<THandler>>))
LEmpty(af) == IF af \in {"opt", "uopt"} THEN Var0("Opt", "Non") ELSE Lst(<<>>)
LKinds == {"gvar", "gmut", "gfnret", "gfnpar", "local"}
LDef(dk, af) ==
  LET A == LAnn(af)  e == LEmpty(af) IN
  CASE dk = "gvar"   -> [def |-> DefN(LD, "const", A, e, "fired"), use |-> <<Print(V(LD))>>]
    [] dk = "gmut"   -> [def |-> DefN(LD, "mut", A, e, "fired"), use |-> <<Print(V(LD))>>]
    [] dk = "gfnret" -> [def |-> DefN(LD, "const", TNone, Fn(<<>>, A, <<Ex(e)>>), "mkf"), use |-> <<Print(Call(V(LD), <<>>))>>]
    [] dk = "gfnpar" -> [def |-> DefN(LD, "const", TNone, Fn(<<P(611, A)>>, TNone, <<Ex(I(0))>>), "takef"), use |-> <<Print(Call(V(LD), <<e>>))>>]
    [] dk = "local"  -> [def |-> DefN(LD, "const", TNone, Fn(<<>>, TVoid, <<DefC(612, A, e), Print(V(612))>>), "early"), use |-> <<Ex(Call(V(LD), <<>>))>>]

LOrders == {"DTU", "DUT", "TDU", "TUD", "UDT", "UTD"}
LItem(ch, m, d) == IF ch = "D" THEN d.def ELSE IF ch = "T" THEN LT ELSE LU(m)
LProg(m, dk, af, ord, rest) ==
  LET d == LDef(dk, af)
      three == <<LItem(SubSeq(ord, 1, 1), m, d), LItem(SubSeq(ord, 2, 2), m, d), LItem(SubSeq(ord, 3, 3), m, d)>>
      start == DefN(FStart, "const", TNone, Fn(<<>>, TVoid,
                 <<DefC(620, TNone, BlobL("Handler", <<FI("run", Fn(<<P(621, TInt)>>, TInt, <<Ex(Bin("+", V(621), I(1)))>>))>>)),
                   Print(Call(V(LFire), <<SlotVal(m, V(620)), I(41)>>))>> \o d.use), "start")
      fs == <<LFireDef(m), start>> IN
  <<LBox, LOpt>> \o (IF rest = "before" THEN fs ELSE <<>>) \o three \o (IF rest = "after" THEN fs ELSE <<>>)

LCase(m, dk, af, ord, rest) ==
  [id |-> [o |-> "L:" \o m \o ":" \o af, pos |-> 0, i |-> dk, h |-> ord \o ":" \o rest], tops |-> LProg(m, dk, af, ord, rest), pre |-> 0]
LKeys == { <<"L", m, dk, af, ord, rest>> : m \in Mentions, dk \in LKinds, af \in LForms, ord \in LOrders, rest \in {"before", "after"} }

---------------------------------------------------------------------------
(* Family M: QUALIFIED type names in the annotations of multi-file programs.
   Project: main.sy; pal.sy and sub/inner.sy (the same leaf module: enum Color, generic blob Box, blob Pt and functions
   making / reading them); shapes.sy (`use pal`, `use pal as pp`, `from pal use Color, Box, Pt`); sub/exports.sy
   (`use inner`); and a HOST file in which the annotated unit is written: main.sy itself, mid.sy (imported by main) or
   sub/host.sy.  A ROUTE is the way the host names the leaf module's types: namespace, alias, two-step chains through
   another file's namespace (or its alias), a type the other file from-imported (re-export), from-import with and
   without alias, folder (exports.sy) chains, path imports, rooted paths.  The unit is Unit of family G: the type in
   one of 9 forms at one of 11 sites.  The files other than the host have no sites. *)
Raw(text) == [k |-> "raw", text |-> text]
NoTy(b) == P(b, TNone)
LeafTops == <<
  EnumD("Color", <<VD0("Red"), VD0("Green"), VD1("Rgb", TTuple(<<TInt, TInt, TInt>>))>>),
  BlobG("Box", <<"T">>, <<FD("v", TGen("T"))>>),
  BlobD("Pt", <<FD("x", TInt), FD("y", TInt)>>),
  DefN(701, "const", TNone, Fn(<<NoTy(1)>>, TNone, <<Ex(BlobL("Box", <<FI("v", V(1))>>))>>), "mkbox"),
  DefN(702, "const", TNone, Fn(<<>>, TNone, <<Ex(Var0("Color", "Green"))>>), "default"),
  DefN(703, "const", TNone, Fn(<<>>, TNone, <<Ex(BlobL("Pt", <<FI("x", I(0)), FI("y", I(0))>>))>>), "origin"),
  DefN(704, "const", TNone, Fn(<<NoTy(2)>>, TNone,
       <<Ex(CaseT(V(2), <<CArm("Red", <<Ex(St("red"))>>), CArm("Green", <<Ex(St("green"))>>), CArmB("Rgb", 3, <<Ex(St("rgb"))>>)>>))>>), "name")
>>
ShapesTops == <<
  Raw("use pal"), Raw("use pal as pp"), Raw("from pal use Color, Box, Pt"),
  BlobD("Shape", <<FD("sides", TInt), FD("color", TName("pal.Color"))>>),
  DefN(711, "const", TNone, Fn(<<>>, TNone, <<Ex(BlobL("Shape", <<FI("sides", I(3)), FI("color", Call(Std("pal.default"), <<>>))>>))>>), "triangle")
>>
ExportsTops == << Raw("use inner"), BlobD("Tag", <<FD("n", TInt)>>) >>

RootRoutes == {"one", "alias", "chain", "chainin", "chainas", "mixed", "reexp", "from", "fromas",
               "folder", "folderas", "path", "pathas", "rooted"}
SubRoutes == {"srel", "sroot", "schain", "sfolder"}
(* [imports, tp, fp]: the import lines of the host, the prefix of a type name, the prefix of a function name;
   fromas renames the types to P<name> *)
Route(r) ==
  CASE r = "one"      -> [imports |-> <<"use pal">>, tp |-> "pal.", fp |-> "pal."]
    [] r = "alias"    -> [imports |-> <<"use pal as q">>, tp |-> "q.", fp |-> "q."]
    [] r = "chain"    -> [imports |-> <<"use shapes">>, tp |-> "shapes.pal.", fp |-> "shapes.pal."]
    [] r = "chainin"  -> [imports |-> <<"use shapes">>, tp |-> "shapes.pp.", fp |-> "shapes.pp."]
    [] r = "chainas"  -> [imports |-> <<"use shapes as sh">>, tp |-> "sh.pal.", fp |-> "sh.pal."]
    [] r = "mixed"    -> [imports |-> <<"use shapes", "use pal as q">>, tp |-> "shapes.pal.", fp |-> "q."]
    [] r = "reexp"    -> [imports |-> <<"use shapes", "use pal as vv">>, tp |-> "shapes.", fp |-> "vv."]
    [] r = "from"     -> [imports |-> <<"from pal use Color, Box, Pt", "use pal as vv">>, tp |-> "", fp |-> "vv."]
    [] r = "fromas"   -> [imports |-> <<"from pal use Color as PColor, Box as PBox, Pt as PPt", "use pal as vv">>, tp |-> "P", fp |-> "vv."]
    [] r = "folder"   -> [imports |-> <<"use sub/">>, tp |-> "sub.inner.", fp |-> "sub.inner."]
    [] r = "folderas" -> [imports |-> <<"use sub/ as fo">>, tp |-> "fo.inner.", fp |-> "fo.inner."]
    [] r = "path"     -> [imports |-> <<"use sub/inner">>, tp |-> "inner.", fp |-> "inner."]
    [] r = "pathas"   -> [imports |-> <<"use sub/inner as si">>, tp |-> "si.", fp |-> "si."]
    [] r = "rooted"   -> [imports |-> <<"use /sub/inner as ri">>, tp |-> "ri.", fp |-> "ri."]
    [] r = "srel"     -> [imports |-> <<"use inner">>, tp |-> "inner.", fp |-> "inner."]
    [] r = "sroot"    -> [imports |-> <<"use /pal">>, tp |-> "pal.", fp |-> "pal."]
    [] r = "schain"   -> [imports |-> <<"use /shapes">>, tp |-> "shapes.pal.", fp |-> "shapes.pal."]
    [] r = "sfolder"  -> [imports |-> <<"use /sub/ as up">>, tp |-> "up.inner.", fp |-> "up.inner."]

MForms == {"color", "variant", "pt", "boxbare", "boxapp", "boxlit", "listcolor", "tup", "boxcolor"}
(* [A, v, use(e)] of a form under a route *)
MAnn(rt, f) ==
  LET ty(n) == rt.tp \o n  col == TName(ty("Color")) IN
  CASE f \in {"color", "variant"} -> col
    [] f = "pt" -> TName(ty("Pt"))
    [] f = "boxbare" -> TName(ty("Box"))
    [] f = "boxapp" -> TApp(ty("Box"), <<TInt>>)
    [] f = "boxlit" -> TApp(ty("Box"), <<TStr>>)
    [] f = "listcolor" -> TList(col)
    [] f = "tup" -> TTuple(<<TName(ty("Pt")), col>>)
    [] f = "boxcolor" -> TApp(ty("Box"), <<col>>)
MVal(rt, f) ==
  LET fun(n, args) == Call(Std(rt.fp \o n), args)  ty(n) == rt.tp \o n IN
  CASE f = "color" -> fun("default", <<>>)
    [] f = "variant" -> Var0(ty("Color"), "Red")
    [] f = "pt" -> fun("origin", <<>>)
    [] f \in {"boxbare", "boxapp"} -> fun("mkbox", <<I(1)>>)
    [] f = "boxlit" -> BlobL(ty("Box"), <<FI("v", St("s"))>>)
    [] f = "listcolor" -> Lst(<<fun("default", <<>>)>>)
    [] f = "tup" -> Tup(<<fun("origin", <<>>), fun("default", <<>>)>>)
    [] f = "boxcolor" -> fun("mkbox", <<fun("default", <<>>)>>)
MUse(rt, f, e, b) ==
  LET name(x) == Call(Std(rt.fp \o "name"), <<x>>) IN
  CASE f \in {"color", "variant"} -> <<Print(name(e))>>
    [] f = "pt" -> <<Print(Bin("+", Fld(e, "x"), I(1)))>>
    [] f \in {"boxbare", "boxapp"} -> <<Print(Bin("+", Fld(e, "v"), I(1)))>>
    [] f = "boxlit" -> <<Print(Bin("+", Fld(e, "v"), St("s")))>>
    [] f = "listcolor" -> <<Ex(Call(Std("for_each"), <<e, Fn(<<NoTy(b + 4)>>, TVoid, <<Print(name(V(b + 4)))>>)>>))>>
    [] f = "tup" -> <<Print(Bin("+", Fld(Idx(e, 0), "x"), I(1))), Print(name(Idx(e, 1)))>>
    [] f = "boxcolor" -> <<Print(name(Fld(e, "v")))>>

MHosts == {"main", "mid"}
MRun == 720
RECURSIVE RawAll(_, _)
RawAll(lines, i) == IF i > Len(lines) THEN <<>> ELSE <<Raw(lines[i])>> \o RawAll(lines, i + 1)
MProj(r, f, s, host) ==
  LET rt == Route(r)
      use(e) == MUse(rt, f, e, 100)
      u == Unit(s, MAnn(rt, f), MVal(rt, f), use, FALSE, 100)
      imports == RawAll(rt.imports, 1)
      lib == <<[path |-> "pal.sy", tops |-> LeafTops], [path |-> "sub/inner.sy", tops |-> LeafTops],
               [path |-> "shapes.sy", tops |-> ShapesTops], [path |-> "sub/exports.sy", tops |-> ExportsTops]>>
      runf == DefN(MRun, "const", TNone, Fn(<<>>, TVoid, u.body), "run") IN
  CASE host = "main" -> [tops |-> imports \o u.globals \o <<StartDef(u.body)>>, files |-> lib]
    [] host = "mid"  -> [tops |-> <<Raw("use mid"), StartDef(<<Ex(Call(Std("mid.run"), <<>>))>>)>>,
                         files |-> <<[path |-> "mid.sy", tops |-> imports \o u.globals \o <<runf>>]>> \o lib]
    [] host = "sub"  -> [tops |-> <<Raw("use sub/host"), StartDef(<<Ex(Call(Std("host.run"), <<>>))>>)>>,
                         files |-> <<[path |-> "sub/host.sy", tops |-> imports \o u.globals \o <<runf>>]>> \o lib]

MCase(r, f, s, host) ==
  LET pr == MProj(r, f, s, host) IN
  [id |-> [o |-> "M:" \o r \o ":" \o f, pos |-> 0, i |-> s, h |-> host], tops |-> pr.tops, pre |-> 0, files |-> pr.files]
MKeys == { <<"M", r, f, s, host>> : r \in RootRoutes, f \in MForms, s \in SiteKinds, host \in MHosts }
         \cup { <<"M", r, f, s, "sub">> : r \in SubRoutes, f \in MForms, s \in SiteKinds }

(* the case [id, tops, pre (, files)] of a key; tops = main.sy, files = the other files of a multi-file project; pre = number of leading top-level nodes that are the same in every program of
   the family (their sites are the prelude sites of SyltAnnot!Masks) *)
CaseOf(t) ==
  CASE t[1] = "G" -> GCase(t[2], t[3], t[4], t[5], t[6], t[7], t[8], t[9], t[10], t[11])
    [] t[1] = "S" -> SCase(t[2], t[3], t[4])
    [] t[1] = "F" -> FCase(t[2], t[3] = "T", t[4] = "T", t[5] = "T", t[6])
    [] t[1] = "F2" -> F2Case(t[2], t[3])
    [] t[1] = "L" -> LCase(t[2], t[3], t[4], t[5], t[6])
    [] t[1] = "M" -> MCase(t[2], t[3], t[4], t[5])
=============================================================================
