--------------------------- MODULE SyltDetContext ---------------------------
(***************************************************************************)
(* Property C16, second half: the result of a compilation depends on the   *)
(* SOURCES only - not on the CONTEXT the compilation runs in.              *)
(*                                                                         *)
(* SyltDeterminism observes runs as Run(input, process, run, result).      *)
(* This module makes the context of a run explicit:                        *)
(*                                                                         *)
(*   ph    the HISTORY of the process that performs the run: the sequence  *)
(*         of inputs that process has compiled before (<<>> = a fresh      *)
(*         process).  RunFrom(h, i, cfg, res) is one compilation of input  *)
(*         i in a process with history h; afterwards the history of that   *)
(*         process is Append(h, i).                                        *)
(*   cfg   the CONFIGURATION: how the main file is named on the command    *)
(*         line and from which working directory (a Spelling), "-" for     *)
(*         in-memory projects, "seed" for repetitions that only differ in  *)
(*         the hash keys the process drew.                                 *)
(*                                                                         *)
(* Invariants (all are consequences of Determinism, stated on their own    *)
(* because each one names a class of defect):                              *)
(*   HistoryIndependence   result(P after any history) = result(P fresh)   *)
(*   SpellingIndependence  result(P named one way) = result(P named        *)
(*                         another way, from another directory)            *)
(*                                                                         *)
(* The second half defines the UNIVERSES the implementation is driven      *)
(* with (the recorder harness/src/bin/c16.rs mirrors them, TLC re-derives  *)
(* every recorded context from them when it validates a trace):            *)
(*   Prog(i)            a library of small projects: 1-3 files, 0-4 std    *)
(*                      imports, accepted / rejected (name collision with  *)
(*                      a preamble import, syntax / resolution / type /    *)
(*                      import error inside ( ) [ ] { } at depth 0..6),    *)
(*                      with and without the standard library              *)
(*   HistScenario(t,s)  short process histories ending in target t:        *)
(*                      t fresh; t,t,t; W,t; W,W',t; W,t,W',t for every    *)
(*                      warm-up program W                                  *)
(*   LongInput(s,j)     long process histories (hundreds to thousands of   *)
(*                      compilations in one thread) cycling through a      *)
(*                      pattern of programs: state that ACCUMULATES        *)
(*   DiskProj(i), Spellings   projects on disk that import one module both *)
(*                      relative and rooted, compiled under 10 spellings    *)
(*                      of the main file / working directories             *)
(*   SeedCase(i)        declarations with EQUAL-BUT-NOT-IDENTICAL keys     *)
(*                      (members declared 2-3 times), compiled under       *)
(*                      >= MinSeeds fresh hash keys each                   *)
(***************************************************************************)
EXTENDS SyltDeterminism

CONSTANTS Cfgs        \* generator model: the configurations an environment may choose

VARIABLE ph           \* the history of the current process (sequence of inputs)

cvars == <<seen, hist, oracle, ph>>

---------------------------------------------------------------------------
(* One compilation of input i, configured cfg, in a process whose history is h *)
RunFrom(h, i, cfg, res) ==
    /\ hist' = Append(hist, [input |-> i, nbefore |-> Len(h), cfg |-> cfg, result |-> res])
    /\ seen' = IF i \in DOMAIN seen
                 THEN [seen EXCEPT ![i] = @ \cup {res}]
                 ELSE (i :> {res}) @@ seen
    /\ ph' = Append(h, i)

RunIn(i, cfg, res)    == RunFrom(ph, i, cfg, res)       \* the current process compiles once more
RunFresh(i, cfg, res) == RunFrom(<<>>, i, cfg, res)     \* a new process starts and compiles

(* result(P after any history) = result(P fresh) *)
HistoryIndependence ==
    LET F == {a \in 1..Len(hist) : hist[a].nbefore = 0}
    IN \A a \in F, b \in 1..Len(hist) : hist[a].input = hist[b].input => hist[a].result = hist[b].result

(* the way the main file is named / the working directory do not matter *)
SpellingIndependence ==
    \A a, b \in 1..Len(hist) :
        (hist[a].input = hist[b].input /\ hist[a].cfg # hist[b].cfg) => hist[a].result = hist[b].result

ContextFormsFollow == Determinism => (HistoryIndependence /\ SpellingIndependence)

---------------------------------------------------------------------------
(* Generator model.  Mode (constant of SyltDeterminism) selects the implementation:            *)
(*   "function"  the result is a function of the input                (all invariants hold)    *)
(*   "cache"     the first compilation of a process fills a cache that later results depend on *)
(*   "counter"   a counter grows with every compilation and breaks results once it is >= 2     *)
(*   "spelling"  the result depends on the configuration                                       *)
(*   "free"      anything at any time                                                          *)
OtherInput(i) == CHOOSE x \in Inputs : (x # i \/ Cardinality(Inputs) = 1)

CAnswers(h, i, cfg) ==
    CASE Mode = "function" -> {oracle[i]}
      [] Mode = "cache"    -> {oracle[IF h = <<>> THEN i ELSE h[1]]}
      [] Mode = "counter"  -> {oracle[IF Len(h) >= 2 THEN OtherInput(i) ELSE i]}
      [] Mode = "spelling" -> {oracle[IF cfg = (CHOOSE c \in Cfgs : TRUE) THEN i ELSE OtherInput(i)]}
      [] OTHER             -> Results

CInit == /\ seen = <<>> /\ hist = <<>> /\ ph = <<>>
         /\ oracle \in [Inputs -> Results]

CStep == /\ Len(hist) < MaxRuns
         /\ \E i \in Inputs, cfg \in Cfgs :
               \/ \E res \in CAnswers(ph, i, cfg) : RunIn(i, cfg, res)
               \/ \E res \in CAnswers(<<>>, i, cfg) : RunFresh(i, cfg, res)
         /\ UNCHANGED oracle

CSpec == CInit /\ [][CStep]_cvars

---------------------------------------------------------------------------
(* UNIVERSE 1: the program library.                                                             *)
(*  files    1..3: main.sy and files-1 helper modules h1.sy, h2.sy imported by main             *)
(*  stdlibs  0, 2 or 4 standard-library modules imported directly by main (they are visited     *)
(*           before the preamble, like user files)                                              *)
(*  site     "main" | "helper": the file that carries the collision / the error / the brackets  *)
(*  collide  "-" | "print" | "map" | "min" | "two" (print and map): a global of the site file   *)
(*           that has the name of something the preamble imports                                *)
(*  err      "ok" | "collide" | "syntax" | "resolve" | "type" | "import"                        *)
(*  bracket  "-" | "paren" | "list" | "brace" | "call" | "mixed": what the core expression of   *)
(*           the site is nested in, depth levels deep; the planted error is the core            *)
(*  nostd    compiled without the standard library                                              *)
(*  warm     used as a warm-up program W of the history scenarios                               *)
Pr(name, files, stdlibs, site, collide, err, bracket, depth, nostd, warm) ==
    [name |-> name, files |-> files, stdlibs |-> stdlibs, site |-> site, collide |-> collide, err |-> err,
     bracket |-> bracket, depth |-> depth, nostd |-> nostd, warm |-> warm,
     expect |-> IF err = "ok" THEN "ok" ELSE "err"]

ProgTable == <<
    Pr("ok-1",          1, 0, "main",   "-",     "ok",      "-",     0, FALSE, TRUE),
    Pr("ok-2",          2, 0, "helper", "-",     "ok",      "paren", 2, FALSE, TRUE),
    Pr("ok-3",          3, 0, "helper", "-",     "ok",      "list",  3, FALSE, TRUE),
    Pr("ok-std4",       1, 4, "main",   "-",     "ok",      "call",  2, FALSE, TRUE),
    Pr("ok-std2-2",     2, 2, "main",   "-",     "ok",      "brace", 3, FALSE, FALSE),
    Pr("ok-deep",       1, 0, "main",   "-",     "ok",      "mixed", 6, FALSE, FALSE),
    Pr("col-print-1",   1, 0, "main",   "print", "collide", "-",     0, FALSE, TRUE),
    Pr("col-print-2",   2, 0, "main",   "print", "collide", "-",     0, FALSE, FALSE),
    Pr("col-print-3h",  3, 0, "helper", "print", "collide", "-",     0, FALSE, FALSE),
    Pr("col-map-1s",    1, 2, "main",   "map",   "collide", "-",     0, FALSE, FALSE),
    Pr("col-map-2h",    2, 0, "helper", "map",   "collide", "-",     0, FALSE, FALSE),
    Pr("col-min-3s",    3, 4, "main",   "min",   "collide", "-",     0, FALSE, FALSE),
    Pr("col-two-2",     2, 0, "main",   "two",   "collide", "-",     0, FALSE, FALSE),
    Pr("syn-paren-1",   1, 0, "main",   "-",     "syntax",  "paren", 1, FALSE, FALSE),
    Pr("syn-paren-4",   1, 0, "main",   "-",     "syntax",  "paren", 4, FALSE, TRUE),
    Pr("syn-list-2h",   2, 0, "helper", "-",     "syntax",  "list",  2, FALSE, FALSE),
    Pr("syn-list-6",    2, 0, "main",   "-",     "syntax",  "list",  6, FALSE, TRUE),
    Pr("syn-brace-2",   1, 0, "main",   "-",     "syntax",  "brace", 2, FALSE, FALSE),
    Pr("syn-call-3s",   1, 2, "main",   "-",     "syntax",  "call",  3, FALSE, FALSE),
    Pr("syn-mixed-5h",  3, 0, "helper", "-",     "syntax",  "mixed", 5, FALSE, TRUE),
    Pr("res-paren-2",   1, 0, "main",   "-",     "resolve", "paren", 2, FALSE, FALSE),
    Pr("res-list-3h",   3, 0, "helper", "-",     "resolve", "list",  3, FALSE, TRUE),
    Pr("typ-paren-1",   1, 0, "main",   "-",     "type",    "paren", 1, FALSE, FALSE),
    Pr("typ-brace-2s",  2, 2, "helper", "-",     "type",    "brace", 2, FALSE, TRUE),
    Pr("imp-missing-2", 2, 0, "main",   "-",     "import",  "-",     0, FALSE, FALSE),
    Pr("n-ok-1",        1, 0, "main",   "-",     "ok",      "-",     0, TRUE,  FALSE),
    Pr("n-ok-deep-2",   2, 0, "helper", "-",     "ok",      "mixed", 6, TRUE,  TRUE),
    Pr("n-syn-paren-1", 1, 0, "main",   "-",     "syntax",  "paren", 1, TRUE,  FALSE),
    Pr("n-syn-list-3",  1, 0, "main",   "-",     "syntax",  "list",  3, TRUE,  FALSE),
    Pr("n-syn-brace-2", 1, 0, "main",   "-",     "syntax",  "brace", 2, TRUE,  FALSE),
    Pr("n-syn-mixed-4h",2, 0, "helper", "-",     "syntax",  "mixed", 4, TRUE,  FALSE),
    Pr("n-res-paren-2", 1, 0, "main",   "-",     "resolve", "paren", 2, TRUE,  FALSE),
    Pr("n-typ-list-2",  1, 0, "main",   "-",     "type",    "list",  2, TRUE,  FALSE),
    Pr("n-imp-missing", 1, 0, "main",   "-",     "import",  "-",     0, TRUE,  FALSE) >>
NProg == Len(ProgTable)
Prog(i) == [id |-> i] @@ ProgTable[i]

ProgIds == [i \in 1..NProg |-> i]
IdsWhere(Test(_)) == SelectSeq(ProgIds, LAMBDA i : Test(ProgTable[i]))

(* UNIVERSE 2: short histories.  Shape s of target t is the sequence of programs ONE fresh process compiles. *)
WarmIds == IdsWhere(LAMBDA p : p.warm)
NW == Len(WarmIds)
WarmAt(k) == WarmIds[((k - 1) % NW) + 1]
NShapes == 2 + 3 * NW
HistScenario(t, s) ==
    IF s = 1 THEN <<t>>
    ELSE IF s = 2 THEN <<t, t, t>>
    ELSE IF s <= 2 + NW THEN <<WarmAt(s - 2), t>>
    ELSE IF s <= 2 + 2 * NW THEN <<WarmAt(s - 2 - NW), WarmAt(s - 1 - NW), t>>
    ELSE <<WarmAt(s - 2 - 2 * NW), t, WarmAt(s + 1 - 2 * NW), t>>
(* the shapes every validated target must have been run with: fresh, repeated, after every warm-up, after every pair *)
RequiredShapes == 1..(2 + 2 * NW)

(* UNIVERSE 3: long histories.  One thread of one process compiles LongInput(s, 1), LongInput(s, 2), ... *)
Weave(a, b) == [k \in 1..(2 * Len(a)) |-> IF k % 2 = 1 THEN a[(k + 1) \div 2] ELSE b[(((k \div 2) - 1) % Len(b)) + 1]]
LongPattern(s) ==
    CASE s = 1 -> IdsWhere(LAMBDA p : ~p.nostd)                                          \* everything, with std
      [] s = 2 -> Weave(IdsWhere(LAMBDA p : ~p.nostd /\ p.err = "syntax"),               \* syntax errors in brackets
                        IdsWhere(LAMBDA p : ~p.nostd /\ p.err = "ok"))                   \*   alternating with accepted programs
      [] s = 3 -> Weave(IdsWhere(LAMBDA p : ~p.nostd /\ p.err \in {"resolve", "type", "import", "collide"}),
                        IdsWhere(LAMBDA p : ~p.nostd /\ p.err = "ok"))
      [] s = 4 -> IdsWhere(LAMBDA p : p.nostd)                                           \* everything, without std
      [] s = 5 -> Weave(IdsWhere(LAMBDA p : p.nostd /\ p.err = "syntax"), IdsWhere(LAMBDA p : p.nostd /\ p.err = "ok"))
      [] OTHER -> Weave(IdsWhere(LAMBDA p : p.nostd /\ p.err \in {"resolve", "type", "import"}),
                        IdsWhere(LAMBDA p : p.nostd /\ p.err = "ok"))
NLong == 6
LongInput(s, j) == LET p == LongPattern(s) IN p[((j - 1) % Len(p)) + 1]
LongNoStd(s) == s >= 4
LongMinLen(s) == IF LongNoStd(s) THEN 2000 ELSE 200

(* UNIVERSE 4: projects on disk and the ways to name their main file.                                         *)
(*  $S = a scratch directory, $P = $S/proj = the project directory, w = the project's sub-folder.              *)
Spellings == <<
    [name |-> "parent",        cwd |-> "$S",   arg |-> "proj/main.sy"],
    [name |-> "bare",          cwd |-> "$P",   arg |-> "main.sy"],
    [name |-> "dot",           cwd |-> "$P",   arg |-> "./main.sy"],
    [name |-> "parent-dot",    cwd |-> "$S",   arg |-> "./proj/main.sy"],
    [name |-> "sub-dotdot",    cwd |-> "$P/w", arg |-> "../main.sy"],
    [name |-> "parent-dotdot", cwd |-> "$S",   arg |-> "proj/w/../main.sy"],
    [name |-> "abs",           cwd |-> "/",    arg |-> "$P/main.sy"],
    [name |-> "abs-inside",    cwd |-> "$P",   arg |-> "$P/main.sy"],
    [name |-> "abs-dotdot",    cwd |-> "$S",   arg |-> "$P/w/../main.sy"],
    [name |-> "double-slash",  cwd |-> "$S",   arg |-> "proj//main.sy"] >>
NSpell == Len(Spellings)

(*  shape    how the shared module shared.sy (mutable state) of the project root is imported:                  *)
(*           0  main: use shared (relative)         sub-folder file: use /shared (rooted)                      *)
(*           1  main: use /shared                   sub-folder file: use /shared                               *)
(*           2  main: from shared use ..            sub-folder file: from /shared use ..                       *)
(*           3  main: use /shared, root file other.sy: use shared; sub-folder file: use /other and /shared     *)
(*  subdepth 1: w/user.sy   2: w/deep/user.sy                                                                    *)
(*  exports  0: main imports the sub-folder file   1: main imports the folder (use w/ = w/exports.sy)          *)
(*  err      0 none   1 type error in shared.sy   2 syntax error in the sub-folder file                        *)
(*           3 the sub-folder file imports a rooted file that does not exist                                   *)
NDisk == 4 * 2 * 2 * 4
DiskProj(i) ==
    LET m == i - 1 IN
    [idx |-> i, shape |-> m % 4, subdepth |-> 1 + ((m \div 4) % 2), exports |-> (m \div 8) % 2, err |-> (m \div 16) % 4,
     expect |-> IF (m \div 16) % 4 = 0 THEN "ok" ELSE "err"]

(* UNIVERSE 5: equal-but-not-identical keys.  A declaration with n distinct members in which member d is      *)
(* written m times; slots = the members in source order.                                                      *)
SeedFams == <<"dup-blob-field", "dup-enum-variant", "dup-import", "dup-param", "dup-case-arm", "dup-lit-field", "dup-def">>
NSF == Len(SeedFams)
NSeedCases == NSF * 4 * 2 * 3 * 3 * 2
MinSeeds == 200
SeedSlots(n, m, d, place) ==
    LET base  == [q \in 1..n |-> q - 1]
        extra == [q \in 1..(m - 1) |-> d]
    IN CASE place = 0 -> SubSeq(base, 1, d + 1) \o extra \o SubSeq(base, d + 2, n)     \* copies next to each other
         [] place = 1 -> base \o extra                                                  \* later copies at the end
         [] OTHER     -> extra \o base                                                  \* earlier copies at the start
SeedCase(i) ==
    LET m0    == i - 1
        f     == SeedFams[(m0 % NSF) + 1]
        m1    == m0 \div NSF
        n     == 2 + (m1 % 4)
        m2    == m1 \div 4
        m     == 2 + (m2 % 2)
        m3    == m2 \div 2
        which == m3 % 3
        m4    == m3 \div 3
        place == m4 % 3
        sub   == (m4 \div 3) % 2
        d     == CASE which = 0 -> 0 [] which = 1 -> n \div 2 [] OTHER -> n - 1
    IN [idx |-> i, fam |-> f, n |-> n, m |-> m, which |-> which, place |-> place, sub |-> sub, dup |-> d,
        slots |-> SeedSlots(n, m, d, place)]

(* Well-formedness of the universes (ASSUME of the model wrapper) *)
ContextUniverseWellFormed ==
    /\ Cardinality({ProgTable[i].name : i \in 1..NProg}) = NProg
    /\ \A i \in 1..NProg : LET p == ProgTable[i] IN
          /\ p.files \in 1..3 /\ p.stdlibs \in {0, 2, 4} /\ p.depth \in 0..6
          /\ p.site = "helper" => p.files >= 2
          /\ (p.err = "collide") <=> (p.collide # "-")
          /\ p.err \in {"syntax", "resolve", "type"} => (p.bracket # "-" /\ p.depth >= 1)
          /\ p.nostd => (p.stdlibs = 0 /\ p.collide = "-")
    /\ NW >= 8
    \* warm-ups: one, two and three files; with and without std imports; accepted, rejected, syntax errors at >= 3 depths
    /\ {ProgTable[WarmIds[k]].files : k \in 1..NW} = 1..3
    /\ {ProgTable[WarmIds[k]].stdlibs > 0 : k \in 1..NW} = {TRUE, FALSE}
    /\ {ProgTable[WarmIds[k]].nostd : k \in 1..NW} = {TRUE, FALSE}
    /\ {"ok", "collide", "syntax", "resolve", "type"} \subseteq {ProgTable[WarmIds[k]].err : k \in 1..NW}
    /\ Cardinality({ProgTable[WarmIds[k]].depth : k \in {x \in 1..NW : ProgTable[WarmIds[x]].err = "syntax"}}) >= 3
    \* targets with a name collision against the preamble exist for every number of files, in main and in a helper
    /\ {ProgTable[i].files : i \in {x \in 1..NProg : ProgTable[x].err = "collide"}} = 1..3
    /\ {ProgTable[i].site : i \in {x \in 1..NProg : ProgTable[x].err = "collide"}} = {"main", "helper"}
    \* every scenario is a non-empty sequence of programs that ends in its target; the fresh one is <<t>>
    /\ \A t \in 1..NProg, s \in 1..NShapes :
          LET h == HistScenario(t, s) IN
          /\ Len(h) \in 1..4 /\ h[Len(h)] = t /\ \A x \in 1..Len(h) : h[x] \in 1..NProg
    /\ \A t \in 1..NProg : HistScenario(t, 1) = <<t>>
    \* every target is compiled after a program with a different number of modules before the preamble
    /\ \A t \in 1..NProg : \E s \in RequiredShapes :
          LET w == ProgTable[HistScenario(t, s)[1]] IN w.files + w.stdlibs # ProgTable[t].files + ProgTable[t].stdlibs
    \* long patterns: non-empty, homogeneous in std / no-std, mix accepted and rejected programs
    /\ \A s \in 1..NLong :
          LET p == LongPattern(s) IN
          /\ Len(p) >= 2
          /\ \A x \in 1..Len(p) : ProgTable[p[x]].nostd = LongNoStd(s)
          /\ {"ok", "err"} = {ProgTable[p[x]].expect : x \in 1..Len(p)}
    /\ \E s \in 1..NLong : \A x \in 1..Len(LongPattern(s)) :
          (x % 2 = 1) => (ProgTable[LongPattern(s)[x]].err = "syntax")
    \* spellings: distinct names, distinct (cwd, arg); bare name, ./, .. segments, absolute paths all occur
    /\ Cardinality({Spellings[x].name : x \in 1..NSpell}) = NSpell
    /\ Cardinality({<<Spellings[x].cwd, Spellings[x].arg>> : x \in 1..NSpell}) = NSpell
    /\ \E x \in 1..NSpell : Spellings[x].arg = "main.sy"
    /\ Cardinality({<<DiskProj(i).shape, DiskProj(i).subdepth, DiskProj(i).exports, DiskProj(i).err>> : i \in 1..NDisk}) = NDisk
    \* seed cases: member d occurs exactly m times, every other member once
    /\ \A i \in 1..NSeedCases :
          LET c == SeedCase(i) IN
          /\ Len(c.slots) = c.n + c.m - 1
          /\ c.dup \in 0..(c.n - 1)
          /\ \A q \in 0..(c.n - 1) :
                Cardinality({x \in 1..Len(c.slots) : c.slots[x] = q}) = IF q = c.dup THEN c.m ELSE 1
    /\ Cardinality({<<SeedCase(i).fam, SeedCase(i).n, SeedCase(i).m, SeedCase(i).which, SeedCase(i).place, SeedCase(i).sub>> :
                       i \in 1..NSeedCases}) = NSeedCases
=============================================================================
