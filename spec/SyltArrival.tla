---------------------------- MODULE SyltArrival ----------------------------
(***************************************************************************)
(* C03, second dimension: HOW THE MISMATCHING OPERANDS ARRIVE.             *)
(*                                                                         *)
(* SyltMismatch plants mismatches whose operands are literals.  Here the   *)
(* same kinds of mismatch (CORES: an operator / call / annotation applied  *)
(* to operand SLOTS of stated types; the planted type vector violates the  *)
(* core's typing rule, the base vector satisfies it) are crossed with the  *)
(* ARRIVAL FORM of every operand: literal, constant / mutable local,       *)
(* global, blob field, tuple component, list element through std, case     *)
(* binding, closure-captured variable, result of a user function (declared *)
(* or inferred return type, generic identity), parameter of an annotated   *)
(* function, parameter of an UN-ANNOTATED function whose call passes       *)
(* literals / variables / call results (the mismatch is then definite only *)
(* at the call site), and with cores whose typing rule is a GENERIC        *)
(* signature (user functions linking two positions by *A, std generics).   *)
(*                                                                         *)
(* Every arrival form delivers a value of an EXPLICIT type: the type of    *)
(* the literal it is built from, repeated by every annotation the form     *)
(* writes (ArrivalSound).  Definiteness is decided by the core typing      *)
(* table CoreOk over those explicit types - a checker, not an inference    *)
(* engine.  The derived mismatches run through the context chains of       *)
(* SyltMismatch (Apply, Chains).                                           *)
(*                                                                         *)
(* NOT planted (accepted by design): an un-annotated function used at two  *)
(* incompatible types by two call sites - sylt instantiates a function's   *)
(* type per call (let-polymorphism), so `add(1, 2)` next to                *)
(* `add("a", "b")` is well typed.                                          *)
(***************************************************************************)
EXTENDS SyltMismatch

TGen(n) == [k |-> "tgen", n |-> n]
TFnP(ps, r) == [k |-> "tfn", ps |-> ps, r |-> r, pure |-> TRUE]

ATypes == {"int", "str", "bool", "float", "list"}
TyA(t) == IF t = "float" THEN TFloat ELSE Ty(t)
DfltA(t) == IF t = "float" THEN Fl(1, 1) ELSE Dflt(t)
\* the literal that operand slot j carries when its type is t
Lit(t, j) == CASE t = "int" -> I(j + 2) [] t = "str" -> St(IF j = 1 THEN "a" ELSE "b") [] t = "bool" -> Bo(j = 1)
               [] t = "float" -> Fl(2 * j + 1, 1) [] t = "list" -> Lst(<<I(j)>>)
LitTyName(e) == IF e.k = "list" THEN "list" ELSE e.k
TyName(ty) == CASE ty.k = "tint" -> "int" [] ty.k = "tstr" -> "str" [] ty.k = "tbool" -> "bool" [] ty.k = "tfloat" -> "float"
                [] ty.k = "tlist" -> "list" [] OTHER -> "other"

---------------------------------------------------------------------------
(* CORES.  n operand slots; pl / bs: the type vector of the planted / base form (positions beyond n are type
   parameters written into annotations of the core itself).  The typing rule of a core, over a type vector ts:
     op    the operator table of SyltMismatch (OpOkT)
     want  position j must have type want[j] ("" = any): fixed parameter / annotation / condition types
     link  pairs of positions that one generic variable (or the list element type) forces to be equal
     struct  the planted form differs from the base by the construct itself (unary minus, calling) and is
             wrong for every operand type in `badfor`                                                         *)
NoLink == {}
Core(kind, rule, sort, ty, isdef, n, pl, bs, op, want, link, old) ==
  [kind |-> kind, rule |-> rule, sort |-> sort, ty |-> ty, isdef |-> isdef, n |-> n, pl |-> pl, bs |-> bs,
   op |-> op, want |-> want, link |-> link, old |-> old]
OpC(kind, rule, ty, op, pl, bs) == Core(kind, rule, "E", ty, FALSE, 2, pl, bs, op, <<>>, NoLink, TRUE)
WantE(kind, rule, ty, pl, bs, want, old) == Core(kind, rule, "E", ty, FALSE, Len(want), pl, bs, "", want, NoLink, old)
WantS(kind, rule, isdef, pl, bs, want, old) == Core(kind, rule, "S", "-", isdef, Len(want), pl, bs, "", want, NoLink, old)
LinkE(kind, rule, ty, n, pl, bs) == Core(kind, rule, "E", ty, FALSE, n, pl, bs, "", <<>>, {<<1, 2>>}, FALSE)
LinkS(kind, rule, isdef, n, pl, bs) == Core(kind, rule, "S", "-", isdef, n, pl, bs, "", <<>>, {<<1, 2>>}, FALSE)

IS == <<"int", "str">>
II == <<"int", "int">>

Cores == <<
  \* ---- operators (the operator kinds of SyltMismatch!MM, operands now slots)
  OpC("add-int-str", "arith-operands", "int", "+", IS, II),
  OpC("add-str-int", "arith-operands", "str", "+", <<"str", "int">>, <<"str", "str">>),
  OpC("sub-int-str", "arith-operands", "int", "-", IS, II),
  OpC("mul-str-int", "arith-operands", "int", "*", <<"str", "int">>, II),
  OpC("eq-int-float", "eq-equal-types", "bool", "==", <<"int", "float">>, II),
  OpC("eq-int-str", "eq-equal-types", "bool", "==", IS, II),
  OpC("ne-str-bool", "eq-equal-types", "bool", "!=", <<"str", "bool">>, <<"str", "str">>),
  OpC("lt-int-str", "cmp-comparable", "bool", "<", IS, II),
  OpC("ge-bool-int", "cmp-comparable", "bool", ">=", <<"bool", "int">>, II),
  OpC("and-int-bool", "logic-bool", "bool", "and", <<"int", "bool">>, <<"bool", "bool">>),
  OpC("or-bool-int", "logic-bool", "bool", "or", <<"bool", "int">>, <<"bool", "bool">>),
  WantE("not-int", "logic-bool", "bool", <<"int">>, <<"bool">>, <<"bool">>, TRUE),
  Core("neg-str", "neg-number", "E", "str", FALSE, 1, <<"str">>, <<"str">>, "neg", <<>>, NoLink, TRUE),
  Core("neg-bool", "neg-number", "E", "bool", FALSE, 1, <<"bool">>, <<"bool">>, "neg", <<>>, NoLink, TRUE),
  \* ---- calls of functions with declared parameter types
  WantE("argtype-fn", "call-argtype", "int", <<"str">>, <<"int">>, <<"int">>, TRUE),
  WantE("argtype-fn-both", "call-argtype", "int", <<"int", "bool">>, II, II, FALSE),
  WantE("argtype-method", "call-argtype", "int", <<"str">>, <<"int">>, <<"int">>, TRUE),
  WantE("argtype-lambda", "call-argtype", "int", <<"str">>, <<"int">>, <<"int">>, TRUE),
  Core("call-int", "callee-function", "E", "int", FALSE, 1, <<"int">>, <<"int">>, "call", <<>>, NoLink, FALSE),
  \* ---- conditions, lists, fields, returns
  WantE("ifexpr-cond-int", "cond-bool", "int", <<"int">>, <<"bool">>, <<"bool">>, TRUE),
  LinkE("list-int-str", "list-homogeneous", "list", 2, IS, II),
  LinkE("list-int-float", "list-homogeneous", "list", 2, <<"int", "float">>, II),
  WantE("field-init", "field-type", "int", <<"str">>, <<"int">>, <<"int">>, TRUE),
  WantE("ret-implicit", "ret-type", "int", <<"str">>, <<"int">>, <<"int">>, TRUE),
  WantE("ret-explicit", "ret-type", "int", <<"str">>, <<"int">>, <<"int">>, TRUE),
  \* ---- statements
  WantS("def-mut-annot", "decl-type", TRUE, <<"str">>, <<"int">>, <<"int">>, TRUE),
  WantS("def-const-annot", "decl-type", TRUE, <<"float">>, <<"int">>, <<"int">>, TRUE),
  WantS("assign-var", "assign-type", FALSE, <<"str">>, <<"int">>, <<"int">>, TRUE),
  WantS("assign-global", "assign-type", FALSE, <<"str">>, <<"int">>, <<"int">>, TRUE),
  WantS("pluseq-str", "assign-type", FALSE, <<"str">>, <<"int">>, <<"int">>, TRUE),
  WantS("field-init-stmt", "field-type", TRUE, <<"int">>, <<"str">>, <<"str">>, TRUE),
  WantS("if-cond-int", "cond-bool", FALSE, <<"int">>, <<"bool">>, <<"bool">>, TRUE),
  WantS("loop-cond-int", "cond-bool", FALSE, <<"int">>, <<"bool">>, <<"bool">>, TRUE),
  \* ---- user functions with GENERIC signatures (the function is a global of the case, see CoreGlobals)
  LinkE("gen-same", "call-argtype", "int", 2, IS, II),                 \* fn a: *A, b: *A -> *A                    same(e1, e2)
  LinkS("gen-id-res", "decl-type", TRUE, 1, IS, II),                   \* fn x: *A -> *A                           r: T2 : id(e1)
  WantE("gen-app-arg", "call-argtype", "int", <<"str">>, <<"int">>, <<"int">>, FALSE),   \* fn g: fn *A -> *B, x: *A -> *B     app(inc, e1)
  LinkE("gen-app-fn", "call-argtype", "int", 1, IS, II),               \*   same function                          app(<fn T2 -> int>, e1)
  LinkS("gen-app-res", "decl-type", TRUE, 1, IS, II),                  \*   *B first inside the nested fn type     r: T2 : app(inc, e1)
  WantE("gen-appaa-arg", "call-argtype", "int", <<"str">>, <<"int">>, <<"int">>, FALSE), \* fn g: fn *A -> *A, x: *A -> *A     appaa(inc, e1)
  LinkS("gen-appaa-res", "decl-type", TRUE, 1, IS, II),                \*                                          r: T2 : appaa(inc, e1)
  WantE("gen-appr-arg", "call-argtype", "int", <<"str">>, <<"int">>, <<"int">>, FALSE),  \* fn x: *A, g: fn *A -> *B -> *B     appr(e1, inc)
  LinkE("gen-appr-fn", "call-argtype", "int", 1, IS, II),              \*                                          appr(e1, <fn T2 -> int>)
  WantE("gen-retfn-arg", "call-argtype", "int", <<"str">>, <<"int">>, <<"int">>, FALSE), \* fn x: *A, k: fn int -> *A -> *A    retfn(e1, inc)
  WantE("gen-fnret-arg", "call-argtype", "int", <<"str">>, <<"int">>, <<"int">>, FALSE), \* fn k: fn int -> *A, x: *A -> *A    fnret(inc, e1)
  LinkE("gen-list-elem", "call-argtype", "int", 2, IS, II),            \* fn l: [*A], x: *A -> *A                  elem([e1], e2)
  LinkS("gen-mk-res", "decl-type", TRUE, 1, IS, II),                   \* fn x: *A -> [*A]                         r: [T2] : mk(e1)
  LinkE("gen-comp", "call-argtype", "int", 1, IS, II),                 \* fn f: fn *A -> *B, g: fn *B -> *C -> fn *A -> *C    comp(inc, <fn T2 -> int>)(e1)
  WantE("gen-hof-arg", "call-argtype", "int", <<"str">>, <<"int">>, <<"int">>, FALSE),   \* fn h: fn (fn *A -> *A) -> *A, x: *A -> *A   hof(<fn (fn int -> int) -> int>, e1)
  LinkE("gen-2fn", "call-argtype", "int", 1, IS, II),                  \* fn f: fn *A -> int, g: fn *B -> *A, x: *B -> int    two(<fn T2 -> int>, inc, e1)
  \* ---- std generics
  LinkE("std-map-cb", "call-argtype", "list", 1, IS, II),              \* map([e1], pu x: T2 -> int)
  LinkS("std-map-res", "decl-type", TRUE, 1, IS, II),                  \* r: [T2] : map([e1], pu x: int -> int)
  LinkE("std-filter-cb", "call-argtype", "list", 1, IS, II),           \* filter([e1], pu x: T2 -> bool)
  LinkS("std-filter-res", "decl-type", TRUE, 1, IS, II),               \* r: [T2] : filter([e1], pu x: int -> bool)
  WantE("std-fold-init", "call-argtype", "int", <<"str">>, <<"int">>, <<"int">>, FALSE), \* fold([1], e1, pu x: int, acc: int -> int)
  WantE("std-fold-elem", "call-argtype", "int", <<"str">>, <<"int">>, <<"int">>, FALSE), \* fold([e1], 0, pu x: int, acc: int -> int)
  LinkS("std-fold-res", "decl-type", TRUE, 1, IS, II),                 \* r: T2 : fold([e1], 0, pu x: int, acc: int -> int)
  LinkS("std-push", "call-argtype", FALSE, 2, IS, II),                 \* l :: [e1]   list.push(l, e2)
  LinkS("std-set", "call-argtype", FALSE, 2, IS, II),                  \* l :: [e1]   list.set(l, 0, e2)
  LinkE("std-contains", "call-argtype", "bool", 2, IS, II),            \* list.contains([e1], e2)
  LinkS("std-foreach-cb", "call-argtype", FALSE, 1, IS, II)            \* for_each([e1], fn x: T2 do .. end)
>>
NC == Len(Cores)
CoreKinds == {Cores[i].kind : i \in 1..NC}

(* globals a core brings along: its generic function *)
GGen == 1200
GS2I == 1201
TA == TGen("A")
TB == TGen("B")
TC == TGen("C")
GenFn(ps, r, body) == <<DefN(GGen, "const", TNone, Fn(ps, r, body), "")>>
\* a function from type t to int: inc for int, a case global for the others
FnFromGlobals(t) == IF t = "int" THEN <<>> ELSE <<DefN(GS2I, "const", TNone, Fn(<<P(340, TyA(t))>>, TInt, <<Ex(I(1))>>), "")>>
FnFrom(t) == IF t = "int" THEN V(GInc) ELSE V(GS2I)

CoreGlobals(c, ts) ==
  LET kd == c.kind IN
  CASE kd = "gen-same" -> GenFn(<<P(341, TA), P(342, TA)>>, TA, <<Ex(V(341))>>)
    [] kd = "gen-id-res" -> GenFn(<<P(341, TA)>>, TA, <<Ex(V(341))>>)
    [] kd \in {"gen-app-arg", "gen-app-res"} ->
         GenFn(<<P(341, TFn(<<TA>>, TB)), P(342, TA)>>, TB, <<Ex(Call(V(341), <<V(342)>>))>>)
    [] kd = "gen-app-fn" ->
         FnFromGlobals(ts[2]) \o GenFn(<<P(341, TFn(<<TA>>, TB)), P(342, TA)>>, TB, <<Ex(Call(V(341), <<V(342)>>))>>)
    [] kd \in {"gen-appaa-arg", "gen-appaa-res"} ->
         GenFn(<<P(341, TFn(<<TA>>, TA)), P(342, TA)>>, TA, <<Ex(Call(V(341), <<V(342)>>))>>)
    [] kd = "gen-appr-arg" -> GenFn(<<P(341, TA), P(342, TFn(<<TA>>, TB))>>, TB, <<Ex(Call(V(342), <<V(341)>>))>>)
    [] kd = "gen-appr-fn" ->
         FnFromGlobals(ts[2]) \o GenFn(<<P(341, TA), P(342, TFn(<<TA>>, TB))>>, TB, <<Ex(Call(V(342), <<V(341)>>))>>)
    [] kd = "gen-retfn-arg" -> GenFn(<<P(341, TA), P(342, TFn(<<TInt>>, TA))>>, TA, <<Ex(Call(V(342), <<I(1)>>))>>)
    [] kd = "gen-fnret-arg" -> GenFn(<<P(341, TFn(<<TInt>>, TA)), P(342, TA)>>, TA, <<Ex(Call(V(341), <<I(1)>>))>>)
    [] kd = "gen-list-elem" -> GenFn(<<P(341, TList(TA)), P(342, TA)>>, TA, <<Ex(V(342))>>)
    [] kd = "gen-mk-res" -> GenFn(<<P(341, TA)>>, TList(TA), <<Ex(Lst(<<V(341)>>))>>)
    [] kd = "gen-comp" ->
         FnFromGlobals(ts[2])
         \o GenFn(<<P(341, TFn(<<TA>>, TB)), P(342, TFn(<<TB>>, TC))>>, TFn(<<TA>>, TC),
                  <<Ex(Fn(<<P(343, TNone)>>, TNone, <<Ex(Call(V(342), <<Call(V(341), <<V(343)>>)>>))>>))>>)
    [] kd = "gen-hof-arg" -> GenFn(<<P(341, TFn(<<TFn(<<TA>>, TA)>>, TA)), P(342, TA)>>, TA, <<Ex(V(342))>>)
    [] kd = "gen-2fn" ->
         FnFromGlobals(ts[2])
         \o GenFn(<<P(341, TFn(<<TA>>, TInt)), P(342, TFn(<<TB>>, TA)), P(343, TB)>>, TInt,
                  <<Ex(Call(V(341), <<Call(V(342), <<V(343)>>)>>))>>)
    [] OTHER -> <<>>

IntCb(t) == Fn(<<P(330, TyA(t))>>, TInt, <<Ex(I(1))>>)
PuId(t, r, body) == [Fn(<<P(330, TyA(t))>>, r, <<Ex(body)>>) EXCEPT !.pure = TRUE]
FoldCb == [Fn(<<P(330, TInt), P(331, TInt)>>, TInt, <<Ex(V(331))>>) EXCEPT !.pure = TRUE]

\* the planted / base form of a core over operand expressions es and type vector ts
Build(c, es, ts, planted) ==
  LET kd == c.kind IN
  CASE c.op \in {"+", "-", "*", "==", "!=", "<", ">=", "and", "or"} -> Bin(c.op, es[1], es[2])
    [] kd = "not-int" -> Un("not", es[1])
    [] c.op = "neg" -> IF planted THEN Un("-", es[1]) ELSE es[1]
    [] c.op = "call" -> IF planted THEN Call(es[1], <<>>) ELSE es[1]
    [] kd = "argtype-fn" -> Call(V(GInc), <<es[1]>>)
    [] kd = "argtype-fn-both" -> Call(V(GAdd2), <<es[1], es[2]>>)
    [] kd = "argtype-method" -> Call(Fld(Call(V(GMkP), <<I(1)>>), "add"), <<es[1]>>)
    [] kd = "argtype-lambda" -> Lam1(es[1])
    [] kd = "ifexpr-cond-int" -> If2(es[1], <<Ex(I(1))>>, <<Ex(I(2))>>)
    [] kd \in {"list-int-str", "list-int-float"} -> Lst(<<es[1], es[2]>>)
    [] kd = "field-init" -> Fld(BlobL("FI", <<FI("v", es[1])>>), "v")
    [] kd = "ret-implicit" -> Thunk(TInt, <<Ex(es[1])>>)
    [] kd = "ret-explicit" -> Thunk(TInt, <<Ret(es[1])>>)
    [] kd = "def-mut-annot" -> <<DefM(320, TInt, es[1])>>
    [] kd = "def-const-annot" -> <<DefC(320, TInt, es[1])>>
    [] kd = "assign-var" -> <<DefM(320, TInt, I(1)), Asg("=", V(320), es[1])>>
    [] kd = "assign-global" -> <<Asg("=", V(GG), es[1])>>
    [] kd = "pluseq-str" -> <<DefM(320, TInt, I(1)), Asg("+=", V(320), es[1])>>
    [] kd = "field-init-stmt" -> <<DefC(320, TName("FS"), BlobL("FS", <<FI("v", es[1])>>))>>
    [] kd = "if-cond-int" -> <<Ex(If1(es[1], SetG0))>>
    [] kd = "loop-cond-int" -> <<Loop(es[1], <<Break>>)>>
    [] kd \in {"gen-same"} -> Call(V(GGen), <<es[1], es[2]>>)
    [] kd = "gen-id-res" -> <<DefC(320, TyA(ts[2]), Call(V(GGen), <<es[1]>>))>>
    [] kd \in {"gen-app-arg", "gen-appaa-arg", "gen-fnret-arg"} -> Call(V(GGen), <<V(GInc), es[1]>>)
    [] kd = "gen-app-fn" -> Call(V(GGen), <<FnFrom(ts[2]), es[1]>>)
    [] kd \in {"gen-app-res", "gen-appaa-res"} -> <<DefC(320, TyA(ts[2]), Call(V(GGen), <<V(GInc), es[1]>>))>>
    [] kd \in {"gen-appr-arg", "gen-retfn-arg"} -> Call(V(GGen), <<es[1], V(GInc)>>)
    [] kd = "gen-appr-fn" -> Call(V(GGen), <<es[1], FnFrom(ts[2])>>)
    [] kd = "gen-list-elem" -> Call(V(GGen), <<Lst(<<es[1]>>), es[2]>>)
    [] kd = "gen-mk-res" -> <<DefC(320, TList(TyA(ts[2])), Call(V(GGen), <<es[1]>>))>>
    [] kd = "gen-comp" -> Call(Call(V(GGen), <<V(GInc), FnFrom(ts[2])>>), <<es[1]>>)
    [] kd = "gen-hof-arg" ->
         Call(V(GGen), <<Fn(<<P(330, TFn(<<TInt>>, TInt))>>, TInt, <<Ex(Call(V(330), <<I(1)>>))>>), es[1]>>)
    [] kd = "gen-2fn" -> Call(V(GGen), <<FnFrom(ts[2]), V(GInc), es[1]>>)
    [] kd = "std-map-cb" -> Call(Std("map"), <<Lst(<<es[1]>>), PuId(ts[2], TInt, I(1))>>)
    [] kd = "std-map-res" -> <<DefC(320, TList(TyA(ts[2])), Call(Std("map"), <<Lst(<<es[1]>>), PuId("int", TInt, V(330))>>))>>
    [] kd = "std-filter-cb" -> Call(Std("filter"), <<Lst(<<es[1]>>), PuId(ts[2], TBool, Bo(TRUE))>>)
    [] kd = "std-filter-res" -> <<DefC(320, TList(TyA(ts[2])), Call(Std("filter"), <<Lst(<<es[1]>>), PuId("int", TBool, Bo(TRUE))>>))>>
    [] kd = "std-fold-init" -> Call(Std("fold"), <<Lst(<<I(1)>>), es[1], FoldCb>>)
    [] kd = "std-fold-elem" -> Call(Std("fold"), <<Lst(<<es[1]>>), I(0), FoldCb>>)
    [] kd = "std-fold-res" -> <<DefC(320, TyA(ts[2]), Call(Std("fold"), <<Lst(<<es[1]>>), I(0), FoldCb>>))>>
    [] kd = "std-push" -> <<DefC(320, TNone, Lst(<<es[1]>>)), Ex(Call(Std("list.push"), <<V(320), es[2]>>))>>
    [] kd = "std-set" -> <<DefC(320, TNone, Lst(<<es[1]>>)), Ex(Call(Std("list.set"), <<V(320), I(0), es[2]>>))>>
    [] kd = "std-contains" -> Call(Std("list.contains"), <<Lst(<<es[1]>>), es[2]>>)
    [] kd = "std-foreach-cb" ->
         <<Ex(Call(Std("for_each"), <<Lst(<<es[1]>>), Fn(<<P(330, TyA(ts[2]))>>, TVoid, <<Asg("=", V(GG), I(2))>>)>>))>>

(* The core typing table: is the form over type vector ts well typed?  (planted: the planted construct) *)
OpOkT(op, a, b) ==
  CASE op = "+" -> a = b /\ a \in {"int", "float", "str"}
    [] op \in {"-", "*"} -> a = b /\ a \in Num
    [] op \in {"==", "!="} -> a = b
    [] op \in {"<", ">", "<=", ">="} -> (a \in Num /\ b \in Num) \/ (a = "str" /\ b = "str")
    [] op \in {"and", "or"} -> a = "bool" /\ b = "bool"
CoreOk(c, ts, planted) ==
  /\ c.op \in {"+", "-", "*", "==", "!=", "<", ">=", "and", "or"} => OpOkT(c.op, ts[1], ts[2])
  /\ c.op = "neg" => (planted => ts[1] \in Num)
  /\ c.op = "call" => ~planted                         \* no operand type of ATypes can be called
  /\ \A j \in 1..Len(c.want) : c.want[j] # "" => ts[j] = c.want[j]
  /\ \A lk \in c.link : ts[lk[1]] = ts[lk[2]]

---------------------------------------------------------------------------
(* ARRIVAL FORMS.  A form is [fam, bind, arg]:
     val      the operand expression is produced by a value form `arg` (ValForms)
     bind     the operand is the binding of a case arm: arg = "case" (Maybe.Just v) | "listget" (list.get([v], 0))
     capture  the operand is a mutable local read inside a closure that is called at once
     aparam   the operand is a parameter ANNOTATED with its type; the function is called with the literal
     uparam   the operand is an UN-ANNOTATED parameter; the call passes the value form `arg`
   bind of a function: iife (literal called at once) | local (constant local) | global (global function).
   Two operands with the same aparam/uparam form share ONE function (two parameters) unless the layout is
   nested (lay = 1): then the function of operand 2 is a closure inside the function of operand 1.            *)
ValForms == <<"lit", "const", "constannot", "mut", "mutannot", "gconst", "gmut", "field", "tuple", "fnres", "ufnres",
              "genid", "getter", "listfold">>
ArgForms == <<"lit", "mut", "gmut", "fnres", "genid", "field">>
FnBinds == <<"iife", "local", "global">>
F(fam, bind, arg) == [fam |-> fam, bind |-> bind, arg |-> arg]
Forms ==
  [i \in 1..Len(ValForms) |-> F("val", "-", ValForms[i])]
  \o <<F("bind", "-", "case"), F("bind", "-", "listget"), F("capture", "-", "mut")>>
  \o [i \in 1..Len(FnBinds) |-> F("aparam", FnBinds[i], "lit")]
  \o [i \in 1..(Len(FnBinds) * Len(ArgForms)) |->
        F("uparam", FnBinds[((i - 1) \div Len(ArgForms)) + 1], ArgForms[((i - 1) % Len(ArgForms)) + 1])]
NF == Len(Forms)
FName(f) == CASE f.fam = "val" -> f.arg
              [] f.fam = "bind" -> IF f.arg = "case" THEN "casebind" ELSE "listget"
              [] f.fam = "capture" -> "capture"
              [] f.fam = "aparam" -> "aparam-" \o f.bind
              [] f.fam = "uparam" -> "uparam-" \o f.bind \o "/" \o f.arg
IsParam(f) == f.fam \in {"aparam", "uparam"}
LitForm == 1
ASSUME Forms[LitForm] = F("val", "-", "lit")

\* ids: locals of slot j are 400 + 20j .. ; globals 1100 + 10j ..
LB(j) == 400 + 20 * j
GB(j) == 1100 + 10 * j
BlobName(j) == IF j = 1 THEN "AF" ELSE "AG"
Arr(g, s, e, ann) == [g |-> g, s |-> s, e |-> e, ann |-> ann]     \* globals, setup statements, operand expression, annotation written

Val(a, t, j) ==
  LET v == Lit(t, j)
      b == LB(j)
      gid == GB(j) IN
  CASE a = "lit" -> Arr(<<>>, <<>>, v, TNone)
    [] a = "const" -> Arr(<<>>, <<DefC(b, TNone, v)>>, V(b), TNone)
    [] a = "constannot" -> Arr(<<>>, <<DefC(b, TyA(t), v)>>, V(b), TyA(t))
    [] a = "mut" -> Arr(<<>>, <<DefM(b, TNone, v)>>, V(b), TNone)
    [] a = "mutannot" -> Arr(<<>>, <<DefM(b, TyA(t), v)>>, V(b), TyA(t))
    [] a = "gconst" -> Arr(<<DefN(gid, "const", TNone, v, "")>>, <<>>, V(gid), TNone)
    [] a = "gmut" -> Arr(<<DefN(gid, "mut", TNone, v, "")>>, <<>>, V(gid), TNone)
    [] a = "field" -> Arr(<<BlobD(BlobName(j), <<FD("v", TyA(t))>>)>>,
                          <<DefC(b, TNone, BlobL(BlobName(j), <<FI("v", v)>>))>>, Fld(V(b), "v"), TyA(t))
    [] a = "tuple" -> Arr(<<>>, <<DefC(b, TNone, Tup(<<I(0), v>>))>>, Idx(V(b), 1), TNone)
    [] a = "fnres" -> Arr(<<DefN(gid, "const", TNone, Fn(<<>>, TyA(t), <<Ex(v)>>), "")>>, <<>>, Call(V(gid), <<>>), TyA(t))
    [] a = "ufnres" -> Arr(<<DefN(gid, "const", TNone, Fn(<<>>, TNone, <<Ex(v)>>), "")>>, <<>>, Call(V(gid), <<>>), TNone)
    [] a = "genid" -> Arr(<<DefN(gid, "const", TNone, Fn(<<P(b, TA)>>, TA, <<Ex(V(b))>>), "")>>, <<>>, Call(V(gid), <<v>>), TNone)
    [] a = "getter" -> Arr(<<>>, <<DefM(b, TNone, v), DefC(b + 1, TNone, Fn(<<>>, TNone, <<Ex(V(b))>>))>>, Call(V(b + 1), <<>>), TNone)
    [] a = "listfold" -> Arr(<<>>, <<DefC(b, TNone, Lst(<<v>>))>>,
                             Call(Std("fold"), <<V(b), v, [Fn(<<P(b + 1, TNone), P(b + 2, TNone)>>, TNone, <<Ex(V(b + 1))>>) EXCEPT !.pure = TRUE]>>),
                             TNone)

\* what operand j contributes before any wrapper: globals, setup, the expression standing in the core
Operand(f, t, j) ==
  CASE f.fam = "val" -> Val(f.arg, t, j)
    [] f.fam = "bind" -> Arr(<<>>, <<>>, V(LB(j) + 5), TNone)
    [] f.fam = "capture" -> Val("mut", t, j)
    [] f.fam = "aparam" -> Arr(<<>>, <<>>, V(LB(j) + 5), TyA(t))
    [] f.fam = "uparam" -> [Val(f.arg, t, j) EXCEPT !.e = V(LB(j) + 5)]
\* the argument a param form passes at the call
CallArg(f, t, j) == IF f.fam = "aparam" THEN Lit(t, j) ELSE Val(f.arg, t, j).e

(* A block: statements followed (sort E) by a value expression.  Wrappers map blocks to blocks and may add a global. *)
Blk(g, s, e) == [g |-> g, s |-> s, e |-> e]
Body(blk, sort) == IF sort = "E" THEN blk.s \o <<Ex(blk.e)>> ELSE blk.s
NoValA(j) == <<DefC(LB(j) + 7, TInt, I(0))>>

\* the function of a param form over parameters ps; value functions of an annotated form declare the core's type
FnLit(f, ps, blk, sort, ty) ==
  Fn(ps, IF sort = "S" THEN TVoid ELSE IF f.fam = "aparam" THEN Ty(ty) ELSE TNone, Body(blk, sort))
CallBlk(f, j, fnlit, args, blk, sort) ==
  LET call(callee) == Call(callee, args)
      fin(g, s, callee) == IF sort = "E" THEN Blk(g, s, call(callee)) ELSE Blk(g, s \o <<Ex(call(callee))>>, Nil) IN
  CASE f.bind = "iife" -> fin(blk.g, <<>>, fnlit)
    [] f.bind = "local" -> fin(blk.g, <<DefC(LB(j) + 6, TNone, fnlit)>>, V(LB(j) + 6))
    [] f.bind = "global" -> fin(blk.g \o <<DefN(GB(j) + 5, "const", TNone, fnlit, "")>>, <<>>, V(GB(j) + 5))

ParamOf(f, t, j) == P(LB(j) + 5, IF f.fam = "aparam" THEN TyA(t) ELSE TNone)

WrapOne(f, t, j, blk, sort, ty) ==
  CASE f.fam = "bind" ->
         LET scrut == IF f.arg = "case" THEN Var1("Maybe", "Just", Lit(t, j)) ELSE Call(Std("list.get"), <<Lst(<<Lit(t, j)>>), I(0)>>)
             arm == CArmB("Just", LB(j) + 5, Body(blk, sort)) IN
         IF sort = "E" THEN Blk(blk.g, <<>>, CaseE(scrut, <<arm>>, <<Ex(DfltA(ty))>>))
         ELSE Blk(blk.g, <<Ex(CaseE(scrut, <<arm>>, NoValA(j)))>>, Nil)
    [] f.fam = "capture" ->
         IF sort = "E" THEN Blk(blk.g, <<>>, Call(Fn(<<>>, TNone, Body(blk, sort)), <<>>))
         ELSE Blk(blk.g, <<Ex(Call(Fn(<<>>, TVoid, Body(blk, sort)), <<>>))>>, Nil)
    [] IsParam(f) -> CallBlk(f, j, FnLit(f, <<ParamOf(f, t, j)>>, blk, sort, ty), <<CallArg(f, t, j)>>, blk, sort)
    [] OTHER -> blk
WrapJoint(f, ts, blk, sort, ty) ==
  CallBlk(f, 1, FnLit(f, <<ParamOf(f, ts[1], 1), ParamOf(f, ts[2], 2)>>, blk, sort, ty),
          <<CallArg(f, ts[1], 1), CallArg(f, ts[2], 2)>>, blk, sort)

---------------------------------------------------------------------------
(* A derived mismatch is keyed by m = <<core index, form index of slot 1, form index of slot 2 (0 if the core has
   one slot), layout>>; legacy table entries are <<0, index into MM, 0, 0>>.                                   *)
Joint(m) == Cores[m[1]].n = 2 /\ m[2] = m[3] /\ IsParam(Forms[m[2]]) /\ m[4] = 0

Side(m, planted) ==
  LET c == Cores[m[1]]
      ts == IF planted THEN c.pl ELSE c.bs
      fs == IF c.n = 1 THEN <<Forms[m[2]]>> ELSE <<Forms[m[2]], Forms[m[3]]>>
      ops == [j \in 1..c.n |-> Operand(fs[j], ts[j], j)]
      use == Build(c, [j \in 1..c.n |-> ops[j].e], ts, planted)
      b0 == IF c.sort = "E" THEN Blk(<<>>, <<>>, use) ELSE Blk(<<>>, use, Nil)
      blk == IF Joint(m) THEN WrapJoint(fs[1], ts, b0, c.sort, c.ty)
             ELSE IF c.n = 1 THEN WrapOne(fs[1], ts[1], 1, b0, c.sort, c.ty)
             ELSE WrapOne(fs[1], ts[1], 1, WrapOne(fs[2], ts[2], 2, b0, c.sort, c.ty), c.sort, c.ty)
      setup == IF c.n = 1 THEN ops[1].s ELSE ops[1].s \o ops[2].s
      globals == CoreGlobals(c, ts) \o (IF c.n = 1 THEN ops[1].g ELSE ops[1].g \o ops[2].g) \o blk.g
  IN [g |-> globals, pre |-> setup \o blk.s, e |-> blk.e]

\* forms whose operand expression can be read from inside a global function
GlobalVisible(f) == f.fam = "val" /\ f.arg \in {"lit", "gconst", "gmut", "fnres", "ufnres", "genid"}
NoLocalSetup(f) == Len(Operand(f, "int", 1).s) = 0
IsGlobalFn(f) == IsParam(f) /\ f.bind = "global"
InBasic(m) == Cores[m[1]].n = 1 \/ m[2] = m[3] \/ m[2] = LitForm \/ m[3] = LitForm
Applicable(m) ==
  LET c == Cores[m[1]] IN
  /\ m[1] \in 1..NC /\ m[2] \in 1..NF /\ m[4] \in {0, 1}
  /\ IF c.n = 1 THEN m[3] = 0 /\ m[4] = 0 ELSE m[3] \in 1..NF
  /\ ~(c.old /\ m[2] = LitForm /\ m[3] \in {0, LitForm})            \* that is the legacy table entry itself
  /\ (c.n = 2 /\ ~Joint(m)) =>
       LET f1 == Forms[m[2]]
           f2 == Forms[m[3]] IN
       \* operand 2 (wrapped first) sits inside operand 1's function.  A global function sees only globals:
       \* the inner global function reads operand 1 (must be global-visible); inside the outer global function
       \* operand 2 must not need local definitions made before it
       /\ IsGlobalFn(f2) => GlobalVisible(f1)
       /\ IsGlobalFn(f1) => (NoLocalSetup(f2) /\ ~IsGlobalFn(f2))
       /\ m[4] = 1 => (f1 = f2 /\ IsParam(f1) /\ f1.bind # "global")

\* the form vectors of the universe: one slot: every form; two slots: both by the same form (one shared function
\* for param forms, and the nested layout), or one of them a literal; Pairs = TRUE adds every ordered pair
FormVecs(c, pairs) ==
  IF c.n = 1 THEN {<<i, 0, 0>> : i \in 1..NF}
  ELSE {<<i, i, 0>> : i \in 1..NF} \cup {<<i, i, 1>> : i \in {x \in 1..NF : IsParam(Forms[x])}}
       \cup {<<LitForm, i, 0>> : i \in 1..NF} \cup {<<i, LitForm, 0>> : i \in 1..NF}
       \cup (IF pairs THEN {<<i, k, 0>> : i \in 1..NF, k \in 1..NF} ELSE {})
AKeys(pairs) == {m \in UNION {{<<ci, fv[1], fv[2], fv[3]>> : fv \in FormVecs(Cores[ci], pairs)} : ci \in 1..NC} : Applicable(m)}

AKind(m) ==
  LET c == Cores[m[1]] IN
  c.kind \o "@" \o FName(Forms[m[2]]) \o (IF c.n = 2 THEN "+" \o FName(Forms[m[3]]) ELSE "") \o (IF m[4] = 1 THEN "~nested" ELSE "")

\* sort of the derived mismatch for the context machinery
ASort(m) ==
  LET c == Cores[m[1]]
      sd == Side(m, TRUE) IN
  IF c.sort = "E" THEN "E"
  ELSE IF c.isdef /\ Len(sd.pre) = 1 /\ Forms[m[2]].fam = "val" /\ (m[3] = 0 \/ Forms[m[3]].fam = "val") THEN "SD" ELSE "S"

---------------------------------------------------------------------------
(* Placement.  A sort-E payload is an expression e together with the statements `pre` that must run before it
   (the operands' definitions); pre floats outwards through expression contexts and is put in front at the
   first context that yields statements; a top that wants an expression gets a function literal called at once. *)
RECURSIVE AWrap(_, _, _, _, _, _)
AWrap(path, j, pre, p, sort, t) ==
  LET c == path[j] IN
  IF j = Len(path) THEN
    IF sort = "E" /\ Len(pre) > 0 THEN Apply(c, Thunk(TNone, pre \o <<Ex(p)>>), t, j) ELSE Apply(c, p, t, j)
  ELSE IF sort = "E" THEN
    IF OutSort(c) = "E" THEN AWrap(path, j + 1, pre, Apply(c, p, t, j), "E", OutTy(c, t))
    ELSE AWrap(path, j + 1, <<>>, pre \o Apply(c, p, t, j), "S", "-")
  ELSE AWrap(path, j + 1, <<>>, Apply(c, p, t, j), OutSort(c), OutTy(c, t))

AProgram(m, path, planted) ==
  LET c == Cores[m[1]]
      sd == Side(m, planted) IN
  sd.g \o (IF c.sort = "E" THEN AWrap(path, 1, sd.pre, sd.e, "E", c.ty) ELSE AWrap(path, 1, <<>>, sd.pre, "S", "-"))

(* The chains a derived mismatch is placed in.
   full = FALSE (quick): every top alone (chain length 1), the three plainest statement positions of an
   expression under start, and a seeded sample of 1/Mod of the chains of length 2; full = TRUE: all chains <= 2. *)
CtxSeq == <<"operandL", "operandR", "callarg", "tupleelem", "retexpr", "fntail", "thenval", "elseval", "armval", "caseelseval",
            "ifcond", "elifcond", "unused", "defannot", "definfer", "listelem", "tuplelit", "blobfield", "asgrhs", "printarg",
            "loopcond", "stmtifcond", "stmtelifcond", "ifbranch", "elsebranch", "elifbranch", "casearm", "caseelse", "loopbody",
            "block", "closure", "voidclosure", "fnargbody", "method", "iife", "start", "gfn", "gfnuncalled", "gvoidfn", "global",
            "globalinfer", "gdef">>
ASSUME {CtxSeq[i] : i \in 1..Len(CtxSeq)} = Contexts
CtxNo(c) == CHOOSE i \in 1..Len(CtxSeq) : CtxSeq[i] = c
Hash(m, path, seed) ==
  ((((m[1] * 37 + m[2] * 11 + m[3] * 5 + m[4]) % 9973) * 101 + CtxNo(path[1]) * 53 + CtxNo(path[2]) * 17 + seed) % 100003)
Plain == {"unused", "definfer", "printarg"}
AChains(m, full, seed, mod) ==
  LET c == Cores[m[1]]
      s == ASort(m)
      two == Chains(s, c.ty, 2, Tops) IN
  Chains(s, c.ty, 1, Tops)
  \cup (IF full THEN two
        ELSE {p \in two : (s = "E" /\ p[1] \in Plain /\ p[2] = "start") \/ Hash(m, p, seed) % mod = 0})
\* pairs of different arrival forms (thorough only) are placed in one plain position only
PairChains(m) ==
  LET c == Cores[m[1]]
      s == ASort(m) IN
  IF s = "E" THEN {<<"definfer", "start">>} ELSE {<<"start">>}
IsPairOnly(m) == ~InBasic(m)

AIds(full, pairs, seed, mod) ==
  UNION {{<<m, path>> : path \in (IF IsPairOnly(m) THEN PairChains(m) ELSE AChains(m, full, seed, mod))} : m \in AKeys(pairs)}

---------------------------------------------------------------------------
(* Spec-level sanity of the arrival universe (ASSUMEd by MC_Mismatch) *)
CoreKindsDistinct == \A i, j \in 1..NC : Cores[i].kind = Cores[j].kind => i = j
CoreShape == \A i \in 1..NC :
  LET c == Cores[i] IN
  /\ c.rule \in Rules /\ c.n \in {1, 2} /\ Len(c.pl) = Len(c.bs) /\ Len(c.pl) >= c.n
  /\ (c.sort = "E" /\ c.ty \in Types) \/ (c.sort = "S" /\ c.ty = "-")
  /\ \A j \in 1..Len(c.pl) : c.pl[j] \in ATypes /\ c.bs[j] \in ATypes
  /\ \A lk \in c.link : lk[1] \in 1..Len(c.pl) /\ lk[2] \in 1..Len(c.pl)
\* every core that restates a legacy table entry has that entry's kind and rule
OldCoresInTable == \A i \in 1..NC : Cores[i].old => \E k \in 1..NM : MM[k].kind = Cores[i].kind /\ MM[k].rule = Cores[i].rule
\* definiteness: the planted type vector violates the core's typing rule, the base vector satisfies it
CoresDefinite == \A i \in 1..NC : ~CoreOk(Cores[i], Cores[i].pl, TRUE) /\ CoreOk(Cores[i], Cores[i].bs, FALSE)
\* the two forms differ only in the offending types (or in the offending construct)
CoresDiffer == \A i \in 1..NC : Cores[i].pl # Cores[i].bs \/ Cores[i].op \in {"neg", "call"}
\* every arrival form delivers the explicit type it is asked for: the literal it is built from has that type and
\* every annotation it writes repeats it
ArrivalSound == \A i \in 1..NF : \A t \in ATypes : \A j \in {1, 2} :
  LET f == Forms[i]
      o == Operand(f, t, j) IN
  /\ LitTyName(Lit(t, j)) = t
  /\ o.ann.k # "tnone" => TyName(o.ann) = t
  /\ f.fam = "aparam" => ParamOf(f, t, j).ty = TyA(t)
  /\ f.fam = "uparam" => ParamOf(f, t, j).ty.k = "tnone"
FormsDistinct == \A i, j \in 1..NF : FName(Forms[i]) = FName(Forms[j]) => i = j
\* every form meets every core (in some form vector), and every key of the universe is inhabited by a case
CellsMet(pairs) == \A ci \in 1..NC : \A fi \in 1..NF :
  (Cores[ci].old /\ fi = LitForm)
  \/ \E fv \in FormVecs(Cores[ci], pairs) : (fv[1] = fi \/ fv[2] = fi) /\ Applicable(<<ci, fv[1], fv[2], fv[3]>>)
KeysPlaced(keys, full, seed, mod) ==
  \A m \in keys : (IF IsPairOnly(m) THEN PairChains(m) ELSE AChains(m, full, seed, mod)) # {}
=============================================================================
