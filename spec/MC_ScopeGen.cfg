SPECIFICATION Spec
INVARIANTS TypeOk
CHECK_DEADLOCK FALSE
