----------------------------- MODULE SyltShare -----------------------------
(***************************************************************************)
(* C18, value semantics ACROSS containers.                                 *)
(*                                                                         *)
(* In the plain model of SyltStd containers are VALUES: list = Seq(V),     *)
(* dict = partial function, set = subset. A container produced by a        *)
(* library operation is therefore a new value that owes nothing to the     *)
(* container(s) and elements it was computed from:                         *)
(*                                                                         *)
(*   after  r2 := op(r1)  every later mutation of r1 leaves r2 as it was   *)
(*   and every later mutation of r2 leaves r1 as it was; two containers    *)
(*   made from the same list are independent of each other; the (immutable)*)
(*   tuples inside a list never change because a dict made from that list  *)
(*   was updated; entries handed to a for_each callback never change later.*)
(*                                                                         *)
(* SyltStd keeps ONE container per behaviour, so it cannot say this. Here  *)
(* the state is a sequence of up to MaxRegs REGISTERS r1, r2, r3:          *)
(*                                                                         *)
(*   Lit          r1 := a list written in source                           *)
(*   Derive(op)   r(n+1) := op(r_i)   - the model functions of SyltStd     *)
(*                  list:  map f | filter p | copy (for_each + push)       *)
(*                         dict.from_list | set.from_list                  *)
(*                  dict:  dict.map f | entries (for_each + push: a bag)   *)
(*                  set:   set.map f  | elems   (for_each + push: a bag)   *)
(*                  (f and the for_each callbacks also RE-ENTRANT: they    *)
(*                  call get / contains on the container being traversed   *)
(*                  and list.get on r1)                                    *)
(*   Mutate(i,op) r_i := op(r_i), NOTHING else changes                     *)
(*                  list: push prepend pop set   dict: update remove       *)
(*                  set:  add remove                                       *)
(*                                                                         *)
(* and after EVERY step ALL registers are observed (len + every element /  *)
(* every key lookup / every membership). Mutations write a MARK value that *)
(* no literal contains, so that a write that leaks is always visible.      *)
(* A "bag" is a list whose order is not specified (the iteration order of  *)
(* dicts and sets is not part of the contract): it is observed through len *)
(* and contains only.                                                      *)
(*                                                                         *)
(* Shapes: "list" (r1 a list of T), "dict" (r1 a list of (K, W) entries),  *)
(* "set" (r1 a list of T); T/K is int or (int, int) - tuples are the       *)
(* objects an implementation could share. The variables, VIEW and the      *)
(* transition-record pattern are those of SyltStd: `st` holds the          *)
(* registers, each with its provenance `how` (the operation that made it), *)
(* so the VIEW only merges histories that made every register the same way *)
(* and mutated them to the same values.                                    *)
(***************************************************************************)
EXTENDS SyltStd

MaxRegs  == EnvInt("SHARE_REGS", 3)     \* registers per behaviour
MaxMut   == EnvInt("SHARE_MUT", 2)      \* mutations per behaviour
NBase    == EnvInt("SHARE_VALS", 2)     \* how many values of the instantiation occur in literals
ShareLen == EnvInt("SHARE_LEN", 3)      \* longest list
MaxStepsL == EnvInt("SHARE_STEPS", 3)    \* derivations + mutations per behaviour, shape "list" (the big one)
MaxStepsD == EnvInt("SHARE_STEPS_DS", 4) \* ... shapes "dict" and "set"

ShareTypes == {"int", "pair"}
Shapes     == {"list", "dict", "set"}

BaseSeq(t) == SubSeq(ValSeq(t), 1, NBase)
Base(t)    == {BaseSeq(t)[i] : i \in 1..NBase}
DictW(t)   == DValSeq(t)[1]             \* what literals map keys to
MarkW(t)   == DValSeq(t)[2]             \* what dict.update writes

\* element types of registers: "int", "pair" = (int, int), "ent" = (K, W) of the dict instantiation of ty
Mark(et, t) == CASE et = "int"  -> IntV(9)
                 [] et = "pair" -> P(IntV(9), IntV(9))
                 [] et = "ent"  -> P(BaseSeq(t)[1], MarkW(t))

ShareMapFns(t) == MapFns(t) \cup {"id"}
SApply(f, v) == IF f = "id" THEN v ELSE ApplyFn(f, v)
FnOut(f, t) == CASE f = "id" -> t [] f = "inc" -> "int" [] f = "mkpair" -> "pair" [] f = "swap" -> "pair" [] f = "fst" -> "int"
\* RE-ENTRANT callbacks: "reget" / "reself" look the entry / element up again in the container being traversed (so they
\* are the identity), "first" replaces everything by the first element of the list r1 (if there is one); the for_each
\* callbacks of entries / elems come plain and re-entrant ("re": the same look-up before the push).
SetMapFns(t) == (IF t = "int" THEN {"id", "inc"} ELSE {"id", "swap"}) \cup {"reself", "first"}
DictMapFns == {"id", "setw", "reget", "first"}   \* entry -> entry; no dependence on the iteration order
EachKinds == {"plain", "re"}

\* every value a set / bag register of element type et can hold, in a fixed order (what `contains` is asked about)
UniSeq(et, t) ==
  CASE et = "int"  -> <<IntV(0), IntV(1), IntV(2), IntV(3), IntV(9), IntV(10)>>
    [] et = "pair" -> <<P(IntV(0), IntV(1)), P(IntV(1), IntV(0)), P(IntV(1), IntV(1)), P(IntV(0), IntV(0)), P(IntV(9), IntV(9))>>
    [] et = "ent"  -> LET ks == BaseSeq(t) IN
                      [j \in 1..(2 * Len(ks)) |-> P(ks[(j + 1) \div 2], IF j % 2 = 1 THEN DictW(t) ELSE MarkW(t))]

\* model values of the derived containers
DMapF(d, f, t, l1) ==
  CASE f \in {"id", "reget"} -> d
    [] f = "setw" -> [q \in DOMAIN d |-> MarkW(t)]
    [] f = "first" -> IF l1 = <<>> \/ DOMAIN d = {} THEN d ELSE [q \in {l1[1].es[1]} |-> l1[1].es[2]]
DEntries(d) == {P(q, d[q]) : q \in DOMAIN d}
SMapF(s, f, l1) ==
  CASE f = "reself" -> s
    [] f = "first" -> IF l1 = <<>> \/ s = {} THEN s ELSE {l1[1]}
    [] OTHER -> {SApply(f, x) : x \in s}

Reg(rk, et, v, how) == [rk |-> rk, et |-> et, v |-> v, how |-> how]
SOp(name, args, on, from) == [op |-> name, a |-> args, on |-> on, from |-> from]

---------------------------------------------------------------------------
(* Observation of ONE register; every Ask carries the register's number.   *)
RAsk(i, o, r) == [reg |-> i, op |-> o, res |-> r]
Tag(i, asks) == [j \in 1..Len(asks) |-> RAsk(i, asks[j].op, asks[j].res)]

ObserveReg(i, g, t) ==
  CASE g.rk = "list" -> Tag(i, ObserveList(g.v))
    [] g.rk = "dict" ->
         LET ks == BaseSeq(t)
             held == OrderIn(ks, DOMAIN g.v) IN
         Tag(i, <<Ask(Op("len", <<>>), IntV(Cardinality(DOMAIN g.v)))>>
                \o [j \in 1..Len(ks) |-> Ask(Op("get", <<ks[j]>>), DGet(g.v, ks[j]))]
                \o <<Ask(Op("eq", <<ListL([j \in 1..Len(held) |-> P(held[j], g.v[held[j]])])>>), BoolV(TRUE))>>)
    [] g.rk = "set" ->
         LET us == UniSeq(g.et, t) IN
         Tag(i, <<Ask(Op("len", <<>>), IntV(Cardinality(g.v)))>>
                \o [j \in 1..Len(us) |-> Ask(Op("contains", <<us[j]>>), BoolV(us[j] \in g.v))]
                \o <<Ask(Op("eq", <<ListL(OrderIn(us, g.v))>>), BoolV(TRUE))>>)
    [] g.rk = "bag" ->
         LET us == UniSeq(g.et, t) IN
         Tag(i, <<Ask(Op("len", <<>>), IntV(Cardinality(g.v)))>>
                \o [j \in 1..Len(us) |-> Ask(Op("contains", <<us[j]>>), BoolV(us[j] \in g.v))])

RECURSIVE ObserveAll(_, _, _)
ObserveAll(regs, n, t) == IF n = 0 THEN <<>> ELSE ObserveAll(regs, n - 1, t) \o ObserveReg(n, regs[n], t)

\* the register the operation made or changed is also compared, as text, with the same value written in source
\* (only where the text does not depend on an iteration order: at most one element)
StrAsk(i, g, t) ==
  IF g.rk = "set" /\ Cardinality(g.v) <= 1
    THEN <<RAsk(i, Op("str", <<ListL(OrderIn(UniSeq(g.et, t), g.v))>>), BoolV(TRUE))>>
  ELSE IF g.rk = "dict" /\ Cardinality(DOMAIN g.v) <= 1
    THEN LET held == OrderIn(BaseSeq(t), DOMAIN g.v) IN
         <<RAsk(i, Op("str", <<ListL([j \in 1..Len(held) |-> P(held[j], g.v[held[j]])])>>), BoolV(TRUE))>>
  ELSE <<>>

---------------------------------------------------------------------------
(* st = [shape, regs, nmut, steps]; kind = "share".                        *)
ShareInit ==
  /\ kind = "share"
  /\ ty \in ShareTypes
  /\ made = FALSE
  /\ st \in {[shape |-> s, regs |-> <<>>, nmut |-> 0, steps |-> 0] : s \in Shapes}
  /\ hist = <<>>
  /\ last = [op |-> Op("init", <<>>), res |-> Void, pre |-> <<>>]

Regs == st.regs
NRegs == Len(st.regs)
MaxSteps == IF st.shape = "list" THEN MaxStepsL ELSE MaxStepsD

\* which case of the contract a transition exercises (goes into the violation signature)
ShareClass(o) ==
  IF o.op = "lit" THEN "-"
  ELSE IF o.from > 0 THEN
    LET src == Regs[o.from] IN
    (IF src.rk = "list" THEN
       (IF src.v = <<>> THEN "of-empty"
        ELSE IF o.op = "filter" THEN (IF LFilter(src.v, o.a[1].name) = src.v THEN "keeps-all" ELSE "rejects-some")
        ELSE "of-nonempty")
     ELSE (IF Cardinality(IF src.rk = "dict" THEN DOMAIN src.v ELSE src.v) = 0 THEN "of-empty" ELSE "of-nonempty"))
    \o ":from-" \o src.how
  ELSE
    LET g == Regs[o.on] IN
    (CASE g.rk = "dict" -> IF o.a[1] \in DOMAIN g.v THEN "present" ELSE "absent"
       [] g.rk = "set" -> IF o.a[1] \in g.v THEN "present" ELSE "absent"
       [] o.op = "pop" -> IF g.v = <<>> THEN "empty" ELSE "nonempty"
       [] OTHER -> "-")
    \o ":on-" \o g.how

ShareStep(o, r, regs2) ==
  /\ st' = [st EXCEPT !.regs = regs2, !.nmut = IF o.from = 0 /\ o.op # "lit" THEN @ + 1 ELSE @,
                       !.steps = IF o.op = "lit" THEN 0 ELSE @ + 1]
  /\ made' = TRUE
  /\ hist' = Append(hist, o)
  /\ last' = [op |-> o, res |-> r, pre |-> st.regs]
  /\ UNCHANGED <<ty, kind>>
  /\ PrintT(<<"REPLAY", ToJson([ty |-> ty, kind |-> "share", shape |-> st.shape, hist |-> hist, pre |-> ToString(st),
                                op |-> o, arg |-> ShareClass(o), res |-> r,
                                regs |-> [i \in 1..Len(regs2) |-> [rk |-> regs2[i].rk, et |-> regs2[i].et, how |-> regs2[i].how]],
                                obs |-> ObserveAll(regs2, Len(regs2), ty) \o StrAsk(o.on, regs2[o.on], ty)])>>)

IsShare == kind = "share" /\ made

(* ---- r1: a list written in source ----------------------------------- *)
LitElems == IF st.shape = "dict" THEN {P(key, DictW(ty)) : key \in Base(ty)} ELSE Base(ty)
SLit == /\ kind = "share" /\ ~made
        /\ \E l \in SeqsUpTo(LitElems, 2) :
             ShareStep(SOp("lit", <<ListL(l)>>, 1, 0), Void,
                       <<Reg("list", IF st.shape = "dict" THEN "ent" ELSE ty, l, "lit")>>)

(* ---- Derive: r(n+1) := op(r_i) -------------------------------------- *)
\* (a derivation is only made when a later step can still tell whether the new register is independent)
CanDerive == IsShare /\ NRegs < MaxRegs /\ st.steps + 1 < MaxSteps
New(o, g) == ShareStep(o, Void, Append(Regs, g))

DMap    == /\ CanDerive /\ st.shape = "list"
           /\ \E i \in 1..NRegs, f \in ShareMapFns(ty) :
                /\ Regs[i].rk = "list" /\ Regs[i].et = ty
                /\ New(SOp("map", <<FnV(f)>>, NRegs + 1, i),
                       Reg("list", FnOut(f, ty), [j \in 1..Len(Regs[i].v) |-> SApply(f, Regs[i].v[j])], "map"))
DFilter == /\ CanDerive /\ st.shape = "list"
           /\ \E i \in 1..NRegs, p \in Preds(ty) :
                /\ Regs[i].rk = "list" /\ Regs[i].et = ty
                /\ New(SOp("filter", <<FnV(p)>>, NRegs + 1, i), Reg("list", ty, LFilter(Regs[i].v, p), "filter"))
DCopy   == /\ CanDerive /\ st.shape = "list"
           /\ \E i \in 1..NRegs :
                /\ Regs[i].rk = "list"
                /\ New(SOp("copy", <<>>, NRegs + 1, i), Reg("list", Regs[i].et, Regs[i].v, "copy"))
DDictFromList == /\ CanDerive /\ st.shape = "dict"
                 /\ \E i \in 1..NRegs :
                      /\ Regs[i].rk = "list"
                      /\ New(SOp("dict.from_list", <<>>, NRegs + 1, i),
                             Reg("dict", ty, DFromList(DEmpty, Regs[i].v), "dict.from_list"))
DDictMap == /\ CanDerive
            /\ \E i \in 1..NRegs, f \in DictMapFns :
                 /\ Regs[i].rk = "dict"
                 /\ New(SOp("dict.map", <<FnV(f), MarkW(ty)>>, NRegs + 1, i), Reg("dict", ty, DMapF(Regs[i].v, f, ty, Regs[1].v), "dict.map"))
DEntriesOf == /\ CanDerive
              /\ \E i \in 1..NRegs, g \in EachKinds :
                   /\ Regs[i].rk = "dict"
                   /\ New(SOp("entries", <<FnV(g), MarkW(ty)>>, NRegs + 1, i), Reg("bag", "ent", DEntries(Regs[i].v), "entries"))
DSetFromList == /\ CanDerive /\ st.shape = "set"
                /\ \E i \in 1..NRegs :
                     /\ Regs[i].rk = "list"
                     /\ New(SOp("set.from_list", <<>>, NRegs + 1, i), Reg("set", ty, SFromList(Regs[i].v), "set.from_list"))
DSetMap == /\ CanDerive
           /\ \E i \in 1..NRegs, f \in SetMapFns(ty) :
                /\ Regs[i].rk = "set"
                /\ New(SOp("set.map", <<FnV(f), Mark(ty, ty)>>, NRegs + 1, i), Reg("set", ty, SMapF(Regs[i].v, f, Regs[1].v), "set.map"))
DElemsOf == /\ CanDerive
            /\ \E i \in 1..NRegs, g \in EachKinds :
                 /\ Regs[i].rk = "set"
                 /\ New(SOp("elems", <<FnV(g)>>, NRegs + 1, i), Reg("bag", ty, Regs[i].v, "elems"))

(* ---- Mutate: r_i := op(r_i); the other registers are not mentioned -- *)
CanMutate == IsShare /\ st.nmut < MaxMut /\ st.steps < MaxSteps
Upd(i, o, r, v2) == ShareStep(o, r, [Regs EXCEPT ![i].v = v2])
IsL(i) == Regs[i].rk = "list"
M(i) == Mark(Regs[i].et, ty)

MPush    == CanMutate /\ \E i \in 1..NRegs : IsL(i) /\ Len(Regs[i].v) < ShareLen
                                             /\ Upd(i, SOp("push", <<M(i)>>, i, 0), Void, Append(Regs[i].v, M(i)))
MPrepend == CanMutate /\ \E i \in 1..NRegs : IsL(i) /\ Len(Regs[i].v) < ShareLen
                                             /\ Upd(i, SOp("prepend", <<M(i)>>, i, 0), Void, <<M(i)>> \o Regs[i].v)
MPop     == CanMutate /\ \E i \in 1..NRegs : IsL(i) /\ Upd(i, SOp("pop", <<>>, i, 0), LLast(Regs[i].v), LPop(Regs[i].v))
MSet     == CanMutate /\ \E i \in 1..NRegs : IsL(i) /\ \E j \in 0..(Len(Regs[i].v) - 1) :
                                               Upd(i, SOp("set", <<IntV(j), M(i)>>, i, 0), Void, LSet(Regs[i].v, j, M(i)))
MUpdate  == CanMutate /\ \E i \in 1..NRegs : Regs[i].rk = "dict" /\ \E key \in Base(ty) :
                                               Upd(i, SOp("update", <<key, MarkW(ty)>>, i, 0), Void, DUpdate(Regs[i].v, key, MarkW(ty)))
MRemoveD == CanMutate /\ \E i \in 1..NRegs : Regs[i].rk = "dict" /\ \E key \in Base(ty) :
                                               Upd(i, SOp("remove", <<key>>, i, 0), Void, DRemove(Regs[i].v, key))
MAdd     == CanMutate /\ \E i \in 1..NRegs : Regs[i].rk = "set" /\ \E x \in Base(ty) \cup {Mark(ty, ty)} :
                                               /\ x \in Regs[i].v \/ Cardinality(Regs[i].v) < ShareLen
                                               /\ Upd(i, SOp("add", <<x>>, i, 0), Void, Regs[i].v \cup {x})
MRemoveS == CanMutate /\ \E i \in 1..NRegs : Regs[i].rk = "set" /\ \E x \in Base(ty) :
                                               Upd(i, SOp("remove", <<x>>, i, 0), Void, Regs[i].v \ {x})

ShareNext == \/ SLit
             \/ DMap \/ DFilter \/ DCopy \/ DDictFromList \/ DDictMap \/ DEntriesOf \/ DSetFromList \/ DSetMap \/ DElemsOf
             \/ MPush \/ MPrepend \/ MPop \/ MSet \/ MUpdate \/ MRemoveD \/ MAdd \/ MRemoveS
ShareSpec == ShareInit /\ [][ShareNext]_vars
---------------------------------------------------------------------------
ShareTypeOK ==
  /\ kind = "share" /\ ty \in ShareTypes /\ st.shape \in Shapes
  /\ NRegs <= MaxRegs /\ st.nmut <= MaxMut /\ st.steps <= MaxSteps /\ (made <=> NRegs > 0)
  /\ \A i \in 1..NRegs :
       LET g == Regs[i] IN
       /\ g.rk \in {"list", "dict", "set", "bag"} /\ g.et \in {"int", "pair", "ent"}
       /\ g.rk = "list" => Len(g.v) <= ShareLen
       /\ g.rk = "dict" => DOMAIN g.v \subseteq Base(ty)
       /\ g.rk \in {"set", "bag"} => \A x \in g.v : \E j \in 1..Len(UniSeq(g.et, ty)) : UniSeq(g.et, ty)[j] = x   \* all observable

(* VALUE SEMANTICS, asserted on every transition (ACTION_CONSTRAINT; a     *)
(* false conjunct is a TLC error, never a filter): a step changes at most  *)
(* the register it names; a derived register is the model function of its  *)
(* source at that moment; the named register changes as the one-container  *)
(* algebra of SyltStd says.                                                *)
ShareSane ==
  LET o == last'.op  r == last'.res  pre == last'.pre  post == st'.regs IN
  /\ o.op = "lit" => Assert(Len(post) = 1 /\ post[1].v = o.a[1].es, "lit")
  /\ (o.op # "lit" /\ o.from > 0) =>
       /\ Assert(Len(post) = Len(pre) + 1 /\ o.on = Len(post) /\ \A j \in 1..Len(pre) : post[j] = pre[j],
                 "a derivation changed an existing register")
       /\ LET s == pre[o.from].v  d == post[o.on].v IN
          /\ o.op = "map" => Assert(Len(d) = Len(s) /\ \A j \in 1..Len(s) : d[j] = SApply(o.a[1].name, s[j]), "map")
          /\ o.op = "filter" => Assert(d = LFilter(s, o.a[1].name) /\ (ShareClass(o) = "keeps-all:from-" \o pre[o.from].how => d = s), "filter")
          /\ o.op = "copy" => Assert(d = s, "copy")
          /\ o.op = "dict.from_list" => Assert(\A q \in Base(ty) : DGet(d, q) = DGet(DFromList(DEmpty, s), q), "dict.from_list")
          /\ o.op = "set.from_list" => Assert(\A x \in Base(ty) : (x \in d) <=> LContains(s, x), "set.from_list")
          /\ o.op = "dict.map" => Assert(/\ Cardinality(DOMAIN d) <= Cardinality(DOMAIN s)
                                          /\ (o.a[1].name # "first" => DOMAIN d = DOMAIN s)
                                          /\ (o.a[1].name \in {"id", "reget"} => d = s), "dict.map")
          /\ o.op = "set.map" => Assert(Cardinality(d) <= Cardinality(s) /\ (o.a[1].name \in {"id", "reself"} => d = s), "set.map")
          /\ o.op = "entries" => Assert(Cardinality(d) = Cardinality(DOMAIN s) /\ \A q \in DOMAIN s : P(q, s[q]) \in d, "entries")
          /\ o.op = "elems" => Assert(d = s, "elems")
  /\ (o.op # "lit" /\ o.from = 0) =>
       /\ Assert(Len(post) = Len(pre) /\ \A j \in 1..Len(pre) : j # o.on => post[j] = pre[j],
                 "a mutation changed a register it does not name")
       /\ Assert(post[o.on].how = pre[o.on].how /\ post[o.on].rk = pre[o.on].rk /\ post[o.on].et = pre[o.on].et, "mutation keeps the kind")
       /\ pre[o.on].rk = "list" => ListSane(o, r, pre[o.on].v, post[o.on].v)
       /\ pre[o.on].rk = "dict" => DictSane(o, r, pre[o.on].v, post[o.on].v)
       /\ pre[o.on].rk = "set" => SetSane(o, r, pre[o.on].v, post[o.on].v)
=============================================================================
