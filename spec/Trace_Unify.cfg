SPECIFICATION TraceSpec
INVARIANTS Acyclic NoConstraintLost
CHECK_DEADLOCK FALSE
