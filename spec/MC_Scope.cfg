SPECIFICATION Spec
INVARIANTS StackOk NoStuck DoneOk
CHECK_DEADLOCK FALSE
