----------------------------- MODULE MC_Mismatch -----------------------------
(* C03: emit the mismatch universe of SyltMismatch (table MM x context chains), of SyltArrival (cores x
   arrival forms x context chains) and of SyltOps (operator x same unsupported type x shape x context chains) (mode emit) and validate the recorded compile results of the real compiler
   against the specification's expectation (mode validate).
   A case id is <<m, path>>: m = <<0, index into MM, 0, 0>> for a table entry, <<core, form 1, form 2, layout>>
   for a derived mismatch, <<NC + 1..3, pair, shape, variant>> for an operator-type mismatch, <<NC + 4..6, .., .., ..>> for a
   mismatch through sharing (SyltSharing).  Emission walks key by key (initial states: the keys; one Emit step per chain of the
   key), so that no set of all cases is ever built. *)
EXTENDS SyltSharing, Json, IOUtils, FiniteSetsExt

VARIABLES k, pc
vars == <<k, pc>>

Mode == IOEnv.MODE                                   \* "emit" | "validate"
D == IF "DEPTH" \in DOMAIN IOEnv THEN atoi(IOEnv.DEPTH) ELSE 2
Complete == IF "COMPLETE" \in DOMAIN IOEnv THEN IOEnv.COMPLETE = "1" ELSE TRUE
Full == IF "FULL" \in DOMAIN IOEnv THEN IOEnv.FULL = "1" ELSE FALSE        \* arrival: all chains of length <= 2
Pairs == IF "PAIRS" \in DOMAIN IOEnv THEN IOEnv.PAIRS = "1" ELSE FALSE     \* arrival: every ordered pair of forms
Seed == IF "SEED" \in DOMAIN IOEnv THEN atoi(IOEnv.SEED) % 1000 ELSE 1
Mod == IF "MOD" \in DOMAIN IOEnv THEN atoi(IOEnv.MOD) ELSE 59
\* big universes are emitted, replayed and validated in NSlice slices (slice = a hash of the case id)
NSlice == IF "NSLICE" \in DOMAIN IOEnv THEN atoi(IOEnv.NSLICE) ELSE 1
Slice == IF "SLICE" \in DOMAIN IOEnv THEN atoi(IOEnv.SLICE) ELSE 0
SliceOf(m, p) == (m[1] * 37 + m[2] * 11 + m[3] * 5 + m[4] + CtxNo(p[1]) * 53 + (IF Len(p) > 1 THEN CtxNo(p[2]) * 17 ELSE 0)
                  + (IF Len(p) > 2 THEN CtxNo(p[3]) * 7 ELSE 0)) % NSlice

\* sharing universe: sample of the chains (SMOD) and of the width-4 crossed patterns (XMOD); ONLY=share restricts a run to it
SMod == IF "SMOD" \in DOMAIN IOEnv THEN atoi(IOEnv.SMOD) ELSE 236
XMod == IF "XMOD" \in DOMAIN IOEnv THEN atoi(IOEnv.XMOD) ELSE 36
Only == IF "ONLY" \in DOMAIN IOEnv THEN IOEnv.ONLY ELSE "all"

TableKeys == IF Only = "share" THEN {} ELSE {<<0, i, 0, 0>> : i \in 1..NM}
Keys == IF Only = "share" THEN {} ELSE AKeys(Pairs)
OpKeys == IF Only = "share" THEN {} ELSE OKeys
ShKeys == SKeys(Full, Seed, XMod)
AllKeys == TableKeys \cup Keys \cup OpKeys \cup ShKeys
\* the chains of a key (in this slice)
PathsOf(m) == IF m[1] = 0 THEN PathsFor(MM[m[2]], D)
              ELSE IF m[1] > NC + 3 THEN SChains(m, Seed, SMod)
              ELSE IF m[1] > NC THEN OChains(m, Full, Seed, Mod)
              ELSE IF IsPairOnly(m) THEN PairChains(m) ELSE AChains(m, Full, Seed, Mod)
SlicePaths(m) == IF NSlice = 1 THEN PathsOf(m) ELSE {p \in PathsOf(m) : SliceOf(m, p) = Slice}
KeyKnown(m) == (m[1] = 0 /\ m[2] \in 1..NM /\ m[3] = 0 /\ m[4] = 0)
               \/ (m[1] > NC + 3 /\ SKeyKnown(m, Full, Seed, XMod))
               \/ (m[1] \in (NC + 1)..(NC + 3) /\ OKeyKnown(m))
               \/ (m[1] \in 1..NC /\ <<m[2], m[3], m[4]>> \in FormVecs(Cores[m[1]], Pairs) /\ Applicable(m))
InUniverse(m, p) == KeyKnown(m) /\ p \in SlicePaths(m)
CountOver(S) == FoldSet(LAMBDA m, acc : acc + Cardinality(SlicePaths(m)), 0, S)
\* the same count for a set of sharing keys, with the path set built once
ShareCount(S) == LET sp == SPaths IN
  FoldSet(LAMBDA m, acc : acc + Cardinality({p \in SChainsP(m, Seed, SMod, sp) : NSlice = 1 \/ SliceOf(m, p) = Slice}), 0, S)

\* ---- spec-level sanity of the universe (a failing ASSUME is a wrong specification: tool error)
ASSUME KindsDistinct
ASSUME RulesKnown /\ AllRulesUsed /\ TypesKnown
ASSUME PlantedDiffers
ASSUME AllDefinite /\ SomeDecidable
ASSUME ContextsUsed
ASSUME CoreKindsDistinct /\ CoreShape /\ OldCoresInTable /\ FormsDistinct
ASSUME CoresDefinite /\ CoresDiffer
ASSUME ArrivalSound
ASSUME OTypeNamesDistinct /\ OpsDefinite /\ OpsCover
ASSUME ShareSane
ASSUME (Mode = "emit" /\ Slice = 0 /\ Only = "all") => CellsInhabited(CaseIds(D))
ASSUME (Mode = "emit" /\ Slice = 0 /\ Only = "all") => ProgramsDiffer(CaseIds(D))
ASSUME (Mode = "emit" /\ Slice = 0 /\ Only = "all") => CellsMet(Pairs) /\ KeysPlaced(Keys, Full, Seed, Mod)
ASSUME Mode = "emit" => PrintT(<<"PRELUDE", ToJson(Prelude)>>)
ASSUME Mode = "emit" => LET sk == ShKeys IN
                         PrintT(<<"UNIVERSE", ToJson([table_cases |-> CountOver(TableKeys), arrival_cases |-> CountOver(Keys),
                                                      ops_cases |-> CountOver(OpKeys), ops_keys |-> Cardinality(OpKeys),
                                                      share_cases |-> ShareCount(sk), share_keys |-> Cardinality(sk),
                                                      share_sizes |-> <<Cardinality(LKeys), Cardinality(VKeys), Cardinality({m \in sk : m[1] = SX})>>,
                                                      op_pairs |-> <<Len(BinPairs), Len(CompPairs), Len(DiffPairs)>>,
                                                      keys |-> Cardinality(TableKeys) + Cardinality(Keys) + Cardinality(OpKeys) + Cardinality(sk), kinds |-> NM, depth |-> D,
                                                      contexts |-> Cardinality(Contexts), cores |-> NC, forms |-> NF,
                                                      derived |-> Cardinality(Keys), nslice |-> NSlice, slice |-> Slice,
                                                      form_names |-> [i \in 1..NF |-> FName(Forms[i])],
                                                      core_kinds |-> [i \in 1..NC |-> Cores[i].kind]])>>)

Rec == IF Mode = "validate" THEN ndJsonDeserialize(IOEnv.TRACE) ELSE <<>>
KindOf(m) == IF m[1] = 0 THEN MM[m[2]].kind ELSE IF m[1] > NC + 3 THEN SKind(m) ELSE IF m[1] > NC THEN OKind(m) ELSE AKind(m)

Init == /\ pc = "start"
        /\ IF Mode = "emit" THEN k \in {<<m, <<>>>> : m \in AllKeys}
           ELSE /\ Assert(Complete => Cardinality({<<Rec[j].id.m, Rec[j].id.path>> : j \in 1..Len(Rec)}) = CountOver(TableKeys \cup Keys \cup OpKeys) + ShareCount(ShKeys),
                          "the records do not cover the specification's universe")
                /\ k \in 1..Len(Rec)

IdRec(id) ==
  LET m == id[1] IN
  IF m[1] = 0 THEN
    LET t == MM[m[2]] IN
    [kind |-> t.kind, m |-> m, path |-> id[2], depth |-> Len(id[2]), rule |-> t.rule, sort |-> t.sort, ty |-> t.ty,
     core |-> t.kind, forms |-> <<>>, u |-> "table"]
  ELSE IF m[1] > NC + 3 THEN
    [kind |-> SKind(m), m |-> m, path |-> id[2], depth |-> Len(id[2]), rule |-> SRule(m), sort |-> "S", ty |-> "-",
     core |-> SClass(m), forms |-> SForms(m), u |-> "share"]
  ELSE IF m[1] > NC THEN
    [kind |-> OKind(m), m |-> m, path |-> id[2], depth |-> Len(id[2]), rule |-> OpRule(OOp(m)), sort |-> "S", ty |-> "-",
     core |-> OClass(m), forms |-> OForms(m), u |-> "ops"]
  ELSE
    LET c == Cores[m[1]] IN
    [kind |-> AKind(m), m |-> m, path |-> id[2], depth |-> Len(id[2]), rule |-> c.rule, sort |-> c.sort, ty |-> c.ty,
     core |-> c.kind, u |-> "arrival",
     forms |-> IF c.n = 1 THEN <<FName(Forms[m[2]])>> ELSE <<FName(Forms[m[2]]), FName(Forms[m[3]])>>]
Prog(id, planted) ==
  IF id[1][1] = 0 THEN (IF planted THEN PlantedProgram(<<id[1][2], id[2]>>) ELSE BaseProgram(<<id[1][2], id[2]>>))
  ELSE IF id[1][1] > NC + 3 THEN SProgram(id[1], id[2], planted)
  ELSE IF id[1][1] > NC THEN OProgram(id[1], id[2], planted)
  ELSE AProgram(id[1], id[2], planted)
Base(id) == Prog(id, FALSE)
Planted(id) == Prog(id, TRUE)

Emit == /\ Mode = "emit" /\ pc = "start" /\ pc' = "done"
        /\ \E p \in SlicePaths(k[1]) :
             /\ k' = <<k[1], p>>
             \* definiteness of a sharing case is decided here by the typing model (all workers share the work)
             /\ Assert((k[1][1] > NC + 3 /\ p = <<"start">>) => SDefinite(k[1]), "a sharing case is not definite: planted system satisfiable or base system not")
             /\ PrintT(<<"REPLAY", ToJson([id |-> IdRec(k'), base |-> Base(k'), planted |-> Planted(k')])>>)

\* a record must be a case of the universe (of this slice) under the kind its key has; then its verdict is evaluated
Validate == /\ Mode = "validate" /\ pc = "start" /\ pc' = "done" /\ k' = k
            /\ Assert(InUniverse(Rec[k].id.m, Rec[k].id.path), "a record is not a case of the specification's universe")
            /\ Assert(Rec[k].id.kind = KindOf(Rec[k].id.m), "a record names another mismatch kind than its key")
            /\ LET v == Verdict(Rec[k]) IN
               IF v = "ok" THEN TRUE
               ELSE PrintT(<<"REJECT", ToJson([rec |-> k, why |-> v])>>)

Next == Emit \/ Validate
Spec == Init /\ [][Next]_vars

PcOk == pc \in {"start", "done"}
\* a conforming record has exactly the expected observation
VerdictSound == (Mode = "validate" /\ Verdict(Rec[k]) = "ok") =>
                   (Rec[k].base = Expect.base /\ Rec[k].planted = Expect.planted /\ Rec[k].bytes = 0 /\ Rec[k].nerr >= 1)
=============================================================================
