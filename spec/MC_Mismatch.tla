----------------------------- MODULE MC_Mismatch -----------------------------
(* C03: emit the mismatch universe of SyltMismatch (mode emit) and validate the recorded compile
   results of the real compiler against the specification's expectation (mode validate). *)
EXTENDS SyltMismatch, Json, IOUtils

VARIABLES k, pc
vars == <<k, pc>>

Mode == IOEnv.MODE                                   \* "emit" | "validate"
D == IF "DEPTH" \in DOMAIN IOEnv THEN atoi(IOEnv.DEPTH) ELSE 2
Complete == IF "COMPLETE" \in DOMAIN IOEnv THEN IOEnv.COMPLETE = "1" ELSE TRUE

Ids == CaseIds(D)

\* ---- spec-level sanity of the universe (a failing ASSUME is a wrong specification: tool error)
ASSUME KindsDistinct
ASSUME RulesKnown /\ AllRulesUsed /\ TypesKnown
ASSUME PlantedDiffers
ASSUME AllDefinite /\ SomeDecidable
ASSUME ContextsUsed
ASSUME Mode = "emit" => CellsInhabited(Ids)
ASSUME Mode = "emit" => ProgramsDiffer(Ids)
ASSUME Mode = "emit" => PrintT(<<"PRELUDE", ToJson(Prelude)>>)
ASSUME Mode = "emit" => PrintT(<<"UNIVERSE", ToJson([cases |-> Cardinality(Ids), kinds |-> NM, depth |-> D,
                                                      contexts |-> Cardinality(Contexts)])>>)

Rec == IF Mode = "validate" THEN ndJsonDeserialize(IOEnv.TRACE) ELSE <<>>
KindIdx(kind) == CHOOSE i \in 1..NM : MM[i].kind = kind
RecId(j) == <<KindIdx(Rec[j].id.kind), Rec[j].id.path>>
RecIds == {RecId(j) : j \in 1..Len(Rec)}

Init == /\ pc = "start"
        /\ IF Mode = "emit" THEN k \in Ids
           ELSE /\ Assert(\A j \in 1..Len(Rec) : Rec[j].id.kind \in Kinds, "a record names an unknown mismatch kind")
                /\ Assert(RecIds \subseteq Ids, "a record is not a case of the specification's universe")
                /\ Assert(Complete => Ids \subseteq RecIds, "the records do not cover the specification's universe")
                /\ k \in 1..Len(Rec)

Emit == /\ Mode = "emit" /\ pc = "start" /\ pc' = "done" /\ k' = k
        /\ LET m == MM[k[1]] IN
           PrintT(<<"REPLAY", ToJson([id |-> [kind |-> m.kind, path |-> k[2], depth |-> Len(k[2]), rule |-> m.rule,
                                              sort |-> m.sort, ty |-> m.ty],
                                      base |-> BaseProgram(k), planted |-> PlantedProgram(k)])>>)

Validate == /\ Mode = "validate" /\ pc = "start" /\ pc' = "done" /\ k' = k
            /\ LET v == Verdict(Rec[k]) IN
               IF v = "ok" THEN TRUE
               ELSE PrintT(<<"REJECT", ToJson([rec |-> k, why |-> v])>>)

Next == Emit \/ Validate
Spec == Init /\ [][Next]_vars

PcOk == pc \in {"start", "done"}
\* a conforming record has exactly the expected observation
VerdictSound == (Mode = "validate" /\ Verdict(Rec[k]) = "ok") =>
                   (Rec[k].base = Expect.base /\ Rec[k].planted = Expect.planted /\ Rec[k].bytes = 0 /\ Rec[k].nerr >= 1)
=============================================================================
