----------------------------- MODULE MC_Surface -----------------------------
(***************************************************************************)
(* C14 model: the program universe, the variant universe of each program,  *)
(* the token-level invariants, and validation of the recorded results.     *)
(*                                                                         *)
(*   MODE = model     one state per (skeleton expression, RAW choice):     *)
(*                    invariants Sound / Tight of SyltSurface's legality   *)
(*                    rule against the reference parser; prints the        *)
(*                    expected parse of every rendering (PARSE records)    *)
(*   MODE = pvalidate the real parser's tree of each rendering (recorded   *)
(*                    by the harness) must equal the reference parser's    *)
(*   MODE = emit      one state per program: prints the program and its    *)
(*                    variant universe (legal choice functions)            *)
(*   MODE = validate  recorded compile results: the record must cover the  *)
(*                    re-derived variant universe, every recorded choice   *)
(*                    must be legal, and all variants must be accepted     *)
(*                    with the plain variant's parser tree and Lua digest  *)
(***************************************************************************)
EXTENDS SyltGen, SyltSurface, Json, IOUtils

VARIABLES k, pc

\* any enumeration of a finite set (CHOOSE is deterministic for equal sets)
RECURSIVE SetToSeq(_)
SetToSeq(S) == IF S = {} THEN <<>> ELSE LET x == CHOOSE y \in S : TRUE IN <<x>> \o SetToSeq(S \ {x})
vars == <<k, pc>>

Env(name, dflt) == IF name \in DOMAIN IOEnv THEN IOEnv[name] ELSE dflt
Mode == IOEnv.MODE
MaxExh == atoi(Env("MAXEXH", "6"))          \* all legal sugar choices when there are at most this many sugar sites ...
MaxProd == atoi(Env("MAXPROD", "4096"))     \* ... and at most this many preference functions over them
MaxSingles == atoi(Env("MAXSINGLES", "40")) \* every single layout site is toggled on its own up to this many sites
NMix == atoi(Env("NMIX", "6"))
Seed == atoi(Env("SEED", "1"))
GenStride == atoi(Env("GENSTRIDE", "1"))    \* quick tier: every GenStride-th pair of the nesting universe
GenPhase == atoi(Env("GENPHASE", "0"))
AllHarnesses == Env("HALL", "0") = "1"         \* every admissible harness context per expression instead of one
SkMaxProd == atoi(Env("SKMAXPROD", "4096"))
ModelStride == atoi(Env("MODELSTRIDE", "1"))   \* quick tier: every ModelStride-th skeleton expression
ModelPhase == atoi(Env("MODELPHASE", "0"))
ReplayMode == Env("REPLAYMODE", "0") = "1"   \* --replay: one program with the plain and the offending variant only

(* ---------------------------------------------------------------- skeleton programs *)
Nm(s) == Std(s)
CF(a, b) == Call(Nm("f"), <<a, b>>)
CG(a) == Call(Nm("g"), <<a>>)
CH == Call(Nm("h"), <<>>)
CU(a) == Call(Nm("u"), <<a>>)
CMk(a) == Call(Nm("mk"), <<a>>)
TO == TName("O")

SkPrelude == <<
  BlobD("O", <<FD("n", TInt), FD("add", TFn(<<TInt>>, TInt))>>),
  DefN(2001, "const", TNone, Fn(<<P(1, TInt), P(2, TInt)>>, TInt, <<Ex(Bin("+", V(1), V(2)))>>), "f"),
  DefN(2002, "const", TNone, Fn(<<P(3, TInt)>>, TInt, <<Ex(Bin("*", V(3), I(2)))>>), "g"),
  DefN(2003, "const", TNone, Fn(<<>>, TInt, <<Ex(I(7))>>), "h"),
  DefN(2007, "const", TNone, Fn(<<P(6, TInt)>>, TInt, <<Ex(Bin("-", V(6), I(1)))>>), "u"),
  DefN(2004, "const", TNone,
       Fn(<<P(4, TInt)>>, TO,
          <<Ex(BlobL("O", <<FI("n", V(4)),
                            FI("add", Fn(<<P(5, TInt)>>, TInt, <<Ex(Bin("+", Fld(Self, "n"), V(5)))>>))>>))>>), "mk"),
  DefN(2005, "const", TO, CMk(I(1)), "o"),
  DefN(2006, "const", TTuple(<<TInt, TInt>>), Tup(<<I(3), I(4)>>), "t")
>>
SkFrom == Len(SkPrelude) + 1
SkStart(body) == DefN(GStart, "const", TNone, Fn(<<>>, TVoid, body), "start")
PrintE(e) == Ex(Call(Nm("print"), <<e>>))
\* `from <path> use (<names>)`; the harness adds the file <path>.sy with text src to the project
FromUse(path, names, src) == [k |-> "fromuse", path |-> path, names |-> names, src |-> src]
MSrc == "ma :: fn a: int -> int do\n    a + 1\nend\nmb :: 5\nmc :: 6\n"

\* value-returning function with a `loop true`, an early `ret`, `<!>` and a tail expression
QDef == DefN(2010, "const", TNone,
  Fn(<<P(21, TInt)>>, TInt,
     <<DefM(22, TInt, V(21)),
       Loop(Bo(TRUE), <<Asg("+=", V(22), CG(I(1))),
                        Ex(If1(Bin(">", V(22), I(5)), <<Break>>))>>),
       Ex(If1(Bin("<", V(22), I(0)), <<Unreach>>)),
       Ex(If1(Bin("==", V(22), I(100)), <<Ret(CF(V(22), CH))>>)),
       Ex(CF(V(22), CH))>>), "q")
\* a closure-returning function: tails at two depths, loop true inside a closure
Q2Def == DefN(2011, "const", TNone,
  Fn(<<P(23, TInt)>>, TFn(<<>>, TInt),
     <<Ex(Fn(<<>>, TInt, <<DefM(24, TInt, I(0)),
                           Loop(Bo(TRUE), <<Asg("+=", V(24), V(23)), Ex(If1(Bin(">", V(24), I(3)), <<Unreach, Break>>))>>),
                           Ex(CG(V(24)))>>))>>), "q2")

SkPrograms == <<
  \* 1: prime call inside arrow call inside a (multi-line) bracketed argument list
  <<SkStart(<<PrintE(CF(I(1), CG(I(2))))>>)>>,
  <<SkStart(<<PrintE(Bin("+", CF(CG(I(1)), I(2)), CH))>>)>>,
  <<SkStart(<<PrintE(Lst(<<CF(I(1), CG(I(2))), CH>>))>>)>>,
  <<SkStart(<<PrintE(Call(Fld(Nm("o"), "add"), <<CG(I(1))>>))>>)>>,
  <<SkStart(<<DefM(31, TInt, CF(CG(CH), I(2))), PrintE(V(31))>>)>>,
  <<SkStart(<<PrintE(Bin("-", Bin("*", CF(I(1), I(2)), CG(I(3))), CH))>>)>>,
  <<SkStart(<<PrintE(CF(CF(I(1), CG(I(2))), CG(CG(I(3)))))>>)>>,
  <<SkStart(<<PrintE(Call(Fld(CMk(I(1)), "add"), <<I(2)>>))>>)>>,
  <<SkStart(<<PrintE(CF(Idx(Nm("t"), 0), Fld(Nm("o"), "n")))>>)>>,
  <<SkStart(<<PrintE(Un("-", CG(I(1)))), PrintE(CG(Un("-", I(1)))), PrintE(CG(I(-3)))>>)>>,
  <<SkStart(<<PrintE(Tup(<<CG(I(1)), CF(I(2), CH)>>)), PrintE(Fld(CMk(CG(I(1))), "n"))>>)>>,
  <<SkStart(<<PrintE(If2(Bin(">", CG(I(1)), CH), <<Ex(CF(I(1), CH))>>, <<Ex(CG(CH))>>))>>)>>,
  <<QDef, SkStart(<<PrintE(Call(Nm("q"), <<I(2)>>))>>)>>,
  <<Q2Def, SkStart(<<PrintE(Call(Call(Nm("q2"), <<I(2)>>), <<>>))>>)>>,
  <<QDef, Q2Def, SkStart(<<DefC(32, TFn(<<>>, TInt), Call(Nm("q2"), <<CG(I(1))>>)),
                           Loop(Bo(TRUE), <<PrintE(CF(Call(V(32), <<>>), Call(Nm("q"), <<CH>>))), Break>>)>>)>>,
  \* 16: every bracket-like construct: enum and blob declaration, import list, blob literal, tuple, list, grouping,
  \*     multi-line if / elif condition, case head, paren / prime / arrow argument lists
  <<EnumD("Col", <<VD1("R", TInt), VD0("G"), VD1("W", TInt)>>),
    BlobD("Pt", <<FD("x", TInt), FD("y", TInt), FD("z", TInt)>>),
    FromUse("m", <<"ma", "mb", "mc">>, MSrc),
    SkStart(<<DefC(41, TName("Pt"), BlobL("Pt", <<FI("x", Call(Nm("ma"), <<I(1)>>)), FI("y", Nm("mb")), FI("z", CF(Nm("mc"), CG(I(2))))>>)),
              DefC(42, TTuple(<<TInt, TInt, TInt>>), Tup(<<Fld(V(41), "x"), CG(Fld(V(41), "y")), Bin("*", Bin("+", Fld(V(41), "z"), I(1)), I(2))>>)),
              DefC(43, TList(TInt), Lst(<<Idx(V(42), 0), CF(Idx(V(42), 1), CH), Idx(V(42), 2)>>)),
              Ex(If(<<ArmC(Bin("and", Bin(">", Fld(V(41), "x"), I(0)), Bin(">", CF(Fld(V(41), "y"), I(1)), I(0))), <<PrintE(V(43))>>),
                      ArmC(Bin("or", Bin("<", CH, I(0)), Bin("==", Fld(V(41), "z"), I(3))), <<PrintE(V(42))>>),
                      ArmE(<<PrintE(CF(I(1), Bin("+", CG(I(2)), I(3))))>>)>>)),
              Ex(CaseT(Var1("Col", "R", CF(I(1), I(2))),
                       <<CArmB("R", 44, <<PrintE(V(44))>>), CArm("G", <<PrintE(I(0))>>), CArmB("W", 45, <<PrintE(CG(V(45)))>>)>>))>>)>>,
  \* 17: implicit vs explicit return with every kind of trailing expression, in functions placed BEFORE and AFTER the
  \*     globals / functions they mention (bare global declared later / earlier, local, call, literal, if, tuple, list)
  <<DefN(2101, "const", TNone, Fn(<<>>, TInt, <<Ex(V(2102))>>), "retries"),
    DefN(2108, "const", TNone, Fn(<<>>, TInt, <<Ex(Call(V(2106), <<>>))>>), "viacall"),
    DefN(2109, "const", TNone, Fn(<<P(53, TBool)>>, TInt, <<Ex(If2(V(53), <<Ex(V(2102))>>, <<Ex(V(2107))>>))>>), "viaif"),
    DefN(2110, "const", TNone, Fn(<<>>, TTuple(<<TInt, TInt>>), <<Ex(Tup(<<V(2102), V(2107)>>))>>), "viatuple"),
    DefN(2111, "const", TNone, Fn(<<>>, TList(TInt), <<Ex(Lst(<<V(2107)>>))>>), "vialist"),
    DefN(2112, "const", TNone, Fn(<<>>, TInt, <<Ex(V(2107))>>), "mutlater"),
    DefN(2102, "const", TInt, I(5), "maxr"),
    DefN(2107, "mut", TInt, I(3), "level"),
    DefN(2106, "const", TNone, Fn(<<>>, TInt, <<Ex(I(7))>>), "late"),
    DefN(2103, "const", TNone, Fn(<<>>, TInt, <<Ex(V(2102))>>), "after"),
    DefN(2104, "const", TNone, Fn(<<P(51, TInt)>>, TInt, <<DefM(52, TInt, Bin("+", V(51), V(2107))), Ex(V(52))>>), "loc"),
    SkStart(<<PrintE(Call(V(2101), <<>>)), PrintE(Call(V(2108), <<>>)), PrintE(Call(V(2109), <<Bo(TRUE)>>)), PrintE(Call(V(2110), <<>>)),
              PrintE(Call(V(2111), <<>>)), PrintE(Call(V(2112), <<>>)), PrintE(Call(V(2103), <<>>)), PrintE(Call(V(2104), <<I(1)>>))>>)>>,
  \* 18: callees that are not names (call result, tuple index, function literal, if expression) and multi-line lambdas
  \*     without a return type whose bodies start with a type-like token (variant, blob literal), inside brackets
  <<EnumD("Col", <<VD1("R", TInt), VD0("G"), VD1("W", TInt)>>),
    BlobD("Pt", <<FD("x", TInt), FD("y", TInt)>>),
    DefN(2201, "const", TNone, Fn(<<P(61, TFn(<<TInt>>, TName("Col"))), P(62, TInt)>>, TName("Col"), <<Ex(Call(V(61), <<V(62)>>))>>), "mkc"),
    DefN(2202, "const", TNone, Fn(<<P(63, TFn(<<TInt>>, TName("Pt"))), P(64, TInt)>>, TName("Pt"), <<Ex(Call(V(63), <<V(64)>>))>>), "mkp"),
    DefN(2203, "const", TNone, Fn(<<P(65, TInt), P(66, TInt)>>, TInt, <<Ex(Bin("*", V(65), V(66)))>>), "sc"),
    DefN(2204, "const", TNone, Fn(<<P(67, TInt), P(68, TInt)>>, TInt, <<Ex(Bin("+", V(67), V(68)))>>), "sh"),
    DefN(2205, "const", TNone, Fn(<<P(69, TBool)>>, TFn(<<TInt, TInt>>, TInt), <<Ex(If1(V(69), <<Ret(V(2203))>>)), Ex(V(2204))>>), "pick"),
    SkStart(<<DefC(71, TNone, Call(V(2201), <<Fn(<<P(72, TInt)>>, TNone, <<Ex(Var1("Col", "R", V(72)))>>), I(3)>>)),
              DefC(73, TNone, Call(V(2202), <<Fn(<<P(74, TInt)>>, TNone, <<Ex(BlobL("Pt", <<FI("x", V(74)), FI("y", I(1))>>))>>), I(4)>>)),
              DefC(75, TNone, Tup(<<V(2203), V(2204), Fn(<<P(76, TInt), P(77, TInt)>>, TNone, <<Ex(Bin("-", V(76), V(77)))>>)>>)),
              DefM(78, TInt, Call(Call(V(2205), <<Bo(TRUE)>>), <<I(3), I(4)>>)),
              DefM(79, TInt, Call(V(2204), <<Call(Idx(V(75), 1), <<V(78), I(1)>>), I(10)>>)),
              DefM(80, TInt, Call(Call(V(2205), <<Bo(FALSE)>>), <<Call(V(2203), <<V(79), I(2)>>), I(1)>>)),
              DefM(81, TInt, Call(Fn(<<P(82, TInt), P(83, TInt)>>, TInt, <<Ex(Bin("+", V(82), V(83)))>>), <<V(78), V(79)>>)),
              DefM(84, TInt, Call(If2(Bin(">", V(78), V(79)), <<Ex(V(2203))>>, <<Ex(V(2204))>>), <<I(1), I(2)>>)),
              PrintE(V(71)), PrintE(Fld(V(73), "x")), PrintE(Bin("+", Bin("+", V(78), V(79)), Bin("+", V(80), Bin("+", V(81), V(84)))))>>)>>,
  \* 19: LOCAL definitions whose value is a function literal (plain, recursive, capturing), a blob literal, an if and a case
  \*     expression - the positions where redundant parentheses must not change how the definition is resolved
  <<EnumD("Col", <<VD1("R", TInt), VD0("G")>>),
    SkStart(<<DefC(91, TNone, Fn(<<P(92, TInt)>>, TInt, <<Ex(Bin("+", V(92), I(1)))>>)),
              DefC(93, TNone, Fn(<<P(94, TInt)>>, TInt, <<Ex(If1(Bin(">", V(94), I(3)), <<Ret(V(94))>>)), Ex(Call(V(93), <<Bin("+", V(94), I(1))>>))>>)),
              DefM(95, TInt, Call(V(91), <<I(1)>>)),
              DefC(96, TNone, Fn(<<>>, TInt, <<Asg("+=", V(95), I(1)), Ex(V(95))>>)),
              DefC(97, TName("O"), BlobL("O", <<FI("n", V(95)), FI("add", Fn(<<P(98, TInt)>>, TInt, <<Ex(Bin("+", Fld(Self, "n"), V(98)))>>))>>)),
              DefC(99, TInt, If2(Bin(">", V(95), I(1)), <<Ex(Call(V(93), <<I(1)>>))>>, <<Ex(Call(V(96), <<>>))>>)),
              DefC(100, TInt, CaseT(Var1("Col", "R", V(99)), <<CArmB("R", 101, <<Ex(Bin("*", V(101), I(2)))>>), CArm("G", <<Ex(I(0))>>)>>)),
              PrintE(Bin("+", Call(Fld(V(97), "add"), <<V(100)>>), Call(V(96), <<>>)))>>)>>
>>

(* ---------------------------------------------------------------- skeleton expressions of the token-level model *)
A0 == {I(1), CH, CG(I(2))}
A1 == A0 \cup {CF(a, b) : a \in A0, b \in A0} \cup {CU(a) : a \in A0 \ {I(1)}}
Ctx(x) == {x, Call(Nm("print"), <<x>>), Bin("+", x, I(3)), Bin("*", I(3), x), Bin("-", Bin("*", I(3), x), I(4)),
           CF(x, I(5)), CF(I(5), x), Lst(<<x, I(6)>>), Tup(<<I(6), x>>), Fld(CMk(x), "n"),
           Call(Fld(Nm("o"), "add"), <<x>>), Un("-", x), Idx(Tup(<<x, I(7)>>), 0)}
ModelExprs == UNION {Ctx(x) : x \in A1 \ {I(1)}}
ModelPath == "t" \o ToString(SkFrom) \o ".e.s1"       \* the statement start.body[1] of a skeleton program

\* RAW choices of a skeleton expression: every option of every call site, redundant parentheses around at most one
\* call node (or none), one mask for all brackets
ModelSites(e) == SE(e, ModelPath \o ".e", "stmt", FALSE, FALSE)
RawChoices(e) ==
    LET S == ModelSites(e)
        C == OfKind(S, "c")
        IXC == IndexMap(C)
        PK == {S[i].key : i \in {j \in 1..Len(S) : S[j].kind = "p" /\ (SubSeq(S[j].ctx, Len(S[j].ctx) - 3, Len(S[j].ctx)) = "call"
                                                                       \/ SubSeq(S[j].ctx, 1, 6) = "callee")}}
        BK == {S[i].key : i \in {j \in 1..Len(S) : S[j].kind = "b"}}
        callPrefs == {pf \in [DOMAIN IXC -> 0..3] : \A key \in DOMAIN IXC : pf[key] < C[IXC[key]].n}
        parenPrefs == {E0} \cup {(pk :> 1) : pk \in PK}
        brPrefs == {E0, [key \in BK |-> 7]}
    IN {cp @@ pp @@ bp : cp \in callPrefs, pp \in parenPrefs, bp \in brPrefs}

\* drop zero entries, add the indent entry: the canonical form of a choice function
Canon(ch) == ("indent" :> IndentOf(ch)) @@ [key \in {x \in DOMAIN ch : x # "indent" /\ ch[x] # 0} |-> ch[key]]

\* tops of the skeleton program that holds expression statement e
ModelTops(e) == SkPrelude \o <<SkStart(<<Ex(e)>>)>>
\* legal: resolving the raw choice keeps every call form and parenthesis (a bracket mask on a call that is not written
\* with brackets is simply void and is dropped by Resolve)
ModelLegal(e, ch) ==
    LET r == Resolve(ModelTops(e), SkFrom, Canon(ch)) IN
    \A key \in (DOMAIN r \cup DOMAIN ch) \ {"indent"} : SubSeq(key, 1, 2) \in {"c@", "p@"} => Get(r, key) = Get(ch, key)
ModelSame(e, ch) == ModelParse(e, ModelPath, ch) = Show(e)

(* ---------------------------------------------------------------- the variant universe of a program *)
\* one option per site kind: o = [c, t, l, p, s, y] where y is the layout value given to every b@ / g@ / o@ / d@ site
\* (each site keeps the mask bits it has)
Pattern(S, IX, o) ==
    Pref(IX, LAMBDA i : CASE S[i].kind = "c" -> Cap(S[i], o.c) [] S[i].kind = "t" -> Cap(S[i], o.t) [] S[i].kind = "l" -> Cap(S[i], o.l)
                          [] S[i].kind = "p" -> Cap(S[i], o.p) [] S[i].kind = "s" -> o.s [] S[i].kind \in {"b", "g", "o", "d", "f", "h"} -> o.y)
PV(c, t, l, p, s_, y) == [c |-> c, t |-> t, l |-> l, p |-> p, s |-> s_, y |-> y]

TC == 4  TCB == 11  TBC == 12  CBC == 16  BC == 8  C1 == 2  B1 == 3  T1 == 1       \* names of some trivia sequences (TrivSeqs[n + 1])
SingleVals(s) == CASE s.kind \in {"c", "t", "l"} -> 1..(s.n - 1)
                   [] s.kind = "p" -> {1, 2}
                   [] s.kind = "s" -> {1, 2, 4, 8, 15}
                   [] s.kind = "b" -> {1, 2, 4, 7, LVal(7, T1), LVal(7, C1), LVal(7, B1), LVal(7, CBC)}
                   [] s.kind = "g" -> {}                \* exists only together with parentheses: see the patterns
                   [] s.kind = "o" -> {2, LVal(2, C1)}
                   [] s.kind = "d" -> {LVal(7, C1), LVal(2, BC)}
                   [] s.kind = "f" -> {7, LVal(7, C1)}
                   [] s.kind = "h" -> {LVal(1, T1), LVal(1, TC), LVal(1, C1)}

\* exhKeys: the sugar sites over which ALL legal choice functions are taken (when they are few enough)
Variants(tops, from, exhKeys, maxProd, full) ==
    LET S == Sites(tops, from)
        IX == IndexMap(S)
        XS == SelectSeq(S, LAMBDA x : x.kind \in {"c", "t", "l"} /\ x.key \in exhKeys)
        R(pf) == Resolve(tops, from, pf)
        RP(o) == R(Pattern(S, IX, o))
        exh == IF Len(XS) <= MaxExh /\ Product(XS, 1) <= maxProd THEN {R(pf) : pf \in AllPrefs(XS)} ELSE {}
        singles == UNION {{R(SingleOpt(IX, i, v)) : v \in SingleVals(S[i])}
                          : i \in {j \in 1..Len(S) : S[j].kind \in {"c", "t", "l"} \/ Len(S) <= MaxSingles
                                                    \/ (S[j].kind \in {"p", "h"} /\ SubSeq(S[j].ctx, Len(S[j].ctx) - 1, Len(S[j].ctx)) = "fn")}}
        uniform == {RP(PV(v, 0, 0, 0, 0, 0)) : v \in 1..3}
                   \cup {RP(PV(0, 1, 0, 0, 0, 0)), RP(PV(0, 0, 1, 0, 0, 0))}
                   \cup {RP(PV(v, 1, 1, 0, 0, 0)) : v \in 1..3}
                   \cup {RP(PV(0, 0, 0, v, 0, 0)) : v \in 1..2}
                   \cup {RP(PV(0, 0, 0, 0, v, 0)) : v \in {1, 2, 4, 8, 15}}
                   \cup {R(WithIndent(E0, w)) : w \in {0, 1, 2, 8, 9}}
        \* every trivia sequence at every gap of every bracket-like construct (grouping: the parentheses the grammar needs)
        layout == {RP(PV(0, 0, 0, 0, 0, LVal(7, t))) : t \in 0..(NTriv - 1)}
                  \cup {RP(PV(0, 0, 0, 0, 0, LVal(m, t))) : m \in {1, 2, 4}, t \in {0, C1, TC, BC}}
                  \cup {RP(PV(0, 0, 0, 1, 0, LVal(7, t))) : t \in {0, C1, BC, TCB}}        \* ... and around every expression
                  \cup {RP(PV(v, 1, 1, 0, 0, LVal(7, t))) : v \in 1..3, t \in {0, C1, TBC}} \* prime / arrow calls inside broken brackets
                  \cup {RP(PV(v, 1, 1, 1, 0, LVal(7, C1))) : v \in 1..3}
                  \cup (IF full THEN {RP(PV(v, 1, 1, 0, 0, LVal(7, t))) : v \in {1, 3}, t \in 0..(NTriv - 1)} ELSE {})   \* skeletons: all trivia in prime argument lists
        parens == {RP(PV(v, 1, 1, pv, 0, 0)) : v \in 1..3, pv \in 1..2}
        strided == {R(Strided(S, IX, {"p"}, 1, 3, r)) : r \in 0..2}
                   \cup {R(Strided(S, IX, {"s"}, 15, 2, r)) : r \in 0..1}
                   \cup {R(Strided(S, IX, {"b", "g", "o", "d", "f", "h"}, LVal(7, CBC), 2, r)) : r \in 0..1}
                   \cup {R(Strided(S, IX, {"c", "t", "l"}, v, 2, r)) : v \in 1..3, r \in 0..1}
        kitchen == {R(WithIndent(Pattern(S, IX, PV(v, 1, 1, 0, 15, LVal(7, TCB))), 2)) : v \in 1..3}
                   \cup {R(WithIndent(Pattern(S, IX, PV(v, 1, 1, 1, 3, LVal(7, B1))), 9)) : v \in 1..3}
                   \cup {R(WithIndent(Pattern(S, IX, PV(v, 0, 1, 2, 12, LVal(2, T1))), 0)) : v \in 1..3}
        mixes == {R(WithIndent(Mix(S, IX, Seed * 7 + a), (a * 3) % 10)) : a \in 1..NMix}
    IN {R(E0)} \cup exh \cup singles \cup uniform \cup layout \cup parens \cup strided \cup kitchen \cup mixes

(* ---------------------------------------------------------------- programs *)
HarnessFor(o, i) == HarnessNames(ResultType(o), UsesLocals(o) \/ UsesLocals(i))
\* quick tier: a deterministic thinning of the nesting universe (name lengths serve as a crude hash: TLC has no order on strings)
Hash(o, pos, i) == Len(o) * 7 + Len(i) * 3 + pos
Picked(p) == GenStride <= 1 \/ (Hash(p[1], p[2], p[3]) + Seed) % GenStride = GenPhase
\* every expression is placed in ONE harness context; the contexts rotate over the expressions
HSeq == <<"start", "recl", "loopclo", "global", "recr", "method">>
RECURSIVE PickFrom(_, _)
PickFrom(allowed, n) == IF HSeq[(n % 6) + 1] \in allowed THEN HSeq[(n % 6) + 1] ELSE PickFrom(allowed, n + 1)
PickH(o, pos, i, j) == IF AllHarnesses THEN "all" ELSE PickFrom(HarnessFor(o, IF i = "-" THEN o ELSE i), Hash(o, pos, i) + j)
WithH(o, pos, i, es) ==
    UNION {{[u |-> "gen", o |-> o, pos |-> pos, i |-> i, h |-> hn, e |-> es[j]]
            : hn \in (IF AllHarnesses THEN HarnessFor(o, IF i = "-" THEN o ELSE i) ELSE {PickH(o, pos, i, j)})} : j \in 1..Len(es)}

GenCases(dummy) ==
  UNION {WithH(p[1], p[2], p[3], SetToSeq(Nest(p[1], p[2], p[3]))) : p \in {q \in Pairs : Picked(q)}}
  \cup UNION {WithH(n, 0, "-", SetToSeq(Instances(n, 100, 0))) : n \in TemplateNames}
SkCases == {[u |-> "skel", n |-> j] : j \in 1..Len(SkPrograms)} \cup {[u |-> "prelude"]}
Cases(dummy) == SkCases \cup (IF GenStride = 0 THEN {} ELSE GenCases(dummy))

NPre == Len(Prelude)
\* tops after the shared prelude; `pre` tells which prelude the harness (and the validation) put in front
Focus(c) == CASE c.u = "skel" -> SkPrograms[c.n]
              [] c.u = "prelude" -> Prelude \o <<SkStart(<<Print(Tick(1))>>)>>
              [] c.u = "gen" -> SubSeq(Harness(c.h, c.e, ResultType(c.o)), NPre + 1, Len(Harness(c.h, c.e, ResultType(c.o))))
PreOf(c) == CASE c.u = "skel" -> "sk" [] c.u = "prelude" -> "none" [] c.u = "gen" -> "gen"
PreTops(pre) == CASE pre = "sk" -> SkPrelude [] pre = "none" -> <<>> [] pre = "gen" -> Prelude
IdOf(c) == CASE c.u = "skel" -> [u |-> "skel", n |-> c.n]
             [] c.u = "prelude" -> [u |-> "prelude"]
             [] c.u = "gen" -> [u |-> "gen", o |-> c.o, pos |-> c.pos, i |-> c.i, h |-> c.h]

\* the sugar sites over which all legal choice functions are taken: for a generated program the sites INSIDE the
\* nested expression (those the harness context does not have when it holds a literal), otherwise all of them
KeysOf(S) == {S[j].key : j \in 1..Len(S)}
ExhKeys(id, tops, from) ==
    IF id.u = "gen" THEN KeysOf(Sites(tops, from)) \ KeysOf(Sites(Harness(id.h, I(0), ResultType(id.o)), NPre + 1))
    ELSE KeysOf(Sites(tops, from))
ProdOf(id) == IF id.u = "gen" THEN MaxProd ELSE SkMaxProd
VariantsOf(id, tops, from) == Variants(tops, from, ExhKeys(id, tops, from), ProdOf(id), id.u # "gen")

(* ---------------------------------------------------------------- state machine *)
Rec == IF Mode \in {"validate", "pvalidate"} THEN ndJsonDeserialize(IOEnv.TRACE) ELSE <<>>
ModelExprSeq == IF Mode \in {"model", "pvalidate", "exprs"} THEN SetToSeq(ModelExprs) ELSE <<>>

Init == /\ pc = "start"
        /\ CASE Mode = "emit" -> k \in Cases(0)
             [] Mode = "model" -> \E j \in {x \in 1..Len(ModelExprSeq) : x % ModelStride = ModelPhase} :
                                     \E ch \in RawChoices(ModelExprSeq[j]) : k = [j |-> j, ch |-> ch]
             [] Mode \in {"validate", "pvalidate"} -> k \in 1..Len(Rec)
             [] Mode \in {"preludes", "exprs"} -> k = 0

Emit == /\ Mode = "emit" /\ pc = "start" /\ pc' = "done" /\ k' = k
        /\ LET focus == Focus(k)
               tops == PreTops(PreOf(k)) \o focus
               from == Len(PreTops(PreOf(k))) + 1
               S == Sites(tops, from)
               IX == IndexMap(S)
           IN PrintT(<<"REPLAY", ToJson([id |-> IdOf(k), pre |-> PreOf(k), focus |-> focus,
                                         sites |-> [key \in DOMAIN IX |-> S[IX[key]].ctx],
                                         nsugar |-> Len(Sugar(S)), nsites |-> Len(S),
                                         variants |-> VariantsOf(IdOf(k), tops, from)])>>)

\* the two preludes, once (the harness puts them in front of every focus)
EmitPreludes == /\ Mode = "preludes" /\ pc = "start" /\ pc' = "done" /\ k' = k
                /\ PrintT(<<"PRELUDE", ToJson([sk |-> SkPrelude, gen |-> Prelude, triv |-> TrivSeqs])>>)
\* the skeleton expressions of the token-level model, once
EmitExprs == /\ Mode = "exprs" /\ pc = "start" /\ pc' = "done" /\ k' = k
             /\ \A j \in 1..Len(ModelExprSeq) : PrintT(<<"EXPR", ToJson([j |-> j, e |-> ModelExprSeq[j], path |-> ModelPath])>>)

ModelStep == /\ Mode = "model" /\ pc = "start" /\ pc' = "done" /\ k' = k
             /\ LET e == ModelExprSeq[k.j] IN
                PrintT(<<"PARSE", ToJson([j |-> k.j, ch |-> Canon(k.ch), legal |-> ModelLegal(e, k.ch),
                                          expect |-> ModelParse(e, ModelPath, k.ch), core |-> Show(e)])>>)

(* ---- validate: record = [id, pre, focus, results: <<[ch, class, raw, masked, ast]>>]; results[1] is the plain variant *)
VTops == PreTops(Rec[k].pre) \o Rec[k].focus
VFrom == Len(PreTops(Rec[k].pre)) + 1
Results == Rec[k].results
Covered(v) == \E j \in 1..Len(Results) : SameCh(v, Results[j].ch)
Complete == \A v \in VariantsOf(Rec[k].id, VTops, VFrom) : Covered(v)
AllLegal == \A j \in 1..Len(Results) : Legal(VTops, VFrom, Results[j].ch)
PlainFirst == SameCh(Results[1].ch, Resolve(VTops, VFrom, E0))
\* every option of every sugar site and every layout site is exercised by some recorded variant of this program
Toggled ==
    LET S == Sites(VTops, VFrom) IN
    \A i \in 1..Len(S) :
        IF S[i].kind \in {"c", "t", "l"}
        THEN \A v \in 1..(S[i].n - 1) : \E j \in 1..Len(Results) : Get(Results[j].ch, S[i].key) = v
        ELSE \E j \in 1..Len(Results) : Get(Results[j].ch, S[i].key) # 0
Bad(j) == \/ Results[j].class # "ok"
          \/ Results[j].ast # Results[1].ast
          \/ Results[j].masked # Results[1].masked
          \/ (LineStable(Results[j].ch) /\ Results[j].raw # Results[1].raw)
Why(j) == IF Results[j].class # "ok" THEN "variant-rejected"
          ELSE IF Results[j].ast # Results[1].ast THEN "tree-differs"
          ELSE IF Results[j].masked # Results[1].masked THEN "digest-differs"
          ELSE "line-number-differs"

Validate == /\ Mode = "validate" /\ pc = "start" /\ pc' = "done" /\ k' = k
            /\ Assert(PlainFirst, <<"first result is not the plain variant", k>>)
            /\ Assert(AllLegal, <<"a recorded choice function is not legal", k>>)
            /\ Assert(ReplayMode \/ Complete, <<"record does not cover the spec's variant universe", k>>)
            /\ Assert(ReplayMode \/ Toggled, <<"a site option is never exercised", k>>)
            /\ LET bad == {j \in 1..Len(Results) : Bad(j)} IN
               IF bad = {} THEN TRUE
               ELSE PrintT(<<"REJECT", ToJson([rec |-> k, bad |-> SetToSeq({[j |-> j, why |-> Why(j)] : j \in bad})])>>)

(* ---- pvalidate: record = [j, ch, got]; the real parser's tree of the rendering vs the reference parser's *)
PValidate == /\ Mode = "pvalidate" /\ pc = "start" /\ pc' = "done" /\ k' = k
             /\ Assert(Show(ModelExprSeq[Rec[k].j]) = Rec[k].core, <<"expression numbering differs between runs", k>>)
             /\ LET e == ModelExprSeq[Rec[k].j]
                    expect == ModelParse(e, ModelPath, Rec[k].ch)
                IN IF expect = Rec[k].got THEN TRUE
                   ELSE PrintT(<<"REJECT", ToJson([rec |-> k, expect |-> expect, got |-> Rec[k].got,
                                                  legal |-> ModelLegal(e, Rec[k].ch)])>>)

Next == Emit \/ EmitPreludes \/ EmitExprs \/ ModelStep \/ Validate \/ PValidate
Spec == Init /\ [][Next]_vars

(* ---------------------------------------------------------------- spec-level invariants (mode model) *)
\* a legal choice keeps the meaning: the reference parser reads the rendering back as the core expression
Sound == Mode = "model" => (ModelLegal(ModelExprSeq[k.j], k.ch) => ModelSame(ModelExprSeq[k.j], k.ch))
\* the rule is tight: an illegal choice does not parse, or parses as something else
Tight == Mode = "model" => (~ModelLegal(ModelExprSeq[k.j], k.ch) => ~ModelSame(ModelExprSeq[k.j], k.ch))
\* Resolve is idempotent and its result legal (mode emit: on every program's universe)
ResolveLegal == (Mode = "emit" /\ k.u # "gen") =>
    LET tops == PreTops(PreOf(k)) \o Focus(k)
        from == Len(PreTops(PreOf(k))) + 1
    IN \A v \in VariantsOf(IdOf(k), tops, from) : Legal(tops, from, v)
=============================================================================
