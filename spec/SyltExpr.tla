------------------------------ MODULE SyltExpr ------------------------------
(***************************************************************************)
(* Operator table, printing rules and a reference parser for Sylt          *)
(* expressions (property C13).                                             *)
(*                                                                         *)
(* The table is the one the property states: binary operators, loosest to  *)
(* tightest:  <=>  <  or  <  and  <  comparisons  <  + -  <  * / ,         *)
(* all left-associative; unary - and not bind tighter than + -, the        *)
(* comparisons and the boolean operators; call, index and field access     *)
(* bind tightest.  The relation between a unary operator and * / is NOT    *)
(* fixed by the table, so every text this module produces puts explicit    *)
(* parentheses there and no expectation depends on it.                     *)
(*                                                                         *)
(* Trees are records tagged with k:                                        *)
(*   [k |-> "name", n], [k |-> "int", v], [k |-> "bool", v]                *)
(*   [k |-> "bin", op, l, r]   [k |-> "un", op, a]                         *)
(*   [k |-> "call", f, args]   [k |-> "idx", e, i]   [k |-> "fld", e, f]   *)
(* and the other PRIMARY expressions ("all atom kinds"): a postfix form    *)
(* binds to the primary directly in front of it, whatever its kind:        *)
(*   [k |-> "float", v (its text)]  [k |-> "str", v]  [k |-> "nil"]        *)
(*   [k |-> "tuple", es]  [k |-> "list", es]  [k |-> "blob", fields]       *)
(*   [k |-> "fn", pure, params, ret, body]  [k |-> "if", arms]             *)
(*   [k |-> "case", e, arms, els]      bodies: <<[k |-> "expr"|"ret", e]>> *)
(*   [k |-> "pcall", f, args]  a call written `f' x` (a "call" in the      *)
(*                             implementation's tree: see Strip)           *)
(* Texts are sequences of token spellings.                                 *)
(***************************************************************************)
EXTENDS Naturals, Integers, Sequences, FiniteSets, TLC

BinOps == <<"<=>", "or", "and", "==", "!=", "<", "<=", ">", ">=", "+", "-", "*", "/">>
BinOpSet == {BinOps[i] : i \in 1..Len(BinOps)}
UnOps == {"-", "not"}

Level(op) == CASE op = "<=>" -> 1
               [] op = "or"  -> 2
               [] op = "and" -> 3
               [] op \in {"==", "!=", "<", "<=", ">", ">="} -> 4
               [] op \in {"+", "-"} -> 5
               [] op \in {"*", "/"} -> 6

UnaryLevel == 7      \* above + - (5), comparisons and booleans; its relation to 6 is left open
PostfixLevel == 9

Name(n) == [k |-> "name", n |-> n]
IntN(v)  == [k |-> "int", v |-> v]
BoolN(v) == [k |-> "bool", v |-> v]
Bin(op, l, r) == [k |-> "bin", op |-> op, l |-> l, r |-> r]
Un(op, a) == [k |-> "un", op |-> op, a |-> a]
Call(f, args) == [k |-> "call", f |-> f, args |-> args]
Idx(e, i) == [k |-> "idx", e |-> e, i |-> IntN(i)]
Fld(e, f) == [k |-> "fld", e |-> e, f |-> f]

FloatN(s) == [k |-> "float", v |-> s]
StrN(s)   == [k |-> "str", v |-> s]
NilN      == [k |-> "nil"]
TupleN(es) == [k |-> "tuple", es |-> es]
ListN(es)  == [k |-> "list", es |-> es]
BlobN(fs)  == [k |-> "blob", fields |-> fs]                \* fs: <<[f |-> name, e |-> tree], ..>> (written `A { f : e , .. }`)
ExprS(e) == [k |-> "expr", e |-> e]
RetS(e)  == [k |-> "ret", e |-> e]
FnN(params, ret, body) == [k |-> "fn", pure |-> FALSE, params |-> params, ret |-> ret, body |-> body]
IfN(c, a, b) == [k |-> "if", arms |-> <<[c |-> c, body |-> <<ExprS(a)>>], [else |-> TRUE, body |-> <<ExprS(b)>>]>>]
CaseN(e, v, a, b) == [k |-> "case", e |-> e, arms |-> <<[v |-> v, body |-> <<ExprS(a)>>]>>, els |-> <<ExprS(b)>>]
PCall(f, args) == [k |-> "pcall", f |-> f, args |-> args]

IsAtom(t) == t.k \in {"name", "int", "bool", "float", "str", "nil"}
IsPostfix(t) == t.k \in {"call", "idx", "fld", "pcall"}
\* primaries that carry their own brackets / keywords: never parenthesised by the table
IsBracketed(t) == t.k \in {"tuple", "list", "blob", "fn", "if", "case"}

LevelOf(t) == CASE t.k = "bin" -> Level(t.op)
                [] t.k = "un"  -> UnaryLevel
                [] OTHER       -> PostfixLevel

---------------------------------------------------------------------------
(* Printing *)
Paren(s) == <<"(">> \o s \o <<")">>

AtomText(t) == CASE t.k = "name" -> t.n
                 [] t.k = "int"  -> ToString(t.v)
                 [] t.k = "bool" -> IF t.v THEN "true" ELSE "false"
                 [] t.k = "float" -> t.v
                 [] t.k = "str"  -> "\"" \o t.v \o "\""
                 [] t.k = "nil"  -> "nil"

\* Txt(t, m): the text of t in mode m:
\*   "min"   only the parentheses the table requires
\*   "full"  every operator / postfix form and every bracketed primary in parentheses (atoms bare)
\*   "fulla" as "full", and literal atoms in parentheses as well (`( - ( - ( 2.5 ) ) )`)
RECURSIVE Txt(_, _)
\* operand of a binary operator of level p on side s ("l" or "r")
MinOperand(t, p, s) ==
    LET txt == Txt(t, "min") IN
    CASE t.k = "bin" -> IF Level(t.op) < p \/ (s = "r" /\ Level(t.op) = p) THEN Paren(txt) ELSE txt
      [] t.k = "un"  -> IF p = 6 THEN Paren(txt) ELSE txt       \* open grouping: always explicit
      [] OTHER       -> txt
\* operand of a unary operator
MinUnOperand(t) == IF t.k = "bin" THEN Paren(Txt(t, "min")) ELSE Txt(t, "min")
\* base of a postfix form: every primary and every postfix form stands bare, only operator forms need parentheses
Base(t, m) == IF m = "min" /\ t.k \in {"bin", "un"} THEN Paren(Txt(t, m)) ELSE Txt(t, m)

RECURSIVE CommaSep(_, _)
CommaSep(es, m) == IF es = <<>> THEN <<>>
                   ELSE IF Len(es) = 1 THEN Txt(es[1], m)
                   ELSE Txt(es[1], m) \o <<",">> \o CommaSep(Tail(es), m)

StmtTxt(st, m) == IF st.k = "ret" THEN <<"ret">> \o Txt(st.e, m) ELSE Txt(st.e, m)
BodyTxt(body, m) == IF body = <<>> THEN <<>> ELSE StmtTxt(body[1], m)          \* bodies hold at most one statement

RECURSIVE ParamsTxt(_)
ParamsTxt(ps) == IF ps = <<>> THEN <<>>
                 ELSE (IF ps[1].ty = "*" THEN <<ps[1].n>> ELSE <<ps[1].n, ":", ps[1].ty>>)
                      \o (IF Len(ps) > 1 THEN <<",">> ELSE <<>>) \o ParamsTxt(Tail(ps))
RECURSIVE FieldsTxt(_, _)
FieldsTxt(fs, m) == IF fs = <<>> THEN <<>>
                    ELSE <<fs[1].f, ":">> \o Txt(fs[1].e, m) \o (IF Len(fs) > 1 THEN <<",">> ELSE <<>>) \o FieldsTxt(Tail(fs), m)
RECURSIVE IfArmsTxt(_, _, _)
IfArmsTxt(arms, i, m) ==
    IF i > Len(arms) THEN <<"end">>
    ELSE IF "c" \in DOMAIN arms[i]
         THEN <<IF i = 1 THEN "if" ELSE "elif">> \o Txt(arms[i].c, m) \o <<"do">> \o BodyTxt(arms[i].body, m) \o IfArmsTxt(arms, i + 1, m)
         ELSE <<"else">> \o BodyTxt(arms[i].body, m) \o <<"end">>               \* the else block ends the expression
\* every arm's block is closed by `end`, except that an `else` right after the last arm closes it instead
RECURSIVE CaseArmsTxt(_, _, _, _)
CaseArmsTxt(arms, i, hasElse, m) ==
    IF i > Len(arms) THEN <<>>
    ELSE <<arms[i].v>> \o (IF "bind" \in DOMAIN arms[i] THEN <<arms[i].bind>> ELSE <<>>) \o <<"->">> \o BodyTxt(arms[i].body, m)
         \o (IF i = Len(arms) /\ hasElse THEN <<>> ELSE <<"end">>) \o CaseArmsTxt(arms, i + 1, hasElse, m)

BracketedTxt(t, m) ==
    CASE t.k = "tuple" -> <<"(">> \o CommaSep(t.es, m) \o (IF Len(t.es) = 1 THEN <<",">> ELSE <<>>) \o <<")">>
      [] t.k = "list"  -> <<"[">> \o CommaSep(t.es, m) \o <<"]">>
      [] t.k = "blob"  -> <<"A", "{">> \o FieldsTxt(t.fields, m) \o <<"}">>
      [] t.k = "fn"    -> <<"fn">> \o ParamsTxt(t.params)
                          \o (CASE t.ret = "void" -> <<"do">> [] t.ret = "*" -> <<"->">> [] OTHER -> <<"->", t.ret, "do">>)
                          \o BodyTxt(t.body, m) \o <<"end">>
      [] t.k = "if"    -> IfArmsTxt(t.arms, 1, m)
      [] t.k = "case"  -> <<"case">> \o Txt(t.e, m) \o <<"do">> \o CaseArmsTxt(t.arms, 1, "els" \in DOMAIN t, m)
                          \o (IF "els" \in DOMAIN t THEN <<"else">> \o BodyTxt(t.els, m) \o <<"end">> ELSE <<>>) \o <<"end">>

Txt(t, m) ==
    LET P(x) == IF m = "min" THEN x ELSE Paren(x) IN
    CASE IsAtom(t)     -> IF m = "fulla" /\ t.k # "name" THEN Paren(<<AtomText(t)>>) ELSE <<AtomText(t)>>
      [] IsBracketed(t) -> P(BracketedTxt(t, m))
      [] t.k = "bin"   -> IF m = "min" THEN MinOperand(t.l, Level(t.op), "l") \o <<t.op>> \o MinOperand(t.r, Level(t.op), "r")
                          ELSE Paren(Txt(t.l, m) \o <<t.op>> \o Txt(t.r, m))
      [] t.k = "un"    -> IF m = "min" THEN <<t.op>> \o MinUnOperand(t.a) ELSE Paren(<<t.op>> \o Txt(t.a, m))
      [] t.k = "call"  -> P(Base(t.f, m) \o <<"(">> \o CommaSep(t.args, m) \o <<")">>)
      [] t.k = "pcall" -> P(Base(t.f, m) \o <<"'">> \o CommaSep(t.args, m))
      [] t.k = "idx"   -> P(Base(t.e, m) \o <<"[", ToString(t.i.v), "]">>)
      [] t.k = "fld"   -> P(Base(t.e, m) \o <<".", t.f>>)

Min(t) == Txt(t, "min")
Full(t) == Txt(t, "full")
FullA(t) == Txt(t, "fulla")

\* the implementation's tree has one kind of call: `f' x` is recorded as a "call"
RECURSIVE Strip(_)
RECURSIVE StripSeq(_)
StripSeq(sq) == IF sq = <<>> THEN <<>> ELSE <<Strip(sq[1])>> \o StripSeq(Tail(sq))
RECURSIVE StripFields(_)
StripFields(fs) == IF fs = <<>> THEN <<>> ELSE <<[f |-> fs[1].f, e |-> Strip(fs[1].e)]>> \o StripFields(Tail(fs))
RECURSIVE StripArms(_)
StripArms(arms) == IF arms = <<>> THEN <<>>
                   ELSE <<IF "c" \in DOMAIN arms[1] THEN [arms[1] EXCEPT !.c = Strip(@), !.body = StripSeq(@)]
                          ELSE [arms[1] EXCEPT !.body = StripSeq(@)]>> \o StripArms(Tail(arms))
Strip(t) ==
    CASE IsAtom(t)      -> t
      [] t.k = "bin"    -> Bin(t.op, Strip(t.l), Strip(t.r))
      [] t.k = "un"     -> Un(t.op, Strip(t.a))
      [] t.k \in {"call", "pcall"} -> Call(Strip(t.f), StripSeq(t.args))
      [] t.k = "idx"    -> [t EXCEPT !.e = Strip(@)]
      [] t.k = "fld"    -> [t EXCEPT !.e = Strip(@)]
      [] t.k \in {"tuple", "list"} -> [t EXCEPT !.es = StripSeq(@)]
      [] t.k = "blob"   -> [t EXCEPT !.fields = StripFields(@)]
      [] t.k = "fn"     -> [t EXCEPT !.body = StripSeq(@)]
      [] t.k \in {"expr", "ret"} -> [t EXCEPT !.e = Strip(@)]
      [] t.k = "if"     -> [t EXCEPT !.arms = StripArms(@)]
      [] t.k = "case"   -> IF "els" \in DOMAIN t THEN [t EXCEPT !.e = Strip(@), !.arms = StripArms(@), !.els = StripSeq(@)]
                           ELSE [t EXCEPT !.e = Strip(@), !.arms = StripArms(@)]

---------------------------------------------------------------------------
(* Reference parser: precedence climbing over a token sequence.
   Every parse function returns <<tree, index of the next unread token>>.
   A primary is a literal, a name, a parenthesised expression, a tuple, a list, a blob literal, a function literal,
   an if-expression or a case-expression; the postfix forms ( .. ) [ .. ] . x ' attach to ANY primary, as often as
   they are written, before any unary or binary operator sees it. *)
IntToks == 0..20
IsIntTok(s) == s \in {ToString(i) : i \in IntToks}
NameToks == {"a", "b", "c", "d", "f", "g", "x", "y", "s", "v", "p", "q", "z", "n", "m", "h", "tp", "tq", "nt", "nu", "inc", "dbl", "mk", "pp"}
IsNameTok(s) == s \in NameToks
FloatToks == {"2.5", "0.25", "1.0", "1.5", "0.5", "2.0"}
StrToks == {"\"s\""}
VariantToks == {"X", "Y", "Z"}
BlobToks == {"A"}
TypeToks == {"int", "bool", "float", "str", "void"}
Tok(toks, i) == IF i <= Len(toks) THEN toks[i] ELSE "<eof>"
IntOfTok(s) == CHOOSE i \in IntToks : ToString(i) = s

RECURSIVE ParseExpr(_, _, _)
RECURSIVE ParsePrefix(_, _)
RECURSIVE ParsePostfix(_, _, _)
RECURSIVE ParseSeq(_, _, _, _)
RECURSIVE ClimbLoop(_, _, _, _)
RECURSIVE ParseIf(_, _, _)
RECURSIVE ParseCaseArms(_, _, _, _)
RECURSIVE ParseParams(_, _, _)
RECURSIVE ParseFields(_, _, _)

\* expressions separated by commas up to the closing token
ParseSeq(toks, i, close, acc) ==
    IF Tok(toks, i) = close THEN <<acc, i + 1>>
    ELSE LET r == ParseExpr(toks, i, 1) IN
         IF Tok(toks, r[2]) = "," THEN ParseSeq(toks, r[2] + 1, close, Append(acc, r[1]))
         ELSE <<Append(acc, r[1]), r[2] + 1>>      \* must be the closing token
ParseArgs(toks, i, acc) == ParseSeq(toks, i, ")", acc)

\* one statement of a body: `ret e` or `e`
ParseStmt(toks, i) ==
    IF Tok(toks, i) = "ret" THEN LET r == ParseExpr(toks, i + 1, 1) IN <<RetS(r[1]), r[2]>>
    ELSE LET r == ParseExpr(toks, i, 1) IN <<ExprS(r[1]), r[2]>>

\* i stands on `if` / `elif`
ParseIf(toks, i, arms) ==
    LET c == ParseExpr(toks, i + 1, 1)               \* c[2] stands on `do`
        b == ParseStmt(toks, c[2] + 1)
        arms2 == Append(arms, [c |-> c[1], body |-> <<b[1]>>]) IN
    CASE Tok(toks, b[2]) = "elif" -> ParseIf(toks, b[2], arms2)
      [] Tok(toks, b[2]) = "else" -> LET e == ParseStmt(toks, b[2] + 1) IN
                                     <<[k |-> "if", arms |-> Append(arms2, [else |-> TRUE, body |-> <<e[1]>>])], e[2] + 1>>
      [] OTHER -> <<[k |-> "if", arms |-> arms2], b[2] + 1>>                     \* `end`

\* i stands on a variant name, on `else` or on the closing `end`
ParseCaseArms(toks, i, scrut, arms) ==
    CASE Tok(toks, i) = "end"  -> <<[k |-> "case", e |-> scrut, arms |-> arms], i + 1>>
      [] Tok(toks, i) = "else" -> LET e == ParseStmt(toks, i + 1) IN              \* `end` of the block, `end` of the case
                                  <<[k |-> "case", e |-> scrut, arms |-> arms, els |-> <<e[1]>>], e[2] + 2>>
      [] OTHER -> LET hasBind == Tok(toks, i + 1) # "->"
                      j == IF hasBind THEN i + 3 ELSE i + 2
                      b == ParseStmt(toks, j)
                      arm == IF hasBind THEN [v |-> toks[i], bind |-> toks[i + 1], body |-> <<b[1]>>]
                             ELSE [v |-> toks[i], body |-> <<b[1]>>] IN
                  ParseCaseArms(toks, IF Tok(toks, b[2]) = "end" THEN b[2] + 1 ELSE b[2], scrut, Append(arms, arm))

ParseParams(toks, i, acc) ==
    IF IsNameTok(Tok(toks, i))
    THEN LET typed == Tok(toks, i + 1) = ":"
             j == IF typed THEN i + 3 ELSE i + 1 IN
         ParseParams(toks, IF Tok(toks, j) = "," THEN j + 1 ELSE j,
                     Append(acc, [n |-> toks[i], ty |-> IF typed THEN toks[i + 2] ELSE "*"]))
    ELSE <<acc, i>>

ParseFn(toks, i) ==
    LET ps == ParseParams(toks, i + 1, <<>>)
        j == ps[2]
        hd == CASE Tok(toks, j) = "do" -> <<"void", j + 1>>
                [] Tok(toks, j) = "->" /\ Tok(toks, j + 1) \in TypeToks -> <<toks[j + 1], j + 3>>     \* `-> ty do`
                [] OTHER -> <<"*", j + 1>>                                                             \* `->` body
        b == ParseStmt(toks, hd[2]) IN
    <<FnN(ps[1], hd[1], <<b[1]>>), b[2] + 1>>

\* i stands on a field name or on `}`
ParseFields(toks, i, acc) ==
    IF Tok(toks, i) = "}" THEN <<BlobN(acc), i + 1>>
    ELSE LET r == ParseExpr(toks, i + 2, 1) IN
         ParseFields(toks, IF Tok(toks, r[2]) = "," THEN r[2] + 1 ELSE r[2], Append(acc, [f |-> toks[i], e |-> r[1]]))

ParsePostfix(toks, base, i) ==
    CASE Tok(toks, i) = "(" -> LET r == ParseArgs(toks, i + 1, <<>>) IN ParsePostfix(toks, Call(base, r[1]), r[2])
      [] Tok(toks, i) = "[" -> ParsePostfix(toks, Idx(base, IntOfTok(toks[i + 1])), i + 3)
      [] Tok(toks, i) = "." -> ParsePostfix(toks, Fld(base, toks[i + 1]), i + 2)
      [] Tok(toks, i) = "'" -> LET r == ParseExpr(toks, i + 1, 1) IN <<PCall(base, <<r[1]>>), r[2]>>    \* takes the rest
      [] OTHER -> <<base, i>>

ParsePrefix(toks, i) ==
    LET s == Tok(toks, i) IN
    CASE s = "("        -> LET r == ParseExpr(toks, i + 1, 1) IN
                           IF Tok(toks, r[2]) = ","
                           THEN LET rest == ParseSeq(toks, r[2] + 1, ")", <<r[1]>>) IN ParsePostfix(toks, TupleN(rest[1]), rest[2])
                           ELSE ParsePostfix(toks, r[1], r[2] + 1)
      [] s = "["        -> LET r == ParseSeq(toks, i + 1, "]", <<>>) IN ParsePostfix(toks, ListN(r[1]), r[2])
      [] s = "if"       -> LET r == ParseIf(toks, i, <<>>) IN ParsePostfix(toks, r[1], r[2])
      [] s = "case"     -> LET e == ParseExpr(toks, i + 1, 1)
                               r == ParseCaseArms(toks, e[2] + 1, e[1], <<>>) IN ParsePostfix(toks, r[1], r[2])
      [] s = "fn"       -> LET r == ParseFn(toks, i) IN ParsePostfix(toks, r[1], r[2])
      [] s \in BlobToks /\ Tok(toks, i + 1) = "{" -> LET r == ParseFields(toks, i + 2, <<>>) IN ParsePostfix(toks, r[1], r[2])
      [] s \in UnOps    -> LET r == ParsePrefix(toks, i + 1) IN <<Un(s, r[1]), r[2]>>
      [] s = "true"     -> ParsePostfix(toks, BoolN(TRUE), i + 1)
      [] s = "false"    -> ParsePostfix(toks, BoolN(FALSE), i + 1)
      [] s = "nil"      -> ParsePostfix(toks, NilN, i + 1)
      [] IsIntTok(s)    -> ParsePostfix(toks, IntN(IntOfTok(s)), i + 1)
      [] s \in FloatToks -> ParsePostfix(toks, FloatN(s), i + 1)
      [] s \in StrToks  -> ParsePostfix(toks, StrN(SubSeq(s, 2, Len(s) - 1)), i + 1)
      [] IsNameTok(s)   -> ParsePostfix(toks, Name(s), i + 1)

ClimbLoop(toks, lhs, i, minLevel) ==
    LET op == Tok(toks, i) IN
    IF op \in BinOpSet /\ Level(op) >= minLevel
    THEN LET r == ParseExpr(toks, i + 1, Level(op) + 1) IN
         ClimbLoop(toks, Bin(op, lhs, r[1]), r[2], minLevel)
    ELSE <<lhs, i>>

ParseExpr(toks, i, minLevel) ==
    LET p == ParsePrefix(toks, i) IN ClimbLoop(toks, p[1], p[2], minLevel)

Parse(toks) == ParseExpr(toks, 1, 1)[1]

---------------------------------------------------------------------------
(* Evaluation of the well-typed int/bool fragment (no division: floats are out of the model) *)
RECURSIVE TypeOf(_)
TypeOf(t) ==
    CASE t.k = "int"  -> "int"
      [] t.k = "bool" -> "bool"
      [] t.k = "un"   -> IF t.op = "-" /\ TypeOf(t.a) = "int" THEN "int"
                         ELSE IF t.op = "not" /\ TypeOf(t.a) = "bool" THEN "bool" ELSE "bad"
      [] t.k = "bin"  ->
           LET a == TypeOf(t.l)  b == TypeOf(t.r) IN
           CASE t.op \in {"+", "-", "*"} -> IF a = "int" /\ b = "int" THEN "int" ELSE "bad"
             [] t.op \in {"<", "<=", ">", ">="} -> IF a = "int" /\ b = "int" THEN "bool" ELSE "bad"
             [] t.op \in {"==", "!=", "<=>"} -> IF a = b /\ a # "bad" THEN "bool" ELSE "bad"
             [] t.op \in {"and", "or"} -> IF a = "bool" /\ b = "bool" THEN "bool" ELSE "bad"
             [] OTHER -> "bad"
      [] OTHER -> "bad"

\* value, or the string "assert_failed" when a <=> fails somewhere inside
AF == [k |-> "assert_failed"]
IV(v) == [k |-> "int", v |-> v]
BV(v) == [k |-> "bool", v |-> v]
RECURSIVE Eval(_)
Eval(t) ==
    CASE t.k = "int"  -> IV(t.v)
      [] t.k = "bool" -> BV(t.v)
      [] t.k = "un"   -> LET a == Eval(t.a) IN
                         IF a.k = "assert_failed" THEN AF ELSE IF t.op = "-" THEN IV(0 - a.v) ELSE BV(~a.v)
      [] t.k = "bin"  ->
           LET a == Eval(t.l) IN
           IF a.k = "assert_failed" THEN AF
           ELSE IF t.op = "and" /\ ~a.v THEN BV(FALSE)          \* short circuit: right side not evaluated
           ELSE IF t.op = "or" /\ a.v THEN BV(TRUE)
           ELSE LET b == Eval(t.r) IN
             IF b.k = "assert_failed" THEN AF
             ELSE CASE t.op = "+" -> IV(a.v + b.v)
                    [] t.op = "-" -> IV(a.v - b.v)
                    [] t.op = "*" -> IV(a.v * b.v)
                    [] t.op = "<" -> BV(a.v < b.v)
                    [] t.op = "<=" -> BV(a.v <= b.v)
                    [] t.op = ">" -> BV(a.v > b.v)
                    [] t.op = ">=" -> BV(a.v >= b.v)
                    [] t.op = "==" -> BV(a.v = b.v)
                    [] t.op = "!=" -> BV(a.v # b.v)
                    [] t.op = "<=>" -> IF a.v = b.v THEN BV(TRUE) ELSE AF
                    [] t.op = "and" -> BV(b.v)
                    [] t.op = "or" -> BV(b.v)

---------------------------------------------------------------------------
(* Universes *)
\* untyped shape universe: leaves are distinct names so that every grouping is visible in the tree
D1(x, y) == {Bin(BinOps[i], x, y) : i \in 1..Len(BinOps)}
            \cup {Un(u, x) : u \in UnOps}
            \cup {Call(Name("f"), <<x>>), Call(Name("f"), <<x, y>>), Idx(Name("g"), 0), Fld(x, "x")}

Depth1(x, y) == {x} \cup D1(x, y)

\* postfix bases may not be int/bool atoms (`1.x` lexes as a float)
OkBase(t) == t.k # "int" /\ t.k # "bool"

Shapes2 ==
    LET L == Depth1(Name("a"), Name("b"))
        R == Depth1(Name("c"), Name("d")) IN
    {Bin(BinOps[i], l, r) : i \in 1..Len(BinOps), l \in L, r \in R}
    \cup {Un(u, l) : u \in UnOps, l \in L}
    \cup {Call(l, <<r>>) : l \in {b \in L : OkBase(b)}, r \in R}
    \cup {Call(Name("f"), <<l, r>>) : l \in L, r \in R}
    \cup {Idx(l, 1) : l \in {b \in L : OkBase(b)}}
    \cup {Fld(l, "y") : l \in {b \in L : OkBase(b)}}

\* depth 3, around the postfix forms: a unary operator applied to a postfix form whose BASE is composite (so that it is
\* written in parentheses: `-(a + b)(c)`, `not (a).y`, `-(f(a))[1]`), the same as an operand of every binary operator, and
\* postfix forms chained on a composite base (`(a + b)(c).y`).  "call, index and field access bind tighter still" than
\* the unary operators, whatever the base looks like.
PostOf(b, x) == {Call(b, <<x>>), Idx(b, 1), Fld(b, "y")}
Shapes3 ==
    LET L == {t \in Depth1(Name("a"), Name("b")) : OkBase(t)}
        P == UNION {PostOf(l, Name("c")) : l \in L} IN
    {Un(u, q) : u \in UnOps, q \in P}
    \cup {Bin(BinOps[i], Un(u, q), Name("d")) : i \in 1..Len(BinOps), u \in UnOps, q \in P}
    \cup {Bin(BinOps[i], Name("d"), Un(u, q)) : i \in {j \in 1..Len(BinOps) : Level(BinOps[j]) # 6}, u \in UnOps, q \in P}
    \cup UNION {PostOf(q, Name("d")) : q \in P}
    \cup {Un(u, r) : u \in UnOps, r \in UNION {PostOf(q, Name("d")) : q \in P}}

\* chains: a op1 b op2 c op3 d written WITHOUT parentheses; the expectation is Parse(text)
ChainToks(i, j, m) == <<"a", BinOps[i], "b", BinOps[j], "c", BinOps[m], "d">>

\* typed universe for evaluation
IntAtoms == {IntN(7), IntN(2)}
BoolAtoms == {BoolN(TRUE), BoolN(FALSE)}
IntD1 == IntAtoms \cup {Bin(o, x, y) : o \in {"+", "-", "*"}, x \in IntAtoms, y \in IntAtoms}
                  \cup {Un("-", x) : x \in IntAtoms}
BoolD1 == BoolAtoms \cup {Bin(o, x, y) : o \in {"<", "<=", ">", ">=", "==", "!=", "<=>"}, x \in IntAtoms, y \in IntAtoms}
                    \cup {Bin(o, x, y) : o \in {"and", "or", "==", "!=", "<=>"}, x \in BoolAtoms, y \in BoolAtoms}
                    \cup {Un("not", x) : x \in BoolAtoms}
Typed2 ==
    {Bin(o, x, y) : o \in {"+", "-", "*"}, x \in IntD1, y \in IntD1}
    \cup {Un("-", x) : x \in IntD1}
    \cup {Bin(o, x, y) : o \in {"<", "<=", ">", ">=", "==", "!=", "<=>"}, x \in IntD1, y \in IntD1}
    \cup {Bin(o, x, y) : o \in {"and", "or", "==", "!=", "<=>"}, x \in BoolD1, y \in BoolD1}
    \cup {Un("not", x) : x \in BoolD1}
=============================================================================
