------------------------------ MODULE SyltExpr ------------------------------
(***************************************************************************)
(* Operator table, printing rules and a reference parser for Sylt          *)
(* expressions (property C13).                                             *)
(*                                                                         *)
(* The table is the one the property states: binary operators, loosest to  *)
(* tightest:  <=>  <  or  <  and  <  comparisons  <  + -  <  * / ,         *)
(* all left-associative; unary - and not bind tighter than + -, the        *)
(* comparisons and the boolean operators; call, index and field access     *)
(* bind tightest.  The relation between a unary operator and * / is NOT    *)
(* fixed by the table, so every text this module produces puts explicit    *)
(* parentheses there and no expectation depends on it.                     *)
(*                                                                         *)
(* Trees are records tagged with k:                                        *)
(*   [k |-> "name", n], [k |-> "int", v], [k |-> "bool", v]                *)
(*   [k |-> "bin", op, l, r]   [k |-> "un", op, a]                         *)
(*   [k |-> "call", f, args]   [k |-> "idx", e, i]   [k |-> "fld", e, f]   *)
(* Texts are sequences of token spellings.                                 *)
(***************************************************************************)
EXTENDS Naturals, Integers, Sequences, FiniteSets, TLC

BinOps == <<"<=>", "or", "and", "==", "!=", "<", "<=", ">", ">=", "+", "-", "*", "/">>
BinOpSet == {BinOps[i] : i \in 1..Len(BinOps)}
UnOps == {"-", "not"}

Level(op) == CASE op = "<=>" -> 1
               [] op = "or"  -> 2
               [] op = "and" -> 3
               [] op \in {"==", "!=", "<", "<=", ">", ">="} -> 4
               [] op \in {"+", "-"} -> 5
               [] op \in {"*", "/"} -> 6

UnaryLevel == 7      \* above + - (5), comparisons and booleans; its relation to 6 is left open
PostfixLevel == 9

Name(n) == [k |-> "name", n |-> n]
IntN(v)  == [k |-> "int", v |-> v]
BoolN(v) == [k |-> "bool", v |-> v]
Bin(op, l, r) == [k |-> "bin", op |-> op, l |-> l, r |-> r]
Un(op, a) == [k |-> "un", op |-> op, a |-> a]
Call(f, args) == [k |-> "call", f |-> f, args |-> args]
Idx(e, i) == [k |-> "idx", e |-> e, i |-> IntN(i)]
Fld(e, f) == [k |-> "fld", e |-> e, f |-> f]

IsAtom(t) == t.k \in {"name", "int", "bool"}
IsPostfix(t) == t.k \in {"call", "idx", "fld"}

LevelOf(t) == CASE t.k = "bin" -> Level(t.op)
                [] t.k = "un"  -> UnaryLevel
                [] OTHER       -> PostfixLevel

---------------------------------------------------------------------------
(* Printing *)
Paren(s) == <<"(">> \o s \o <<")">>

AtomText(t) == CASE t.k = "name" -> t.n
                 [] t.k = "int"  -> ToString(t.v)
                 [] t.k = "bool" -> IF t.v THEN "true" ELSE "false"

RECURSIVE Min(_)
\* operand of a binary operator of level p on side s ("l" or "r")
MinOperand(t, p, s) ==
    LET txt == Min(t) IN
    CASE t.k = "bin" -> IF Level(t.op) < p \/ (s = "r" /\ Level(t.op) = p) THEN Paren(txt) ELSE txt
      [] t.k = "un"  -> IF p = 6 THEN Paren(txt) ELSE txt       \* open grouping: always explicit
      [] OTHER       -> txt
\* operand of a unary operator
MinUnOperand(t) == IF t.k = "bin" THEN Paren(Min(t)) ELSE Min(t)
\* base of a postfix form: a name or another postfix form stands bare
MinBase(t) == IF t.k = "name" \/ IsPostfix(t) THEN Min(t) ELSE Paren(Min(t))

RECURSIVE MinArgs(_)
MinArgs(args) == IF args = <<>> THEN <<>>
                 ELSE IF Len(args) = 1 THEN Min(args[1])
                 ELSE Min(args[1]) \o <<",">> \o MinArgs(Tail(args))

Min(t) ==
    CASE IsAtom(t)     -> <<AtomText(t)>>
      [] t.k = "bin"   -> MinOperand(t.l, Level(t.op), "l") \o <<t.op>> \o MinOperand(t.r, Level(t.op), "r")
      [] t.k = "un"    -> <<t.op>> \o MinUnOperand(t.a)
      [] t.k = "call"  -> MinBase(t.f) \o <<"(">> \o MinArgs(t.args) \o <<")">>
      [] t.k = "idx"   -> MinBase(t.e) \o <<"[", ToString(t.i.v), "]">>
      [] t.k = "fld"   -> MinBase(t.e) \o <<".", t.f>>

RECURSIVE Full(_)
RECURSIVE FullArgs(_)
FullArgs(args) == IF args = <<>> THEN <<>>
                  ELSE IF Len(args) = 1 THEN Full(args[1])
                  ELSE Full(args[1]) \o <<",">> \o FullArgs(Tail(args))
FullBase(t) == IF t.k = "name" THEN Full(t) ELSE Full(t)   \* composite bases are already parenthesised by Full
Full(t) ==
    CASE IsAtom(t)     -> <<AtomText(t)>>
      [] t.k = "bin"   -> Paren(Full(t.l) \o <<t.op>> \o Full(t.r))
      [] t.k = "un"    -> Paren(<<t.op>> \o Full(t.a))
      [] t.k = "call"  -> Paren(FullBase(t.f) \o <<"(">> \o FullArgs(t.args) \o <<")">>)
      [] t.k = "idx"   -> Paren(FullBase(t.e) \o <<"[", ToString(t.i.v), "]">>)
      [] t.k = "fld"   -> Paren(FullBase(t.e) \o <<".", t.f>>)

---------------------------------------------------------------------------
(* Reference parser: precedence climbing over a token sequence.
   Every parse function returns <<tree, index of the next unread token>>. *)
Digits == {"0", "1", "2", "3", "4", "5", "6", "7", "8", "9"}
IsIntTok(s) == s \in {ToString(i) : i \in 0..9}
IsNameTok(s) == s \in {"a", "b", "c", "d", "f", "g", "x", "y"}
Tok(toks, i) == IF i <= Len(toks) THEN toks[i] ELSE "<eof>"
IntOfTok(s) == CHOOSE i \in 0..9 : ToString(i) = s

RECURSIVE ParseExpr(_, _, _)
RECURSIVE ParsePrefix(_, _)
RECURSIVE ParsePostfix(_, _, _)
RECURSIVE ParseArgs(_, _, _)
RECURSIVE ClimbLoop(_, _, _, _)

ParseArgs(toks, i, acc) ==
    IF Tok(toks, i) = ")" THEN <<acc, i + 1>>
    ELSE LET r == ParseExpr(toks, i, 1) IN
         IF Tok(toks, r[2]) = "," THEN ParseArgs(toks, r[2] + 1, Append(acc, r[1]))
         ELSE <<Append(acc, r[1]), r[2] + 1>>      \* must be ")"

ParsePostfix(toks, base, i) ==
    CASE Tok(toks, i) = "(" -> LET r == ParseArgs(toks, i + 1, <<>>) IN ParsePostfix(toks, Call(base, r[1]), r[2])
      [] Tok(toks, i) = "[" -> ParsePostfix(toks, Idx(base, IntOfTok(toks[i + 1])), i + 3)
      [] Tok(toks, i) = "." -> ParsePostfix(toks, Fld(base, toks[i + 1]), i + 2)
      [] OTHER -> <<base, i>>

ParsePrefix(toks, i) ==
    LET s == Tok(toks, i) IN
    CASE s = "("        -> LET r == ParseExpr(toks, i + 1, 1) IN ParsePostfix(toks, r[1], r[2] + 1)
      [] s \in UnOps    -> LET r == ParsePrefix(toks, i + 1) IN <<Un(s, r[1]), r[2]>>
      [] s = "true"     -> <<BoolN(TRUE), i + 1>>
      [] s = "false"    -> <<BoolN(FALSE), i + 1>>
      [] IsIntTok(s)    -> <<IntN(IntOfTok(s)), i + 1>>
      [] IsNameTok(s)   -> ParsePostfix(toks, Name(s), i + 1)

ClimbLoop(toks, lhs, i, minLevel) ==
    LET op == Tok(toks, i) IN
    IF op \in BinOpSet /\ Level(op) >= minLevel
    THEN LET r == ParseExpr(toks, i + 1, Level(op) + 1) IN
         ClimbLoop(toks, Bin(op, lhs, r[1]), r[2], minLevel)
    ELSE <<lhs, i>>

ParseExpr(toks, i, minLevel) ==
    LET p == ParsePrefix(toks, i) IN ClimbLoop(toks, p[1], p[2], minLevel)

Parse(toks) == ParseExpr(toks, 1, 1)[1]

---------------------------------------------------------------------------
(* Evaluation of the well-typed int/bool fragment (no division: floats are out of the model) *)
RECURSIVE TypeOf(_)
TypeOf(t) ==
    CASE t.k = "int"  -> "int"
      [] t.k = "bool" -> "bool"
      [] t.k = "un"   -> IF t.op = "-" /\ TypeOf(t.a) = "int" THEN "int"
                         ELSE IF t.op = "not" /\ TypeOf(t.a) = "bool" THEN "bool" ELSE "bad"
      [] t.k = "bin"  ->
           LET a == TypeOf(t.l)  b == TypeOf(t.r) IN
           CASE t.op \in {"+", "-", "*"} -> IF a = "int" /\ b = "int" THEN "int" ELSE "bad"
             [] t.op \in {"<", "<=", ">", ">="} -> IF a = "int" /\ b = "int" THEN "bool" ELSE "bad"
             [] t.op \in {"==", "!=", "<=>"} -> IF a = b /\ a # "bad" THEN "bool" ELSE "bad"
             [] t.op \in {"and", "or"} -> IF a = "bool" /\ b = "bool" THEN "bool" ELSE "bad"
             [] OTHER -> "bad"
      [] OTHER -> "bad"

\* value, or the string "assert_failed" when a <=> fails somewhere inside
AF == [k |-> "assert_failed"]
IV(v) == [k |-> "int", v |-> v]
BV(v) == [k |-> "bool", v |-> v]
RECURSIVE Eval(_)
Eval(t) ==
    CASE t.k = "int"  -> IV(t.v)
      [] t.k = "bool" -> BV(t.v)
      [] t.k = "un"   -> LET a == Eval(t.a) IN
                         IF a.k = "assert_failed" THEN AF ELSE IF t.op = "-" THEN IV(0 - a.v) ELSE BV(~a.v)
      [] t.k = "bin"  ->
           LET a == Eval(t.l) IN
           IF a.k = "assert_failed" THEN AF
           ELSE IF t.op = "and" /\ ~a.v THEN BV(FALSE)          \* short circuit: right side not evaluated
           ELSE IF t.op = "or" /\ a.v THEN BV(TRUE)
           ELSE LET b == Eval(t.r) IN
             IF b.k = "assert_failed" THEN AF
             ELSE CASE t.op = "+" -> IV(a.v + b.v)
                    [] t.op = "-" -> IV(a.v - b.v)
                    [] t.op = "*" -> IV(a.v * b.v)
                    [] t.op = "<" -> BV(a.v < b.v)
                    [] t.op = "<=" -> BV(a.v <= b.v)
                    [] t.op = ">" -> BV(a.v > b.v)
                    [] t.op = ">=" -> BV(a.v >= b.v)
                    [] t.op = "==" -> BV(a.v = b.v)
                    [] t.op = "!=" -> BV(a.v # b.v)
                    [] t.op = "<=>" -> IF a.v = b.v THEN BV(TRUE) ELSE AF
                    [] t.op = "and" -> BV(b.v)
                    [] t.op = "or" -> BV(b.v)

---------------------------------------------------------------------------
(* Universes *)
\* untyped shape universe: leaves are distinct names so that every grouping is visible in the tree
D1(x, y) == {Bin(BinOps[i], x, y) : i \in 1..Len(BinOps)}
            \cup {Un(u, x) : u \in UnOps}
            \cup {Call(Name("f"), <<x>>), Call(Name("f"), <<x, y>>), Idx(Name("g"), 0), Fld(x, "x")}

Depth1(x, y) == {x} \cup D1(x, y)

\* postfix bases may not be int/bool atoms (`1.x` lexes as a float)
OkBase(t) == t.k # "int" /\ t.k # "bool"

Shapes2 ==
    LET L == Depth1(Name("a"), Name("b"))
        R == Depth1(Name("c"), Name("d")) IN
    {Bin(BinOps[i], l, r) : i \in 1..Len(BinOps), l \in L, r \in R}
    \cup {Un(u, l) : u \in UnOps, l \in L}
    \cup {Call(l, <<r>>) : l \in {b \in L : OkBase(b)}, r \in R}
    \cup {Call(Name("f"), <<l, r>>) : l \in L, r \in R}
    \cup {Idx(l, 1) : l \in {b \in L : OkBase(b)}}
    \cup {Fld(l, "y") : l \in {b \in L : OkBase(b)}}

\* depth 3, around the postfix forms: a unary operator applied to a postfix form whose BASE is composite (so that it is
\* written in parentheses: `-(a + b)(c)`, `not (a).y`, `-(f(a))[1]`), the same as an operand of every binary operator, and
\* postfix forms chained on a composite base (`(a + b)(c).y`).  "call, index and field access bind tighter still" than
\* the unary operators, whatever the base looks like.
PostOf(b, x) == {Call(b, <<x>>), Idx(b, 1), Fld(b, "y")}
Shapes3 ==
    LET L == {t \in Depth1(Name("a"), Name("b")) : OkBase(t)}
        P == UNION {PostOf(l, Name("c")) : l \in L} IN
    {Un(u, q) : u \in UnOps, q \in P}
    \cup {Bin(BinOps[i], Un(u, q), Name("d")) : i \in 1..Len(BinOps), u \in UnOps, q \in P}
    \cup {Bin(BinOps[i], Name("d"), Un(u, q)) : i \in {j \in 1..Len(BinOps) : Level(BinOps[j]) # 6}, u \in UnOps, q \in P}
    \cup UNION {PostOf(q, Name("d")) : q \in P}
    \cup {Un(u, r) : u \in UnOps, r \in UNION {PostOf(q, Name("d")) : q \in P}}

\* chains: a op1 b op2 c op3 d written WITHOUT parentheses; the expectation is Parse(text)
ChainToks(i, j, m) == <<"a", BinOps[i], "b", BinOps[j], "c", BinOps[m], "d">>

\* typed universe for evaluation
IntAtoms == {IntN(7), IntN(2)}
BoolAtoms == {BoolN(TRUE), BoolN(FALSE)}
IntD1 == IntAtoms \cup {Bin(o, x, y) : o \in {"+", "-", "*"}, x \in IntAtoms, y \in IntAtoms}
                  \cup {Un("-", x) : x \in IntAtoms}
BoolD1 == BoolAtoms \cup {Bin(o, x, y) : o \in {"<", "<=", ">", ">=", "==", "!=", "<=>"}, x \in IntAtoms, y \in IntAtoms}
                    \cup {Bin(o, x, y) : o \in {"and", "or", "==", "!=", "<=>"}, x \in BoolAtoms, y \in BoolAtoms}
                    \cup {Un("not", x) : x \in BoolAtoms}
Typed2 ==
    {Bin(o, x, y) : o \in {"+", "-", "*"}, x \in IntD1, y \in IntD1}
    \cup {Un("-", x) : x \in IntD1}
    \cup {Bin(o, x, y) : o \in {"<", "<=", ">", ">=", "==", "!=", "<=>"}, x \in IntD1, y \in IntD1}
    \cup {Bin(o, x, y) : o \in {"and", "or", "==", "!=", "<=>"}, x \in BoolD1, y \in BoolD1}
    \cup {Un("not", x) : x \in BoolD1}
=============================================================================
