----------------------------- MODULE Trace_Unify -----------------------------
(***************************************************************************)
(* Validates the event log of the real type checker (hooks compiled with   *)
(* --cfg sylt_verif, see MANIFEST.hooks) against SyltUnify.  One record    *)
(* per compilation: record.ev = sequence of                                *)
(*   [e |-> "push", id]                    a node was created              *)
(*   [e |-> "con", id, root, c, n]         constraint c put on node id; the *)
(*                                         implementation's representative *)
(*                                         and its number of constraints   *)
(*   [e |-> "cons", id, cs]                a fresh copy got constraints cs *)
(*   [e |-> "union", root, child, size, n] two classes merged; the size    *)
(*                                         and the number of constraints   *)
(*                                         of the representative AFTERWARDS*)
(* Each event must be the corresponding action of the specification, and   *)
(* the logged scalars must be the specification's: the representative, the *)
(* class size, and the NUMBER OF CONSTRAINTS the representative holds -    *)
(* which is where a constraint lost in a union shows, whether or not the   *)
(* program at hand would have needed it.  The invariants of SyltUnify are  *)
(* evaluated in every state.  One REJECT line per record that is not a     *)
(* behaviour, with the first offending event.                              *)
(***************************************************************************)
EXTENDS SyltUnify, Sequences, Json, IOUtils

VARIABLES k, l, st
tvars == <<n, parent, size, cons, added, k, l, st>>

Rec == ndJsonDeserialize(IOEnv.TRACE)
Ev == Rec[k].ev
SetOf(s) == {s[i] : i \in 1..Len(s)}

TraceInit == /\ k \in 1..Len(Rec) /\ l = 1 /\ st = "run" /\ UInit

IsEvent(kind) == st = "run" /\ l <= Len(Ev) /\ Ev[l].e = kind /\ l' = l + 1 /\ UNCHANGED <<k, st>>

TPush == IsEvent("push") /\ Push(Ev[l].id)

TCon == /\ IsEvent("con")
        /\ Ev[l].id \in Nodes
        /\ Find(Ev[l].id) = Ev[l].root
        /\ AddCons(Ev[l].id, {Ev[l].c})
        /\ Cardinality(cons'[Ev[l].root]) = Ev[l].n

TCons == /\ IsEvent("cons")
         /\ Ev[l].id \in Nodes /\ IsRoot(Ev[l].id)
         /\ AddCons(Ev[l].id, SetOf(Ev[l].cs))

TUnion == /\ IsEvent("union")
          /\ Union(Ev[l].root, Ev[l].child)
          /\ size'[Ev[l].root] = Ev[l].size
          /\ Cardinality(cons'[Ev[l].root]) = Ev[l].n

TFinish == /\ st = "run" /\ l > Len(Ev)
           /\ st' = "done"
           /\ UNCHANGED <<n, parent, size, cons, added, k, l>>

\* why the next event is not a step of the specification
Why(e) ==
    CASE e.e = "push"  -> "push-id-not-dense"
      [] e.e = "con"   -> IF e.id \notin Nodes THEN "unknown-node"
                          ELSE IF Find(e.id) # e.root THEN "representative-differs"
                          ELSE "constraint-count"
      [] e.e = "cons"  -> "copy-not-fresh"
      [] e.e = "union" -> IF e.root \notin Nodes \/ e.child \notin Nodes THEN "unknown-node"
                          ELSE IF ~IsRoot(e.root) \/ ~IsRoot(e.child) \/ e.root = e.child THEN "not-representatives"
                          ELSE IF size[e.root] < size[e.child] THEN "not-by-size"
                          ELSE IF size[e.root] + size[e.child] # e.size THEN "size"
                          ELSE "constraints-lost-in-union"
      [] OTHER -> "unknown-event"

TStuck == /\ st = "run" /\ l <= Len(Ev)
          /\ ~(ENABLED TPush \/ ENABLED TCon \/ ENABLED TCons \/ ENABLED TUnion)
          /\ st' = "stuck"
          /\ PrintT(<<"REJECT", ToJson([rec |-> k, at |-> l, why |-> Why(Ev[l]), event |-> Ev[l],
                                        have |-> IF Ev[l].e = "union" /\ Ev[l].root \in Nodes /\ Ev[l].child \in Nodes
                                                 THEN Cardinality(cons[Ev[l].root] \cup cons[Ev[l].child]) ELSE 0])>>)
          /\ UNCHANGED <<n, parent, size, cons, added, k, l>>

TraceNext == TPush \/ TCon \/ TCons \/ TUnion \/ TFinish \/ TStuck
TraceSpec == TraceInit /\ [][TraceNext]_tvars
=============================================================================
