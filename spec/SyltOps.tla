------------------------------ MODULE SyltOps ------------------------------
(***************************************************************************)
(* C03, third dimension: DOES THE TYPE HAVE THE OPERATOR AT ALL.           *)
(*                                                                         *)
(* The mismatches of SyltMismatch / SyltArrival give the two operands of   *)
(* an operator DIFFERENT types.  Here both operands have the SAME type and *)
(* the type does not support the operator (str - str, bool + bool,         *)
(* [int] * [int], blob, enum, tuples whose components at one position are  *)
(* both unsupported, also nested), decided by the operator-type table Sup. *)
(*  (1) binary operators + - * / < >= and or whose operands are two        *)
(*      literals, two variables, or ONE AND THE SAME variable / field /    *)
(*      call result / un-annotated parameter (`s * s`), used as an unused  *)
(*      statement, an inferred definition, a print argument;               *)
(*  (2) the COMPOUND ASSIGNMENTS += -= *= /= on every target kind (local,  *)
(*      global, variable captured by a closure, blob field, field of a     *)
(*      blob PARAMETER) with the value a literal, a variable or the target *)
(*      itself, as the last use of the target and followed by a use;       *)
(*  (3) compound assignments with target and value of DIFFERENT types.     *)
(* The base twin has the same shape with every offending (component) type  *)
(* replaced by one that has the operator (BaseOf).  Sylt has no list       *)
(* element assignment through an index (only tuples are indexed, by        *)
(* constants, and are immutable), so that target kind does not exist.      *)
(* The statement payloads run through the context chains of SyltMismatch.  *)
(***************************************************************************)
EXTENDS SyltArrival

(* type descriptors: scalars and tuples (uniform record shape) *)
SC(nm) == [k |-> "s", nm |-> nm, es |-> <<>>]
TU(nm, es) == [k |-> "t", nm |-> nm, es |-> es]
OTypes == <<
  SC("int"), SC("float"), SC("str"), SC("bool"), SC("list"), SC("blob"), SC("enum"),
  TU("(int,int)", <<SC("int"), SC("int")>>),
  TU("(str,int)", <<SC("str"), SC("int")>>),
  TU("(bool,int)", <<SC("bool"), SC("int")>>),
  TU("(float,float)", <<SC("float"), SC("float")>>),
  TU("(str,)", <<SC("str")>>),
  TU("(int,(str,int))", <<SC("int"), TU("(str,int)", <<SC("str"), SC("int")>>)>>),
  TU("(int,(bool,int))", <<SC("int"), TU("(bool,int)", <<SC("bool"), SC("int")>>)>>)
>>
NOT == Len(OTypes)

(* THE OPERATOR-TYPE TABLE: does type td have operator op (both operands of type td)?  Arithmetic and comparison
   operators work on tuples element-wise (every component must have the operator); and / or only on bool. *)
ScalarSup(op, nm) ==
  CASE op \in {"+", "+="} -> nm \in {"int", "float", "str"}
    [] op \in {"-", "*", "/", "-=", "*="} -> nm \in {"int", "float"}
    [] op = "/=" -> nm = "float"                       \* the quotient is a float and is stored back into the target
    [] op \in {"<", ">=", "<=", ">"} -> nm \in {"int", "float", "str"}
    [] op \in {"and", "or"} -> nm = "bool"
RECURSIVE Sup(_, _)
Sup(op, td) == IF td.k = "s" THEN ScalarSup(op, td.nm)
               ELSE op \notin {"and", "or"} /\ \A j \in 1..Len(td.es) : Sup(op, td.es[j])
BaseScalar(op) == IF op \in {"/", "/="} THEN SC("float") ELSE IF op \in {"and", "or"} THEN SC("bool") ELSE SC("int")
\* the nearest type that has the operator: offending scalars (components) replaced
RECURSIVE BaseOf(_, _)
BaseOf(op, td) == IF op \in {"and", "or"} THEN SC("bool")
                  ELSE IF td.k = "s" THEN (IF ScalarSup(op, td.nm) THEN td ELSE BaseScalar(op))
                  ELSE TU("base", [j \in 1..Len(td.es) |-> BaseOf(op, td.es[j])])

RECURSIVE OLit(_, _)
OLit(td, j) ==
  IF td.k = "t" THEN Tup([i \in 1..Len(td.es) |-> OLit(td.es[i], j)])
  ELSE CASE td.nm = "blob" -> BlobL("FI", <<FI("v", I(j))>>)
         [] td.nm = "enum" -> (IF j = 1 THEN Var0("E", "Y") ELSE Var1("E", "X", I(1)))
         [] OTHER -> Lit(td.nm, j)
RECURSIVE OTy(_)
OTy(td) ==
  IF td.k = "t" THEN TTuple([i \in 1..Len(td.es) |-> OTy(td.es[i])])
  ELSE CASE td.nm = "blob" -> TName("FI") [] td.nm = "enum" -> TName("E") [] OTHER -> TyA(td.nm)

BinOps == <<"+", "-", "*", "/", "<", ">=", "and", "or">>
CompOps == <<"+=", "-=", "*=", "/=">>
\* and / or are planted on a few types only (every non-bool type lacks them in the same way)
AndTypes == {"int", "str", "list", "(bool,int)"}
Pair(op, ti) == [op |-> op, t |-> ti]
AllPairs(ops) == [i \in 1..(Len(ops) * NOT) |-> Pair(ops[((i - 1) \div NOT) + 1], ((i - 1) % NOT) + 1)]
IsBinMismatch(p) == ~Sup(p.op, OTypes[p.t]) /\ (p.op \in {"and", "or"} => OTypes[p.t].nm \in AndTypes)
IsCompMismatch(p) == ~Sup(p.op, OTypes[p.t])
BinPairs == SelectSeq(AllPairs(BinOps), IsBinMismatch)
CompPairs == SelectSeq(AllPairs(CompOps), IsCompMismatch)
\* compound assignments whose target and value have different types (t: target, v: value; indexes into OTypes)
DP(op, t, v) == [op |-> op, t |-> t, v |-> v]
DiffPairs == <<DP("-=", 3, 1), DP("+=", 3, 1), DP("*=", 4, 1), DP("+=", 5, 1), DP("-=", 8, 1), DP("*=", 1, 2), DP("/=", 2, 3),
               DP("+=", 1, 3), DP("-=", 9, 8)>>
\* target and value must have one type that has the operator (for /= the value may be any number)
CompOk(op, tt, tv) == IF op = "/=" THEN Sup("/=", tt) /\ (tv = tt \/ (tv.k = "s" /\ tv.nm \in {"int", "float"}))
                      ELSE tt = tv /\ Sup(op, tt)

OpRule(op) == CASE op \in {"+", "-", "*", "/"} -> "arith-operands" [] op \in {"<", ">="} -> "cmp-comparable"
                [] op \in {"and", "or"} -> "logic-bool" [] OTHER -> "assign-type"

BinShapes == <<"litlit", "varvar", "samevar", "samefield", "samecall", "sameparam">>
Uses == <<"unused", "definfer", "printarg">>
Targets == <<"local", "global", "captured", "field", "paramfield">>
Values == <<"lit", "var", "self">>
Afters == <<"last", "used">>

OG(g, s) == [g |-> g, s |-> s]
ObDecl(td) == BlobD("OB", <<FD("v", OTy(td))>>)

\* (1) a binary operator over two operands of type td
BinSide(op, td, shape, use) ==
  LET l1 == OLit(td, 1)
      l2 == OLit(td, 2)
      fld == Fld(V(450), "v")
      r == CASE shape = "litlit" -> [g |-> <<>>, pre |-> <<>>, e |-> Bin(op, l1, l2)]
             [] shape = "varvar" -> [g |-> <<>>, pre |-> <<DefM(450, TNone, l1), DefM(452, TNone, l2)>>, e |-> Bin(op, V(450), V(452))]
             [] shape = "samevar" -> [g |-> <<>>, pre |-> <<DefM(450, TNone, l1)>>, e |-> Bin(op, V(450), V(450))]
             [] shape = "samefield" -> [g |-> <<ObDecl(td)>>, pre |-> <<DefC(450, TNone, BlobL("OB", <<FI("v", l1)>>))>>, e |-> Bin(op, fld, fld)]
             [] shape = "samecall" -> [g |-> <<DefN(1300, "const", TNone, Fn(<<>>, OTy(td), <<Ex(l1)>>), "")>>, pre |-> <<>>,
                                       e |-> Bin(op, Call(V(1300), <<>>), Call(V(1300), <<>>))]
             [] shape = "sameparam" -> [g |-> <<>>, pre |-> <<>>,
                                        e |-> Call(Fn(<<P(451, TNone)>>, TNone, <<Ex(Bin(op, V(451), V(451)))>>), <<l1>>)]
  IN OG(r.g, r.pre \o (CASE use = "unused" -> <<Ex(r.e)>> [] use = "definfer" -> <<DefC(453, TNone, r.e)>> [] use = "printarg" -> <<Print(r.e)>>))

\* (2), (3) a compound assignment: target of type tt, value of type tv
CompSide(op, tt, tv, target, value, after) ==
  LET l1 == OLit(tt, 1)
      l2 == OLit(tv, 2)
      core(tx) == (IF value = "var" THEN <<DefM(452, TNone, l2)>> ELSE <<>>)
                  \o <<Asg(op, tx, CASE value = "lit" -> l2 [] value = "var" -> V(452) [] value = "self" -> tx)>>
                  \o (IF after = "used" THEN <<Print(tx)>> ELSE <<>>)
      blob == DefC(450, TNone, BlobL("OB", <<FI("v", l1)>>))
  IN
  CASE target = "local" -> OG(<<>>, <<DefM(450, TNone, l1)>> \o core(V(450)))
    [] target = "global" -> OG(<<DefN(1300, "mut", TNone, l1, "")>>, core(V(1300)))
    [] target = "captured" -> OG(<<>>, <<DefM(450, TNone, l1), Ex(Call(Fn(<<>>, TVoid, core(V(450))), <<>>))>>)
    [] target = "field" -> OG(<<ObDecl(tt)>>, <<blob>> \o core(Fld(V(450), "v")))
    [] target = "paramfield" ->
         OG(<<ObDecl(tt), DefN(1301, "const", TNone, Fn(<<P(451, TName("OB"))>>, TVoid, core(Fld(V(451), "v"))), "")>>,
            <<blob, Ex(Call(V(1301), <<V(450)>>))>>)

(* keys: m[1] = OB (binary), OC (compound, same type), OD (compound, different types) *)
OB == NC + 1
OC == NC + 2
OD == NC + 3
OKeys ==
  {<<OB, p, s, u>> : p \in 1..Len(BinPairs), s \in 1..Len(BinShapes), u \in 1..Len(Uses)}
  \cup {<<OC, p, tv, a>> : p \in 1..Len(CompPairs), tv \in 1..(Len(Targets) * Len(Values)), a \in 1..Len(Afters)}
  \cup {<<OD, p, tv, a>> : p \in 1..Len(DiffPairs), tv \in {(t - 1) * Len(Values) + v : t \in 1..Len(Targets), v \in 1..2},
                           a \in 1..Len(Afters)}
TargetOf(m) == Targets[((m[3] - 1) \div Len(Values)) + 1]
ValueOf(m) == Values[((m[3] - 1) % Len(Values)) + 1]
OKeyKnown(m) ==
  \/ m[1] = OB /\ m[2] \in 1..Len(BinPairs) /\ m[3] \in 1..Len(BinShapes) /\ m[4] \in 1..Len(Uses)
  \/ m[1] = OC /\ m[2] \in 1..Len(CompPairs) /\ m[3] \in 1..(Len(Targets) * Len(Values)) /\ m[4] \in 1..Len(Afters)
  \/ m[1] = OD /\ m[2] \in 1..Len(DiffPairs) /\ m[3] \in 1..(Len(Targets) * Len(Values)) /\ ValueOf(m) # "self" /\ m[4] \in 1..Len(Afters)

OSide(m, planted) ==
  IF m[1] = OB THEN
    LET p == BinPairs[m[2]]
        td == IF planted THEN OTypes[p.t] ELSE BaseOf(p.op, OTypes[p.t]) IN
    BinSide(p.op, td, BinShapes[m[3]], Uses[m[4]])
  ELSE IF m[1] = OC THEN
    LET p == CompPairs[m[2]]
        td == IF planted THEN OTypes[p.t] ELSE BaseOf(p.op, OTypes[p.t]) IN
    CompSide(p.op, td, td, TargetOf(m), ValueOf(m), Afters[m[4]])
  ELSE
    LET p == DiffPairs[m[2]] IN
    IF planted THEN CompSide(p.op, OTypes[p.t], OTypes[p.v], TargetOf(m), ValueOf(m), Afters[m[4]])
    ELSE CompSide(p.op, BaseScalar(p.op), BaseScalar(p.op), TargetOf(m), ValueOf(m), Afters[m[4]])

OKind(m) ==
  IF m[1] = OB THEN "op:" \o BinPairs[m[2]].op \o ":" \o OTypes[BinPairs[m[2]].t].nm \o "@" \o BinShapes[m[3]] \o "/" \o Uses[m[4]]
  ELSE IF m[1] = OC THEN "cop:" \o CompPairs[m[2]].op \o ":" \o OTypes[CompPairs[m[2]].t].nm
                         \o "@" \o TargetOf(m) \o "/" \o ValueOf(m) \o "/" \o Afters[m[4]]
  ELSE "cop:" \o DiffPairs[m[2]].op \o ":" \o OTypes[DiffPairs[m[2]].t].nm \o "~" \o OTypes[DiffPairs[m[2]].v].nm
       \o "@" \o TargetOf(m) \o "/" \o ValueOf(m) \o "/" \o Afters[m[4]]
OOp(m) == IF m[1] = OB THEN BinPairs[m[2]].op ELSE IF m[1] = OC THEN CompPairs[m[2]].op ELSE DiffPairs[m[2]].op
OClass(m) == IF m[1] = OB THEN "op-binary" ELSE IF m[1] = OC THEN "op-compound" ELSE "op-compound-diff"
OForms(m) == IF m[1] = OB THEN <<BinShapes[m[3]], Uses[m[4]]>> ELSE <<TargetOf(m), ValueOf(m), Afters[m[4]]>>

OProgram(m, path, planted) == LET sd == OSide(m, planted) IN sd.g \o Wrap(path, 1, sd.s, "-")

\* chains: every top alone; all chains of length 2 (full) or a seeded sample of 1/mod of them
OChains(m, full, seed, mod) ==
  LET two == Chains("S", "-", 2, Tops) IN
  Chains("S", "-", 1, Tops) \cup (IF full THEN two ELSE {p \in two : Hash(m, p, seed) % mod = 0})

---------------------------------------------------------------------------
(* Spec-level sanity *)
OTypeNamesDistinct == \A i, j \in 1..NOT : OTypes[i].nm = OTypes[j].nm => i = j
\* every planted pair lacks the operator, its base twin has it, and the twin differs
OpsDefinite ==
  /\ \A i \in 1..Len(BinPairs) : LET p == BinPairs[i] IN
       ~Sup(p.op, OTypes[p.t]) /\ Sup(p.op, BaseOf(p.op, OTypes[p.t])) /\ BaseOf(p.op, OTypes[p.t]) # OTypes[p.t]
  /\ \A i \in 1..Len(CompPairs) : LET p == CompPairs[i] IN
       ~CompOk(p.op, OTypes[p.t], OTypes[p.t]) /\ CompOk(p.op, BaseOf(p.op, OTypes[p.t]), BaseOf(p.op, OTypes[p.t]))
  /\ \A i \in 1..Len(DiffPairs) : LET p == DiffPairs[i] IN
       OTypes[p.t] # OTypes[p.v] /\ ~CompOk(p.op, OTypes[p.t], OTypes[p.v]) /\ CompOk(p.op, BaseScalar(p.op), BaseScalar(p.op))
\* the universe has what the class needs: every compound operator with str, bool, list, blob, enum and a tuple of str;
\* element-wise tuple mismatches (also nested) for - * /; every arithmetic operator with bool components
OpsCover ==
  /\ \A op \in {"-=", "*=", "/="} : \A nm \in {"str", "bool", "list", "blob", "enum", "(str,int)", "(bool,int)", "(int,(str,int))"} :
       \E i \in 1..Len(CompPairs) : CompPairs[i].op = op /\ OTypes[CompPairs[i].t].nm = nm
  /\ \A nm \in {"bool", "list", "blob", "enum", "(bool,int)", "(int,(bool,int))"} :
       \E i \in 1..Len(CompPairs) : CompPairs[i].op = "+=" /\ OTypes[CompPairs[i].t].nm = nm
  /\ \A op \in {"-", "*", "/"} : \A nm \in {"str", "bool", "list", "(str,int)", "(str,)", "(int,(str,int))", "(bool,int)"} :
       \E i \in 1..Len(BinPairs) : BinPairs[i].op = op /\ OTypes[BinPairs[i].t].nm = nm
  /\ \A op \in {"+", "<", ">="} : \A nm \in {"bool", "(bool,int)", "(int,(bool,int))"} :
       \E i \in 1..Len(BinPairs) : BinPairs[i].op = op /\ OTypes[BinPairs[i].t].nm = nm
  \* supported combinations are NOT planted
  /\ \A i \in 1..Len(BinPairs) : ~(BinPairs[i].op = "+" /\ OTypes[BinPairs[i].t].nm \in {"str", "(str,int)", "(int,int)"})
  /\ \A i \in 1..Len(CompPairs) : ~(CompPairs[i].op = "+=" /\ OTypes[CompPairs[i].t].nm \in {"str", "(str,int)"})
=============================================================================
