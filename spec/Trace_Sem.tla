------------------------------ MODULE Trace_Sem ------------------------------
(***************************************************************************)
(* C01, trace-validation direction.  Programs that were NOT generated from *)
(* the specification - the maintainers' own programs under /repo/tests -   *)
(* are compiled by the real compiler and run; the harness (c01c) RECORDS   *)
(*     [file, tops, prints, status]                                        *)
(* where `tops` is the program as the real parser read it, converted to    *)
(* the SyltAst convention, `prints` the lines the run wrote and `status`   *)
(* how it ended.  This module decides whether each recorded run is the     *)
(* behaviour the reference semantics SyltSem assigns to that program:      *)
(* one behaviour per record (Init ranges over all records), the top-level  *)
(* definitions are initialised one per step in dependency order (the first *)
(* pending definition whose initialiser finds everything it reads; Sylt's  *)
(* top-level order is irrelevant, C11), then start() is called, then Judge *)
(* compares and prints exactly one line per record:                        *)
(*   ACCEPT  SyltSem's print texts and terminal status equal the recorded  *)
(*   REJECT  they differ: first differing print, both statuses, a class    *)
(*   DROP    SyltSem left its model (`drop:*`: numeric limits, fuel, the   *)
(*           order of an unordered container, a text the language does not *)
(*           fix): counted, never judged                                   *)
(* A run SyltSem cannot explain at all (`stuck:*`: an operation applied to *)
(* a value of the wrong kind in a program the real type checker accepted)  *)
(* is a REJECT of class spec-stuck.                                        *)
(***************************************************************************)
EXTENDS SyltSem, Json, IOUtils

VARIABLES k,      \* index of the record under validation
          S,      \* SyltSem machine state
          pend,   \* indices (into tops) of the top-level definitions not yet initialised
          pc      \* "init" | "ran" | "done"
tvars == <<k, S, pend, pc>>

Rec == ndJsonDeserialize(IOEnv.TRACE)
N == Len(Rec)
Fuel == IF "FUEL" \in DOMAIN IOEnv THEN atoi(IOEnv.FUEL) ELSE 3000

Tops == Rec[k].tops

DefIdx(tops) == LET RECURSIVE D(_)
                    D(i) == IF i > Len(tops) THEN <<>>
                            ELSE (IF tops[i].k = "def" THEN <<i>> ELSE <<>>) \o D(i + 1)
                IN D(1)

StartId(tops) == LET c == {t \in 1..Len(tops) : tops[t].k = "def" /\ tops[t].n = "start"} IN
                 IF c = {} THEN 0 - 5 ELSE tops[CHOOSE t \in c : TRUE].b

IsUnbound(r) == r.sig = "halt" /\ r.s.status \in {"stuck:unbound-variable", "stuck:assign-unbound-variable"}

\* position in `pend` of the first definition that is ready; 1 if none is (its failure is then the program's)
RECURSIVE FirstReady(_, _, _, _)
FirstReady(tops, pd, j, St) ==
  IF j > Len(pd) THEN 1
  ELSE IF IsUnbound(InitTop(tops[pd[j]], St)) THEN FirstReady(tops, pd, j + 1, St) ELSE j

TraceInit ==
  /\ k \in 1..N
  /\ S = NewState(Fuel)
  /\ pend = DefIdx(Rec[k].tops)
  /\ pc = "init"

InitGlobal ==
  /\ pc = "init" /\ Len(pend) > 0 /\ S.status = "run"
  /\ LET j == FirstReady(Tops, pend, 1, S)
         r == InitTop(Tops[pend[j]], S) IN
     /\ S' = r.s
     /\ pend' = SubSeq(pend, 1, j - 1) \o SubSeq(pend, j + 1, Len(pend))
  /\ UNCHANGED <<k, pc>>

CallStartA ==
  /\ pc = "init" /\ Len(pend) = 0 /\ S.status = "run"
  /\ S' = CallStart(StartId(Tops), S).s
  /\ pc' = "ran"
  /\ UNCHANGED <<k, pend>>

Abort ==    \* an initialiser ended the program
  /\ pc = "init" /\ S.status # "run"
  /\ pc' = "ran"
  /\ UNCHANGED <<k, S, pend>>

---------------------------------------------------------------------------
(* the comparison *)
HasPrefix(s, p) == Len(s) >= Len(p) /\ SubSeq(s, 1, Len(p)) = p

SpecTexts == [i \in 1..Len(S.out) |-> SnapText(S.out[i].v)]
AllPrintable == \A i \in 1..Len(S.out) : Printable(S.out[i].v)

\* first index at which the two print sequences differ (one past the shorter if one is a proper prefix), 0 if equal
FirstDiff(a, b) ==
  LET m == IF Len(a) < Len(b) THEN Len(a) ELSE Len(b)
      bad == {i \in 1..m : a[i] # b[i]} IN
  IF bad # {} THEN CHOOSE i \in bad : \A j \in bad : i <= j
  ELSE IF Len(a) # Len(b) THEN m + 1 ELSE 0

At(q, i) == IF i >= 1 /\ i <= Len(q) THEN q[i] ELSE "<none>"

Verdict ==
  LET got == Rec[k].prints
      want == SpecTexts
      d == FirstDiff(want, got) IN
  IF HasPrefix(S.status, "drop:") THEN [v |-> "DROP", why |-> S.status, at |-> 0]
  ELSE IF ~AllPrintable THEN [v |-> "DROP", why |-> "drop:print-of-unprintable", at |-> 0]
  ELSE IF HasPrefix(S.status, "stuck:") THEN [v |-> "REJECT", why |-> "spec-" \o S.status, at |-> d]
  ELSE IF d # 0 THEN [v |-> "REJECT", at |-> d,
                      why |-> IF d > (IF Len(want) < Len(got) THEN Len(want) ELSE Len(got))
                              THEN "print-count" ELSE "print-value"]
  ELSE IF S.status # Rec[k].status THEN [v |-> "REJECT", why |-> "status:" \o S.status \o "->" \o Rec[k].status, at |-> 0]
  ELSE [v |-> "ACCEPT", why |-> "", at |-> 0]

Judge ==
  /\ pc = "ran"
  /\ pc' = "done"
  /\ LET vd == Verdict IN
     PrintT(<<vd.v, ToJson([file |-> Rec[k].file, rec |-> k, why |-> vd.why, at |-> vd.at,
                            want |-> At(SpecTexts, vd.at), got |-> At(Rec[k].prints, vd.at),
                            spec_status |-> S.status, rec_status |-> Rec[k].status,
                            spec_prints |-> Len(S.out), rec_prints |-> Len(Rec[k].prints),
                            heap |-> Len(S.heap), fuel_used |-> Fuel - S.fuel])>>)
  /\ UNCHANGED <<k, S, pend>>

TraceNext == InitGlobal \/ CallStartA \/ Abort \/ Judge
TraceSpec == TraceInit /\ [][TraceNext]_tvars

---------------------------------------------------------------------------
HeapOk ==
  \A a \in 1..Len(S.heap) :
     LET o == S.heap[a] IN
     o.k = "frame" => o.parent \in 0..(a - 1)      \* parents are older: the frame forest is acyclic

\* a judged record ended in one of the statuses the semantics knows
Terminal == pc = "done" => \/ S.status \in {"done", "assert_failed", "unreachable"}
                           \/ HasPrefix(S.status, "drop:") \/ HasPrefix(S.status, "stuck:")

\* sets and dicts never hold two equal members / keys
ContainersOk ==
  \A a \in 1..Len(S.heap) :
     LET o == S.heap[a] IN
     /\ o.k = "set" => \A i, j \in 1..Len(o.items) : i # j => ~StructEq(o.items[i], o.items[j], S.heap)
     /\ o.k = "dict" => /\ Len(o.keys) = Len(o.vals)
                        /\ \A i, j \in 1..Len(o.keys) : i # j => ~StructEq(o.keys[i], o.keys[j], S.heap)
=============================================================================
