------------------------------- MODULE MC_SemX -------------------------------
(***************************************************************************)
(* C01: the dimensions that are not pairwise nestings of SyltGen's         *)
(* templates, run through the dynamic semantics the same way MC_Sem runs   *)
(* the pairwise universe:                                                  *)
(*   limits    literal arithmetic at the numeric limits     (SyltLimits)   *)
(*   nestself  blob literals nested in methods of blob      (SyltNestSelf) *)
(*             literals: whose `self`                                      *)
(* One behaviour per KEY of a universe.  Build makes the program of the    *)
(* key (an action, so that all workers share the work: for SyltLimits it   *)
(* evaluates candidate expressions with the semantics), InitGlobal runs    *)
(* the top-level initialisers one by one, CallStart runs start(), Emit     *)
(* prints the expected observation as a REPLAY record.  Invariants: the    *)
(* heap is well formed, the semantics never gets stuck on a program of the *)
(* typed generators.                                                       *)
(***************************************************************************)
EXTENDS SyltLimits, SyltNestSelf, Json, IOUtils

VARIABLES id, prog, S, next, pc
vars == <<id, prog, S, next, pc>>

Fuel == 400
Mode == IF "MODE" \in DOMAIN IOEnv THEN IOEnv.MODE ELSE "extra"

Init ==
  /\ pc = "build" /\ next = 1 /\ S = NewState(Fuel)
  /\ \/ /\ Mode \in {"limits", "extra"}
        /\ \E k \in LimKeys : id = LimId(k) /\ prog = k
     \/ /\ Mode \in {"nestself", "extra"}
        /\ \E k \in NsKeys : id = NsId(k) /\ prog = k

Build ==
  /\ pc = "build"
  /\ LET p == IF prog[1] = "ns" THEN NsProg(prog[2], prog[3], prog[4]) ELSE LimProg(prog) IN
     /\ prog' = p
     /\ pc' = IF p = <<>> THEN "skipped" ELSE "init"      \* <<>>: the key names no program of the universe
  /\ UNCHANGED <<id, S, next>>

StartId == LET c == {t \in 1..Len(prog) : prog[t].k = "def" /\ prog[t].n = "start"} IN
           IF c = {} THEN 0 - 5 ELSE prog[CHOOSE t \in c : TRUE].b

InitGlobal ==
  /\ pc = "init" /\ next <= Len(prog) /\ S.status = "run"
  /\ LET r == InitTop(prog[next], S) IN S' = r.s
  /\ next' = next + 1
  /\ UNCHANGED <<id, prog, pc>>

CallStartA ==
  /\ pc = "init" /\ next > Len(prog) /\ S.status = "run"
  /\ LET r == CallStart(StartId, S) IN S' = r.s
  /\ pc' = "ran"
  /\ UNCHANGED <<id, prog, next>>

Abort ==    \* an initialiser halted the program
  /\ pc = "init" /\ S.status # "run"
  /\ pc' = "ran"
  /\ UNCHANGED <<id, prog, S, next>>

Emit ==
  /\ pc = "ran"
  /\ pc' = "done"
  /\ PrintT(<<"REPLAY", ToJson([id |-> id, tops |-> prog, out |-> S.out, status |-> S.status])>>)
  /\ UNCHANGED <<id, prog, S, next>>

Next == Build \/ InitGlobal \/ CallStartA \/ Abort \/ Emit
Spec == Init /\ [][Next]_vars

---------------------------------------------------------------------------
HeapOk ==
  \A a \in 1..Len(S.heap) :
     LET o == S.heap[a] IN
     o.k = "frame" => o.parent \in 0..(a - 1)      \* parents are older: the frame forest is acyclic

\* programs of the typed generators never get stuck in the spec's own strict semantics
GeneratorSound == ~(Len(S.status) >= 5 /\ SubSeq(S.status, 1, 5) = "stuck")
=============================================================================
