--------------------------- MODULE MC_DetContext ---------------------------
(* Model constants for checking SyltDetContext on its own (spec-level self-test and spec-level negative controls). *)
EXTENDS SyltDetContext
MCInputs == {"i1", "i2"}
MCProcs == {"in"}
MCResults == {[class |-> "ok", digest |-> "aa"], [class |-> "err", digest |-> "cc"]}
MCCfgs == {"parent", "bare"}
MCFunction == "function"
MCCache == "cache"
MCCounter == "counter"
MCSpelling == "spelling"
ASSUME ContextUniverseWellFormed
=============================================================================
