----------------------------- MODULE Trace_Load -----------------------------
(***************************************************************************)
(* Trace validation for C06: every run the recorder (harness c06) observed *)
(* must be a COMPLETE behaviour of SyltLoad, i.e. a run whose compilation  *)
(* succeeded must go on to LoadOk before it finishes.                      *)
(*                                                                         *)
(* One ndjson record per program:                                          *)
(*   [u, idx, id, files, req, ev, detail]     ev = sequence of events      *)
(*   event = [e, r, n, len, st, cls]                                       *)
(*     e = "start"                                                         *)
(*       | "ret"     r = "ok"  : len = bytes written                       *)
(*                   r = "err" : n = number of errors, len = bytes written *)
(*                               st = "parse" | "compile"                  *)
(*       | "render"  n = index of the error, len = length of its rendering *)
(*       | "load"    r = "ok" | "err" (cls = class of the loader's refusal)*)
(*       | "finish"                                                        *)
(*       | "panic" | "render_panic"                    (no spec action)    *)
(* Record k is validated independently (Init ranges over all k).  Events   *)
(* are consumed one per step by the matching SyltLoad action; ParseOk is   *)
(* the only unobserved step.  There is no action that consumes a           *)
(* load/err event: such a record goes to st = "fail" and prints one REJECT *)
(* line.  REJECT lines are the check's verdicts.  All SyltLoad invariants  *)
(* are evaluated in every state of every validated trace.                  *)
(*                                                                         *)
(* The universe is decided HERE: for u = "lex" record k must carry exactly *)
(* the id, files and require argument of SyltCorners!Case(idx) as derived  *)
(* by TLC (a mismatch is a tool error, Assert); with FULL = 1 the trace    *)
(* must cover 1..NCases exactly.  Records of the other universes (corpus   *)
(* files, programs of the C01 universe) are identified by name only.       *)
(***************************************************************************)
EXTENDS SyltLoad, SyltCorners, Json, IOUtils

VARIABLES k,      \* index of the record being validated
          j,      \* index of the next event of that record
          st      \* "run" | "ok" | "fail"

tvars == <<phase, input, stage, errs, bytes, rendered, loaded, k, j, st>>

Rec == ndJsonDeserialize(IOEnv.TRACE)
N == Len(Rec)
Full == "FULL" \in DOMAIN IOEnv /\ IOEnv.FULL = "1"

IsLex(q) == Rec[q].u = "lex"
UniverseOK(q) ==
    IF IsLex(q)
    THEN /\ Rec[q].idx \in 1..NCases
         /\ Rec[q].id = Case(Rec[q].idx).id
         /\ Rec[q].files = Case(Rec[q].idx).files
         /\ Rec[q].req = Case(Rec[q].idx).req
    ELSE Rec[q].u \in {"corpus", "sem"} /\ Rec[q].id.fam = Rec[q].u /\ Rec[q].idx = q

\* the text the run was started on
CaseInput(q) == IF IsLex(q) THEN Case(Rec[q].idx).files[1].text ELSE Rec[q].id.a

ASSUME TraceComplete == Full => {Rec[q].idx : q \in {p \in 1..N : IsLex(p)}} = 1..NCases /\ N = NCases

---------------------------------------------------------------------------
NE == Len(Rec[k].ev)
Ev == Rec[k].ev[j]
HasEv == j <= NE

TraceInit ==
    /\ k \in 1..N
    /\ Assert(UniverseOK(k), <<"universe mismatch at record", k, Rec[k].idx, Rec[k].id>>)
    /\ (k = 1 => PrintT(<<"UNIVERSE", ToJson([ncases |-> NCases, records |-> N, full |-> Full])>>))
    /\ LInit
    /\ j = 1 /\ st = "run"

Consume == j' = j + 1 /\ UNCHANGED <<k, st>>

TraceStart ==
    /\ st = "run" /\ HasEv /\ Ev.e = "start"
    /\ LStart(CaseInput(k))
    /\ Consume

\* unobserved: the front end accepted (the next event reports the back end's outcome)
TraceParseOk ==
    /\ st = "run" /\ HasEv /\ Ev.e = "ret" /\ (Ev.r = "ok" \/ Ev.st = "compile")
    /\ LParseOk
    /\ UNCHANGED <<k, j, st>>

TraceRetErr ==
    /\ st = "run" /\ HasEv /\ Ev.e = "ret" /\ Ev.r = "err"
    /\ \/ Ev.st = "parse" /\ LParseErr(Ev.n)
       \/ Ev.st = "compile" /\ LCompileErr(Ev.n, Ev.len)
    /\ Consume

TraceRetOk ==
    /\ st = "run" /\ HasEv /\ Ev.e = "ret" /\ Ev.r = "ok"
    /\ LCompileOk(Ev.len)
    /\ Consume

TraceRender ==
    /\ st = "run" /\ HasEv /\ Ev.e = "render"
    /\ Ev.n = Len(rendered) + 1
    /\ LRenderErr(Ev.len)
    /\ Consume

\* the loader accepted the chunk; a refusal (r = "err") is consumed by NO action
TraceLoadOk ==
    /\ st = "run" /\ HasEv /\ Ev.e = "load" /\ Ev.r = "ok"
    /\ LoadOk
    /\ Consume

TraceFinish ==
    /\ st = "run" /\ HasEv /\ Ev.e = "finish"
    /\ LFinish
    /\ Consume

TraceStep == TraceStart \/ TraceParseOk \/ TraceRetErr \/ TraceRetOk \/ TraceRender \/ TraceLoadOk \/ TraceFinish

TraceAccept ==
    /\ st = "run" /\ ~HasEv /\ Complete
    /\ st' = "ok"
    /\ UNCHANGED <<phase, input, stage, errs, bytes, rendered, loaded, k, j>>

Why == IF ~HasEv THEN "truncated"
       ELSE IF Ev.e \in {"panic", "render_panic"} THEN Ev.e
       ELSE IF Ev.e = "load" /\ Ev.r = "err" /\ phase = "compiled" THEN "load-error"
       ELSE IF Ev.e = "load" THEN "load-of-nothing"
       ELSE IF Ev.e = "finish" /\ phase = "compiled" /\ loaded = "no" THEN "finish-before-load"
       ELSE IF Ev.e = "ret" /\ Ev.r = "ok" /\ Ev.len = 0 THEN "ok-without-output"
       ELSE IF Ev.e = "ret" /\ Ev.r = "err" /\ Ev.n = 0 THEN "err-without-errors"
       ELSE "protocol"

TraceReject ==
    /\ st = "run"
    /\ ~ENABLED TraceStep
    /\ ~(~HasEv /\ Complete)
    /\ st' = "fail"
    /\ PrintT(<<"REJECT", ToJson([rec |-> k, u |-> Rec[k].u, idx |-> Rec[k].idx, id |-> Rec[k].id, ev |-> j,
                                  phase |-> phase, why |-> Why,
                                  cls |-> IF HasEv THEN Ev.cls ELSE "-"])>>)
    /\ UNCHANGED <<phase, input, stage, errs, bytes, rendered, loaded, k, j>>

TraceNext == TraceStep \/ TraceAccept \/ TraceReject

TraceSpec == TraceInit /\ [][TraceNext]_tvars

---------------------------------------------------------------------------
TraceInv == /\ LTypeOK /\ FailedHasErrors /\ OkHasBytes /\ RenderedSane /\ FinishedIsOutcome /\ UndecidedIsBlank
            /\ LoadedIsCompiled /\ FinishedOkIsLoaded /\ RejectedNeverLoaded

\* accepted means complete, and a complete successful run was loaded (the C06 clause)
AcceptedIsComplete == st = "ok" => Complete /\ j = NE + 1 /\ (Rejected \/ (Succeeded /\ loaded = "yes"))

TraceTotal == st = "run" => ENABLED TraceNext
=============================================================================
