----------------------------- MODULE Trace_Load -----------------------------
(***************************************************************************)
(* Trace validation for C06: every run the recorder (harness c06) observed *)
(* must be a COMPLETE behaviour of SyltLoad, i.e. a run whose compilation  *)
(* succeeded must go on to LoadOk before it finishes.                      *)
(*                                                                         *)
(* One ndjson record per program:                                          *)
(*   [u, idx, id, files, req, ev, detail]     ev = sequence of events      *)
(*   event = [e, r, n, len, st, cls]                                       *)
(*     e = "start"                                                         *)
(*       | "ret"     r = "ok"  : len = bytes written                       *)
(*                   r = "err" : n = number of errors, len = bytes written *)
(*                               st = "parse" | "compile"                  *)
(*       | "render"  n = index of the error, len = length of its rendering *)
(*       | "load"    r = "ok" | "err" (cls = class of the loader's refusal)*)
(*       | "run"     r = "done" | how the run ended otherwise; only for    *)
(*                   cases with a byte expectation, after load ok; the     *)
(*                   record's field `out` holds what the chunk printed     *)
(*       | "finish"                                                        *)
(*       | "panic" | "render_panic"                    (no spec action)    *)
(* Record k is validated independently (Init ranges over all k).  Events   *)
(* are consumed one per step by the matching SyltLoad action; ParseOk is   *)
(* the only unobserved step.  There is no action that consumes a           *)
(* load/err event: such a record goes to st = "fail" and prints one REJECT *)
(* line.  REJECT lines are the check's verdicts.  All SyltLoad invariants  *)
(* are evaluated in every state of every validated trace.                  *)
(*                                                                         *)
(* The universe is decided HERE: for u = "lex" record k must carry exactly *)
(* the id, files and require argument of SyltCorners!Case(idx) as derived  *)
(* by TLC (a mismatch is a tool error, Assert); with FULL = 1 the trace    *)
(* must cover 1..NCases exactly.  Records of the other universes (corpus   *)
(* files, programs of the C01 universe) are identified by name only.       *)
(***************************************************************************)
EXTENDS SyltLoad, SyltCorners, Json, IOUtils

VARIABLES k,      \* index of the record being validated
          j,      \* index of the next event of that record
          st,     \* "run" | "ok" | "fail"
          cs      \* CaseSummary(k): [ok, input, expect]

tvars == <<phase, input, stage, errs, bytes, rendered, loaded, k, j, st, cs>>

Rec == ndJsonDeserialize(IOEnv.TRACE)
N == Len(Rec)
Full == "FULL" \in DOMAIN IOEnv /\ IOEnv.FULL = "1"

IsLex(q) == Rec[q].u = "lex"
\* The cases the trace names, derived once when TLC starts (a constant definition): the whole universe for the complete
\* validation (FULL = 1), else just the indices that occur (corpus, C01 universe, negative controls, replays).
\* `\o` turns the lazy function expression into an evaluated tuple.  This is the ONLY reference to SyltCorners' text
\* builders in this module, and TraceInit is the only action that looks at LexTable (it copies what the later steps need
\* into the state variable cs): with -coverage TLC walks the definition graph below every action as a TREE before it
\* starts, and a dozen references to the universe cost minutes.
NeededIdx == {Rec[q].idx : q \in {p \in 1..N : IsLex(p)}}
NoCase == [id |-> [fam |-> "-", a |-> "-", b |-> "-", n |-> 0], files |-> <<>>, req |-> "", must |-> FALSE, expect |-> "-"]
MkLexTable(tb) == [i \in 1..tb.total |-> IF Full \/ i \in NeededIdx THEN CaseIn(tb, i) ELSE NoCase] \o <<>>
LexTable == MkLexTable(SegTable)
\* what the validation of record q needs to know about its case: does the record carry exactly the case the specification
\* derives for its index; the text the run was started on; the bytes it must print when run ("-": it is only loaded)
SummaryOf(c, q) == [ok |-> Rec[q].id = c.id /\ Rec[q].files = c.files /\ Rec[q].req = c.req,
                    input |-> c.files[1].text, expect |-> c.expect]
SummaryIn(tbl, q) == IF Rec[q].idx \in 1..Len(tbl) THEN SummaryOf(tbl[Rec[q].idx], q)
                     ELSE [ok |-> FALSE, input |-> "", expect |-> "-"]
CaseSummary(q) ==
    IF IsLex(q)
    THEN SummaryIn(LexTable, q)
    ELSE [ok |-> Rec[q].u \in {"corpus", "sem"} /\ Rec[q].id.fam = Rec[q].u /\ Rec[q].idx = q, input |-> Rec[q].id.a, expect |-> "-"]

ASSUME TraceComplete == Full => {Rec[q].idx : q \in {p \in 1..N : IsLex(p)}} = 1..NCases /\ N = NCases

---------------------------------------------------------------------------
NE == Len(Rec[k].ev)
Ev == Rec[k].ev[j]
HasEv == j <= NE

TraceInit ==
    /\ k \in 1..N
    /\ cs = CaseSummary(k)
    /\ Assert(cs.ok, <<"universe mismatch at record", k, Rec[k].idx, Rec[k].id>>)
    /\ (k = 1 => PrintT(<<"UNIVERSE", ToJson([ncases |-> NCases, records |-> N, full |-> Full])>>))
    /\ LInit
    /\ j = 1 /\ st = "run"

NeedsRun == cs.expect # "-"
Consume == j' = j + 1 /\ UNCHANGED <<k, st, cs>>

TraceStart ==
    /\ st = "run" /\ HasEv /\ Ev.e = "start"
    /\ LStart(cs.input)
    /\ Consume

\* unobserved: the front end accepted (the next event reports the back end's outcome)
TraceParseOk ==
    /\ st = "run" /\ HasEv /\ Ev.e = "ret" /\ (Ev.r = "ok" \/ Ev.st = "compile")
    /\ LParseOk
    /\ UNCHANGED <<k, j, st, cs>>

TraceRetErr ==
    /\ st = "run" /\ HasEv /\ Ev.e = "ret" /\ Ev.r = "err"
    /\ \/ Ev.st = "parse" /\ LParseErr(Ev.n)
       \/ Ev.st = "compile" /\ LCompileErr(Ev.n, Ev.len)
    /\ Consume

TraceRetOk ==
    /\ st = "run" /\ HasEv /\ Ev.e = "ret" /\ Ev.r = "ok"
    /\ LCompileOk(Ev.len)
    /\ Consume

TraceRender ==
    /\ st = "run" /\ HasEv /\ Ev.e = "render"
    /\ Ev.n = Len(rendered) + 1
    /\ LRenderErr(Ev.len)
    /\ Consume

\* the loader accepted the chunk; a refusal (r = "err") is consumed by NO action
TraceLoadOk ==
    /\ st = "run" /\ HasEv /\ Ev.e = "load" /\ Ev.r = "ok"
    /\ LoadOk
    /\ Consume

\* the loaded chunk ran to completion and printed exactly the bytes the specification derives for the case; a run that
\* ends otherwise, or prints anything else, is consumed by NO action (the protocol state is not touched: C06's protocol
\* ends with the load, the run only shows WHAT was loaded)
TraceRun ==
    /\ st = "run" /\ HasEv /\ Ev.e = "run"
    /\ NeedsRun /\ loaded = "yes"
    /\ Ev.r = "done" /\ Rec[k].out = cs.expect
    /\ Consume
    /\ UNCHANGED <<phase, input, stage, errs, bytes, rendered, loaded>>

RanIfNeeded == NeedsRun /\ phase = "compiled" => j > 1 /\ Rec[k].ev[j - 1].e = "run"

TraceFinish ==
    /\ st = "run" /\ HasEv /\ Ev.e = "finish"
    /\ RanIfNeeded
    /\ LFinish
    /\ Consume

TraceStep == TraceStart \/ TraceParseOk \/ TraceRetErr \/ TraceRetOk \/ TraceRender \/ TraceLoadOk \/ TraceRun \/ TraceFinish

TraceAccept ==
    /\ st = "run" /\ ~HasEv /\ Complete
    /\ st' = "ok"
    /\ UNCHANGED <<phase, input, stage, errs, bytes, rendered, loaded, k, j, cs>>

Why == IF ~HasEv THEN "truncated"
       ELSE IF Ev.e \in {"panic", "render_panic"} THEN Ev.e
       ELSE IF Ev.e = "load" /\ Ev.r = "err" /\ phase = "compiled" THEN "load-error"
       ELSE IF Ev.e = "load" THEN "load-of-nothing"
       ELSE IF Ev.e = "run" /\ NeedsRun /\ loaded = "yes" /\ Ev.r = "done" THEN "output-mismatch"
       ELSE IF Ev.e = "run" /\ NeedsRun /\ loaded = "yes" THEN "run-failed"
       ELSE IF Ev.e = "run" THEN "run-of-nothing"
       ELSE IF Ev.e = "finish" /\ phase = "compiled" /\ loaded = "no" THEN "finish-before-load"
       ELSE IF Ev.e = "finish" /\ ~RanIfNeeded THEN "finish-before-run"
       ELSE IF Ev.e = "ret" /\ Ev.r = "ok" /\ Ev.len = 0 THEN "ok-without-output"
       ELSE IF Ev.e = "ret" /\ Ev.r = "err" /\ Ev.n = 0 THEN "err-without-errors"
       ELSE "protocol"

TraceReject ==
    /\ st = "run"
    /\ ~ENABLED TraceStep
    /\ ~(~HasEv /\ Complete)
    /\ st' = "fail"
    /\ PrintT(<<"REJECT", ToJson([rec |-> k, u |-> Rec[k].u, idx |-> Rec[k].idx, id |-> Rec[k].id, ev |-> j,
                                  phase |-> phase, why |-> Why,
                                  cls |-> IF HasEv THEN Ev.cls ELSE "-"])>>)
    /\ UNCHANGED <<phase, input, stage, errs, bytes, rendered, loaded, k, j, cs>>

TraceNext == TraceStep \/ TraceAccept \/ TraceReject

TraceSpec == TraceInit /\ [][TraceNext]_tvars

---------------------------------------------------------------------------
TraceInv == /\ LTypeOK /\ FailedHasErrors /\ OkHasBytes /\ RenderedSane /\ FinishedIsOutcome /\ UndecidedIsBlank
            /\ LoadedIsCompiled /\ FinishedOkIsLoaded /\ RejectedNeverLoaded

\* accepted means complete, and a complete successful run was loaded (the C06 clause)
AcceptedIsComplete == st = "ok" => Complete /\ j = NE + 1 /\ (Rejected \/ (Succeeded /\ loaded = "yes"))

TraceTotal == st = "run" => ENABLED TraceNext
=============================================================================
