--------------------------- MODULE SyltDetLayout ---------------------------
(***************************************************************************)
(* Property C16, third part: two more dimensions of "the output is a       *)
(* function of the program only" (round 3).                                *)
(*                                                                         *)
(* The specification itself is unchanged: RunFrom(history, input, cfg,     *)
(* result) of SyltDetContext, invariants Determinism, HistoryIndependence, *)
(* SpellingIndependence (read: independence of the CONFIGURATION - here    *)
(* also the way the Lua is delivered: into a writer, or with -o into a     *)
(* file that may already exist).  This module adds one implementation      *)
(* class to the generator model,                                           *)
(*   "stale"  what an EARLIER, DIFFERENT compilation of the process left   *)
(*            behind leaks into the result, and only in one configuration  *)
(*            (a memo keyed by something that does not identify the        *)
(*            program; an output file that is not truncated): repeating    *)
(*            ONE program never shows it, a fresh process never shows it,  *)
(* and two universes:                                                      *)
(*                                                                         *)
(*   LineCase(i)   the LAYOUT of a declaration: the members of a blob /    *)
(*                 an enum / a blob literal distributed over lines in six  *)
(*                 ways (everything on the header line; one line of        *)
(*                 members; lines of two; one + rest; first on the header  *)
(*                 line; one per line), k of the n members erroneous in    *)
(*                 one of eleven ways, in four declaration orders.  Where  *)
(*                 the compiler orders members by their position, members  *)
(*                 that share a LINE are only ordered by their column.     *)
(*                 Every case is compiled under >= LineMinSeeds hash keys. *)
(*   XProg(i)      a library of programs that SHARE what a compiler could  *)
(*                 key a table by - file names, namespace ids, the names   *)
(*                 of globals, a misspelt name - and differ in what the    *)
(*                 table would hold: which near names exist (so the        *)
(*                 "maybe you meant" hint differs), whether the name is a  *)
(*                 constant, a function or a blob, whether it resolves at  *)
(*                 all.  PairScenario(t, s): t fresh (both configurations) *)
(*                 t,t; N,t for every neighbour N of t (the programs that  *)
(*                 differ from t in exactly one axis); N,N',t; F,t and     *)
(*                 F,t,N,t for a far program F - one process each.         *)
(*                 Accepted targets deliver their Lua through -o FILE, the *)
(*                 same path for every compilation of the process.         *)
(***************************************************************************)
EXTENDS SyltDetContext

---------------------------------------------------------------------------
(* Generator model: the implementation classes of SyltDetContext plus "stale" *)
LAnswers(h, i, cfg) ==
    IF Mode = "stale"
      THEN {oracle[IF cfg = (CHOOSE c \in Cfgs : TRUE) /\ h # <<>> /\ h[Len(h)] # i THEN h[Len(h)] ELSE i]}
      ELSE CAnswers(h, i, cfg)

LStep == /\ Len(hist) < MaxRuns
         /\ \E i \in Inputs, cfg \in Cfgs :
               \/ \E res \in LAnswers(ph, i, cfg) : RunIn(i, cfg, res)
               \/ \E res \in LAnswers(<<>>, i, cfg) : RunFresh(i, cfg, res)
         /\ UNCHANGED oracle

LSpec == CInit /\ [][LStep]_cvars

(* "repetition cannot see it": in every behaviour of the stale implementation that only ever compiles ONE input,     *)
(* all results agree.  (Checked as an invariant of LSpec for Mode = "stale": it must HOLD while                      *)
(* HistoryIndependence is violated.)                                                                                  *)
RepetitionIsBlind ==
    (Cardinality({hist[a].input : a \in 1..Len(hist)}) <= 1) => Determinism

---------------------------------------------------------------------------
(* UNIVERSE 6: the layout of a declaration.                                                                  *)
(*  fam     what is declared and how k of its n members are wrong                                            *)
(*            blob-types / enum-types        the member names a type that does not exist                     *)
(*            blob-generics / enum-generics  the member uses a generic that was never declared               *)
(*            blob-mixed / enum-mixed        erroneous members alternate between the two                     *)
(*            blob-dup / enum-dup            the erroneous members all carry the name of the first of them   *)
(*            lit-types                      a literal of a correctly declared blob gives them a wrong type  *)
(*            lit-missing                    a literal omits them                                            *)
(*            case-missing                   a `case` over a correctly declared enum omits them              *)
(*            blob-ok / enum-ok              nothing is wrong (errpos = the members of generic type)         *)
(*  layout  0  header, all members and the closer on ONE line                                                *)
(*          1  header / all members on one line / closer                                                     *)
(*          2  header / members in lines of two / closer                                                     *)
(*          3  header / first member / all other members on one line / closer                                *)
(*          4  header and first member / all other members and the closer                                    *)
(*          5  header / one member per line / closer                                                         *)
(*  lines   lines[q] = line (relative to the header line = 0) of the q-th WRITTEN member                     *)
(*  perm    perm[q] = logical number (0-based) of the q-th written member                                    *)
(*  errpos  ascending logical numbers of the erroneous members                                               *)
(*  same    how many erroneous members share their line with another erroneous member                        *)
LineFams == <<"blob-types", "enum-types", "blob-generics", "enum-generics", "blob-mixed", "enum-mixed",
              "blob-dup", "enum-dup", "lit-types", "lit-missing", "case-missing", "blob-ok", "enum-ok">>
NLF == Len(LineFams)
LNK == << <<2,2>>, <<3,2>>, <<3,3>>, <<4,2>>, <<4,3>>, <<5,2>>, <<5,3>>, <<6,2>>, <<6,3>> >>
NLNK == Len(LNK)
NLayouts == 6
NLineCases == NLF * NLNK * NLayouts * 4 * 2
LineMinSeeds == 32

LineOf(n, layout) ==
    [q \in 1..n |->
        CASE layout = 0 -> 0
          [] layout = 1 -> 1
          [] layout = 2 -> 1 + ((q - 1) \div 2)
          [] layout = 3 -> IF q = 1 THEN 1 ELSE 2
          [] layout = 4 -> IF q = 1 THEN 0 ELSE 1
          [] OTHER      -> q]

LineAccepted(f) == f \in {"blob-ok", "enum-ok"}

LineCase(i) ==
    LET m0     == i - 1
        f      == LineFams[(m0 % NLF) + 1]
        m1     == m0 \div NLF
        nk     == LNK[(m1 % NLNK) + 1]
        m2     == m1 \div NLNK
        layout == m2 % NLayouts
        m3     == m2 \div NLayouts
        ord    == m3 % 4
        pos    == (m3 \div 4) % 2
        n      == nk[1]
        k      == nk[2]
        perm   == Perm(n, ord)
        lines  == LineOf(n, layout)
        errs   == ErrPosSet(n, k, pos)
        lineof == [e \in errs |-> lines[CHOOSE q \in 1..n : perm[q] = e]]
    IN [idx |-> i, fam |-> f, n |-> n, k |-> k, layout |-> layout, ord |-> ord, pos |-> pos,
        errpos |-> SortedSeq(errs), perm |-> perm, lines |-> lines,
        same |-> Cardinality({e \in errs : \E e2 \in errs \ {e} : lineof[e] = lineof[e2]}),
        expect |-> IF LineAccepted(f) THEN "ok" ELSE "err"]

---------------------------------------------------------------------------
(* UNIVERSE 7: programs that share names.  One program = one value per axis:                                      *)
(*  defs   which globals near the used name M exist in the site file                                              *)
(*           0 the longer neighbour L   1 the shorter neighbour S   2 both   3 none   4 M itself (M resolves)     *)
(*  stem   which name family (S, L, M and a local name that is as near to M as a global can be)                   *)
(*  kind   what those globals are and how M is used:  0 constant, read   1 function, called   2 blob, literal     *)
(*  site   0 defined and used in main.sy (namespace 0)   1 defined and used in the helper h1.sy                   *)
(*         2 defined in h1.sy, used in main.sy as h1.M                                                            *)
(*  locl   1: a local variable whose name is nearer to M than every global is in scope at the use                 *)
(*  std    1: compiled with the standard library (the prelude is in every namespace)                              *)
XRadix == <<5, 2, 3, 3, 2, 2>>          \* defs, stem, kind, site, locl, std
NXAxes == Len(XRadix)
RECURSIVE XWeight(_)
XWeight(a) == IF a = 1 THEN 1 ELSE XWeight(a - 1) * XRadix[a - 1]
NX == XWeight(NXAxes) * XRadix[NXAxes]

XDigit(i, a) == ((i - 1) \div XWeight(a)) % XRadix[a]

XProg(i) ==
    [id |-> i, defs |-> XDigit(i, 1), stem |-> XDigit(i, 2), kind |-> XDigit(i, 3), site |-> XDigit(i, 4),
     locl |-> XDigit(i, 5), std |-> XDigit(i, 6),
     expect |-> IF XDigit(i, 1) = 4 THEN "ok" ELSE "err"]

(* the program that differs from t in axis a only, by d steps *)
XNbr(t, a, d) == (t - XDigit(t, a) * XWeight(a)) + ((XDigit(t, a) + d) % XRadix[a]) * XWeight(a)

(* all neighbours of t, the four that differ in `defs` first *)
XNbrAxes == << <<1,1>>, <<1,2>>, <<1,3>>, <<1,4>>, <<2,1>>, <<3,1>>, <<3,2>>, <<4,1>>, <<4,2>>, <<5,1>>, <<6,1>> >>
NXN == Len(XNbrAxes)
XNbrAt(t, k) == XNbr(t, XNbrAxes[k][1], XNbrAxes[k][2])
XFar(t) == ((t - 1 + 131) % NX) + 1

OutCfgs == <<"writer", "ofile">>
XTargetCfg(t) == IF XProg(t).expect = "ok" THEN "ofile" ELSE "writer"

NPairShapes == 3 + NXN + 4 + 2
PairScenario(t, s) ==
    IF s = 1 THEN <<t>>
    ELSE IF s = 2 THEN <<t>>
    ELSE IF s = 3 THEN <<t, t>>
    ELSE IF s <= 3 + NXN THEN <<XNbrAt(t, s - 3), t>>
    ELSE IF s <= 3 + NXN + 4 THEN <<XNbrAt(t, s - 3 - NXN), XNbrAt(t, ((s - 3 - NXN) % 4) + 1), t>>
    ELSE IF s = 3 + NXN + 5 THEN <<XFar(t), t>>
    ELSE <<XFar(t), t, XNbrAt(t, 1), t>>
PairCfg(t, s) ==
    IF s = 1 THEN "writer" ELSE IF s \in {2, 3} THEN "ofile" ELSE XTargetCfg(t)

---------------------------------------------------------------------------
LayoutUniverseWellFormed ==
    /\ Cardinality(SeqRange(LineFams)) = NLF
    /\ SeqRange(LNK) = {<<n, k>> \in (2..6) \X (2..3) : k <= n}
    /\ \A i \in 1..NLineCases :
          LET c == LineCase(i) IN
          /\ SeqRange(c.perm) = 0..(c.n - 1)
          /\ Len(c.errpos) = c.k /\ Cardinality(SeqRange(c.errpos)) = c.k /\ SeqRange(c.errpos) \subseteq 0..(c.n - 1)
          /\ Len(c.lines) = c.n /\ c.lines[1] \in {0, 1}
          /\ \A q \in 1..(c.n - 1) : c.lines[q + 1] \in {c.lines[q], c.lines[q] + 1}
          /\ c.layout \in {0, 1} => c.same = c.k                                   \* everything on one line
          /\ c.layout = 5 => c.same = 0                                            \* the old layout: one member per line
          /\ c.same # 1 /\ c.same <= c.k
    /\ Cardinality({<<LineCase(i).fam, LineCase(i).n, LineCase(i).k, LineCase(i).layout, LineCase(i).ord, LineCase(i).pos>> :
                       i \in 1..NLineCases}) = NLineCases
    \* in every family and every layout with shared lines some case has two erroneous members on one line
    /\ \A f \in 1..NLF, l \in 0..4 : \E i \in 1..NLineCases :
          LineCase(i).fam = LineFams[f] /\ LineCase(i).layout = l /\ LineCase(i).same >= 2
    \* the program library: the index map is a bijection onto the axis values
    /\ NX = 360
    /\ Cardinality({<<XProg(i).defs, XProg(i).stem, XProg(i).kind, XProg(i).site, XProg(i).locl, XProg(i).std>> : i \in 1..NX}) = NX
    /\ \A t \in 1..NX :
          /\ \A k \in 1..NXN :
                LET q == XNbrAt(t, k) IN
                /\ q \in 1..NX /\ q # t
                \* a neighbour differs in exactly one axis
                /\ Cardinality({a \in 1..NXAxes : XDigit(q, a) # XDigit(t, a)}) = 1
          /\ Cardinality({XNbrAt(t, k) : k \in 1..NXN}) = NXN
          /\ \A k \in 1..4 : XDigit(XNbrAt(t, k), 1) # XDigit(t, 1)
          /\ XFar(t) \in 1..NX /\ XFar(t) # t
          /\ Cardinality({a \in 1..NXAxes : XDigit(XFar(t), a) # XDigit(t, a)}) >= 2
          /\ \A s \in 1..NPairShapes :
                LET h == PairScenario(t, s) IN
                /\ Len(h) \in 1..4 /\ h[Len(h)] = t /\ \A x \in 1..Len(h) : h[x] \in 1..NX
                /\ PairCfg(t, s) \in SeqRange(OutCfgs)
          \* every rejected target is compiled after a program with another set of near names (another hint),
          \* every accepted target after an accepted program and through the same output file
          /\ XProg(t).expect = "err" =>
                \E s \in 1..NPairShapes : LET h == PairScenario(t, s) IN
                    Len(h) = 2 /\ XProg(h[1]).expect = "err" /\ XProg(h[1]).defs # XProg(t).defs
          /\ XProg(t).expect = "ok" =>
                \E s \in 1..NPairShapes : LET h == PairScenario(t, s) IN
                    Len(h) = 2 /\ XProg(h[1]).expect = "ok" /\ h[1] # t /\ PairCfg(t, s) = "ofile"
    \* both directions of every accepted neighbour pair are scenarios (one of them writes the longer Lua first)
    /\ \A t \in 1..NX, k \in 1..NXN :
          (XProg(t).expect = "ok" /\ XProg(XNbrAt(t, k)).expect = "ok") =>
              \E k2 \in 1..NXN : XNbrAt(XNbrAt(t, k), k2) = t
=============================================================================
