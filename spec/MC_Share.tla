------------------------------ MODULE MC_Share ------------------------------
(***************************************************************************)
(* C18: value semantics across containers (SyltShare), explored by TLC.    *)
(* Bounds come from the environment (SHARE_REGS, SHARE_MUT, SHARE_VALS,    *)
(* SHARE_LEN). VIEW hides the history but not the provenance of the        *)
(* registers; ShareSane is evaluated on every transition.                  *)
(***************************************************************************)
EXTENDS SyltShare
=============================================================================
