------------------------------ MODULE SyltAnnot ------------------------------
(***************************************************************************)
(* Annotation sites and the erasure universe of C08.                       *)
(*                                                                         *)
(* An annotation SITE of a program is (i) a variable definition whose      *)
(* value is not a function LITERAL and that carries a type - a definition  *)
(* whose value is function-typed (the result of a call, an alias, a blob   *)
(* method, ...) with its `fn` / `pu` annotation is a site like any other -,*)
(* (ii) a parameter of non-function type that carries a type, (iii) the    *)
(* return type of a value-returning function.  No sites, because Sylt's    *)
(* surface syntax or its call rule make them mandatory: function-typed     *)
(* parameters, `void` returns, and parameters marked `keep` (a function    *)
(* value reached through the parameter is called in the body; a call is    *)
(* typed where it is written, so the callee's type must be known there -   *)
(* see SyltAnnotFam!PK).  A VARIANT of a program is a choice, per site, of *)
(* writing the annotation or not.  The property: every variant is accepted *)
(* and all variants compile to the same bytes.                             *)
(*                                                                         *)
(* The dynamic semantics never reads a `ty` field, so erasure cannot       *)
(* change what a program denotes; what is checked against the code is      *)
(* acceptance and byte-identity of the emitted Lua.                        *)
(***************************************************************************)
EXTENDS Naturals, Sequences, FiniteSets, TLC, IOUtils

HasTy(t) == t.k # "tnone"

(* TLC passes operator arguments unevaluated and, inside RECURSIVE operators, evaluates them again at every use, so
   a chain of `seq[i]`, `e.body`, ... is walked again and again.  Bind evaluates its argument once, by binding it as
   the only element of a set; the counting operators below go through it at every node (measured: about 40x faster on the programs of C08). *)
Bind(x, F(_)) == CHOOSE n \in {F(y) : y \in {x}} : TRUE

RECURSIVE SitesE(_)
RECURSIVE SitesS(_)
RECURSIVE SitesE1(_)
RECURSIVE SitesS1(_)
RECURSIVE SumFrom(_, _, _)

SumFrom(seq, i, which) ==
    IF i > Len(seq) THEN 0
    ELSE (IF which = "e" THEN SitesE(seq[i]) ELSE SitesS(seq[i])) + SumFrom(seq, i + 1, which)

SumSeq(seq0, i, which) == Bind(seq0, LAMBDA seq : SumFrom(seq, i, which))

SumArms(arms0, i) ==
    LET RECURSIVE G(_, _)
        G(arms, j) == IF j > Len(arms) THEN 0
                      ELSE (IF "c" \in DOMAIN arms[j] THEN SitesE(arms[j].c) ELSE 0) + SumSeq(arms[j].body, 1, "s") + G(arms, j + 1)
    IN Bind(arms0, LAMBDA arms : G(arms, i))

SumFields(fs0) ==
    LET RECURSIVE G(_, _)
        G(fs, j) == IF j > Len(fs) THEN 0 ELSE SitesE(fs[j].e) + G(fs, j + 1)
    IN Bind(fs0, LAMBDA fs : G(fs, 1))

\* a parameter marked keep: its annotation is needed to type a call made through the parameter (SyltAnnotFam!PK)
Keeps(p) == "keep" \in DOMAIN p /\ p.keep
ParamSites(ps) == Cardinality({j \in 1..Len(ps) : HasTy(ps[j].ty) /\ ps[j].ty.k # "tfn" /\ ~Keeps(ps[j])})

SitesE(e0) == Bind(e0, SitesE1)
SitesE1(e) ==
    CASE e.k \in {"int", "float", "str", "bool", "nil", "var", "std", "self"} -> 0
      [] e.k = "bin" -> SitesE(e.l) + SitesE(e.r)
      [] e.k = "un" -> SitesE(e.a)
      [] e.k = "if" -> SumArms(e.arms, 1)
      [] e.k = "case" -> SitesE(e.e) + SumArms(e.arms, 1) + SumSeq(e.els, 1, "s")
      [] e.k = "fn" -> ParamSites(e.params)
                       + (IF e.ret.k # "tvoid" /\ HasTy(e.ret) THEN 1 ELSE 0)
                       + SumSeq(e.body, 1, "s")
      [] e.k = "call" -> SitesE(e.f) + SumSeq(e.args, 1, "e")
      [] e.k \in {"tuple", "list"} -> SumSeq(e.es, 1, "e")
      [] e.k = "blob" -> SumFields(e.fields)
      [] e.k \in {"fld", "idx"} -> SitesE(e.e)
      [] e.k = "variant" -> IF e.has THEN SitesE(e.e) ELSE 0

SitesS(st0) == Bind(st0, SitesS1)
SitesS1(st) ==
    CASE st.k = "def" -> (IF HasTy(st.ty) /\ st.e.k # "fn" THEN 1 ELSE 0) + SitesE(st.e)
      [] st.k = "asg" -> (IF st.t.k = "fld" THEN SitesE(st.t.e) ELSE 0) + SitesE(st.e)
      [] st.k = "loop" -> SitesE(st.c) + SumSeq(st.body, 1, "s")
      [] st.k = "ret" -> IF st.has THEN SitesE(st.e) ELSE 0
      [] st.k = "block" -> SumSeq(st.body, 1, "s")
      [] st.k = "expr" -> SitesE(st.e)
      [] st.k \in {"break", "continue", "unreach", "enum", "blobdecl", "raw"} -> 0

NumSites(tops) == SumSeq(tops, 1, "s")
(* a project: main.sy (tops) and further files <<[path, tops]>>; its sites are numbered main.sy first, then the files
   in the order given *)
NumSitesP(tops, files) ==
    LET RECURSIVE G(_)
        G(j) == IF j > Len(files) THEN 0 ELSE NumSites(files[j].tops) + G(j + 1)
    IN NumSites(tops) + G(1)

(* The erasure universe of a program with n sites of which the first np belong to the fixed prelude:
   every subset of the non-prelude sites when there are at most MaxExhaustive of them, and always: all on,
   all off, each single site off, each single site on, each prefix off. A mask is a sequence of booleans
   (TRUE = annotation written) in the printer's site order. *)
MaxExhaustive == IF "MAXEXH" \in DOMAIN IOEnv THEN atoi(IOEnv.MAXEXH) ELSE 8

Ones(n) == [j \in 1..n |-> TRUE]
Zeros(n) == [j \in 1..n |-> FALSE]
SingleOff(n, s) == [j \in 1..n |-> j # s]
SingleOn(n, s) == [j \in 1..n |-> j = s]
PrefixOff(n, s) == [j \in 1..n |-> j > s]

Masks(n, np) ==
    {Ones(n), Zeros(n)}
    \cup {SingleOff(n, s) : s \in 1..n} \cup {SingleOn(n, s) : s \in 1..n} \cup {PrefixOff(n, s) : s \in 1..n}
    \cup (IF n - np <= MaxExhaustive
          THEN {Ones(np) \o bits : bits \in [1..(n - np) -> BOOLEAN]} \cup {Zeros(np) \o bits : bits \in [1..(n - np) -> BOOLEAN]}
          ELSE {})
=============================================================================
