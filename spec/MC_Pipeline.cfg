SPECIFICATION Spec
CONSTANTS
  MaxErrs = 3
  MaxBytes = 2
  MaxRender = 2
  NumInputs = 30
INVARIANTS TypeOK FailedHasErrors OkHasBytes RenderedSane FinishedIsOutcome UndecidedIsBlank NoStuck
PROPERTIES Terminates
CHECK_DEADLOCK FALSE
