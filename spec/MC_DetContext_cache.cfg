SPECIFICATION CSpec
CONSTANTS
  Inputs <- MCInputs
  Procs <- MCProcs
  Results <- MCResults
  Cfgs <- MCCfgs
  Mode <- MCCache
  MaxRuns = 4
INVARIANTS SeenIsImageOfHist HistoryIndependence
CHECK_DEADLOCK FALSE
