SPECIFICATION Spec
INVARIANTS PcOk VerdictSound
CHECK_DEADLOCK FALSE
