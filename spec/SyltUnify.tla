------------------------------ MODULE SyltUnify ------------------------------
(***************************************************************************)
(* The type checker's UNION-FIND WITH DEFERRED CONSTRAINTS as a state      *)
(* machine (behind C03, C05 and C02).                                      *)
(*                                                                         *)
(* Sylt's checker solves types by unification.  Every type variable is a   *)
(* node; unification merges two classes of nodes (union by size).  What    *)
(* cannot be decided yet - "this must support +", "this must have field    *)
(* x", "this must be one of these variants" - is recorded as a CONSTRAINT  *)
(* on the class and re-checked whenever the class learns more.  The rule   *)
(* that makes deferred checking sound is                                   *)
(*                                                                         *)
(*   NoConstraintLost: every constraint ever put on a node is held by the  *)
(*                     representative of the class the node is in NOW.     *)
(*                                                                         *)
(* A constraint dropped in a union is a type error that is never reported  *)
(* (an operator applied to a str reaching an un-annotated parameter        *)
(* through a variable, a missing field, a non-exhaustive case).            *)
(*                                                                         *)
(* Nodes are numbered 0, 1, 2 ... in creation order (the implementation's  *)
(* ids).  parent[x] = -1 for a representative.  Which of two classes of    *)
(* EQUAL size becomes the representative is left open.                     *)
(***************************************************************************)
EXTENDS Integers, FiniteSets, TLC

VARIABLES n,        \* number of nodes created so far
          parent,   \* node -> node or -1
          size,     \* node -> size of its class (meaningful for representatives)
          cons,     \* node -> set of constraint keys held by the node
          added     \* node -> constraint keys ever put on the class through this node (history)

uvars == <<n, parent, size, cons, added>>

Nodes == 0..(n - 1)
IsRoot(x) == parent[x] = 0 - 1

RECURSIVE Find(_)
Find(x) == IF IsRoot(x) THEN x ELSE Find(parent[x])

UInit == /\ n = 0
         /\ parent = <<>> /\ size = <<>> /\ cons = <<>> /\ added = <<>>

Push(id) ==
    /\ id = n
    /\ n' = n + 1
    /\ parent' = (id :> (0 - 1)) @@ parent
    /\ size' = (id :> 1) @@ size
    /\ cons' = (id :> {}) @@ cons
    /\ added' = (id :> {}) @@ added

\* constraints cs are put on the class of x
AddCons(x, cs) ==
    /\ x \in Nodes
    /\ LET r == Find(x) IN cons' = [cons EXCEPT ![r] = @ \cup cs]
    /\ added' = [added EXCEPT ![x] = @ \cup cs]
    /\ UNCHANGED <<n, parent, size>>

\* the classes of representatives root and child are merged; root stays representative
Union(root, child) ==
    /\ root \in Nodes /\ child \in Nodes /\ root # child
    /\ IsRoot(root) /\ IsRoot(child)
    /\ size[root] >= size[child]                                  \* union by size
    /\ parent' = [parent EXCEPT ![child] = root]
    /\ size' = [size EXCEPT ![root] = size[root] + size[child]]
    /\ cons' = [cons EXCEPT ![root] = cons[root] \cup cons[child]]    \* constraints survive the union
    /\ UNCHANGED <<n, added>>

---------------------------------------------------------------------------
Acyclic == \A x \in Nodes : ~IsRoot(x) => parent[x] \in Nodes /\ parent[x] # x
SizeOk == \A r \in Nodes : IsRoot(r) => size[r] = Cardinality({x \in Nodes : Find(x) = r})
NoConstraintLost == \A x \in Nodes : added[x] \subseteq cons[Find(x)]
=============================================================================
