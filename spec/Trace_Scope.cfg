SPECIFICATION TraceSpec
INVARIANTS TypeOk
CHECK_DEADLOCK FALSE
