SPECIFICATION Spec
INVARIANTS PcOk SndPhOk SndSound
CHECK_DEADLOCK FALSE
