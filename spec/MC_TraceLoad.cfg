SPECIFICATION TraceSpec
CONSTANTS
  MaxErrs = 0
  MaxBytes = 0
  MaxRender = 0
  NumInputs = 0
INVARIANTS TraceInv AcceptedIsComplete TraceTotal
CHECK_DEADLOCK FALSE
