------------------------------ MODULE SyltSound ------------------------------
(***************************************************************************)
(* C02 - type soundness of accepted programs.                              *)
(*                                                                         *)
(* Part 1: the UNIVERSE.  Almost-well-typed programs: every perturbation   *)
(* of the menu below applied at every applicable node of well-typed base   *)
(* programs (SyltGen's templates in their harness contexts, the pairwise   *)
(* nesting, and a handful of dedicated bases).  A program is a tree: the   *)
(* root is the sequence of top-level nodes, every statement sequence is a  *)
(* (pseudo) node of kind "seq", so that perturbations of a sequence (swap  *)
(* a declaration with its use, insert a statement) are node replacements   *)
(* like all the others.  Sites are addressed by pre-order index; a case is *)
(* (base, site, alternative) and TLC computes the perturbed program.       *)
(*                                                                         *)
(* Part 2: the OUTCOME PROTOCOL of one case, a state machine over the      *)
(* events the recorder observes: Start, CompileErr | CompilePanic |        *)
(* CompileOk, then for accepted programs the run's events (global writes,  *)
(* global reads, prints) and one terminal event.  The terminal events are  *)
(* Done, AssertFailed (<=>), Unreachable (<!>), ResourceExhausted and      *)
(* NotLoadable (C06's business).  A dynamic type error (arithmetic on a    *)
(* non-number, call of a non-function, index of nil, comparison of         *)
(* incompatible values, concatenation), any other runtime error, and a     *)
(* read of a global that was never written are NOT behaviours.             *)
(*                                                                         *)
(* Part 3 (Trace_Sound): the accepted program is also run by the strict    *)
(* reference semantics SyltSem; `stuck:<why>` there is the spec-level      *)
(* counterpart of a dynamic type error, also where Lua is permissive       *)
(* (wrong arity, missing field, out-of-scope variable whose Lua slot       *)
(* happens to hold a value, non-bool condition).                           *)
(***************************************************************************)
EXTENDS SyltGen

---------------------------------------------------------------------------
(* Tree engine *)

SndSeqN(ss) == [k |-> "seq", ss |-> ss]

SndLeafKinds == {"int", "float", "str", "bool", "nil", "var", "std", "self", "break", "continue", "unreach",
                 "enum", "blobdecl"}
SndStmtKinds == {"expr", "def", "asg", "loop", "ret", "block", "break", "continue", "unreach"}

SndIfKids(arms) ==
  LET n == Len(arms)
      m == IF arms[n].els THEN 2 * n - 1 ELSE 2 * n IN
  [j \in 1..m |-> LET i == (j + 1) \div 2 IN
                  IF j % 2 = 1 /\ ~arms[i].els THEN arms[i].c ELSE SndSeqN(arms[i].body)]

SndKids(n) ==
  CASE n.k = "seq" -> n.ss
    [] n.k \in SndLeafKinds -> <<>>
    [] n.k = "bin" -> <<n.l, n.r>>
    [] n.k = "un" -> <<n.a>>
    [] n.k = "if" -> SndIfKids(n.arms)
    [] n.k = "case" -> <<n.e>> \o [i \in 1..Len(n.arms) |-> SndSeqN(n.arms[i].body)]
                              \o (IF n.hasels THEN <<SndSeqN(n.els)>> ELSE <<>>)
    [] n.k = "fn" -> <<SndSeqN(n.body)>>
    [] n.k = "call" -> <<n.f>> \o n.args
    [] n.k \in {"tuple", "list"} -> n.es
    [] n.k = "blob" -> [i \in 1..Len(n.fields) |-> n.fields[i].e]
    [] n.k \in {"fld", "idx"} -> <<n.e>>
    [] n.k = "variant" -> IF n.has THEN <<n.e>> ELSE <<>>
    [] n.k \in {"expr", "def"} -> <<n.e>>
    [] n.k = "asg" -> <<n.t, n.e>>
    [] n.k = "loop" -> <<n.c, SndSeqN(n.body)>>
    [] n.k = "ret" -> IF n.has THEN <<n.e>> ELSE <<>>
    [] n.k = "block" -> <<SndSeqN(n.body)>>

SndWithKids(n, ks) ==
  CASE n.k = "seq" -> SndSeqN(ks)
    [] n.k \in SndLeafKinds -> n
    [] n.k = "bin" -> [n EXCEPT !.l = ks[1], !.r = ks[2]]
    [] n.k = "un" -> [n EXCEPT !.a = ks[1]]
    [] n.k = "if" ->
         [n EXCEPT !.arms = [i \in 1..Len(n.arms) |->
              IF n.arms[i].els THEN [n.arms[i] EXCEPT !.body = ks[2 * i - 1].ss]
              ELSE [n.arms[i] EXCEPT !.c = ks[2 * i - 1], !.body = ks[2 * i].ss]]]
    [] n.k = "case" ->
         [n EXCEPT !.e = ks[1],
                   !.arms = [i \in 1..Len(n.arms) |-> [n.arms[i] EXCEPT !.body = ks[i + 1].ss]],
                   !.els = IF n.hasels THEN ks[Len(n.arms) + 2].ss ELSE <<>>]
    [] n.k = "fn" -> [n EXCEPT !.body = ks[1].ss]
    [] n.k = "call" -> [n EXCEPT !.f = ks[1], !.args = SubSeq(ks, 2, Len(ks))]
    [] n.k \in {"tuple", "list"} -> [n EXCEPT !.es = ks]
    [] n.k = "blob" -> [n EXCEPT !.fields = [i \in 1..Len(n.fields) |-> [n.fields[i] EXCEPT !.e = ks[i]]]]
    [] n.k \in {"fld", "idx"} -> [n EXCEPT !.e = ks[1]]
    [] n.k = "variant" -> IF n.has THEN [n EXCEPT !.e = ks[1]] ELSE n
    [] n.k \in {"expr", "def"} -> [n EXCEPT !.e = ks[1]]
    [] n.k = "asg" -> [n EXCEPT !.t = ks[1], !.e = ks[2]]
    [] n.k = "loop" -> [n EXCEPT !.c = ks[1], !.body = ks[2].ss]
    [] n.k = "ret" -> IF n.has THEN [n EXCEPT !.e = ks[1]] ELSE n
    [] n.k = "block" -> [n EXCEPT !.body = ks[1].ss]

RECURSIVE SndSize(_)
RECURSIVE SndSizeKids(_, _)
SndSize(n) == 1 + SndSizeKids(SndKids(n), 1)
SndSizeKids(ks, j) == IF j > Len(ks) THEN 0 ELSE SndSize(ks[j]) + SndSizeKids(ks, j + 1)

\* the node with pre-order index i (1 = n itself)
RECURSIVE SndAt(_, _)
RECURSIVE SndAtKids(_, _, _)
SndAt(n, i) == IF i = 1 THEN n ELSE SndAtKids(SndKids(n), 1, i - 1)
SndAtKids(ks, j, i) == LET s == SndSize(ks[j]) IN IF i <= s THEN SndAt(ks[j], i) ELSE SndAtKids(ks, j + 1, i - s)

\* the context of site i: the ancestors from the root down to the parent, each <<kind, index of the kid taken>>
RECURSIVE SndCtx(_, _)
RECURSIVE SndCtxKids(_, _, _, _)
SndCtx(n, i) == IF i = 1 THEN <<>> ELSE SndCtxKids(n.k, SndKids(n), 1, i - 1)
SndCtxKids(pk, ks, j, i) ==
  LET s == SndSize(ks[j]) IN
  IF i <= s THEN <<<<pk, j>>>> \o SndCtx(ks[j], i) ELSE SndCtxKids(pk, ks, j + 1, i - s)

\* n with the node at pre-order index i replaced by r
RECURSIVE SndPut(_, _, _)
RECURSIVE SndPutKids(_, _, _, _)
SndPut(n, i, r) == IF i = 1 THEN r ELSE SndWithKids(n, SndPutKids(SndKids(n), 1, i - 1, r))
SndPutKids(ks, j, i, r) ==
  LET s == SndSize(ks[j]) IN
  IF i <= s THEN [ks EXCEPT ![j] = SndPut(ks[j], i, r)] ELSE SndPutKids(ks, j + 1, i - s, r)

RECURSIVE SndFlat(_)
SndFlat(ss) == IF Len(ss) = 0 THEN <<>> ELSE ss[1] \o SndFlat(SubSeq(ss, 2, Len(ss)))

SndButLast(s) == SubSeq(s, 1, Len(s) - 1)
SndInsert(s, i, x) == SubSeq(s, 1, i - 1) \o <<x>> \o SubSeq(s, i, Len(s))      \* x becomes element i
SndSwap(s, i) == [s EXCEPT ![i] = s[i + 1], ![i + 1] = s[i]]
SndReverse(s) == [i \in 1..Len(s) |-> s[Len(s) + 1 - i]]
SndSelectIdx(s, Test(_)) == LET RECURSIVE F(_)
                                F(i) == IF i > Len(s) THEN <<>> ELSE (IF Test(s[i]) THEN <<i>> ELSE <<>>) \o F(i + 1)
                            IN F(1)

---------------------------------------------------------------------------
(* The perturbation menu.  An alternative is [kd, v, n]: the kind (P1..P21), the variant within the
   kind, and the node that replaces the node at the site.  Replacements keep the SORT of the node
   (expression, statement, sequence), so the result is again a program the printer can render. *)

SndA(kd, v, n) == [kd |-> kd, v |-> v, n |-> n]

SndKinds == <<
  "P1-literal-other-type",          \* a literal replaced by a literal of another type
  "P2-operator-other-class",        \* arithmetic / comparison / equality / logic operator exchanged
  "P3-argument-count",              \* an argument dropped or added
  "P4-decl-moved-into-branch",      \* a declaration moved into an if / else / elif branch, a case arm, a loop body, a block; uses stay behind
  "P5-use-before-declaration",      \* the use precedes the declaration (swapped, inserted, or in the initialiser itself)
  "P6-call-of-non-function",        \* a literal or a plain variable is called
  "P7-field-missing-or-misspelt",   \* a field that does not exist is read / a blob literal lacks or misspells a field
  "P8-fn-param-at-two-types",       \* a function-typed parameter is called at a second argument type
  "P9-branches-of-different-types", \* one branch of an if / case yields another type, or nothing
  "P10-void-as-value",              \* the result of a void call is used as a value
  "P11-variant-payload",            \* a variant is built with a payload of another type / without / with a superfluous payload
  "P12-list-two-element-types",     \* a list gets an element of another type
  "P13-field-assigned-other-type",  \* a blob field is assigned / initialised with a value of another type
  "P14-global-order",               \* the textual order of the top-level definitions is reversed (initialisers call functions that use other globals)
  "P15-variable-assigned-other-type", \* a (possibly captured) mutable variable is assigned a value of another type
  "P16-case-binding-misused",       \* a case binding used at the wrong type, bound for a payload-less variant, or used after the case
  "P17-annotation-other-type",      \* the declared type of a variable contradicts its initialiser
  "P18-return-other-type",          \* a ret / the declared return type contradicts the function's value
  "P19-tuple-index-out-of-range",
  "P20-condition-non-bool",
  "P21-missing-return",             \* a value-returning function can fall off its end
  "P22-similar-user-type",          \* a blob literal / enum value / tuple replaced by one of a DIFFERENT but SIMILAR type
  "P23-operand-via-unannotated-parameter", \* an ill-typed operand reaches an operator / field access / index through an un-annotated
                                    \* parameter (or directly), coming from a literal, variable, alias chain, field, call result, tuple element
  "P24-name-outside-its-region",    \* self in a non-method field of a blob literal, a case binding in a sibling arm, a loop-body local in
                                    \* the loop condition, a parameter / inner local used outside its function
  "P25-global-initialiser-cycle",   \* a global's initialiser depends on the global itself / on a later global THROUGH A CALL (function,
                                    \* closure, blob method, iife), reading or assigning it; in both textual orders
  "P26-both-operands-unsupported",  \* two-point: BOTH operands of a binary operator get values of one and the same type the operator does
                                    \* not support - scalar, element-wise inside tuples and nested tuples, literals and variables
  "P27-compound-assignment-both-sides-unsupported", \* two-point: target and value of += -= *= /= have one and the same unsupported type; target
                                    \* local / captured / global / field / field of a blob parameter; as last use and followed by a use
  "P28-unknown-through-generic-container", \* a value of still UNKNOWN type (un-annotated parameter, case binding) is put into a generic container
                                    \* (variant of `Opt :: enum Just *, Nothing`, `*` field of a blob, tuple, list), taken out again inside the
                                    \* same helper and used at a specific type; the helper is called at another type
  "P29-operator-before-type-determined", \* ORDER: an operator is applied to the content of a generic holder (Opt.Nothing / [] / a `*` field in a
                                    \* local, captured or global variable) while its type is still unknown; the type is determined LATER, elsewhere,
                                    \* to one the operator does not support
  "P30-case-not-total"              \* a case without else that does not cover every variant: an arm renamed to a sibling's variant (as many
                                    \* arms as variants, one repeated, one missing), an arm dropped, an undeclared variant; an arm duplicated (legal)
>>

SndOtherLits(k) ==
  CASE k = "int" -> <<St("s"), Bo(TRUE), Fl(3, 1)>>
    [] k = "float" -> <<I(2), St("s")>>
    [] k = "str" -> <<I(2), Bo(TRUE)>>
    [] k = "bool" -> <<I(1), St("s")>>

SndOtherOps(op) ==
  CASE op \in {"+", "-", "*", "/"} -> <<"<", "==", "and">>
    [] op \in {"<", "<=", ">", ">="} -> <<"+", "and">>
    [] op \in {"==", "!="} -> <<"+", "<", "and">>
    [] op \in {"and", "or"} -> <<"+", "<">>

\* fresh binder ids used by inserted code (SyltGen uses 1..20, 100.., 200.., 1000..)
FB1 == 901
FB2 == 902
FB3 == 903
FB4 == 904

SndTailIsExpr(body) == Len(body) > 0 /\ body[Len(body)].k = "expr"

\* --- P9 on the body of one branch
SndBranchAlts(body, what) ==
  IF SndTailIsExpr(body)
  THEN <<[v |-> what \o ":tail-other-type", body |-> SndButLast(body) \o <<Ex(St("z"))>>],
         [v |-> what \o ":value-dropped", body |-> SndButLast(body)],
         [v |-> what \o ":tail-stored-not-yielded", body |-> SndButLast(body) \o <<DefC(FB4, TNone, body[Len(body)].e)>>]>>
  ELSE <<>>

SndIfAlts(n) ==
  LET na == Len(n.arms) IN
  SndFlat([i \in 1..na |->
     LET alts == SndBranchAlts(n.arms[i].body, IF n.arms[i].els THEN "else" ELSE IF i = 1 THEN "if" ELSE "elif") IN
     [j \in 1..Len(alts) |-> SndA("P9-branches-of-different-types", alts[j].v,
                                  [n EXCEPT !.arms[i].body = alts[j].body])]])
  \o (IF na > 1 /\ n.arms[na].els /\ SndTailIsExpr(n.arms[na].body)
      THEN <<SndA("P9-branches-of-different-types", "else-dropped", [n EXCEPT !.arms = SndButLast(n.arms)])>> ELSE <<>>)
  \o SndFlat([i \in 1..na |->
       IF n.arms[i].els THEN <<>>
       ELSE <<SndA("P20-condition-non-bool", IF i = 1 THEN "if" ELSE "elif", [n EXCEPT !.arms[i].c = I(1)])>>])

(* P30 at a case WITHOUT else: the arms must cover every variant of the enum.  (A binding arm may only take the name of
   a sibling that binds too: otherwise the binder, not totality, is what the checker objects to.) *)
SndTotalityAlts(n) ==
  LET K == "P30-case-not-total"
      na == Len(n.arms) IN
  IF n.hasels THEN <<>>
  ELSE SndFlat([i \in 1..na |->
          SndFlat([j \in 1..na |->
             IF i = j \/ n.arms[i].v = n.arms[j].v \/ (n.arms[i].bind /\ ~n.arms[j].bind) THEN <<>>
             ELSE <<SndA(K, "arm-" \o n.arms[i].v \o "-renamed-to-sibling-" \o n.arms[j].v, [n EXCEPT !.arms[i].v = n.arms[j].v])>>])
          \o (IF na > 1 /\ i < na
              THEN <<SndA(K, "arm-" \o n.arms[i].v \o "-dropped", [n EXCEPT !.arms = SubSeq(n.arms, 1, i - 1) \o SubSeq(n.arms, i + 1, na)])>>
              ELSE <<>>)
          \o <<SndA(K, "arm-" \o n.arms[i].v \o "-duplicated:legal", [n EXCEPT !.arms = Append(n.arms, n.arms[i])])>>])
       \o (IF ~n.arms[1].bind
           THEN <<SndA(K, "arm-" \o n.arms[1].v \o "-renamed-to-undeclared-variant", [n EXCEPT !.arms[1].v = "Zq"])>> ELSE <<>>)
       \o (IF na > 1
           THEN <<SndA(K, "arm-" \o n.arms[na].v \o "-replaced-by-copy-of-first", [n EXCEPT !.arms[na] = n.arms[1]])>> ELSE <<>>)

SndCaseAlts(n) ==
  LET na == Len(n.arms) IN
  SndFlat([i \in 1..na |->
     LET alts == SndBranchAlts(n.arms[i].body, "case-arm") IN
     [j \in 1..Len(alts) |-> SndA("P9-branches-of-different-types", alts[j].v, [n EXCEPT !.arms[i].body = alts[j].body])]])
  \o (IF n.hasels
      THEN LET alts == SndBranchAlts(n.els, "case-else") IN
           [j \in 1..Len(alts) |-> SndA("P9-branches-of-different-types", alts[j].v, [n EXCEPT !.els = alts[j].body])]
      ELSE <<>>)
  \o (IF na > 1 THEN <<SndA("P9-branches-of-different-types", "case-arm-dropped", [n EXCEPT !.arms = SndButLast(n.arms)])>> ELSE <<>>)
  \o (IF n.hasels THEN <<SndA("P9-branches-of-different-types", "case-else-dropped", [n EXCEPT !.hasels = FALSE, !.els = <<>>])>> ELSE <<>>)
  \o SndFlat([i \in 1..na |->
       IF n.arms[i].bind
       THEN LET b == n.arms[i].b IN
            <<SndA("P16-case-binding-misused", "binding-called",
                   [n EXCEPT !.arms[i].body = <<Ex(Call(V(b), <<>>))>> \o @]),
              SndA("P16-case-binding-misused", "binding-field-read",
                   [n EXCEPT !.arms[i].body = <<Print(Fld(V(b), "n"))>> \o @]),
              SndA("P16-case-binding-misused", "binding-added-to-str",
                   [n EXCEPT !.arms[i].body = <<Print(Bin("+", V(b), St("s")))>> \o @])>>
            \o SndFlat([j \in 1..na |->
                  IF j = i THEN <<>>
                  ELSE <<SndA("P24-name-outside-its-region", "case-binding-in-sibling-arm",
                              [n EXCEPT !.arms[j].body = <<Print(Bin("+", V(b), I(1)))>> \o @])>>])
            \o (IF n.hasels THEN <<SndA("P24-name-outside-its-region", "case-binding-in-else",
                                        [n EXCEPT !.els = <<Print(Bin("+", V(b), I(1)))>> \o @])>> ELSE <<>>)
       ELSE <<SndA("P16-case-binding-misused", "binder-on-payloadless-variant",
                   [n EXCEPT !.arms[i] = CArmB(n.arms[i].v, FB3, <<Print(Bin("+", V(FB3), I(1)))>> \o n.arms[i].body)])>>])
  \o SndTotalityAlts(n)

SndFnParamIdx(n) == SndSelectIdx(n.params, LAMBDA p : p.ty.k = "tfn" /\ Len(p.ty.ps) = 1)

SndFnAlts(n) ==
  SndFlat([q \in 1..Len(SndFnParamIdx(n)) |->
     LET i == SndFnParamIdx(n)[q]
         p == n.params[i]
         body2 == <<Ex(Call(V(p.b), <<St("a")>>))>> \o n.body IN
     <<SndA("P8-fn-param-at-two-types", "annotated", [n EXCEPT !.body = body2]),
       SndA("P8-fn-param-at-two-types", "generic", [n EXCEPT !.body = body2, !.params[i].ty = TFn(<<TName("*a")>>, TName("*a"))]),
       SndA("P8-fn-param-at-two-types", "generic-argument", [n EXCEPT !.body = body2, !.params[i].ty = TFn(<<TName("*a")>>, p.ty.r)]),
       SndA("P8-fn-param-at-two-types", "unannotated", [n EXCEPT !.body = body2, !.params[i].ty = TNone])>>])
  \o (IF n.ret.k \notin {"tvoid", "tnone"}
      THEN <<SndA("P18-return-other-type", "declared-return-type", [n EXCEPT !.ret = IF n.ret.k = "tstr" THEN TInt ELSE TStr])>>
      ELSE <<>>)
  \o (IF n.ret.k # "tvoid" /\ SndTailIsExpr(n.body)
      THEN LET e == n.body[Len(n.body)].e
               pre == SndButLast(n.body) IN
           <<SndA("P21-missing-return", "tail-in-loop-with-ret", [n EXCEPT !.body = pre \o <<Loop(Bo(FALSE), <<Ret(e)>>)>>]),
             SndA("P21-missing-return", "tail-in-if-with-ret", [n EXCEPT !.body = pre \o <<Ex(If1(Bo(FALSE), <<Ret(e)>>))>>]),
             SndA("P21-missing-return", "tail-dropped", [n EXCEPT !.body = pre]),
             SndA("P21-missing-return", "tail-stored-not-yielded", [n EXCEPT !.body = pre \o <<DefC(FB2, TNone, e)>>])>>
      ELSE <<>>)


---------------------------------------------------------------------------
(* P22: families of similar user types.  The declarations are part of EVERY program of the universe
   (SndSimilarDecls follows the Prelude), so the perturbation applies wherever a literal of a family occurs. *)
SndIntFields(names) == [i \in 1..Len(names) |-> FD(names[i], TInt)]
SndSimilarDecls == <<
  BlobD("P3", SndIntFields(<<"x", "y", "z">>)),
  BlobD("P2", SndIntFields(<<"x", "y">>)),                      \* sorted field names are a prefix of P3's
  BlobD("P4", SndIntFields(<<"x", "y", "z", "w">>)),            \* superset
  BlobD("Q3", SndIntFields(<<"x", "y", "z">>)),                 \* same fields, other declaration
  BlobD("R3", <<FD("x", TInt), FD("y", TInt), FD("z", TStr)>>), \* same names, other field type
  BlobD("S2", SndIntFields(<<"y", "z">>)),                      \* subset that is not a prefix
  BlobD("Bs", <<FD("add", TFn(<<TInt>>, TInt)), FD("get", TFn(<<>>, TInt))>>),                                   \* prefix of B (add, get, n)
  BlobD("Bx", <<FD("n", TInt), FD("get", TFn(<<>>, TInt)), FD("add", TFn(<<TInt>>, TInt)), FD("z", TInt)>>),     \* superset of B
  EnumD("E3", <<VD1("A", TInt), VD0("B"), VD0("C")>>),
  EnumD("E2", <<VD1("A", TInt), VD0("B")>>),
  EnumD("E4", <<VD1("A", TInt), VD0("B"), VD0("C"), VD0("D")>>),
  EnumD("F3", <<VD1("A", TStr), VD0("B"), VD0("C")>>),
  EnumD("E1", <<VD1("X", TInt)>>),                              \* E is X int, Y
  EnumD("EZ", <<VD1("X", TInt), VD0("Y"), VD0("Z")>>),
  EnumD("ES", <<VD1("X", TStr), VD0("Y")>>),
  \* generic containers (P28 / P29 and the container routes of P23): the payload / field type is unknown until used
  EnumD("Opt", <<VD1("Just", TName("*")), VD0("Nothing")>>), BlobD("UBox", <<FD("v", TName("*"))>>),
  BlobD("WS", <<FD("w", TStr)>>), BlobD("WB", <<FD("w", TBool)>>), BlobD("WI", <<FD("w", TInt)>>),
  BlobD("CY", <<FD("m", TFn(<<>>, TInt))>>),
  \* two mutable globals of non-numeric type (targets of P27)
  DefN(1040, "mut", TNone, St("a"), "tps"), DefN(1041, "mut", TNone, Bo(TRUE), "tpb")
>>
GTps == 1040
GTpb == 1041

SndP3Lit(name, fs, a) == BlobL(name, [i \in 1..Len(fs) |-> FI(fs[i], I(a + i))])
SndGetFn == Fn(<<>>, TInt, <<Ex(I(1))>>)
SndAddFn == Fn(<<P(911, TInt)>>, TInt, <<Ex(V(911))>>)

SndSimilarBlobs(name) ==       \* <<[v, n]>>: literals of the types similar to blob `name`
  CASE name = "P3" -> <<[v |-> "blob-prefix-subset", n |-> SndP3Lit("P2", <<"x", "y">>, 3)],
                        [v |-> "blob-superset", n |-> SndP3Lit("P4", <<"x", "y", "z", "w">>, 3)],
                        [v |-> "blob-same-fields-other-name", n |-> SndP3Lit("Q3", <<"x", "y", "z">>, 3)],
                        [v |-> "blob-same-names-other-field-type", n |-> BlobL("R3", <<FI("x", I(4)), FI("y", I(5)), FI("z", St("s"))>>)],
                        [v |-> "blob-subset", n |-> SndP3Lit("S2", <<"y", "z">>, 3)]>>
    [] name = "B" -> <<[v |-> "blob-prefix-subset", n |-> BlobL("Bs", <<FI("get", SndGetFn), FI("add", SndAddFn)>>)],
                       [v |-> "blob-superset", n |-> BlobL("Bx", <<FI("n", I(1)), FI("get", SndGetFn), FI("add", SndAddFn), FI("z", I(2))>>)]>>
    [] OTHER -> <<>>

SndSimilarEnums(name) ==       \* <<[v, enum, str]>>: str = the payloads of the similar enum are strings
  CASE name = "E3" -> <<[v |-> "enum-subset", enum |-> "E2", str |-> FALSE], [v |-> "enum-superset", enum |-> "E4", str |-> FALSE],
                        [v |-> "enum-same-variants-other-payload", enum |-> "F3", str |-> TRUE]>>
    [] name = "E" -> <<[v |-> "enum-subset", enum |-> "E1", str |-> FALSE], [v |-> "enum-superset", enum |-> "EZ", str |-> FALSE],
                       [v |-> "enum-same-variants-other-payload", enum |-> "ES", str |-> TRUE]>>
    [] OTHER -> <<>>

SndSimilarAlts(n) ==
     (IF n.k = "blob"
      THEN LET sim == SndSimilarBlobs(n.name) IN [i \in 1..Len(sim) |-> SndA("P22-similar-user-type", sim[i].v, sim[i].n)]
      ELSE <<>>)
  \o (IF n.k = "variant"
      THEN LET sim == SndSimilarEnums(n.enum) IN
           [i \in 1..Len(sim) |-> SndA("P22-similar-user-type", sim[i].v,
                                       IF n.has /\ sim[i].str THEN Var1(sim[i].enum, n.v, St("p")) ELSE [n EXCEPT !.enum = sim[i].enum])]
      ELSE <<>>)
  \o (IF n.k = "tuple"
      THEN (IF Len(n.es) >= 2 THEN <<SndA("P22-similar-user-type", "tuple-prefix", [n EXCEPT !.es = SndButLast(n.es)])>> ELSE <<>>)
           \o <<SndA("P22-similar-user-type", "tuple-extended", [n EXCEPT !.es = Append(n.es, I(0))])>>
      ELSE <<>>)

(* P23: a value no operand of the operator may have, by provenance, reaching the operator through an un-annotated
   parameter (the operator's constraint on the parameter is deferred until the call) or directly *)
FB5 == 905
FB6 == 906
FB7 == 907
FB8 == 908
FB9 == 909
SndWrongFor(op) == IF op \in {"+", "<", "<=", ">", ">="} THEN Bo(TRUE) ELSE IF op \in {"and", "or", "not"} THEN I(1) ELSE St("abc")
SndBoxOf(w) == IF w.k = "bool" THEN "WB" ELSE IF w.k = "str" THEN "WS" ELSE "WI"
SndProvenances(w) ==           \* <<[v, pre, arg]>>: statements that set the value up, and the expression that yields it
  <<[v |-> "literal", pre |-> <<>>, arg |-> w],
    [v |-> "variable", pre |-> <<DefM(FB6, TNone, w)>>, arg |-> V(FB6)],
    [v |-> "alias-chain", pre |-> <<DefM(FB6, TNone, w), DefC(FB7, TNone, V(FB6)), DefC(FB8, TNone, V(FB7))>>, arg |-> V(FB8)],
    [v |-> "field", pre |-> <<DefC(FB6, TNone, BlobL(SndBoxOf(w), <<FI("w", w)>>))>>, arg |-> Fld(V(FB6), "w")],
    [v |-> "call-result", pre |-> <<DefC(FB6, TNone, Fn(<<>>, TNone, <<Ex(w)>>))>>, arg |-> Call(V(FB6), <<>>)],
    [v |-> "tuple-element", pre |-> <<DefC(FB6, TNone, Tup(<<w, I(0)>>))>>, arg |-> Idx(V(FB6), 0)]>>
\* (fn -> pre ; f :: fn a -> body(a) end ; f(arg) end)()
SndViaParam(body, pv) ==
  Call(Fn(<<>>, TNone, pv.pre \o <<DefC(FB9, TNone, Fn(<<P(FB5, TNone)>>, TNone, <<Ex(body)>>)), Ex(Call(V(FB9), <<pv.arg>>))>>), <<>>)
SndDirectly(body, pv) == IF Len(pv.pre) = 0 THEN body ELSE Call(Fn(<<>>, TNone, pv.pre \o <<Ex(body)>>), <<>>)
SndPick(pvs, names) == LET idx == SndSelectIdx(pvs, LAMBDA q : q.v \in names) IN [i \in 1..Len(idx) |-> pvs[idx[i]]]

\* fresh binder ids of the generic-container code (P23 container routes, P28, P29)
FUH == 920      \* the helper
FUP == 921      \* its un-annotated parameter
FUB == 922      \* the container
FUX == 923      \* what is taken out of it
FUA == 924      \* an alias of the container
FUY == 925      \* a case binding the value comes from
FUL == 930      \* P29: the holder
FUI == 931      \* loop counter
FUV == 932      \* the content, taken out while its type is unknown
FUT == 933      \* the stored result of the operator
FUS == 934      \* closure that uses
FUD == 935      \* closure that determines
FUR == 936      \* value of the case
GULast == 1050
GUShow == 1051
GURem == 1052

\* (fn -> pre ; f :: fn a -> <a put into a generic container, taken out again, given to the operator> end ; f(arg) end)()
\* Use(x): the operator node with x at the operand's place; n: the unperturbed node (value of the branch never taken)
SndViaParamBoxed(n, Use(_), cont, pv) ==
  LET body == IF cont = "generic-variant"
              THEN <<DefM(FUB, TNone, Var1("Opt", "Just", V(FB5))),
                     Ex(CaseE(V(FUB), <<CArmB("Just", FUX, <<Ex(Use(V(FUX)))>>)>>, <<Ex(n)>>))>>
              ELSE <<DefC(FUB, TNone, BlobL("UBox", <<FI("v", V(FB5))>>)), Ex(Use(Fld(V(FUB), "v")))>> IN
  Call(Fn(<<>>, TNone, pv.pre \o <<DefC(FB9, TNone, Fn(<<P(FB5, TNone)>>, TNone, body)), Ex(Call(V(FB9), <<pv.arg>>))>>), <<>>)

SndOperandAlts(n) ==
  LET K == "P23-operand-via-unannotated-parameter" IN
     (IF n.k = "bin" /\ n.op \in {"+", "-", "*", "/", "<", "<=", ">", ">="}
      THEN LET pvs == SndProvenances(SndWrongFor(n.op))
               some == SndPick(pvs, {"variable", "field", "call-result"}) IN
           [i \in 1..Len(pvs) |-> SndA(K, "left-of-" \o n.op \o ":via-parameter:" \o pvs[i].v, SndViaParam([n EXCEPT !.l = V(FB5)], pvs[i]))]
        \o <<SndA(K, "right-of-" \o n.op \o ":via-parameter:variable", SndViaParam([n EXCEPT !.r = V(FB5)], pvs[2]))>>
        \o <<SndA(K, "left-of-" \o n.op \o ":via-parameter-and-generic-variant:variable",
                  SndViaParamBoxed(n, LAMBDA x : [n EXCEPT !.l = x], "generic-variant", pvs[2])),
             SndA(K, "left-of-" \o n.op \o ":via-parameter-and-generic-blob-field:literal",
                  SndViaParamBoxed(n, LAMBDA x : [n EXCEPT !.l = x], "generic-blob-field", pvs[1]))>>
        \o [i \in 1..Len(some) |-> SndA(K, "left-of-" \o n.op \o ":directly:" \o some[i].v, SndDirectly([n EXCEPT !.l = some[i].arg], some[i]))]
      ELSE <<>>)
  \o (IF n.k = "un"
      THEN LET pvs == SndProvenances(SndWrongFor(IF n.op = "-" THEN "-" ELSE "not")) IN
           [i \in 1..Len(pvs) |-> SndA(K, "operand-of-" \o (IF n.op = "-" THEN "neg" ELSE "not") \o ":via-parameter:" \o pvs[i].v,
                                       SndViaParam([n EXCEPT !.a = V(FB5)], pvs[i]))]
        \o <<SndA(K, "operand-of-" \o (IF n.op = "-" THEN "neg" ELSE "not") \o ":via-parameter-and-generic-variant:variable",
                  SndViaParamBoxed(n, LAMBDA x : [n EXCEPT !.a = x], "generic-variant", pvs[2]))>>
      ELSE <<>>)
  \o (IF n.k = "fld" /\ n.e.k # "self" /\ n.f # "w"
      THEN LET pvs == SndPick(SndProvenances(BlobL("WS", <<FI("w", St("abc"))>>)), {"literal", "variable", "alias-chain", "call-result"}) IN
           [i \in 1..Len(pvs) |-> SndA(K, "object-of-field-read:via-parameter:" \o pvs[i].v, SndViaParam([n EXCEPT !.e = V(FB5)], pvs[i]))]
      ELSE <<>>)
  \o (IF n.k = "idx"
      THEN LET pvs == SndPick(SndProvenances(St("abc")), {"literal", "variable"}) IN
           [i \in 1..Len(pvs) |-> SndA(K, "object-of-index:via-parameter:" \o pvs[i].v, SndViaParam([n EXCEPT !.e = V(FB5)], pvs[i]))]
      ELSE <<>>)

(* P24 on a blob literal: `self` is bound in the function-valued fields only *)
FB10 == 910
SndSelfAlts(n) ==
  LET K == "P24-name-outside-its-region"
      nf == Len(n.fields)
      plain == SndSelectIdx(n.fields, LAMBDA f : f.e.k # "fn")
      meths == SndSelectIdx(n.fields, LAMBDA f : f.e.k = "fn")
      Moved(i, p, e) == LET rest == SubSeq(n.fields, 1, i - 1) \o SubSeq(n.fields, i + 1, nf) IN
                        SndInsert(rest, p, FI(n.fields[i].f, e))
      Rel(i, p) == LET rest == SubSeq(n.fields, 1, i - 1) \o SubSeq(n.fields, i + 1, nf)
                       nb == Cardinality({j \in 1..(p - 1) : rest[j].e.k = "fn"})
                       na == Cardinality({j \in p..Len(rest) : rest[j].e.k = "fn"}) IN
                   IF nb = 0 THEN (IF na = 0 THEN "no-methods" ELSE "before-methods")
                   ELSE IF na = 0 THEN "after-methods" ELSE "between-methods" IN
  SndFlat([q \in 1..Len(plain) |->
     LET i == plain[q]
         f == n.fields[i].f IN
     SndFlat([p \in 1..nf |->
        <<SndA(K, "self-in-plain-field:" \o Rel(i, p), [n EXCEPT !.fields = Moved(i, p, Fld(Self, f))]),
          SndA(K, "self-in-closure-called-in-plain-field:" \o Rel(i, p),
               [n EXCEPT !.fields = Moved(i, p, Call(Fn(<<>>, TNone, <<Ex(Fld(Self, f))>>), <<>>))])>>])
     \o [m \in 1..Len(meths) |->
           SndA(K, "self-in-nested-literal-inside-method",
                [n EXCEPT !.fields[meths[m]].e.body =
                    <<DefC(FB10, TNone, BlobL("WI", <<FI("w", Fld(Self, f))>>)), Print(Fld(V(FB10), "w"))>> \o @])]])

\* binders that live inside the functions occurring in n: parameters, and definitions in function bodies
\* (explicit recursion over the kids: a function constructor [j \in .. |-> F(..)] is evaluated lazily, again at every access)
RECURSIVE SndInnerBinders(_, _)
RECURSIVE SndInnerBindersKids(_, _, _)
SndInnerBinders(n, inside) ==
     (IF n.k = "fn" THEN [i \in 1..Len(n.params) |-> [v |-> "parameter", b |-> n.params[i].b]] ELSE <<>>)
  \o (IF inside /\ n.k = "def" THEN <<[v |-> "inner-local", b |-> n.b]>> ELSE <<>>)
  \o SndInnerBindersKids(SndKids(n), 1, inside \/ n.k = "fn")
SndInnerBindersKids(ks, j, inside) ==
  IF j > Len(ks) THEN <<>> ELSE SndInnerBinders(ks[j], inside) \o SndInnerBindersKids(ks, j + 1, inside)

\* alternatives for an expression node (never applied to an assignment target or to a std name)
SndExprAlts(n) ==
     (IF n.k \in {"int", "float", "str", "bool"}
      THEN [i \in 1..Len(SndOtherLits(n.k)) |->
              SndA("P1-literal-other-type", n.k \o "->" \o SndOtherLits(n.k)[i].k, SndOtherLits(n.k)[i])]
      ELSE <<>>)
  \o (IF n.k = "bin"
      THEN [i \in 1..Len(SndOtherOps(n.op)) |->
              SndA("P2-operator-other-class", n.op \o "->" \o SndOtherOps(n.op)[i], [n EXCEPT !.op = SndOtherOps(n.op)[i]])]
      ELSE <<>>)
  \o (IF n.k = "un"
      THEN <<SndA("P2-operator-other-class", IF n.op = "-" THEN "neg->not" ELSE "not->neg",
                  [n EXCEPT !.op = IF n.op = "-" THEN "not" ELSE "-"])>>
      ELSE <<>>)
  \o (IF n.k = "call"
      THEN (IF Len(n.args) > 0 THEN <<SndA("P3-argument-count", "last-dropped", [n EXCEPT !.args = SndButLast(n.args)])>> ELSE <<>>)
        \o (IF Len(n.args) > 1 THEN <<SndA("P3-argument-count", "first-dropped", [n EXCEPT !.args = SubSeq(n.args, 2, Len(n.args))])>> ELSE <<>>)
        \o <<SndA("P3-argument-count", "added", [n EXCEPT !.args = Append(n.args, I(0))]),
             SndA("P6-call-of-non-function", "callee-literal", [n EXCEPT !.f = I(5)])>>
      ELSE <<>>)
  \o (IF n.k = "var" THEN <<SndA("P6-call-of-non-function", "variable-called", Call(n, <<>>))>> ELSE <<>>)
  \o (IF n.k = "fld" THEN <<SndA("P7-field-missing-or-misspelt", "read-misspelt-on-" \o n.e.k, [n EXCEPT !.f = n.f \o "x"])>> ELSE <<>>)
  \o (IF n.k = "blob" /\ Len(n.fields) > 0
      THEN <<SndA("P7-field-missing-or-misspelt", "literal-field-missing", [n EXCEPT !.fields = SndButLast(n.fields)]),
             SndA("P7-field-missing-or-misspelt", "literal-field-misspelt", [n EXCEPT !.fields[1].f = n.fields[1].f \o "x"]),
             SndA("P13-field-assigned-other-type", "literal-field-other-type", [n EXCEPT !.fields[1].e = St("s")])>>
      ELSE <<>>)
  \o (IF n.k = "if" THEN SndIfAlts(n) ELSE <<>>)
  \o (IF n.k = "case" THEN SndCaseAlts(n) ELSE <<>>)
  \o (IF n.k = "fn" THEN SndFnAlts(n) ELSE <<>>)
  \o (IF n.k = "variant"
      THEN IF n.has
           THEN <<SndA("P11-variant-payload", "other-type", [n EXCEPT !.e = St("p")]),
                  SndA("P11-variant-payload", "dropped", Var0(n.enum, n.v))>>
           ELSE <<SndA("P11-variant-payload", "added", Var1(n.enum, n.v, I(1)))>>
      ELSE <<>>)
  \o (IF n.k = "list" THEN <<SndA("P12-list-two-element-types", "literal-element", [n EXCEPT !.es = Append(n.es, St("s"))])>> ELSE <<>>)
  \o (IF n.k = "idx" THEN <<SndA("P19-tuple-index-out-of-range", "index+2", [n EXCEPT !.i = n.i + 2])>> ELSE <<>>)
  \o <<SndA("P10-void-as-value", n.k, Call(Std("print"), <<n>>))>>
  \o SndSimilarAlts(n)
  \o SndOperandAlts(n)
  \o (IF n.k = "blob" THEN SndSelfAlts(n) ELSE <<>>)

SndWrapDecl(s) ==
  <<SndA("P4-decl-moved-into-branch", "if-branch", Ex(If1(Bo(TRUE), <<s>>))),
    SndA("P4-decl-moved-into-branch", "else-branch", Ex(If2(Bo(FALSE), <<Print(I(0))>>, <<s>>))),
    SndA("P4-decl-moved-into-branch", "elif-branch", Ex(If(<<ArmC(Bo(FALSE), <<Print(I(0))>>), ArmC(Bo(TRUE), <<s>>)>>))),
    SndA("P4-decl-moved-into-branch", "case-arm",
         Ex(CaseT(Var0("E", "Y"), <<CArmB("X", FB1, <<Print(V(FB1))>>), CArm("Y", <<s>>)>>))),
    SndA("P4-decl-moved-into-branch", "case-else",
         Ex(CaseE(Var0("E", "Y"), <<CArmB("X", FB1, <<Print(V(FB1))>>)>>, <<s>>))),
    SndA("P4-decl-moved-into-branch", "loop-body", Loop(Bo(TRUE), <<s, Break>>)),
    SndA("P4-decl-moved-into-branch", "block", Block(<<s>>))>>

\* alternatives for a statement node; top = it is a top-level definition
SndStmtAlts(n, top) ==
     (IF n.k = "def" /\ ~top
      THEN SndWrapDecl(n) \o <<SndA("P5-use-before-declaration", "in-own-initialiser", [n EXCEPT !.e = Bin("+", V(n.b), n.e)])>>
      ELSE <<>>)
  \o (IF n.k = "def" /\ n.ty.k # "tnone" /\ n.e.k # "fn"
      THEN <<SndA("P17-annotation-other-type", n.ty.k, [n EXCEPT !.ty = IF n.ty.k = "tstr" THEN TInt ELSE TStr])>>
      ELSE <<>>)
  \o (IF n.k = "asg"
      THEN LET kd == IF n.t.k = "fld" THEN "P13-field-assigned-other-type" ELSE "P15-variable-assigned-other-type"
               on == IF n.t.k = "fld" THEN "-field-of-" \o n.t.e.k ELSE "" IN
           <<SndA(kd, "assign" \o on, [n EXCEPT !.op = "=", !.e = St("s")])>>
           \o (IF n.op # "=" THEN <<SndA(kd, "compound-assign" \o on, [n EXCEPT !.e = St("s")])>> ELSE <<>>)
      ELSE <<>>)
  \o (IF n.k = "ret" /\ n.has THEN <<SndA("P18-return-other-type", "ret-value", [n EXCEPT !.e = St("r")])>> ELSE <<>>)
  \o (IF n.k = "loop" THEN <<SndA("P20-condition-non-bool", "loop", [n EXCEPT !.c = I(1)])>> ELSE <<>>)
  \o (IF n.k = "loop"
      THEN LET ds == SndSelectIdx(n.body, LAMBDA t : t.k = "def") IN
           [q \in 1..Len(ds) |-> SndA("P24-name-outside-its-region", "loop-body-local-in-condition",
                                      [n EXCEPT !.c = Bin("and", Bin("==", V(n.body[ds[q]].b), V(n.body[ds[q]].b)), n.c)])]
      ELSE <<>>)

\* binders of the case arms inside n that are not under a nested function
RECURSIVE SndCaseBinders(_)
RECURSIVE SndCaseBindersKids(_, _)
SndCaseBinders(n) ==
  IF n.k = "fn" THEN <<>>
  ELSE (IF n.k = "case" THEN SndFlat([i \in 1..Len(n.arms) |-> IF n.arms[i].bind THEN <<n.arms[i].b>> ELSE <<>>]) ELSE <<>>)
       \o SndCaseBindersKids(SndKids(n), 1)
SndCaseBindersKids(ks, j) == IF j > Len(ks) THEN <<>> ELSE SndCaseBinders(ks[j]) \o SndCaseBindersKids(ks, j + 1)

SndIsPush(s) == s.k = "expr" /\ s.e.k = "call" /\ s.e.f.k = "std" /\ s.e.f.name = "list.push" /\ Len(s.e.args) = 2


SndInsertSeq(s, i, xs) == SubSeq(s, 1, i - 1) \o xs \o SubSeq(s, i, Len(s))      \* xs become the elements i, i+1, ..

(* P25 at the sequence of top-level nodes *)
GCycF == 1030
GCycH == 1031
GCycO == 1032
SndCycleAlts(n) ==
  LET K == "P25-global-initialiser-cycle"
      vals == SndSelectIdx(n.ss, LAMBDA t : t.k = "def" /\ t.e.k # "fn") IN
  SndFlat([q \in 1..Len(vals) |->
     LET i == vals[q]
         d == n.ss[i]
         G == d.b
         isInt == d.ty.k = "tint"
         RT == IF isInt THEN TInt ELSE TNone
         Rd(b) == IF isInt THEN Bin("+", V(b), I(1)) ELSE V(b)                       \* an expression of G's type that reads b
         Init(call) == IF isInt THEN call ELSE Idx(Tup(<<d.e, call>>), 0)            \* keeps G's type, runs the call
         FnDef(body) == DefN(GCycF, "const", TNone, Fn(<<>>, RT, body), "cycf")
         CallF == Call(V(GCycF), <<>>)
         forms ==
           <<[v |-> "self-through-function", d |-> [d EXCEPT !.e = Init(CallF)], h |-> <<FnDef(<<Ex(Rd(G))>>)>>],
             [v |-> "self-through-closure-in-function", d |-> [d EXCEPT !.e = Init(CallF)],
              h |-> <<FnDef(<<Ex(Call(Fn(<<>>, RT, <<Ex(Rd(G))>>), <<>>))>>)>>],
             [v |-> "later-global-through-function", d |-> [d EXCEPT !.e = Init(CallF)],
              h |-> <<FnDef(<<Ex(Rd(GCycH))>>), DefN(GCycH, "const", d.ty, V(G), "cych")>>]>>
           \o (IF isInt
               THEN <<[v |-> "self-through-blob-method", d |-> [d EXCEPT !.e = Call(Fld(V(GCycO), "m"), <<>>)],
                       h |-> <<DefN(GCycO, "const", TNone, BlobL("CY", <<FI("m", Fn(<<>>, TInt, <<Ex(Rd(G))>>))>>), "cyco")>>]>>
               ELSE <<>>)
           \o (IF isInt /\ d.kind = "mut"
               THEN <<[v |-> "self-assigned-through-function", d |-> [d EXCEPT !.e = CallF],
                       h |-> <<FnDef(<<Asg("+=", V(G), I(1)), Ex(I(1))>>)>>]>>
               ELSE <<>>) IN
     SndFlat([j \in 1..Len(forms) |->
        <<SndA(K, forms[j].v \o ":value-first", SndSeqN(SubSeq(n.ss, 1, i - 1) \o <<forms[j].d>> \o forms[j].h \o SubSeq(n.ss, i + 1, Len(n.ss)))),
          SndA(K, forms[j].v \o ":function-first", SndSeqN(SubSeq(n.ss, 1, i - 1) \o forms[j].h \o <<forms[j].d>> \o SubSeq(n.ss, i + 1, Len(n.ss))))>>])
     \o <<SndA(K, "self-through-iife", SndSeqN([n.ss EXCEPT ![i].e = Init(Call(Fn(<<>>, RT, <<Ex(Rd(G))>>), <<>>))]))>>])

(* P26 / P27: code inserted at the start of a function body or loop body.  In the base D:twopoint every combination is
   emitted at every such place (dense); elsewhere the combinations are thinned to every SndThin-th one, the offset taken
   from the path of the site, so that the combinations rotate over the contexts of the universe. *)
SndThin == 20
SndStrPair == [t |-> "str", a |-> St("a"), b |-> St("b")]
SndBoolPair == [t |-> "bool", a |-> Bo(TRUE), b |-> Bo(FALSE)]
SndIntPair == [t |-> "int", a |-> I(1), b |-> I(2)]
SndOpPairs ==        \* <<[op, w]>>: operator and a pair of values of one type that the operator does not support
  <<[op |-> "+", w |-> SndBoolPair], [op |-> "-", w |-> SndStrPair], [op |-> "-", w |-> SndBoolPair],
    [op |-> "*", w |-> SndStrPair], [op |-> "*", w |-> SndBoolPair], [op |-> "/", w |-> SndStrPair], [op |-> "/", w |-> SndBoolPair],
    [op |-> "<", w |-> SndBoolPair], [op |-> "<=", w |-> SndBoolPair], [op |-> ">", w |-> SndBoolPair], [op |-> ">=", w |-> SndBoolPair],
    [op |-> "and", w |-> SndIntPair], [op |-> "or", w |-> SndIntPair]>>
SndTwoPointExprs ==  \* <<[v, ss]>>: variant name and the statements to insert
  SndFlat([j \in 1..Len(SndOpPairs) |->
     LET c == SndOpPairs[j]
         nm == c.op \o ":" \o c.w.t
         T1(x, k) == Tup(<<x, I(k)>>)
         T2(x, k) == Tup(<<Tup(<<x, I(k)>>), I(k + 2)>>) IN
     <<[v |-> nm \o ":scalar", ss |-> <<Print(Bin(c.op, c.w.a, c.w.b))>>],
       [v |-> nm \o ":scalar:via-variables",
        ss |-> <<DefM(FB6, TNone, c.w.a), DefM(FB7, TNone, c.w.b), Print(Bin(c.op, V(FB6), V(FB7)))>>]>>
     \o (IF c.op \in {"and", "or"} THEN <<>>
         ELSE <<[v |-> nm \o ":in-tuple", ss |-> <<Print(Bin(c.op, T1(c.w.a, 1), T1(c.w.b, 2)))>>],
                [v |-> nm \o ":in-tuple:via-variables",
                 ss |-> <<DefM(FB6, TNone, T1(c.w.a, 1)), DefM(FB7, TNone, T1(c.w.b, 2)), Print(Bin(c.op, V(FB6), V(FB7)))>>],
                [v |-> nm \o ":in-nested-tuple", ss |-> <<Print(Bin(c.op, T2(c.w.a, 1), T2(c.w.b, 2)))>>]>>)])

SndAsgPairs ==
  <<[op |-> "+=", w |-> SndBoolPair], [op |-> "-=", w |-> SndStrPair], [op |-> "-=", w |-> SndBoolPair],
    [op |-> "*=", w |-> SndStrPair], [op |-> "*=", w |-> SndBoolPair], [op |-> "/=", w |-> SndStrPair]>>
SndTwoPointAsgs ==
  SndFlat([j \in 1..Len(SndAsgPairs) |->
     LET c == SndAsgPairs[j]
         nm == c.op \o ":" \o c.w.t
         box == SndBoxOf(c.w.a)
         glob == IF c.w.t = "str" THEN GTps ELSE GTpb
         targets ==      \* [v, ss: the statements, rd: an expression that reads the target afterwards]
           <<[v |-> "local", ss |-> <<DefM(FB6, TNone, c.w.a), Asg(c.op, V(FB6), c.w.b)>>, rd |-> V(FB6)],
             [v |-> "captured", ss |-> <<DefM(FB6, TNone, c.w.a), DefC(FB7, TNone, Fn(<<>>, TVoid, <<Asg(c.op, V(FB6), c.w.b)>>)),
                                        Ex(Call(V(FB7), <<>>))>>, rd |-> V(FB6)],
             [v |-> "global", ss |-> <<Asg(c.op, V(glob), c.w.b)>>, rd |-> V(glob)],
             [v |-> "field", ss |-> <<DefC(FB6, TNone, BlobL(box, <<FI("w", c.w.a)>>)), Asg(c.op, Fld(V(FB6), "w"), c.w.b)>>,
              rd |-> Fld(V(FB6), "w")],
             [v |-> "field-of-blob-parameter",
              ss |-> <<DefC(FB6, TNone, BlobL(box, <<FI("w", c.w.a)>>)),
                       DefC(FB7, TNone, Fn(<<P(FB8, TName(box))>>, TVoid, <<Asg(c.op, Fld(V(FB8), "w"), c.w.b)>>)),
                       Ex(Call(V(FB7), <<V(FB6)>>))>>, rd |-> Fld(V(FB6), "w")]>> IN
     SndFlat([t \in 1..Len(targets) |->
        <<[v |-> nm \o ":" \o targets[t].v \o ":last-use", ss |-> targets[t].ss],
          [v |-> nm \o ":" \o targets[t].v \o ":then-used", ss |-> targets[t].ss \o <<Print(targets[t].rd)>>]>>])])
  \o SndFlat([t \in 1..2 |->      \* element-wise inside tuples: local and captured targets
        LET a == Tup(<<St("a"), I(1)>>)
            b == Tup(<<St("b"), I(2)>>)
            ss == IF t = 1 THEN <<DefM(FB6, TNone, a), Asg("-=", V(FB6), b)>>
                  ELSE <<DefM(FB6, TNone, a), DefC(FB7, TNone, Fn(<<>>, TVoid, <<Asg("-=", V(FB6), b)>>)), Ex(Call(V(FB7), <<>>))>>
            nm == "-=:str-in-tuple:" \o (IF t = 1 THEN "local" ELSE "captured") IN
        <<[v |-> nm \o ":last-use", ss |-> ss], [v |-> nm \o ":then-used", ss |-> ss \o <<Print(Idx(V(FB6), 1))>>]>>])

---------------------------------------------------------------------------
(* P28 / P29: values whose type is still UNKNOWN while they travel through a generic container.  Both are context-free
   insertions like P26 / P27; the combinations are INDEX-ADDRESSED (mixed-radix decoding of the combination number), so a
   body gets the combinations j with (j + salt) % modulus = 0 without building the whole cross. *)

\* digit d (1-based) of x in the mixed radix rs: x = d1 + r1 * (d2 + r2 * (d3 + ...))
RECURSIVE SndDigit(_, _, _)
SndDigit(x, rs, d) == IF d = 1 THEN x % rs[1] ELSE SndDigit(x \div rs[1], SubSeq(rs, 2, Len(rs)), d - 1)
RECURSIVE SndProduct(_)
SndProduct(rs) == IF Len(rs) = 0 THEN 1 ELSE rs[1] * SndProduct(SubSeq(rs, 2, Len(rs)))
\* the combination numbers in 1..n kept at a place with the given salt: j with (j + salt) % m = 0
SndKept(n, salt, m) == LET j0 == m - (salt % m)
                           cnt == IF j0 > n THEN 0 ELSE 1 + (n - j0) \div m IN
                       [q \in 1..cnt |-> j0 + (q - 1) * m]

\* operator and side of the unknown operand x; the other operand is the int 2
SndUOpSides == <<[op |-> "+", left |-> TRUE], [op |-> "-", left |-> TRUE], [op |-> "*", left |-> TRUE], [op |-> "/", left |-> TRUE],
                 [op |-> "<", left |-> TRUE], [op |-> "<=", left |-> TRUE], [op |-> ">", left |-> TRUE], [op |-> ">=", left |-> TRUE],
                 [op |-> "neg", left |-> TRUE],
                 [op |-> "-", left |-> FALSE], [op |-> "*", left |-> FALSE], [op |-> "<", left |-> FALSE]>>
SndUName(o) == IF o.op = "neg" THEN "-x" ELSE IF o.left THEN "x" \o o.op \o "2" ELSE "2" \o o.op \o "x"
SndUUse(o, x) == IF o.op = "neg" THEN Un("-", x) ELSE IF o.left THEN Bin(o.op, x, I(2)) ELSE Bin(o.op, I(2), x)
\* the same operator applied ELEMENT-WISE to a tuple that holds x (the other operand is the tuple (2, 2))
SndUUseT(o, x) == LET t == Tup(<<x, I(1)>>)  u == Tup(<<I(2), I(2)>>) IN
                  IF o.op = "neg" THEN Un("-", t) ELSE IF o.left THEN Bin(o.op, t, u) ELSE Bin(o.op, u, t)
SndUIsCmp(o) == o.op \in {"<", "<=", ">", ">="}
SndUDefault(o) == IF SndUIsCmp(o) THEN Bo(FALSE) ELSE IF o.op = "/" THEN Bin("/", I(4), I(2)) ELSE I(0)   \* a value of the type of the use
SndURet(o) == IF SndUIsCmp(o) THEN TBool ELSE IF o.op = "/" THEN TNone ELSE TInt
SndUGood == I(20)
SndUBad(o) == SndWrongFor(o.op)

(* P28.  helper :: fn a -> T do <a into the container> <content taken out> <content used with the operator> end, called at
   the type the body needs and / or at another one. *)
SndRTConts == <<"variant-case-else", "variant-case-total", "variant-aliased", "blob-field", "tuple", "list-get", "tuple-elementwise">>
SndRTSources == <<"parameter", "case-binding">>
SndRTCalls == <<"good-then-bad", "bad-only", "good-only:legal">>
SndRTRadix == <<Len(SndRTConts), Len(SndRTSources), Len(SndUOpSides), Len(SndRTCalls)>>
SndRTCount == SndProduct(SndRTRadix)

SndRoundTrip(j) ==           \* [v, ss]: combination j in 1..SndRTCount
  LET x == j - 1
      cont == SndRTConts[SndDigit(x, SndRTRadix, 1) + 1]
      src == SndRTSources[SndDigit(x, SndRTRadix, 2) + 1]
      o == SndUOpSides[SndDigit(x, SndRTRadix, 3) + 1]
      calls == SndRTCalls[SndDigit(x, SndRTRadix, 4) + 1]
      dflt == SndUDefault(o)
      JustArm == CArmB("Just", FUX, <<Ex(SndUUse(o, V(FUX)))>>)
      Body(a) ==
        CASE cont = "variant-case-else" ->
               <<DefM(FUB, TNone, Var1("Opt", "Just", a)), Ex(CaseE(V(FUB), <<JustArm>>, <<Ex(dflt)>>))>>
          [] cont = "variant-case-total" ->
               <<DefM(FUB, TNone, Var1("Opt", "Just", a)), Ex(CaseT(V(FUB), <<JustArm, CArm("Nothing", <<Ex(dflt)>>)>>))>>
          [] cont = "variant-aliased" ->
               <<DefC(FUB, TNone, Var1("Opt", "Just", a)), DefC(FUA, TNone, V(FUB)), Ex(CaseE(V(FUA), <<JustArm>>, <<Ex(dflt)>>))>>
          [] cont = "blob-field" ->
               <<DefC(FUB, TNone, BlobL("UBox", <<FI("v", a)>>)), Ex(SndUUse(o, Fld(V(FUB), "v")))>>
          [] cont = "tuple" ->
               <<DefC(FUB, TNone, Tup(<<a, I(0)>>)), Ex(SndUUse(o, Idx(V(FUB), 0)))>>
          [] cont = "list-get" ->
               <<DefC(FUB, TNone, Lst(<<a>>)), Ex(CaseE(Call(Std("list.get"), <<V(FUB), I(0)>>), <<JustArm>>, <<Ex(dflt)>>))>>
          [] cont = "tuple-elementwise" ->      \* the value stays in the tuple: the operator takes the tuple, the result is only stored
               <<DefC(FUB, TNone, SndUUseT(o, a)), Ex(dflt)>>
      helper == IF src = "parameter" THEN Fn(<<P(FUP, TNone)>>, SndURet(o), Body(V(FUP)))
                ELSE Fn(<<P(FUP, TNone)>>, SndURet(o), <<Ex(CaseE(V(FUP), <<CArmB("Just", FUY, Body(V(FUY)))>>, <<Ex(dflt)>>))>>)
      Arg(v) == IF src = "parameter" THEN v ELSE Var1("Opt", "Just", v)
      CallH(v) == Print(Call(V(FUH), <<Arg(v)>>)) IN
  [v |-> cont \o ":from-" \o src \o ":" \o SndUName(o) \o ":" \o calls,
   ss |-> <<DefC(FUH, TNone, helper)>>
          \o (CASE calls = "good-then-bad" -> <<CallH(SndUGood), CallH(SndUBad(o))>>
                [] calls = "bad-only" -> <<CallH(SndUBad(o))>>
                [] OTHER -> <<CallH(SndUGood), CallH(I(6))>>)]

(* P29.  A holder of a value of unknown type lives in a variable; the content is taken out and given to an operator while
   its type is unknown (use); the type is determined by what is put in (determination), at another place. *)
SndLTHolders == <<"opt", "list", "blob-field">>
SndLTUses == <<"result-stored", "result-printed", "result-is-arm-value", "result-stored:legal">>
SndLTOrders == <<"use-first", "determination-first">>
SndLTLocalScopes == <<"local-in-loop", "captured-by-closures">>
SndLTRadix(scopes) == <<Len(SndLTHolders), Len(scopes), Len(SndUOpSides), Len(SndLTUses), Len(SndLTOrders)>>
SndLTCount(scopes) == SndProduct(SndLTRadix(scopes))

SndLate(j, scopes) ==        \* [v, sc, hd: the holder's initial value, use: statements, det: statement, useFirst]
  LET x == j - 1
      rs == SndLTRadix(scopes)
      h == SndLTHolders[SndDigit(x, rs, 1) + 1]
      sc == scopes[SndDigit(x, rs, 2) + 1]
      o == SndUOpSides[SndDigit(x, rs, 3) + 1]
      use == SndLTUses[SndDigit(x, rs, 4) + 1]
      ord == SndLTOrders[SndDigit(x, rs, 5) + 1]
      H == IF sc = "global" THEN V(GULast) ELSE V(FUL)
      val == IF use = "result-stored:legal" THEN SndUGood ELSE SndUBad(o)
      scrut == (CASE h = "opt" -> H [] h = "list" -> Call(Std("list.get"), <<H, I(0)>>) [] h = "blob-field" -> Fld(H, "v"))
      e == SndUUse(o, V(FUV)) IN
  [v |-> h \o ":" \o sc \o ":" \o SndUName(o) \o ":" \o use \o ":" \o ord,
   sc |-> sc,
   hd |-> (CASE h = "opt" -> Var0("Opt", "Nothing") [] h = "list" -> Lst(<<>>)
            [] h = "blob-field" -> BlobL("UBox", <<FI("v", Var0("Opt", "Nothing"))>>)),
   use |-> (CASE use \in {"result-stored", "result-stored:legal"} ->
                  <<Ex(CaseE(scrut, <<CArmB("Just", FUV, <<DefC(FUT, TNone, e), Print(V(FUT))>>)>>, <<>>))>>
             [] use = "result-printed" -> <<Ex(CaseE(scrut, <<CArmB("Just", FUV, <<Print(e)>>)>>, <<>>))>>
             [] use = "result-is-arm-value" ->
                  <<DefC(FUR, TNone, CaseE(scrut, <<CArmB("Just", FUV, <<Ex(e)>>)>>, <<Ex(SndUDefault(o))>>)), Print(V(FUR))>>),
   det |-> (CASE h = "opt" -> Asg("=", H, Var1("Opt", "Just", val))
             [] h = "list" -> Ex(Call(Std("list.push"), <<H, val>>))
             [] h = "blob-field" -> Asg("=", Fld(H, "v"), Var1("Opt", "Just", val))),
   useFirst |-> ord = "use-first"]

SndLateLocal(j) ==           \* [v, ss]: the statements inserted at the start of a function / loop body
  LET c == SndLate(j, SndLTLocalScopes) IN
  [v |-> c.v,
   ss |-> IF c.sc = "local-in-loop"
          THEN <<DefM(FUL, TNone, c.hd), DefM(FUI, TNone, I(0)),
                 Loop(Bin("<", V(FUI), I(2)),
                      (IF c.useFirst THEN c.use \o <<c.det>> ELSE <<c.det>> \o c.use) \o <<Asg("+=", V(FUI), I(1))>>)>>
          ELSE LET u == DefC(FUS, TNone, Fn(<<>>, TVoid, c.use))
                   d == DefC(FUD, TNone, Fn(<<>>, TVoid, <<c.det>>)) IN
               <<DefM(FUL, TNone, c.hd)>> \o (IF c.useFirst THEN <<u, d>> ELSE <<d, u>>)
               \o <<Ex(Call(V(FUS), <<>>)), Ex(Call(V(FUD), <<>>)), Ex(Call(V(FUS), <<>>))>>]

\* the global form: the holder and the two functions are top-level definitions, start calls use / determination / use first
SndLateGlobalCount == SndLTCount(<<"global">>)
SndLateGlobal(j, tops) ==    \* [v, tops]
  LET c == SndLate(j, <<"global">>)
      si == CHOOSE i \in 1..Len(tops) : tops[i].k = "def" /\ tops[i].n = "start"
      u == DefN(GUShow, "const", TNone, Fn(<<>>, TVoid, c.use), "ushow")
      d == DefN(GURem, "const", TNone, Fn(<<>>, TVoid, <<c.det>>), "uremember")
      calls == <<Ex(Call(V(GUShow), <<>>)), Ex(Call(V(GURem), <<>>)), Ex(Call(V(GUShow), <<>>))>> IN
  [v |-> c.v,
   tops |-> SubSeq(tops, 1, si - 1) \o <<DefN(GULast, "mut", TNone, c.hd, "ulast")>> \o (IF c.useFirst THEN <<u, d>> ELSE <<d, u>>)
            \o <<[tops[si] EXCEPT !.e.body = calls \o @]>> \o SubSeq(tops, si + 1, Len(tops))]

SndThinUnknown == 200       \* elsewhere: every 200th combination per body
SndDenseUnknown == 3        \* in D:twopoint: every 3rd combination per body (6 bodies whose salts cover all residues: every combination 1-3 times)
SndThinRoot == 144

RECURSIVE SndPathSum(_, _)
SndPathSum(ctx, i) == IF i > Len(ctx) THEN 0 ELSE ctx[i][2] + 1 + SndPathSum(ctx, i + 1)

SndTwoPointAlts(n, ctx, dense) ==
  LET salt == SndPathSum(ctx, 1)
      Keep(j) == dense \/ (j + salt) % SndThin = 0
      ex == SndTwoPointExprs
      as == SndTwoPointAsgs IN
  SndFlat([j \in 1..Len(ex) |->
     IF Keep(j) THEN <<SndA("P26-both-operands-unsupported", ex[j].v, SndSeqN(SndInsertSeq(n.ss, 1, ex[j].ss)))>> ELSE <<>>])
  \o SndFlat([j \in 1..Len(as) |->
     IF Keep(j + 7) THEN <<SndA("P27-compound-assignment-both-sides-unsupported", as[j].v, SndSeqN(SndInsertSeq(n.ss, 1, as[j].ss)))>> ELSE <<>>])

\* alternatives for a statement sequence; an empty context = the sequence of top-level nodes
SndSeqAlts(n, ctx, dense) ==
  IF Len(ctx) = 0
  THEN LET defs == SndSelectIdx(n.ss, LAMBDA t : t.k = "def")
           rev == [j \in 1..Len(defs) |-> n.ss[defs[Len(defs) + 1 - j]]] IN
       <<SndA("P14-global-order", "definitions-reversed",
              SndSeqN([i \in 1..Len(n.ss) |->
                         IF n.ss[i].k = "def" THEN rev[CHOOSE j \in 1..Len(defs) : defs[j] = i] ELSE n.ss[i]]))>>
       \o SndCycleAlts(n)
  ELSE (IF ctx[Len(ctx)] \in {<<"fn", 1>>, <<"loop", 2>>} THEN SndTwoPointAlts(n, ctx, dense) ELSE <<>>)
    \o SndFlat([i \in 1..Len(n.ss) |->
          (IF n.ss[i].k = "def"
           \* (a trailing expression stays the tail: the value of the block must not change with the swap)
           THEN (IF i + 1 < Len(n.ss) \/ (i + 1 = Len(n.ss) /\ n.ss[i + 1].k # "expr")
                 THEN <<SndA("P5-use-before-declaration", "swapped-with-next", SndSeqN(SndSwap(n.ss, i)))>> ELSE <<>>)
                \o <<SndA("P5-use-before-declaration", "use-inserted-before", SndSeqN(SndInsert(n.ss, i, Print(V(n.ss[i].b)))))>>
           ELSE <<>>)
       \o (LET bs == SndCaseBinders(n.ss[i]) IN
           [q \in 1..Len(bs) |-> SndA("P16-case-binding-misused", "binding-used-after-case",
                                      SndSeqN(SndInsert(n.ss, i + 1, Print(Bin("+", V(bs[q]), I(1))))))])
       \o (LET bs == SndInnerBinders(n.ss[i], FALSE)
                at == IF i < Len(n.ss) THEN i + 1 ELSE i IN         \* (a trailing expression stays the tail)
           [q \in 1..Len(bs) |-> SndA("P24-name-outside-its-region", bs[q].v \o "-used-outside-its-function",
                                      SndSeqN(SndInsert(n.ss, at, Print(V(bs[q].b)))))])
       \o (IF SndIsPush(n.ss[i])
           THEN <<SndA("P12-list-two-element-types", "push",
                       SndSeqN(SndInsert(n.ss, i + 1, Ex(Call(Std("list.push"), <<n.ss[i].e.args[1], St("s")>>)))))>>
           ELSE <<>>)])

\* all alternatives at a site, given the node and its context
\* (dense: the base asks for the full two-point cross at every function / loop body)
SndAlts(n, ctx, dense) ==
  LET up == IF Len(ctx) = 0 THEN <<"-", 0>> ELSE ctx[Len(ctx)] IN
  IF n.k = "seq" THEN SndSeqAlts(n, ctx, dense)
  ELSE IF n.k \in SndStmtKinds THEN SndStmtAlts(n, Len(ctx) = 1)
  ELSE IF n.k \in {"enum", "blobdecl", "std", "self"} THEN <<>>
  ELSE IF up[1] = "asg" /\ up[2] = 1
       THEN (IF n.k = "fld" THEN <<SndA("P7-field-missing-or-misspelt", "assigned-misspelt-on-" \o n.e.k, [n EXCEPT !.f = n.f \o "x"])>> ELSE <<>>)
  ELSE SndExprAlts(n)

(* The INDEX-ADDRESSED alternatives of a site (P28 / P29): the q-th one is built from its combination number alone, so
   that re-deriving one case does not build the hundreds of alternatives of a dense site.  They precede the enumerated
   alternatives SndAlts in the numbering of a site's alternatives. *)
SndIsBody(ctx) == Len(ctx) > 0 /\ ctx[Len(ctx)] \in {<<"fn", 1>>, <<"loop", 2>>}
SndIdxRT(ctx, dense) == SndKept(SndRTCount, SndPathSum(ctx, 1), IF dense THEN SndDenseUnknown ELSE SndThinUnknown)
SndIdxLT(ctx, dense) == SndKept(SndLTCount(SndLTLocalScopes), SndPathSum(ctx, 1) + 1, IF dense THEN SndDenseUnknown ELSE SndThinUnknown)
SndIdxGlobal(n, dense) == IF dense THEN [q \in 1..SndLateGlobalCount |-> q]
                          ELSE SndKept(SndLateGlobalCount, Len(n.ss) + SndSizeKids(n.ss, 1), SndThinRoot)
SndIndexedCount(n, ctx, dense) ==
  IF n.k # "seq" THEN 0
  ELSE IF Len(ctx) = 0 THEN Len(SndIdxGlobal(n, dense))
  ELSE IF SndIsBody(ctx) THEN Len(SndIdxRT(ctx, dense)) + Len(SndIdxLT(ctx, dense))
  ELSE 0
SndIndexed(n, ctx, dense, q) ==          \* q in 1..SndIndexedCount(n, ctx, dense)
  IF Len(ctx) = 0
  THEN LET cs == {SndLateGlobal(SndIdxGlobal(n, dense)[q], n.ss)}
           c == CHOOSE x \in cs : TRUE IN
       SndA("P29-operator-before-type-determined", c.v, SndSeqN(c.tops))
  ELSE LET nrt == Len(SndIdxRT(ctx, dense))
           cs == {IF q <= nrt THEN SndRoundTrip(SndIdxRT(ctx, dense)[q]) ELSE SndLateLocal(SndIdxLT(ctx, dense)[q - nrt])}
           c == CHOOSE x \in cs : TRUE IN
       SndA(IF q <= nrt THEN "P28-unknown-through-generic-container" ELSE "P29-operator-before-type-determined",
            c.v, SndSeqN(SndInsertSeq(n.ss, 1, c.ss)))

\* alternative a of a site: the indexed ones first (no other alternative is built to derive one of them), then the enumerated
\* ones (eager: their sequence; an operator argument is evaluated only when used, and the caller may bind it once)
SndAltOf(eager, n, ctx, dense, a) ==
  LET ni == SndIndexedCount(n, ctx, dense) IN IF a <= ni THEN SndIndexed(n, ctx, dense, a) ELSE eager[a - ni]

---------------------------------------------------------------------------
(* Dedicated base programs (well-typed; they follow the common Prelude) *)

GV == 1020      \* vd: a void function
GAp == 1021     \* ap: applies a function-typed parameter
GA == 1022
GB2 == 1023
GF2 == 1024
GOb == 1025

SndVoidFn == DefN(GV, "const", TNone, Fn(<<P(30, TInt)>>, TVoid, <<Asg("=", V(GG), V(30))>>), "vd")
\* ap :: fn f: fn int -> int, n: int -> int do f(n) + 1 end
SndApFn == DefN(GAp, "const", TNone,
                Fn(<<P(31, TFn(<<TInt>>, TInt)), P(32, TInt)>>, TInt, <<Ex(Bin("+", Call(V(31), <<V(32)>>), I(1)))>>), "ap")

SndDedicatedNames == <<"prelude", "scopes", "hof", "void", "lists", "blobs", "captured", "cases", "returns",
                       "glob-read", "glob-compound", "glob-field", "glob-alias", "glob-method",
                       "usertypes-blob", "usertypes-enum-tuple", "methods", "twopoint", "totality">>

SndDedicated(name) ==
  CASE name = "prelude" ->       \* uses every definition of the Prelude; the one base that is perturbed INSIDE the Prelude too
         <<StartDef(<<Print(Bin("+", Tick(1), Call(V(GInc), <<I(2)>>))), Print(TickB(TRUE)), Print(Call(V(GSumTo), <<I(3)>>)),
                      DefC(71, TB, Call(V(GMkB), <<I(4)>>)),
                      Print(Bin("+", Bin("+", Call(Fld(V(71), "get"), <<>>), Call(Fld(V(71), "add"), <<I(5)>>)), Fld(V(71), "n"))),
                      DefC(72, TNone, Call(V(GMkC), <<I(6)>>)), Print(Bin("+", Call(V(72), <<>>), Call(V(72), <<>>))),
                      Print(Bin("+", Call(V(GBumpG), <<>>), V(GG))),
                      Print(Call(V(GMkP), <<Fn(<<P(73, TInt)>>, TInt, <<Ex(Bin("+", V(73), I(1)))>>), I(2), I(7)>>)),
                      Print(Call(V(GTwice), <<V(GInc), I(8)>>)),
                      DefC(74, TE, Var1("E", "X", I(9))),
                      Print(CaseT(V(74), <<CArmB("X", 75, <<Ex(V(75))>>), CArm("Y", <<Ex(I(0))>>)>>))>>)>>
    [] name = "scopes" ->
         <<StartDef(<<DefM(40, TInt, Tick(1)), DefC(41, TInt, Bin("+", V(40), I(1))), Print(Bin("+", V(40), V(41))),
                      DefC(42, TNone, Fn(<<P(43, TInt)>>, TInt, <<Ex(Bin("+", V(40), V(43)))>>)),
                      Asg("+=", V(40), I(2)), Print(Call(V(42), <<V(41)>>))>>)>>
    [] name = "hof" ->
         <<SndApFn,
           StartDef(<<Print(Call(V(GAp), <<Fn(<<P(44, TInt)>>, TInt, <<Ex(Bin("+", V(44), I(1)))>>), I(2)>>)),
                      Print(Call(V(GAp), <<V(GInc), Tick(3)>>)),
                      Print(Call(V(GTwice), <<Fn(<<P(45, TInt)>>, TInt, <<Ex(Bin("*", V(45), I(2)))>>), I(5)>>))>>)>>
    [] name = "void" ->
         <<SndVoidFn,
           StartDef(<<Ex(Call(V(GV), <<Tick(4)>>)), Print(V(GG)),
                      DefC(46, TNone, Fn(<<>>, TVoid, <<Ex(Call(V(GV), <<I(6)>>))>>)), Ex(Call(V(46), <<>>)), Print(Bin("+", V(GG), I(1)))>>)>>
    [] name = "lists" ->
         <<StartDef(<<DefC(47, TListI, Lst(<<>>)), Ex(Call(Std("list.push"), <<V(47), Tick(1)>>)),
                      Ex(Call(Std("list.push"), <<V(47), I(2)>>)),
                      Ex(Call(Std("for_each"), <<V(47), Fn(<<P(48, TInt)>>, TVoid, <<Print(Bin("+", V(48), I(1)))>>)>>)),
                      Print(Call(Std("list.len"), <<V(47)>>)),
                      DefC(49, TNone, Lst(<<>>)), Ex(Call(Std("list.push"), <<V(49), St("a")>>)),
                      Ex(Call(Std("for_each"), <<V(49), Fn(<<P(50, TStr)>>, TVoid, <<Print(Bin("+", V(50), St("b")))>>)>>))>>)>>
    [] name = "blobs" ->
         <<StartDef(<<DefC(51, TB, Call(V(GMkB), <<Tick(1)>>)), Asg("=", Fld(V(51), "n"), I(5)), Asg("+=", Fld(V(51), "n"), I(1)),
                      Print(Bin("+", Fld(V(51), "n"), I(1))),
                      Print(Bin("+", Call(Fld(V(51), "get"), <<>>), Call(Fld(V(51), "add"), <<I(2)>>)))>>)>>
    [] name = "captured" ->
         <<StartDef(<<DefM(52, TInt, I(1)), DefC(53, TNone, Fn(<<>>, TVoid, <<Asg("=", V(52), Bin("+", V(52), I(2)))>>)),
                      Ex(Call(V(53), <<>>)), Print(Bin("+", V(52), I(1))),
                      DefM(54, TStr, St("a")), DefC(55, TNone, Fn(<<P(56, TStr)>>, TVoid, <<Asg("=", V(54), Bin("+", V(54), V(56)))>>)),
                      Ex(Call(V(55), <<St("b")>>)), Print(V(54))>>)>>
    [] name = "cases" ->
         <<StartDef(<<DefC(57, TE, Var1("E", "X", Tick(1))),
                      DefC(58, TInt, CaseT(V(57), <<CArmB("X", 59, <<Ex(Bin("+", V(59), I(1)))>>), CArm("Y", <<Ex(I(0))>>)>>)),
                      Print(Bin("+", V(58), I(1))),
                      DefC(60, TE, Var0("E", "Y")),
                      Ex(CaseE(V(60), <<CArmB("X", 61, <<Print(Bin("*", V(61), I(2)))>>)>>, <<Print(I(9))>>)),
                      DefC(62, TInt, If2(Bin("<", V(58), I(0)), <<Ex(I(1))>>, <<Ex(Bin("+", V(58), I(2)))>>)),
                      Print(Bin("+", V(62), I(1)))>>)>>
    [] name = "returns" ->
         <<DefN(GF2, "const", TNone,
                Fn(<<P(63, TInt)>>, TInt, <<Ex(If1(Bin(">", V(63), I(0)), <<Ret(V(63))>>)), Ex(Bin("-", I(0), V(63)))>>), "absv"),
           DefN(GA, "const", TNone,
                Fn(<<P(64, TInt)>>, TInt, <<DefM(65, TInt, I(0)),
                                            Loop(Bin("<", V(65), V(64)), <<Asg("+=", V(65), I(2))>>),
                                            Ex(V(65))>>), "upto"),
           \* sgn :: fn n: int -> int do if n > 0 do ret 1 else ret 0 - 1 end end ; first :: loop with a ret ; direct :: ret as a plain statement
           DefN(GB2, "const", TNone,
                Fn(<<P(67, TInt)>>, TInt, <<Ex(If2(Bin(">", V(67), I(0)), <<Ret(I(1))>>, <<Ret(Bin("-", I(0), I(1)))>>))>>), "sgn"),
           DefN(GOb, "const", TNone,
                Fn(<<P(68, TInt)>>, TInt, <<DefM(69, TInt, I(0)),
                                            Loop(Bo(TRUE), <<Asg("+=", V(69), I(3)), Ex(If1(Bin(">", V(69), V(68)), <<Ret(V(69))>>))>>),
                                            Ex(I(0))>>), "first"),
           DefN(GV, "const", TNone, Fn(<<P(70, TInt)>>, TInt, <<Ret(Bin("+", V(70), I(1)))>>), "direct"),
           StartDef(<<Print(Bin("+", Call(V(GF2), <<Tick(3)>>), Call(V(GF2), <<Bin("-", I(0), I(4))>>))),
                      Print(Bin("+", Call(V(GA), <<I(3)>>), I(1))),
                      Print(Bin("+", Call(V(GB2), <<I(5)>>), Call(V(GB2), <<Bin("-", I(0), I(5))>>))),
                      Print(Bin("+", Call(V(GOb), <<I(4)>>), Call(V(GV), <<I(1)>>)))>>)>>
    \* P14 bases: written in dependency order (the order the reference semantics needs); a global initialiser calls a
    \* function that uses another global by reading it / only compound-assigning it / assigning a field of it / through
    \* an alias / through a method.  Reversing the textual order must not matter in Sylt.
    [] name = "glob-read" ->
         <<DefN(GB2, "mut", TInt, I(10), "gb"),
           DefN(GF2, "const", TNone, Fn(<<>>, TInt, <<Ex(Bin("+", V(GB2), I(1)))>>), "fa"),
           DefN(GA, "const", TInt, Call(V(GF2), <<>>), "ga"),
           StartDef(<<Print(V(GA)), Print(Bin("+", V(GB2), I(1)))>>)>>
    [] name = "glob-compound" ->
         <<DefN(GB2, "mut", TInt, I(10), "gb"),
           DefN(GF2, "const", TNone, Fn(<<>>, TInt, <<Asg("+=", V(GB2), I(5)), Ex(I(1))>>), "fa"),
           DefN(GA, "const", TInt, Call(V(GF2), <<>>), "ga"),
           StartDef(<<Print(V(GA)), Print(Bin("+", V(GB2), I(1)))>>)>>
    [] name = "glob-field" ->
         <<DefN(GOb, "const", TB, Call(V(GMkB), <<I(1)>>), "ob"),
           DefN(GF2, "const", TNone, Fn(<<>>, TInt, <<Asg("+=", Fld(V(GOb), "n"), I(5)), Ex(I(1))>>), "fa"),
           DefN(GA, "const", TInt, Call(V(GF2), <<>>), "ga"),
           StartDef(<<Print(V(GA)), Print(Bin("+", Fld(V(GOb), "n"), I(1)))>>)>>
    [] name = "glob-alias" ->
         <<DefN(GB2, "const", TInt, I(10), "gb"),
           DefN(GF2, "const", TNone, Fn(<<>>, TInt, <<Ex(Bin("+", V(GB2), I(1)))>>), "fa"),
           DefN(GOb, "const", TNone, V(GF2), "fb"),
           SndApFn,
           DefN(GA, "const", TInt, Call(V(GAp), <<Fn(<<P(66, TInt)>>, TInt, <<Ex(Bin("+", V(66), Call(V(GOb), <<>>)))>>), I(1)>>), "ga"),
           StartDef(<<Print(V(GA))>>)>>
    [] name = "glob-method" ->
         <<DefN(GB2, "mut", TInt, I(10), "gb"),
           BlobD("M", <<FD("n", TInt), FD("m", TFn(<<>>, TInt))>>),
           DefN(GOb, "const", TNone, BlobL("M", <<FI("n", I(3)), FI("m", Fn(<<>>, TInt, <<Asg("+=", V(GB2), Fld(Self, "n")), Ex(Fld(Self, "n"))>>))>>), "ob"),
           DefN(GA, "const", TInt, Call(Fld(V(GOb), "m"), <<>>), "ga"),
           StartDef(<<Print(V(GA)), Print(Bin("+", V(GB2), I(1)))>>)>>
    \* values of user types at every kind of position: initialiser, assignment to an existing variable (un-annotated and
    \* annotated, from a literal and from a variable), argument, return value, field initialiser, list element, case scrutinee
    [] name = "usertypes-blob" ->
         <<BlobD("HP", <<FD("inner", TName("P3")), FD("k", TInt)>>),
           DefN(GF2, "const", TNone, Fn(<<P(92, TName("P3"))>>, TInt, <<Ex(Bin("+", Fld(V(92), "z"), I(1)))>>), "usep"),
           DefN(GA, "const", TNone, Fn(<<P(93, TInt)>>, TName("P3"),
                                       <<Ex(BlobL("P3", <<FI("x", V(93)), FI("y", V(93)), FI("z", V(93))>>))>>), "mkp3"),
           StartDef(<<DefM(80, TNone, SndP3Lit("P3", <<"x", "y", "z">>, 0)), Print(Bin("+", Fld(V(80), "z"), I(1))),
                      Asg("=", V(80), SndP3Lit("P3", <<"x", "y", "z">>, 3)), Print(Bin("+", Fld(V(80), "z"), I(1))),
                      DefM(81, TNone, SndP3Lit("P3", <<"x", "y", "z">>, 6)), Asg("=", V(80), V(81)),
                      Print(Bin("+", Fld(V(80), "z"), Fld(V(80), "x"))),
                      DefM(85, TName("P3"), SndP3Lit("P3", <<"x", "y", "z">>, 1)), Asg("=", V(85), SndP3Lit("P3", <<"x", "y", "z">>, 2)),
                      Print(Bin("+", Fld(V(85), "z"), I(1))),
                      Print(Bin("+", Call(V(GF2), <<SndP3Lit("P3", <<"x", "y", "z">>, 0)>>), Call(V(GF2), <<V(80)>>))),
                      DefC(82, TNone, Call(V(GA), <<I(2)>>)), Print(Bin("+", Fld(V(82), "z"), I(1))),
                      DefC(83, TNone, BlobL("HP", <<FI("inner", SndP3Lit("P3", <<"x", "y", "z">>, 2)), FI("k", I(1))>>)),
                      Print(Bin("+", Fld(Fld(V(83), "inner"), "z"), Fld(V(83), "k"))),
                      DefC(84, TNone, Lst(<<SndP3Lit("P3", <<"x", "y", "z">>, 4), V(80)>>)),
                      Ex(Call(Std("for_each"), <<V(84), Fn(<<P(94, TName("P3"))>>, TVoid, <<Print(Bin("+", Fld(V(94), "z"), I(1)))>>)>>))>>)>>
    [] name = "usertypes-enum-tuple" ->
         <<DefN(GF2, "const", TNone,
                Fn(<<P(95, TName("E3"))>>, TInt,
                   <<Ex(CaseT(V(95), <<CArmB("A", 96, <<Ex(V(96))>>), CArm("B", <<Ex(I(0))>>), CArm("C", <<Ex(I(1))>>)>>))>>), "usee"),
           DefN(GA, "const", TNone, Fn(<<P(97, TInt)>>, TName("E3"), <<Ex(Var1("E3", "A", V(97)))>>), "mke3"),
           DefN(GB2, "const", TNone, Fn(<<P(98, TTuple(<<TInt, TInt, TInt>>))>>, TInt, <<Ex(Bin("+", Idx(V(98), 2), I(1)))>>), "uset"),
           StartDef(<<DefM(86, TNone, Var0("E3", "C")), Asg("=", V(86), Var1("E3", "A", I(5))),
                      Print(CaseT(V(86), <<CArmB("A", 89, <<Ex(Bin("+", V(89), I(1)))>>), CArm("B", <<Ex(I(0))>>), CArm("C", <<Ex(I(1))>>)>>)),
                      Print(CaseT(Var0("E3", "B"), <<CArmB("A", 90, <<Ex(V(90))>>), CArm("B", <<Ex(I(0))>>), CArm("C", <<Ex(I(1))>>)>>)),
                      Print(Bin("+", Call(V(GF2), <<Var1("E3", "A", I(2))>>), Call(V(GF2), <<V(86)>>))),
                      Print(Call(V(GF2), <<Call(V(GA), <<I(3)>>)>>)),
                      DefC(87, TNone, Lst(<<Var0("E3", "C"), V(86)>>)),
                      Ex(Call(Std("for_each"), <<V(87), Fn(<<P(91, TName("E3"))>>, TVoid, <<Print(Call(V(GF2), <<V(91)>>))>>)>>)),
                      DefM(88, TNone, Tup(<<I(1), I(2), I(3)>>)), Asg("=", V(88), Tup(<<I(4), I(5), I(6)>>)),
                      Print(Bin("+", Idx(V(88), 2), I(1))),
                      Print(Bin("+", Call(V(GB2), <<Tup(<<I(7), I(8), I(9)>>)>>), Call(V(GB2), <<V(88)>>)))>>)>>
    \* a blob literal with plain fields before, between and after its methods
    [] name = "methods" ->
         <<BlobD("C3", <<FD("step", TInt), FD("bump", TFn(<<TInt>>, TInt)), FD("first", TInt), FD("get", TFn(<<>>, TInt)), FD("last", TInt)>>),
           StartDef(<<DefC(76, TNone, BlobL("C3", <<FI("step", I(2)),
                                                   FI("bump", Fn(<<P(77, TInt)>>, TInt, <<Ex(Bin("+", V(77), Fld(Self, "step")))>>)),
                                                   FI("first", I(3)),
                                                   FI("get", Fn(<<>>, TInt, <<Ex(Bin("+", Fld(Self, "first"), Fld(Self, "last")))>>)),
                                                   FI("last", I(4))>>)),
                      Print(Bin("+", Bin("+", Call(Fld(V(76), "bump"), <<I(1)>>), Call(Fld(V(76), "get"), <<>>)), Fld(V(76), "first")))>>)>>
    \* one function body of every kind (global function, iife in a global initialiser, start, closure, method) and a loop body:
    \* the places where the full two-point cross P26 / P27 is inserted
    [] name = "twopoint" ->
         <<BlobD("TM", <<FD("n", TInt), FD("m", TFn(<<>>, TInt))>>),
           DefN(GF2, "const", TNone, Fn(<<P(60, TInt)>>, TInt, <<Ex(Bin("+", V(60), I(1)))>>), "gfn"),
           DefN(GA, "const", TInt, Call(Fn(<<>>, TInt, <<Ex(I(7))>>), <<>>), "gv"),
           StartDef(<<DefC(61, TNone, Fn(<<>>, TInt, <<Ex(I(2))>>)),
                      DefC(62, TNone, BlobL("TM", <<FI("n", I(1)), FI("m", Fn(<<>>, TInt, <<Ex(Fld(Self, "n"))>>))>>)),
                      DefM(63, TInt, I(0)),
                      Loop(Bin("<", V(63), I(1)), <<Asg("+=", V(63), I(1))>>),
                      Print(Bin("+", Bin("+", Call(V(GF2), <<I(1)>>), V(GA)), Bin("+", Bin("+", Call(V(61), <<>>), Call(Fld(V(62), "m"), <<>>)), V(63))))>>)>>

    \* cases WITHOUT else over enums of 2, 3 and 4 variants, as the value of a function, as an operand, in statement position;
    \* every variant reaches every case at run time
    [] name = "totality" ->
         <<DefN(GF2, "const", TNone,
                Fn(<<P(60, TName("E4"))>>, TInt,
                   <<Ex(CaseT(V(60), <<CArmB("A", 61, <<Ex(V(61))>>), CArm("B", <<Ex(I(1))>>), CArm("C", <<Ex(I(2))>>), CArm("D", <<Ex(I(3))>>)>>))>>), "use4"),
           DefN(GA, "const", TNone,
                Fn(<<P(62, TName("E3"))>>, TVoid,
                   <<Ex(CaseT(V(62), <<CArm("C", <<Print(I(30))>>), CArmB("A", 63, <<Print(Bin("+", V(63), I(1)))>>), CArm("B", <<Print(I(20))>>)>>))>>), "show3"),
           DefN(GB2, "const", TNone,
                Fn(<<P(64, TE)>>, TInt, <<Ex(Bin("+", CaseT(V(64), <<CArm("Y", <<Ex(I(5))>>), CArmB("X", 65, <<Ex(V(65))>>)>>), I(1)))>>), "use2"),
           StartDef(<<Print(Bin("+", Bin("+", Call(V(GF2), <<Var1("E4", "A", I(5))>>), Call(V(GF2), <<Var0("E4", "B")>>)),
                                Bin("+", Call(V(GF2), <<Var0("E4", "C")>>), Call(V(GF2), <<Var0("E4", "D")>>)))),
                      Ex(Call(V(GA), <<Var1("E3", "A", I(1))>>)), Ex(Call(V(GA), <<Var0("E3", "B")>>)), Ex(Call(V(GA), <<Var0("E3", "C")>>)),
                      Print(Bin("+", Call(V(GB2), <<Var1("E", "X", I(2))>>), Call(V(GB2), <<Var0("E", "Y")>>))),
                      DefM(66, TNone, Var0("E3", "B")),
                      DefC(67, TInt, CaseT(V(66), <<CArmB("A", 68, <<Ex(V(68))>>), CArm("B", <<Ex(I(7))>>), CArm("C", <<Ex(I(8))>>)>>)),
                      Print(Bin("+", V(67), I(1)))>>)>>

---------------------------------------------------------------------------
(* Bases.  A base id is [o, pos, i, h, v]: template o (or "D:<name>"), hole pos filled with template i
   (0 / "-" for none), harness h, v-th member of the set of default fillings. *)

RECURSIVE SndSetToSeq(_)
SndSetToSeq(S) == IF S = {} THEN <<>> ELSE LET x == CHOOSE y \in S : TRUE IN <<x>> \o SndSetToSeq(S \ {x})

SndExprs(o, pos, i) == IF pos = 0 THEN Instances(o, 100, 0) ELSE Nest(o, pos, i)

SndIsDedicated(bid) == SubSeq(bid.o, 1, 2) = "D:"
SndIsWhole(bid) == bid.o = "D:prelude"
SndIsDense(bid) == bid.o = "D:twopoint"

SndBaseTail(bid) ==       \* the top-level nodes that follow the Prelude
  IF SndIsDedicated(bid) THEN SndDedicated(SubSeq(bid.o, 3, Len(bid.o)))
  ELSE LET full == Harness(bid.h, SndSetToSeq(SndExprs(bid.o, bid.pos, bid.i))[bid.v], ResultType(bid.o)) IN
       SubSeq(full, Len(Prelude) + 1, Len(full))

\* The tree whose nodes are the sites of a base: the base D:prelude is perturbed everywhere (Prelude included), the
\* others outside the Prelude (the root is then the sequence of the nodes that follow it).
SndTree(bid) == IF SndIsWhole(bid) THEN SndSeqN(Prelude \o SndBaseTail(bid)) ELSE SndSeqN(SndBaseTail(bid))
SndCommon == Prelude \o SndSimilarDecls          \* what every program that is not perturbed inside the Prelude starts with
SndProgram(bid, tree) == IF SndIsWhole(bid) THEN SndSimilarDecls \o tree.ss ELSE SndCommon \o tree.ss

SndPreludeSize == SndSizeKids(Prelude, 1)     \* pre-order indices 2 .. 1 + SndPreludeSize are Prelude nodes

SndBid(o, pos, i, h, v) == [o |-> o, pos |-> pos, i |-> i, h |-> h, v |-> v]

SndDedicatedBids == {SndBid("D:" \o SndDedicatedNames[j], 0, "-", "-", 1) : j \in 1..Len(SndDedicatedNames)}
SndSingleBids ==
  UNION {{SndBid(n, 0, "-", h, v) : h \in HarnessNames(ResultType(n), UsesLocals(n)),
                                   v \in 1..Cardinality(Instances(n, 100, 0))} : n \in TemplateNames}
SndPairBids(ps) ==     \* ps: a subset of SyltGen!Pairs
  UNION {{SndBid(p[1], p[2], p[3], h, v) : h \in HarnessNames(ResultType(p[1]), UsesLocals(p[1]) \/ UsesLocals(p[3])),
                                          v \in 1..Cardinality(Nest(p[1], p[2], p[3]))} : p \in ps}

\* the perturbed program of case (bid, site s, alternative a)
SndPerturbed(bid, s, a) ==
  LET root == SndTree(bid)
      n == SndAt(root, s)
      ctx == SndCtx(root, s)
      alt == CHOOSE x \in {SndAltOf(SndAlts(n, ctx, SndIsDense(bid)), n, ctx, SndIsDense(bid), a)} : TRUE IN
  [kd |-> alt.kd, v |-> alt.v, tops |-> SndProgram(bid, SndPut(root, s, alt.n))]

---------------------------------------------------------------------------
(* Part 2: the outcome protocol *)

VARIABLES ph,        \* "init" | "started" | "rejected" | "accepted" | "running" | "ended"
          written,   \* names of globals written so far by the run
          term       \* the terminal event, "" before

pvars == <<ph, written, term>>

SndAllowedTerminals == {"done", "assert_failed", "unreachable", "resource_exhausted", "not_loadable"}

PInit == ph = "init" /\ written = {} /\ term = ""

\* Every action is `guard /\ effect` with an effect that is always possible, so ENABLED <action> is its guard (named ..G:
\* Trace_Sound asks "is the next event a step of the protocol" through the guards, without evaluating the effects again)
PStartG == ph = "init"
PCompileG == ph = "started"
PRunG == ph \in {"accepted", "running"}
PStart == PStartG /\ ph' = "started" /\ UNCHANGED <<written, term>>
PCompileErr == PCompileG /\ ph' = "rejected" /\ UNCHANGED <<written, term>>
PCompilePanic == PCompileG /\ ph' = "rejected" /\ UNCHANGED <<written, term>>       \* not accepted; C07 judges it
PCompileOk == PCompileG /\ ph' = "accepted" /\ UNCHANGED <<written, term>>
PGlobalWrite(n) == PRunG /\ ph' = "running" /\ written' = written \cup {n} /\ UNCHANGED term
\* a global is only ever read after it was written: a read of a never-written global yields nil, i.e. the program
\* reads an uninitialised or out-of-scope variable
PGlobalRead(n) == PRunG /\ n \in written /\ ph' = "running" /\ UNCHANGED <<written, term>>
\* a maximal run of consecutive global accesses taken as one step: the sequential composition of PGlobalWrite /
\* PGlobalRead over run = <<[e |-> "gw" | "gr", n |-> name], ...>>; enabled iff every read finds its name written
RECURSIVE SndFoldGlobals(_, _, _)
SndFoldGlobals(run, i, w) ==          \* [ok, w, at]: at = index of the first read of a never-written name
  IF i > Len(run) THEN [ok |-> TRUE, w |-> w, at |-> 0]
  ELSE IF run[i].e = "gw" THEN SndFoldGlobals(run, i + 1, w \cup {run[i].n})
  ELSE IF run[i].n \in w THEN SndFoldGlobals(run, i + 1, w)
  ELSE [ok |-> FALSE, w |-> w, at |-> i]
PGlobalRunG(run) == PRunG /\ SndFoldGlobals(run, 1, written).ok
PGlobalRun(run) == /\ PRunG /\ ph' = "running"
                   /\ LET r == SndFoldGlobals(run, 1, written) IN r.ok /\ written' = r.w
                   /\ UNCHANGED term
PPrint == PRunG /\ ph' = "running" /\ UNCHANGED <<written, term>>
PTerminalG(t) == PRunG /\ t \in SndAllowedTerminals
PTerminal(t) == PTerminalG(t) /\ ph' = "ended" /\ term' = t /\ UNCHANGED written

\* the property as a state invariant of the protocol
SndSound == /\ ph = "ended" => term \in SndAllowedTerminals
            /\ ph \in {"init", "started", "rejected"} => written = {} /\ term = ""
SndPhOk == ph \in {"init", "started", "rejected", "accepted", "running", "ended"}
=============================================================================
