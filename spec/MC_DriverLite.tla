---------------------------- MODULE MC_DriverLite ----------------------------
(* SyltDriver with model constants only (no ASSUMEs, no REPLAY emission): used for the strict-sink variant and for the
   three defective variants of the machine, whose invariants must fail (MC_Driver_strict.cfg, MC_Driver_faulty*.cfg). *)
EXTENDS SyltDriver
MCFalse == FALSE
MCTrue == TRUE
=============================================================================
