SPECIFICATION Spec
INVARIANTS VerdictSane
CHECK_DEADLOCK FALSE
