---------------------------- MODULE Trace_Modules ----------------------------
(***************************************************************************)
(* Trace validation for C12.  One record per configuration, recorded by    *)
(* the harness (c12) from the real compiler and minilua:                   *)
(*   p, m, v      the configuration's address; the configuration is        *)
(*                re-derived HERE (Derive) - the record only echoes the    *)
(*                import lines it wrote, which must equal the derived ones *)
(*   class        "ok" | "err" | "panic": compile result of the variant    *)
(*   prints, status   what the emitted Lua did (when class = "ok")         *)
(*   reads        <<[path, n]>>: how often the reader was asked for a path *)
(*   twins        <<[kind, class, errkind]>>: compile result of each       *)
(*                negative twin, in the order the specification lists them *)
(* UNIVERSE = "disk": the records are configurations of the disk universe  *)
(* (d.disk), each compiled from files on disk once per spelling of the     *)
(* main file (fields spelling, cwd, arg; no twins): every configuration    *)
(* must occur under all Spellings, with the (cwd, arg) the specification   *)
(* gives; the verdict is the same Whys as for the in-memory run.           *)
(* UNIVERSE = "cross": the records are exactly UniverseIds(NV, SEED),    *)
(* each once (asserted: a tool error otherwise); "part": some of them.     *)
(* Record k is validated independently.  A record that contradicts the     *)
(* universe is a tool error (Assert).  Whys(d, obs) lists what contradicts *)
(* the specification; a non-empty list prints one REJECT line.             *)
(***************************************************************************)
EXTENDS SyltModules, Json, IOUtils

MCTree == <<"main.sy", "a.sy", "exports.sy", "sub/b.sy", "sub/exports.sy", "sub/deep/c.sy">>
MCTreeB == <<"main.sy", "geometry/math.sy", "util/list.sy", "set/b.sy", "sub/dict/c.sy", "vendor/set/exports.sy">>
MCProgsA == {1, 2, 3, 4}
MCProgsB == {1, 5}

VARIABLES k, d, st
tvars == <<k, d, st>>

Rec == ndJsonDeserialize(IOEnv.TRACE)
N == Len(Rec)
Universe == IOEnv.UNIVERSE
NV == IF "NV" \in DOMAIN IOEnv THEN atoi(IOEnv.NV) ELSE 1          \* variants per placement
Seed == IF "SEED" \in DOMAIN IOEnv THEN atoi(IOEnv.SEED) ELSE 1

RecIds == {<<Rec[j].p, Rec[j].m, Rec[j].v>> : j \in 1..N}
ASSUME Universe = "disk" =>
    /\ Assert(Cardinality({<<Rec[j].p, Rec[j].m, Rec[j].v, Rec[j].spelling>> : j \in 1..N}) = N, <<"duplicate disk records", N>>)
    /\ Assert(N = Len(Spellings) * Cardinality(RecIds), <<"a configuration is not recorded under every spelling", N, Cardinality(RecIds)>>)
ASSUME Universe = "cross" =>
    /\ Assert(Cardinality(RecIds) = N, <<"duplicate records", N, Cardinality(RecIds)>>)
    /\ Assert(RecIds = UniverseIds(NV, Seed), <<"the trace does not cover the universe", N, Cardinality(UniverseIds(NV, Seed))>>)

WellFormed(j, c) ==
    LET r == Rec[j] IN
    /\ Assert(r.lines = [q \in DOMAIN c.files |-> c.files[q].lines], <<"import lines differ from the derived configuration", j>>)
    /\ IF Universe = "disk"
       THEN /\ Assert(c.disk /\ r.twins = <<>>, <<"record outside the disk universe", j>>)
            /\ Assert(r.spelling \in Range(Spellings) /\ r.cwd = SpellingOf(r.spelling).cwd /\ r.arg = SpellingOf(r.spelling).arg,
                      <<"main file not spelled as the specification says", j>>)
       ELSE Assert(Len(r.twins) = Len(c.twins) /\ \A q \in DOMAIN r.twins : r.twins[q].kind = c.twins[q].kind,
                   <<"twins differ from the derived configuration", j>>)
    /\ Assert(r.class \in {"ok", "err", "panic"} /\ \A q \in DOMAIN r.twins : r.twins[q].class \in {"ok", "err", "panic"},
              <<"malformed observation", j>>)
    \* a twin must be rejected because a name is not visible, never because its text is not Sylt
    /\ Assert(\A q \in DOMAIN r.twins : r.twins[q].errkind # "syntax", <<"a twin is syntactically wrong (generator defect)", j>>)

TraceInit ==
    /\ k \in 1..N
    /\ Assert(Rec[k].p \in ProgSet /\ Applicable(Rec[k].p, Rec[k].m) /\ Rec[k].v \in 0..(NVariants - 1),
              <<"record outside the universe", k>>)
    /\ d = Derive(Rec[k].p, Rec[k].m, Rec[k].v)
    /\ WellFormed(k, d)
    /\ st = "run"

TraceJudge ==
    /\ st = "run"
    /\ LET w == Whys(d, Rec[k]) IN
       IF w = {} THEN st' = "ok"
       ELSE st' = "fail" /\ PrintT(<<"REJECT", ToJson([rec |-> k, whys |-> w])>>)
    /\ UNCHANGED <<k, d>>

TraceNext == TraceJudge
TraceSpec == TraceInit /\ [][TraceNext]_tvars

\* the specification's own invariants hold for every re-derived configuration; an accepted record really conforms
TraceInv ==
    \* (in a "cross" run MC_Modules has just checked ConfigOK for exactly these configurations: not repeated)
    /\ (st = "run" /\ Universe # "cross") => ConfigOK(d)
    /\ st = "ok" => /\ Rec[k].class = "ok" /\ Rec[k].prints = Expected[d.p].prints /\ Rec[k].status = "done"
                    /\ \A f \in Range(d.load) : ReadCount(Rec[k], f) = 1
                    /\ \A f \in Range(Tree) \ Range(d.load) : ReadCount(Rec[k], f) = 0
                    /\ \A q \in DOMAIN Rec[k].twins : Rec[k].twins[q].class = "err"
=============================================================================
