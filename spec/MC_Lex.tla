------------------------------- MODULE MC_Lex -------------------------------
EXTENDS SyltLex
\* the 18 characters of round 1 plus one stand-in per class of characters outside the token alphabet
MCAlphabet == <<"a", "e", "1", ".", "\"", "/", "\n", " ", "\t", "-", ">", "<", "=", "!", ":", "'", "+", "@",
                "%", "^", "~", "`", "&", ";", "$">>
=============================================================================
