SPECIFICATION DiagSpec
CONSTANTS
  Alphabet <- MCAlphabet
  MaxLen = 0
INVARIANTS LineAgrees ColSane SampleLineOK
CHECK_DEADLOCK FALSE
