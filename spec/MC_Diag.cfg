SPECIFICATION DiagSpec
CONSTANTS
  Alphabet <- MCAlphabet
  MaxLen = 0
INVARIANTS LineAgrees PrevNLAgrees ColSane SampleLineOK
CHECK_DEADLOCK FALSE
