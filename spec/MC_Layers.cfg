SPECIFICATION Spec
CONSTANTS
  Tree <- MCTreeL
  ProgSet <- MCNoProgs
INVARIANTS ConfigInvL
CHECK_DEADLOCK FALSE
