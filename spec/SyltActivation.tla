--------------------------- MODULE SyltActivation ---------------------------
(***************************************************************************)
(* Target-level activation discipline (property C10).                      *)
(*                                                                         *)
(* A trace-only specification over the event log of the EMITTED Lua        *)
(* running in the interpreter:                                             *)
(*   Enter(act, parent)   a Lua function is entered: fresh activation id   *)
(*   Exit(act)            it returns (or is unwound)                       *)
(*   GWrite(act, name)    activation act assigns the global `name`         *)
(*   GRead(act, name)     activation act reads the global `name`           *)
(*   Closure(act)         activation act creates a closure                 *)
(* where `name` ranges over the compiler's temporaries that ended up as    *)
(* Lua GLOBALS (V<n> assigned without `local`).  Such a name is one shared *)
(* cell for all activations, so the property "each call evaluates with its *)
(* own temporaries" holds iff no activation ever READS a value another     *)
(* activation WROTE there:                                                 *)
(*                                                                         *)
(*   NoInterference:  at every GRead(a, n), the last write of n was made   *)
(*                    by a itself                                          *)
(*                                                                         *)
(* - also when the clobbered value happens to be equal and no print shows  *)
(* the difference.  Names only ever written by the main chunk (activation  *)
(* 0: the `V<n> = print` bindings of externals) are constants and exempt.  *)
(* Stack discipline (Enter/Exit well nested, the running activation is the *)
(* one on top) is checked too: it is what makes "activation" meaningful.   *)
(***************************************************************************)
EXTENDS Naturals, Sequences, FiniteSets, TLC

VARIABLES stack,      \* sequence of activation ids, main chunk = 0 at the bottom
          lastWrite,  \* name -> activation that wrote it last
          writers,    \* name -> set of activations that ever wrote it
          bad         \* set of [name, reader, writer] interferences seen so far

actvars == <<stack, lastWrite, writers, bad>>

Top == stack[Len(stack)]

ActInit == /\ stack = <<0>>
           /\ lastWrite = <<>>
           /\ writers = <<>>
           /\ bad = {}

Enter(a, parent) ==
    /\ parent = Top                       \* only the running activation can call
    /\ \A i \in 1..Len(stack) : stack[i] # a
    /\ stack' = Append(stack, a)
    /\ UNCHANGED <<lastWrite, writers, bad>>

Exit(a) ==
    /\ Len(stack) > 1 /\ Top = a
    /\ stack' = SubSeq(stack, 1, Len(stack) - 1)
    /\ UNCHANGED <<lastWrite, writers, bad>>

GWrite(a, n) ==
    /\ a = Top
    /\ lastWrite' = (n :> a) @@ lastWrite
    /\ writers' = (n :> ((IF n \in DOMAIN writers THEN writers[n] ELSE {}) \cup {a})) @@ writers
    /\ UNCHANGED <<stack, bad>>

Constant(n) == n \in DOMAIN writers /\ writers[n] = {0}

GRead(a, n) ==
    /\ a = Top
    /\ bad' = IF n \in DOMAIN lastWrite /\ lastWrite[n] # a /\ ~Constant(n)
              THEN bad \cup {[name |-> n, reader |-> a, writer |-> lastWrite[n]]}
              ELSE bad
    /\ UNCHANGED <<stack, lastWrite, writers>>

Closure(a) == a = Top /\ UNCHANGED actvars

NoInterference == bad = {}

StackOk == /\ Len(stack) >= 1 /\ stack[1] = 0
           /\ \A i, j \in 1..Len(stack) : i # j => stack[i] # stack[j]
=============================================================================
