----------------------------- MODULE SyltValues -----------------------------
(***************************************************************************)
(* Value domain of the Sylt dynamic semantics (C01, C02, C10, C11, C12,    *)
(* C19): tagged records, structural equality, the lexicographic order,     *)
(* element-wise arithmetic, dyadic floats.                                 *)
(*                                                                         *)
(*  int    [k |-> "int",   v |-> n]                                        *)
(*  float  [k |-> "float", n |-> numerator, d |-> exponent]  = n / 2^d,    *)
(*         normalised (n odd or d = 0); only dyadic rationals exist in the *)
(*         model; an operation whose result is not dyadic is "inexact"     *)
(*  str    [k |-> "str",   v |-> s]     bool [k |-> "bool", v |-> b]       *)
(*  nil    [k |-> "nil"]   (also the value of `void` expressions)          *)
(*  tuple  [k |-> "tuple", es |-> <<..>>]   (immutable)                    *)
(*  ref    [k |-> "ref",   a |-> address]   (lists and blobs live on heap) *)
(*  variant[k |-> "variant", tag |-> s, val |-> value]                     *)
(*  clo    [k |-> "clo",   fn |-> function AST, env |-> frame address]     *)
(*  builtin[k |-> "builtin", name |-> s]                                   *)
(* Heap objects: [k |-> "frame", vars, parent], [k |-> "list", items],     *)
(*               [k |-> "blob", fields], [k |-> "set", items] (no two      *)
(*               members StructEq), [k |-> "dict", keys, vals] (parallel   *)
(*               sequences, no two keys StructEq)                          *)
(***************************************************************************)
EXTENDS Naturals, Integers, Sequences, FiniteSets, TLC

IntV(n)   == [k |-> "int", v |-> n]
StrV(s)   == [k |-> "str", v |-> s]
BoolV(b)  == [k |-> "bool", v |-> b]
NilV      == [k |-> "nil"]
TupleV(es) == [k |-> "tuple", es |-> es]
RefV(a)   == [k |-> "ref", a |-> a]
VariantV(tag, val) == [k |-> "variant", tag |-> tag, val |-> val]
CloV(fn, env) == [k |-> "clo", fn |-> fn, env |-> env]
BuiltinV(name) == [k |-> "builtin", name |-> name]

RECURSIVE Pow2(_)
Pow2(e) == IF e = 0 THEN 1 ELSE 2 * Pow2(e - 1)

Abs(n) == IF n < 0 THEN 0 - n ELSE n

\* normalise n / 2^d
RECURSIVE NormF(_, _)
NormF(n, d) == IF d > 0 /\ n % 2 = 0 THEN NormF(n \div 2, d - 1) ELSE [k |-> "float", n |-> n, d |-> d]
FloatV(n, d) == NormF(n, d)

\* numeric model limits: outside them a case is dropped, never judged
MaxMag == 1000000
MaxExp == 10
InModel(v) == CASE v.k = "int" -> Abs(v.v) < MaxMag
                [] v.k = "float" -> Abs(v.n) < MaxMag /\ v.d <= MaxExp
                [] OTHER -> TRUE

IsNum(v) == v.k \in {"int", "float"}
\* a number as a pair <<n, d>> meaning n / 2^d
AsF(v) == IF v.k = "int" THEN <<v.v, 0>> ELSE <<v.n, v.d>>
\* bring two dyadics to a common exponent: <<n1, n2, d>>
Common(a, b) == IF a[2] >= b[2] THEN <<a[1], b[1] * Pow2(a[2] - b[2]), a[2]>>
                ELSE <<a[1] * Pow2(b[2] - a[2]), b[1], b[2]>>

NumLt(a, b) == LET c == Common(AsF(a), AsF(b)) IN c[1] < c[2]
NumEq(a, b) == LET c == Common(AsF(a), AsF(b)) IN c[1] = c[2]

OddPart(n) == LET RECURSIVE O(_)
                  O(m) == IF m % 2 = 0 /\ m # 0 THEN O(m \div 2) ELSE m
              IN O(n)
TwoExp(n) == LET RECURSIVE T(_)
                 T(m) == IF m % 2 = 0 /\ m # 0 THEN 1 + T(m \div 2) ELSE 0
             IN T(n)

(* Arithmetic on numbers. Result: a value, or [k |-> "err", why] *)
Err(why) == [k |-> "err", why |-> why]
IsErr(v) == v.k = "err"

\* a product that would overflow TLC's 32-bit integers is (far) beyond the model limit MaxMag: outside the model
MulTooBig(x, y) == x # 0 /\ Abs(y) > 2000000000 \div Abs(x)

NumArith(op, a, b) ==
    IF op = "*" /\ MulTooBig(AsF(a)[1], AsF(b)[1]) THEN Err("drop:magnitude")
    ELSE IF a.k = "int" /\ b.k = "int" /\ op # "/"
    THEN CASE op = "+" -> IntV(a.v + b.v)
           [] op = "-" -> IntV(a.v - b.v)
           [] op = "*" -> IntV(a.v * b.v)
    ELSE LET x == AsF(a)  y == AsF(b) IN
      CASE op \in {"+", "-"} ->
             LET c == Common(x, y) IN FloatV(IF op = "+" THEN c[1] + c[2] ELSE c[1] - c[2], c[3])
        [] op = "*" -> FloatV(x[1] * y[1], x[2] + y[2])
        [] op = "/" ->
             IF y[1] = 0 THEN Err("drop:div-by-zero")
             ELSE LET sgn == IF y[1] < 0 THEN 0 - 1 ELSE 1
                      yn == Abs(y[1])
                      o == OddPart(yn)
                      t == TwoExp(yn) IN
                  IF (x[1] % o) # 0 THEN Err("drop:inexact")
                  ELSE \* (x1/2^x2) / (o*2^t/2^y2) = (x1/o) * 2^y2 / 2^(x2+t)
                       FloatV(sgn * (x[1] \div o) * Pow2(y[2]), x[2] + t)

CharCode(c) == CASE c = "a" -> 1 [] c = "b" -> 2 [] c = "c" -> 3 [] c = "d" -> 4 [] c = "x" -> 24 [] c = "y" -> 25
                 [] c = " " -> 0 [] OTHER -> 30
RECURSIVE StrLt(_, _)
StrLt(s, t) == IF Len(t) = 0 THEN FALSE
               ELSE IF Len(s) = 0 THEN TRUE
               ELSE LET a == CharCode(SubSeq(s, 1, 1))  b == CharCode(SubSeq(t, 1, 1)) IN
                    IF a # b THEN a < b ELSE StrLt(SubSeq(s, 2, Len(s)), SubSeq(t, 2, Len(t)))

(* Structural equality; `heap` resolves references *)
RECURSIVE StructEq(_, _, _)
StructEq(a, b, heap) ==
    IF IsNum(a) /\ IsNum(b) THEN NumEq(a, b)
    ELSE IF a.k # b.k THEN FALSE
    ELSE CASE a.k = "str" -> a.v = b.v
           [] a.k = "bool" -> a.v = b.v
           [] a.k = "nil" -> TRUE
           [] a.k = "tuple" -> /\ Len(a.es) = Len(b.es)
                               /\ \A i \in 1..Len(a.es) : StructEq(a.es[i], b.es[i], heap)
           [] a.k = "variant" -> a.tag = b.tag /\ StructEq(a.val, b.val, heap)
           [] a.k = "ref" ->
                IF a.a = b.a THEN TRUE
                ELSE LET x == heap[a.a]  y == heap[b.a] IN
                  IF x.k # y.k THEN FALSE
                  ELSE IF x.k = "list"
                    THEN /\ Len(x.items) = Len(y.items)
                         /\ \A i \in 1..Len(x.items) : StructEq(x.items[i], y.items[i], heap)
                    ELSE IF x.k = "set"     \* same members (members are unique within a set)
                    THEN /\ Len(x.items) = Len(y.items)
                         /\ \A i \in 1..Len(x.items) : \E j \in 1..Len(y.items) : StructEq(x.items[i], y.items[j], heap)
                    ELSE IF x.k = "dict"    \* same keys (unique within a dict), equal values
                    THEN /\ Len(x.keys) = Len(y.keys)
                         /\ \A i \in 1..Len(x.keys) : \E j \in 1..Len(y.keys) :
                               StructEq(x.keys[i], y.keys[j], heap) /\ StructEq(x.vals[i], y.vals[j], heap)
                    ELSE /\ DOMAIN x.fields = DOMAIN y.fields
                         /\ \A f \in DOMAIN x.fields : StructEq(x.fields[f], y.fields[f], heap)
           [] a.k = "clo" -> a.env = b.env /\ a.fn = b.fn
           [] a.k = "builtin" -> a.name = b.name

(* The one order: numbers, strings, tuples lexicographically. Returns "lt" | "eq" | "gt" | "bad" *)
RECURSIVE Cmp3(_, _, _)
Cmp3(a, b, heap) ==
    IF IsNum(a) /\ IsNum(b) THEN (IF NumLt(a, b) THEN "lt" ELSE IF NumEq(a, b) THEN "eq" ELSE "gt")
    ELSE IF a.k = "str" /\ b.k = "str" THEN (IF a.v = b.v THEN "eq" ELSE IF StrLt(a.v, b.v) THEN "lt" ELSE "gt")
    ELSE IF a.k = "tuple" /\ b.k = "tuple" /\ Len(a.es) = Len(b.es)
      THEN LET RECURSIVE Lex(_)
               Lex(i) == IF i > Len(a.es) THEN "eq"
                         ELSE LET c == Cmp3(a.es[i], b.es[i], heap) IN IF c = "eq" THEN Lex(i + 1) ELSE c
           IN Lex(1)
    ELSE "bad"

(* + - * / on values: numbers, strings (+), tuples element-wise, tuple / number *)
RECURSIVE Arith(_, _, _)
Arith(op, a, b) ==
    IF IsNum(a) /\ IsNum(b) THEN NumArith(op, a, b)
    ELSE IF a.k = "str" /\ b.k = "str" /\ op = "+" THEN StrV(a.v \o b.v)
    ELSE IF a.k = "tuple" /\ b.k = "tuple" /\ Len(a.es) = Len(b.es)
      THEN LET rs == [i \in 1..Len(a.es) |-> Arith(op, a.es[i], b.es[i])] IN
           IF \E i \in 1..Len(rs) : IsErr(rs[i])
           THEN rs[CHOOSE i \in 1..Len(rs) : IsErr(rs[i])]
           ELSE TupleV(rs)
    ELSE IF a.k = "tuple" /\ IsNum(b) /\ op = "/"
      THEN LET rs == [i \in 1..Len(a.es) |-> Arith(op, a.es[i], b)] IN
           IF \E i \in 1..Len(rs) : IsErr(rs[i])
           THEN rs[CHOOSE i \in 1..Len(rs) : IsErr(rs[i])]
           ELSE TupleV(rs)
    ELSE Err("stuck:arith-" \o a.k \o "-" \o b.k)

RECURSIVE Negate(_)
Negate(a) == CASE a.k = "int" -> IntV(0 - a.v)
               [] a.k = "float" -> FloatV(0 - a.n, a.d)
               [] a.k = "tuple" -> TupleV([i \in 1..Len(a.es) |-> Negate(a.es[i])])
               [] OTHER -> Err("stuck:neg-" \o a.k)

(* A heap-free snapshot of a value, as `print` shows it *)
RECURSIVE Render(_, _, _)
Render(v, heap, depth) ==
    IF depth = 0 THEN [k |-> "deep"]
    ELSE CASE v.k = "tuple" -> [k |-> "tuple", es |-> [i \in 1..Len(v.es) |-> Render(v.es[i], heap, depth - 1)]]
           [] v.k = "variant" -> [k |-> "variant", tag |-> v.tag, val |-> Render(v.val, heap, depth - 1)]
           [] v.k = "ref" -> LET o == heap[v.a] IN
                IF o.k = "list"
                THEN [k |-> "list", es |-> [i \in 1..Len(o.items) |-> Render(o.items[i], heap, depth - 1)]]
                ELSE IF o.k = "set"
                THEN [k |-> "set", es |-> [i \in 1..Len(o.items) |-> Render(o.items[i], heap, depth - 1)]]
                ELSE IF o.k = "dict"
                THEN [k |-> "dict", ks |-> [i \in 1..Len(o.keys) |-> Render(o.keys[i], heap, depth - 1)],
                                    vs |-> [i \in 1..Len(o.vals) |-> Render(o.vals[i], heap, depth - 1)]]
                ELSE [k |-> "blob"]
           [] v.k = "clo" -> [k |-> "fn"]
           [] v.k = "builtin" -> [k |-> "fn"]
           [] OTHER -> v

(***************************************************************************)
(* The TEXT `print` / `as_str` show for a snapshot (DESIGN 7.1): ints in   *)
(* decimal, floats as Lua 5.3 writes them ("%.14g", ".0" appended to whole *)
(* numbers), strings bare, (a, b) / (a,) / (), [a, b], `Tag payload`,      *)
(* `dict {k: v}`, `set {x}`.  Some snapshots have no text the language     *)
(* fixes (blobs: field order; functions: an address; containers without    *)
(* order holding two or more entries; floats needing more than 14          *)
(* significant digits; values nested deeper than Render looks):            *)
(* Printable is FALSE for them and whoever asks drops the case.            *)
(***************************************************************************)
NumDigits(n) == LET RECURSIVE D(_)
                    D(m) == IF m < 10 THEN 1 ELSE 1 + D(m \div 10)
                IN D(n)

FloatPrintable(n, d) == LET ip == Abs(n) \div Pow2(d) IN ip = 0 \/ NumDigits(ip) + d <= 14

FloatText(n, d) ==
    LET p == Pow2(d)
        a == Abs(n)
        RECURSIVE Frac(_)
        Frac(r) == IF r = 0 THEN "" ELSE ToString((r * 10) \div p) \o Frac((r * 10) % p)
    IN (IF n < 0 THEN "-" ELSE "") \o ToString(a \div p) \o "." \o (IF a % p = 0 THEN "0" ELSE Frac(a % p))

RECURSIVE Printable(_)
Printable(r) ==
    CASE r.k \in {"int", "str", "bool", "nil"} -> TRUE
      [] r.k = "float" -> FloatPrintable(r.n, r.d)
      [] r.k \in {"tuple", "list"} -> \A i \in 1..Len(r.es) : Printable(r.es[i])
      [] r.k = "variant" -> Printable(r.val)
      [] r.k = "set" -> Len(r.es) <= 1 /\ \A i \in 1..Len(r.es) : Printable(r.es[i])
      [] r.k = "dict" -> Len(r.ks) <= 1 /\ \A i \in 1..Len(r.ks) : Printable(r.ks[i]) /\ Printable(r.vs[i])
      [] OTHER -> FALSE        \* blob, fn, deep

RECURSIVE SnapText(_)
SnapText(r) ==
    LET RECURSIVE Join(_, _)
        Join(es, i) == IF i > Len(es) THEN ""
                       ELSE (IF i > 1 THEN ", " ELSE "") \o SnapText(es[i]) \o Join(es, i + 1)
    IN CASE r.k = "int" -> ToString(r.v)
         [] r.k = "float" -> FloatText(r.n, r.d)
         [] r.k = "str" -> r.v
         [] r.k = "bool" -> (IF r.v THEN "true" ELSE "false")
         [] r.k = "nil" -> "nil"
         [] r.k = "tuple" -> IF Len(r.es) = 1 THEN "(" \o SnapText(r.es[1]) \o ",)" ELSE "(" \o Join(r.es, 1) \o ")"
         [] r.k = "list" -> "[" \o Join(r.es, 1) \o "]"
         [] r.k = "variant" -> r.tag \o " " \o SnapText(r.val)
         [] r.k = "set" -> "set {" \o Join(r.es, 1) \o "}"
         [] r.k = "dict" -> "dict {" \o (IF Len(r.ks) = 0 THEN "" ELSE SnapText(r.ks[1]) \o ": " \o SnapText(r.vs[1])) \o "}"
         [] OTHER -> "<unprintable:" \o r.k \o ">"
=============================================================================
