----------------------------- MODULE SyltValues -----------------------------
(***************************************************************************)
(* Value domain of the Sylt dynamic semantics (C01, C02, C10, C11, C12,    *)
(* C19): tagged records, structural equality, the lexicographic order,     *)
(* element-wise arithmetic, dyadic floats.                                 *)
(*                                                                         *)
(*  int    [k |-> "int",   v |-> n]                                        *)
(*  float  [k |-> "float", n |-> numerator, d |-> exponent]  = n / 2^d,    *)
(*         normalised (n odd or d = 0); only dyadic rationals exist in the *)
(*         model; an operation whose result is not dyadic is "inexact"     *)
(*  str    [k |-> "str",   v |-> s]     bool [k |-> "bool", v |-> b]       *)
(*  nil    [k |-> "nil"]   (also the value of `void` expressions)          *)
(*  tuple  [k |-> "tuple", es |-> <<..>>]   (immutable)                    *)
(*  ref    [k |-> "ref",   a |-> address]   (lists and blobs live on heap) *)
(*  variant[k |-> "variant", tag |-> s, val |-> value]                     *)
(*  clo    [k |-> "clo",   fn |-> function AST, env |-> frame address]     *)
(*  builtin[k |-> "builtin", name |-> s]                                   *)
(* Numbers beyond the small model (numeric-limits dimension of C01):       *)
(*  i64    [k |-> "i64", w |-> 8 bytes]  a 64-bit two's-complement int     *)
(*         (SyltNum64) whose magnitude is >= MaxMag; smaller results are   *)
(*         always the kind "int", so every int has ONE representation      *)
(*  fbig   [k |-> "fbig", n |-> odd, e |-> >= 1]  the float n * 2^e, too    *)
(*         large for the kind "float", below 2^1024                        *)
(*  fx     [k |-> "fx", v |-> "inf" | "ninf" | "nan" | "nzero"]            *)
(*         the IEEE-754 values without a finite magnitude, and -0.0        *)
(* Heap objects: [k |-> "frame", vars, parent], [k |-> "list", items],     *)
(*               [k |-> "blob", fields], [k |-> "set", items] (no two      *)
(*               members StructEq), [k |-> "dict", keys, vals] (parallel   *)
(*               sequences, no two keys StructEq)                          *)
(***************************************************************************)
EXTENDS Naturals, Integers, Sequences, FiniteSets, TLC, SyltNum64

IntV(n)   == [k |-> "int", v |-> n]
StrV(s)   == [k |-> "str", v |-> s]
BoolV(b)  == [k |-> "bool", v |-> b]
NilV      == [k |-> "nil"]
TupleV(es) == [k |-> "tuple", es |-> es]
RefV(a)   == [k |-> "ref", a |-> a]
VariantV(tag, val) == [k |-> "variant", tag |-> tag, val |-> val]
CloV(fn, env) == [k |-> "clo", fn |-> fn, env |-> env]
BuiltinV(name) == [k |-> "builtin", name |-> name]

RECURSIVE Pow2(_)
Pow2(e) == IF e = 0 THEN 1 ELSE 2 * Pow2(e - 1)

Abs(n) == IF n < 0 THEN 0 - n ELSE n

\* normalise n / 2^d
RECURSIVE NormF(_, _)
NormF(n, d) == IF d > 0 /\ n % 2 = 0 THEN NormF(n \div 2, d - 1) ELSE [k |-> "float", n |-> n, d |-> d]
FloatV(n, d) == NormF(n, d)

\* numeric model limits: outside them a case is dropped, never judged
MaxMag == 1000000
MaxExp == 10
InModel(v) == CASE v.k = "int" -> Abs(v.v) < MaxMag
                [] v.k = "float" -> Abs(v.n) < MaxMag /\ v.d <= MaxExp
                [] OTHER -> TRUE

IsNum(v) == v.k \in {"int", "float"}
\* a number as a pair <<n, d>> meaning n / 2^d
AsF(v) == IF v.k = "int" THEN <<v.v, 0>> ELSE <<v.n, v.d>>
\* bring two dyadics to a common exponent: <<n1, n2, d>>
Common(a, b) == IF a[2] >= b[2] THEN <<a[1], b[1] * Pow2(a[2] - b[2]), a[2]>>
                ELSE <<a[1] * Pow2(b[2] - a[2]), b[1], b[2]>>

NumLt(a, b) == LET c == Common(AsF(a), AsF(b)) IN c[1] < c[2]
NumEq(a, b) == LET c == Common(AsF(a), AsF(b)) IN c[1] = c[2]

OddPart(n) == LET RECURSIVE O(_)
                  O(m) == IF m % 2 = 0 /\ m # 0 THEN O(m \div 2) ELSE m
              IN O(n)
TwoExp(n) == LET RECURSIVE T(_)
                 T(m) == IF m % 2 = 0 /\ m # 0 THEN 1 + T(m \div 2) ELSE 0
             IN T(n)

(* Arithmetic on numbers. Result: a value, or [k |-> "err", why] *)
Err(why) == [k |-> "err", why |-> why]
IsErr(v) == v.k = "err"

\* a product that would overflow TLC's 32-bit integers is (far) beyond the model limit MaxMag: outside the model
MulTooBig(x, y) == x # 0 /\ Abs(y) > 2000000000 \div Abs(x)

NegZero == [k |-> "fx", v |-> "nzero"]

NumArith(op, a, b) ==
    IF op = "*" /\ MulTooBig(AsF(a)[1], AsF(b)[1]) THEN Err("drop:magnitude")
    ELSE IF a.k = "int" /\ b.k = "int" /\ op # "/"
    THEN CASE op = "+" -> IntV(a.v + b.v)
           [] op = "-" -> IntV(a.v - b.v)
           [] op = "*" -> IntV(a.v * b.v)
    ELSE LET x == AsF(a)  y == AsF(b) IN
      CASE op \in {"+", "-"} ->
             LET c == Common(x, y) IN FloatV(IF op = "+" THEN c[1] + c[2] ELSE c[1] - c[2], c[3])
        [] op = "*" -> IF x[1] * y[1] = 0 /\ ((x[1] < 0) # (y[1] < 0)) THEN NegZero      \* 0.0 * -1.5 = -0.0
                       ELSE FloatV(x[1] * y[1], x[2] + y[2])
        [] op = "/" ->
             IF y[1] = 0 THEN Err("drop:div-by-zero")
             ELSE IF x[1] = 0 /\ y[1] < 0 THEN NegZero                               \* 0.0 / -2.0 = -0.0
             ELSE LET sgn == IF y[1] < 0 THEN 0 - 1 ELSE 1
                      yn == Abs(y[1])
                      o == OddPart(yn)
                      t == TwoExp(yn) IN
                  IF (x[1] % o) # 0 THEN Err("drop:inexact")
                  ELSE \* (x1/2^x2) / (o*2^t/2^y2) = (x1/o) * 2^y2 / 2^(x2+t)
                       FloatV(sgn * (x[1] \div o) * Pow2(y[2]), x[2] + t)

(***************************************************************************)
(* Numbers beyond the small model.  Ints: 64-bit words, arithmetic modulo  *)
(* 2^64 (what Sylt's ints - Lua 5.3 integers - do at their limits).        *)
(* Floats: IEEE-754 doubles restricted to values m * 2^x with |m| < MaxMag *)
(* (every such value below 2^1024 is exactly representable, so + - * never *)
(* round here; a result that would need rounding is "drop:inexact"), plus  *)
(* the infinities, NaN and -0.0 with the IEEE rules for them.              *)
(***************************************************************************)
I64V(w) == [k |-> "i64", w |-> w]
NxInt(w) == IF Fits24(w) /\ Abs(Small64(w)) < MaxMag THEN IntV(Small64(w)) ELSE I64V(w)
NxWord(v) == IF v.k = "int" THEN FromInt64(v.v) ELSE v.w
IsIntish(v) == v.k \in {"int", "i64"}

FxV(s) == [k |-> "fx", v |-> s]
FBigV(n, e) == [k |-> "fbig", n |-> n, e |-> e]
IsFloatish(v) == v.k \in {"float", "fbig", "fx"}
IsNxNum(v) == v.k \in {"i64", "fbig", "fx"}

NxClass(v) == CASE v.k = "fx" -> (IF v.v = "nan" THEN "nan" ELSE IF v.v = "nzero" THEN "zero" ELSE "inf")
                [] v.k = "float" -> (IF v.n = 0 THEN "zero" ELSE "fin")
                [] v.k = "fbig" -> "fin"
NxNegative(v) == CASE v.k = "fx" -> v.v \in {"ninf", "nzero"}
                   [] OTHER -> v.n < 0
\* a finite non-zero float as <<m, x>> = m * 2^x
NxMX(v) == IF v.k = "float" THEN <<v.n, 0 - v.d>> ELSE <<v.n, v.e>>
NxZero(neg) == IF neg THEN NegZero ELSE [k |-> "float", n |-> 0, d |-> 0]
NxInfV(neg) == IF neg THEN FxV("ninf") ELSE FxV("inf")
BitLen(n) == LET RECURSIVE L(_)
                 L(m) == IF m = 0 THEN 0 ELSE 1 + L(m \div 2)
             IN L(Abs(n))

\* the float m * 2^x (m # 0) in canonical form: overflow gives an infinity
NxFin(m, x) ==
    LET o == OddPart(m)
        y == x + TwoExp(m)
        a == Abs(o) IN
    IF y >= 1024 \/ (y > 993 /\ a >= Pow2(1024 - y)) THEN NxInfV(o < 0)
    ELSE IF y < 0 - 1074 THEN Err("drop:inexact")
    ELSE IF a >= MaxMag THEN Err("drop:magnitude")
    ELSE IF y <= 0 THEN (IF 0 - y <= MaxExp THEN [k |-> "float", n |-> o, d |-> 0 - y] ELSE Err("drop:magnitude"))
    ELSE IF y <= 20 /\ a <= (MaxMag - 1) \div Pow2(y) THEN [k |-> "float", n |-> o * Pow2(y), d |-> 0]
    ELSE FBigV(o, y)

NxFNeg(a) == CASE a.k = "fx" -> (CASE a.v = "inf" -> FxV("ninf") [] a.v = "ninf" -> FxV("inf")
                                   [] a.v = "nzero" -> NxZero(FALSE) [] a.v = "nan" -> a)
               [] a.k = "float" -> (IF a.n = 0 THEN NegZero ELSE [a EXCEPT !.n = 0 - a.n])
               [] a.k = "fbig" -> [a EXCEPT !.n = 0 - a.n]

NxFMul(a, b) ==
    LET ca == NxClass(a)  cb == NxClass(b)  neg == NxNegative(a) # NxNegative(b) IN
    IF ca = "nan" \/ cb = "nan" THEN FxV("nan")
    ELSE IF (ca = "inf" /\ cb = "zero") \/ (ca = "zero" /\ cb = "inf") THEN FxV("nan")
    ELSE IF ca = "inf" \/ cb = "inf" THEN NxInfV(neg)
    ELSE IF ca = "zero" \/ cb = "zero" THEN NxZero(neg)
    ELSE LET x == NxMX(a)  y == NxMX(b) IN
         IF MulTooBig(x[1], y[1]) THEN Err("drop:magnitude") ELSE NxFin(x[1] * y[1], x[2] + y[2])

NxFDiv(a, b) ==
    LET ca == NxClass(a)  cb == NxClass(b)  neg == NxNegative(a) # NxNegative(b) IN
    IF ca = "nan" \/ cb = "nan" THEN FxV("nan")
    ELSE IF (ca = "inf" /\ cb = "inf") \/ (ca = "zero" /\ cb = "zero") THEN FxV("nan")
    ELSE IF ca = "inf" THEN NxInfV(neg)
    ELSE IF cb = "inf" THEN NxZero(neg)
    ELSE IF cb = "zero" THEN Err("drop:div-by-zero")
    ELSE IF ca = "zero" THEN NxZero(neg)
    ELSE LET x == NxMX(a)  y == NxMX(b)
             o == Abs(OddPart(y[1])) IN
         IF (x[1] % o) # 0 THEN Err("drop:inexact")
         ELSE NxFin((IF y[1] < 0 THEN 0 - 1 ELSE 1) * (x[1] \div o), x[2] - y[2] - TwoExp(y[1]))

NxFAdd(a, b) ==
    LET ca == NxClass(a)  cb == NxClass(b) IN
    IF ca = "nan" \/ cb = "nan" THEN FxV("nan")
    ELSE IF ca = "inf" /\ cb = "inf" THEN (IF NxNegative(a) = NxNegative(b) THEN a ELSE FxV("nan"))
    ELSE IF ca = "inf" THEN a
    ELSE IF cb = "inf" THEN b
    ELSE IF ca = "zero" /\ cb = "zero" THEN NxZero(NxNegative(a) /\ NxNegative(b))
    ELSE IF ca = "zero" THEN b
    ELSE IF cb = "zero" THEN a
    ELSE LET x == NxMX(a)  y == NxMX(b)
             lo == IF x[2] < y[2] THEN x[2] ELSE y[2]
             dx == x[2] - lo
             dy == y[2] - lo IN
         IF dx > 29 \/ dy > 29 THEN Err("drop:inexact")
         ELSE IF Abs(x[1]) > 1000000000 \div Pow2(dx) \/ Abs(y[1]) > 1000000000 \div Pow2(dy) THEN Err("drop:magnitude")
         ELSE LET t == x[1] * Pow2(dx) + y[1] * Pow2(dy) IN
              IF t = 0 THEN NxZero(FALSE) ELSE NxFin(t, lo)

\* "lt" | "eq" | "gt" | "un" (unordered: a NaN is involved; every comparison with it is false)
NxFCmp(a, b) ==
    LET ca == NxClass(a)  cb == NxClass(b)
        Key(v, c) == CASE c = "zero" -> 0
                       [] c = "inf" -> (IF NxNegative(v) THEN 0 - 2 ELSE 2)
                       [] c = "fin" -> (IF NxNegative(v) THEN 0 - 1 ELSE 1)
        ka == Key(a, ca)
        kb == Key(b, cb) IN
    IF ca = "nan" \/ cb = "nan" THEN "un"
    ELSE IF ka < kb THEN "lt"
    ELSE IF ka > kb THEN "gt"
    ELSE IF ca # "fin" THEN "eq"
    ELSE LET x == NxMX(a)  y == NxMX(b)
             ha == BitLen(x[1]) + x[2]       \* 2^(h-1) <= |value| < 2^h
             hb == BitLen(y[1]) + y[2]
             \* same sign, same binade: the exponents differ by less than 31
             lo == IF x[2] < y[2] THEN x[2] ELSE y[2]
             larger == IF ha # hb THEN (IF ha > hb THEN "a" ELSE "b")
                       ELSE LET p == Abs(x[1]) * Pow2(x[2] - lo)  q == Abs(y[1]) * Pow2(y[2] - lo) IN
                            IF p > q THEN "a" ELSE IF p < q THEN "b" ELSE "-" IN
         IF larger = "-" THEN "eq"
         ELSE IF (larger = "a") = (ka > 0) THEN "gt" ELSE "lt"

NxEq(a, b) == IF IsIntish(a) /\ IsIntish(b) THEN NxWord(a) = NxWord(b)
              ELSE IF IsFloatish(a) /\ IsFloatish(b) THEN NxFCmp(a, b) = "eq"
              ELSE FALSE
NxCmp(a, b) == IF IsIntish(a) /\ IsIntish(b)
               THEN LET x == NxWord(a)  y == NxWord(b) IN IF x = y THEN "eq" ELSE IF SLt64(x, y) THEN "lt" ELSE "gt"
               ELSE IF IsFloatish(a) /\ IsFloatish(b) THEN NxFCmp(a, b)
               ELSE "bad"
NxArith(op, a, b) ==
    IF IsIntish(a) /\ IsIntish(b)
    THEN LET x == NxWord(a)  y == NxWord(b) IN
         CASE op = "+" -> NxInt(Add64(x, y))
           [] op = "-" -> NxInt(Sub64(x, y))
           [] op = "*" -> NxInt(Mul64(x, y))
           [] op = "/" -> Err("drop:i64-division")       \* int / int is a float; the conversion rounds
    ELSE IF IsFloatish(a) /\ IsFloatish(b)
    THEN CASE op = "+" -> NxFAdd(a, b)
           [] op = "-" -> NxFAdd(a, NxFNeg(b))
           [] op = "*" -> NxFMul(a, b)
           [] op = "/" -> NxFDiv(a, b)
    ELSE Err("stuck:arith-" \o a.k \o "-" \o b.k)
NxText(v) == CASE v.k = "i64" -> Text64(v.w)
               [] v.k = "fx" -> (CASE v.v = "inf" -> "inf" [] v.v = "ninf" -> "-inf" [] v.v = "nan" -> "nan" [] v.v = "nzero" -> "-0.0")

CharCode(c) == CASE c = "a" -> 1 [] c = "b" -> 2 [] c = "c" -> 3 [] c = "d" -> 4 [] c = "x" -> 24 [] c = "y" -> 25
                 [] c = " " -> 0 [] OTHER -> 30
RECURSIVE StrLt(_, _)
StrLt(s, t) == IF Len(t) = 0 THEN FALSE
               ELSE IF Len(s) = 0 THEN TRUE
               ELSE LET a == CharCode(SubSeq(s, 1, 1))  b == CharCode(SubSeq(t, 1, 1)) IN
                    IF a # b THEN a < b ELSE StrLt(SubSeq(s, 2, Len(s)), SubSeq(t, 2, Len(t)))

(* Structural equality; `heap` resolves references *)
RECURSIVE StructEq(_, _, _)
StructEq(a, b, heap) ==
    IF IsNxNum(a) \/ IsNxNum(b) THEN NxEq(a, b)
    ELSE IF IsNum(a) /\ IsNum(b) THEN NumEq(a, b)
    ELSE IF a.k # b.k THEN FALSE
    ELSE CASE a.k = "str" -> a.v = b.v
           [] a.k = "bool" -> a.v = b.v
           [] a.k = "nil" -> TRUE
           [] a.k = "tuple" -> /\ Len(a.es) = Len(b.es)
                               /\ \A i \in 1..Len(a.es) : StructEq(a.es[i], b.es[i], heap)
           [] a.k = "variant" -> a.tag = b.tag /\ StructEq(a.val, b.val, heap)
           [] a.k = "ref" ->
                IF a.a = b.a THEN TRUE
                ELSE LET x == heap[a.a]  y == heap[b.a] IN
                  IF x.k # y.k THEN FALSE
                  ELSE IF x.k = "list"
                    THEN /\ Len(x.items) = Len(y.items)
                         /\ \A i \in 1..Len(x.items) : StructEq(x.items[i], y.items[i], heap)
                    ELSE IF x.k = "set"     \* same members (members are unique within a set)
                    THEN /\ Len(x.items) = Len(y.items)
                         /\ \A i \in 1..Len(x.items) : \E j \in 1..Len(y.items) : StructEq(x.items[i], y.items[j], heap)
                    ELSE IF x.k = "dict"    \* same keys (unique within a dict), equal values
                    THEN /\ Len(x.keys) = Len(y.keys)
                         /\ \A i \in 1..Len(x.keys) : \E j \in 1..Len(y.keys) :
                               StructEq(x.keys[i], y.keys[j], heap) /\ StructEq(x.vals[i], y.vals[j], heap)
                    ELSE /\ DOMAIN x.fields = DOMAIN y.fields
                         /\ \A f \in DOMAIN x.fields : StructEq(x.fields[f], y.fields[f], heap)
           [] a.k = "clo" -> a.env = b.env /\ a.fn = b.fn
           [] a.k = "builtin" -> a.name = b.name

(* The one order: numbers, strings, tuples lexicographically. Returns "lt" | "eq" | "gt" | "bad" *)
RECURSIVE Cmp3(_, _, _)
Cmp3(a, b, heap) ==
    IF IsNxNum(a) \/ IsNxNum(b) THEN NxCmp(a, b)
    ELSE IF IsNum(a) /\ IsNum(b) THEN (IF NumLt(a, b) THEN "lt" ELSE IF NumEq(a, b) THEN "eq" ELSE "gt")
    ELSE IF a.k = "str" /\ b.k = "str" THEN (IF a.v = b.v THEN "eq" ELSE IF StrLt(a.v, b.v) THEN "lt" ELSE "gt")
    ELSE IF a.k = "tuple" /\ b.k = "tuple" /\ Len(a.es) = Len(b.es)
      THEN LET RECURSIVE Lex(_)
               Lex(i) == IF i > Len(a.es) THEN "eq"
                         ELSE LET c == Cmp3(a.es[i], b.es[i], heap) IN IF c = "eq" THEN Lex(i + 1) ELSE c
           IN Lex(1)
    ELSE "bad"

(* + - * / on values: numbers, strings (+), tuples element-wise, tuple / number *)
RECURSIVE Arith(_, _, _)
Arith(op, a, b) ==
    IF IsNxNum(a) \/ IsNxNum(b) THEN NxArith(op, a, b)
    ELSE IF IsNum(a) /\ IsNum(b) THEN NumArith(op, a, b)
    ELSE IF a.k = "str" /\ b.k = "str" /\ op = "+" THEN StrV(a.v \o b.v)
    ELSE IF a.k = "tuple" /\ b.k = "tuple" /\ Len(a.es) = Len(b.es)
      THEN LET rs == [i \in 1..Len(a.es) |-> Arith(op, a.es[i], b.es[i])] IN
           IF \E i \in 1..Len(rs) : IsErr(rs[i])
           THEN rs[CHOOSE i \in 1..Len(rs) : IsErr(rs[i])]
           ELSE TupleV(rs)
    ELSE IF a.k = "tuple" /\ IsNum(b) /\ op = "/"
      THEN LET rs == [i \in 1..Len(a.es) |-> Arith(op, a.es[i], b)] IN
           IF \E i \in 1..Len(rs) : IsErr(rs[i])
           THEN rs[CHOOSE i \in 1..Len(rs) : IsErr(rs[i])]
           ELSE TupleV(rs)
    ELSE Err("stuck:arith-" \o a.k \o "-" \o b.k)

RECURSIVE Negate(_)
Negate(a) == CASE a.k = "int" -> IntV(0 - a.v)
               [] a.k = "i64" -> NxInt(Neg64(a.w))            \* -MIN = MIN
               [] a.k \in {"float", "fbig", "fx"} -> NxFNeg(a)   \* -(0.0) = -0.0
               [] a.k = "tuple" -> TupleV([i \in 1..Len(a.es) |-> Negate(a.es[i])])
               [] OTHER -> Err("stuck:neg-" \o a.k)

(* A heap-free snapshot of a value, as `print` shows it *)
RECURSIVE Render(_, _, _)
Render(v, heap, depth) ==
    IF depth = 0 THEN [k |-> "deep"]
    ELSE CASE v.k = "tuple" -> [k |-> "tuple", es |-> [i \in 1..Len(v.es) |-> Render(v.es[i], heap, depth - 1)]]
           [] v.k = "variant" -> [k |-> "variant", tag |-> v.tag, val |-> Render(v.val, heap, depth - 1)]
           [] v.k = "ref" -> LET o == heap[v.a] IN
                IF o.k = "list"
                THEN [k |-> "list", es |-> [i \in 1..Len(o.items) |-> Render(o.items[i], heap, depth - 1)]]
                ELSE IF o.k = "set"
                THEN [k |-> "set", es |-> [i \in 1..Len(o.items) |-> Render(o.items[i], heap, depth - 1)]]
                ELSE IF o.k = "dict"
                THEN [k |-> "dict", ks |-> [i \in 1..Len(o.keys) |-> Render(o.keys[i], heap, depth - 1)],
                                    vs |-> [i \in 1..Len(o.vals) |-> Render(o.vals[i], heap, depth - 1)]]
                ELSE [k |-> "blob"]
           [] v.k = "clo" -> [k |-> "fn"]
           [] v.k = "builtin" -> [k |-> "fn"]
           [] v.k \in {"i64", "fx"} -> [k |-> v.k, text |-> NxText(v)]
           [] OTHER -> v

(***************************************************************************)
(* The TEXT `print` / `as_str` show for a snapshot (DESIGN 7.1): ints in   *)
(* decimal, floats as Lua 5.3 writes them ("%.14g", ".0" appended to whole *)
(* numbers), strings bare, (a, b) / (a,) / (), [a, b], `Tag payload`,      *)
(* `dict {k: v}`, `set {x}`.  Some snapshots have no text the language     *)
(* fixes (blobs: field order; functions: an address; containers without    *)
(* order holding two or more entries; floats needing more than 14          *)
(* significant digits; values nested deeper than Render looks):            *)
(* Printable is FALSE for them and whoever asks drops the case.            *)
(***************************************************************************)
NumDigits(n) == LET RECURSIVE D(_)
                    D(m) == IF m < 10 THEN 1 ELSE 1 + D(m \div 10)
                IN D(n)

FloatPrintable(n, d) == LET ip == Abs(n) \div Pow2(d) IN ip = 0 \/ NumDigits(ip) + d <= 14

FloatText(n, d) ==
    LET p == Pow2(d)
        a == Abs(n)
        RECURSIVE Frac(_)
        Frac(r) == IF r = 0 THEN "" ELSE ToString((r * 10) \div p) \o Frac((r * 10) % p)
    IN (IF n < 0 THEN "-" ELSE "") \o ToString(a \div p) \o "." \o (IF a % p = 0 THEN "0" ELSE Frac(a % p))

RECURSIVE Printable(_)
Printable(r) ==
    CASE r.k \in {"int", "str", "bool", "nil", "i64", "fx"} -> TRUE
      [] r.k = "float" -> FloatPrintable(r.n, r.d)
      [] r.k \in {"tuple", "list"} -> \A i \in 1..Len(r.es) : Printable(r.es[i])
      [] r.k = "variant" -> Printable(r.val)
      [] r.k = "set" -> Len(r.es) <= 1 /\ \A i \in 1..Len(r.es) : Printable(r.es[i])
      [] r.k = "dict" -> Len(r.ks) <= 1 /\ \A i \in 1..Len(r.ks) : Printable(r.ks[i]) /\ Printable(r.vs[i])
      [] OTHER -> FALSE        \* blob, fn, deep

RECURSIVE SnapText(_)
SnapText(r) ==
    LET RECURSIVE Join(_, _)
        Join(es, i) == IF i > Len(es) THEN ""
                       ELSE (IF i > 1 THEN ", " ELSE "") \o SnapText(es[i]) \o Join(es, i + 1)
    IN CASE r.k = "int" -> ToString(r.v)
         [] r.k = "float" -> FloatText(r.n, r.d)
         [] r.k = "str" -> r.v
         [] r.k \in {"i64", "fx"} -> r.text
         [] r.k = "bool" -> (IF r.v THEN "true" ELSE "false")
         [] r.k = "nil" -> "nil"
         [] r.k = "tuple" -> IF Len(r.es) = 1 THEN "(" \o SnapText(r.es[1]) \o ",)" ELSE "(" \o Join(r.es, 1) \o ")"
         [] r.k = "list" -> "[" \o Join(r.es, 1) \o "]"
         [] r.k = "variant" -> r.tag \o " " \o SnapText(r.val)
         [] r.k = "set" -> "set {" \o Join(r.es, 1) \o "}"
         [] r.k = "dict" -> "dict {" \o (IF Len(r.ks) = 0 THEN "" ELSE SnapText(r.ks[1]) \o ": " \o SnapText(r.vs[1])) \o "}"
         [] OTHER -> "<unprintable:" \o r.k \o ">"
=============================================================================
