----------------------------- MODULE MC_LoadGen -----------------------------
(* C06, part (i) of the enumeration: "every accepted program of the other universes".  Emits the programs of the
   C01 universe (SyltGen: single templates and the pairwise nesting of every construct in every type-compatible
   hole of every other construct, in every harness context) as ASTs, WITHOUT running them through the semantics:
   C06 only needs the programs.  The case sets are those of MC_Sem (PairCases, SingleCases). *)
EXTENDS SyltGen, Json, IOUtils

VARIABLES c, pc
vars == <<c, pc>>

PairCases ==
  UNION { UNION { {[o |-> p[1], pos |-> p[2], i |-> p[3], h |-> hn, e |-> e]
                     : hn \in HarnessNames(ResultType(p[1]), UsesLocals(p[1]) \/ UsesLocals(p[3]))}
                  : e \in Nest(p[1], p[2], p[3]) }
          : p \in Pairs }
SingleCases ==
  UNION { UNION { {[o |-> n, pos |-> 0, i |-> "-", h |-> hn, e |-> e] : hn \in HarnessNames(ResultType(n), UsesLocals(n))}
                  : e \in Instances(n, 100, 0) }
          : n \in TemplateNames }
All == PairCases \cup SingleCases
ASSUME NonTrivial == Cardinality(SingleCases) >= Cardinality(TemplateNames) /\ Cardinality(PairCases) > Cardinality(SingleCases)

Init == pc = "start" /\ c \in All
Emit == /\ pc = "start" /\ pc' = "done" /\ c' = c
        /\ PrintT(<<"REPLAY", ToJson([id |-> [o |-> c.o, pos |-> c.pos, i |-> c.i, h |-> c.h],
                                      tops |-> Harness(c.h, c.e, ResultType(c.o))])>>)
Next == Emit
Spec == Init /\ [][Next]_vars
TypeOk == pc \in {"start", "done"}
=============================================================================
