SPECIFICATION Spec
CONSTANTS
  MaxVariants <- MCMaxVariants
INVARIANTS TypeOk
CHECK_DEADLOCK FALSE
