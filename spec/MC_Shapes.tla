------------------------------ MODULE MC_Shapes ------------------------------
(* C05: emission of the shape-rule universe (MODE=emit), spec-level sanity of the universe (ASSUMEs), and
   validation of the recorded compile / load results against SyltShapes' expectation (MODE=validate). *)
EXTENDS SyltShapes, Json, IOUtils

MCPoolSize == IF "POOL" \in DOMAIN IOEnv THEN atoi(IOEnv.POOL) ELSE 3
MCMaxMembers == 3

VARIABLES k, pc
vars == <<k, pc>>

Mode == IOEnv.MODE      \* "emit" | "validate"
Full == "FULL" \in DOMAIN IOEnv /\ IOEnv.FULL = "1"   \* the trace must cover the whole universe

Rec == IF Mode = "validate" THEN ndJsonDeserialize(IOEnv.TRACE) ELSE <<>>

(* ---- spec-level sanity of the universe (a failure is a wrong specification: exit 2) *)
AllCases == Cases
Ids == {c.id : c \in AllCases}
ASSUME IdsUnique == Cardinality(Ids) = Cardinality(AllCases)
ASSUME PlantedDiffers == \A c \in AllCases : c.base # c.planted
ASSUME ClauseTotal == \A c \in AllCases : Clause(c.id.kind) \in
          {"literal-fields", "field-access", "variant-exists", "case-totality", "tuple-index", "tuple-length",
           "extern-instance", "loop-control", "entry-point"}
\* every cell (kind x context the kind can be placed in) is inhabited; every declaration shape class occurs
\* for every declaration-dependent kind; every context occurs for every non-entry kind except where excluded
ASSUME CellsInhabited ==
    /\ \A cell \in Cells : ContextsOf(cell) # {}
    /\ \A cell \in Cells : \A c \in ContextsOf(cell) :
          \E x \in AllCases : x.id.kind = cell.kind /\ x.id.ctx = c /\ x.id.shape = cell.shape /\ x.id.sub = cell.sub
    /\ \A cell \in Cells : (ContextNames \ ContextsOf(cell)) \subseteq {"global", "loop"}
    /\ \A c \in ContextNames : \E cell \in Cells : c \in ContextsOf(cell)
ASSUME ShapesCovered ==
    \A kd \in {"blob-extra-field", "blob-read-unknown", "blob-write-unknown", "blob-param-read-unknown",
               "enum-construct-unknown", "case-param-extra-variant", "extern-instantiated"} :
      \A n \in 0..MCMaxMembers : \A g \in {"/generic", "/plain"} :
         \E x \in AllCases : x.id.kind = kd /\ x.id.shape = Digit(n) \o g
ASSUME EntryCovered == \A e \in EntryKinds : \E x \in AllCases : x.id.kind = "entry-" \o e

(* ---- emit *)
Init == /\ pc = "start"
        /\ IF Mode = "emit" THEN k \in AllCases ELSE k \in 1..Len(Rec)

Emit == /\ Mode = "emit" /\ pc = "start" /\ pc' = "done" /\ k' = k
        /\ PrintT(<<"REPLAY", ToJson([id |-> k.id, clause |-> Clause(k.id.kind), base |-> k.base, planted |-> k.planted])>>)

(* ---- validate: record = [id, clause, base: [class, loads, ..], planted: [class, loads, ..]] *)
R == Rec[k]
Validate == /\ Mode = "validate" /\ pc = "start" /\ pc' = "done" /\ k' = k
            /\ Assert(R.id \in Ids, <<"record is not a case of the universe", R.id>>)
            /\ Assert(R.clause = Clause(R.id.kind), <<"record names another clause than the specification", R.id>>)
            /\ IF BaseHolds(R.base) /\ PlantedHolds(R.planted) THEN TRUE
               ELSE PrintT(<<"REJECT", ToJson([rec |-> k, id |-> R.id, clause |-> R.clause, why |-> Why(R.base, R.planted)])>>)

Next == Emit \/ Validate
Spec == Init /\ [][Next]_vars

\* validate mode with FULL=1: the recorded trace covers exactly the universe
Complete == (Mode = "validate" /\ Full) => {Rec[i].id : i \in 1..Len(Rec)} = Ids
ASSUME TraceComplete == Complete
TypeOk == pc \in {"start", "done"}
=============================================================================
