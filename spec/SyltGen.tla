------------------------------- MODULE SyltGen -------------------------------
(***************************************************************************)
(* The program universe shared by C01, C10, C06, C08, C09, C14 (and the    *)
(* base programs of C02): type-directed templates of every core construct, *)
(* the PAIRWISE NESTING of every construct in every type-compatible child  *)
(* position of every other construct, and the harness contexts in which    *)
(* the resulting expression is evaluated (start, global initialiser, live  *)
(* across a recursive call on either side, closure created per loop        *)
(* iteration, blob method using self).                                     *)
(*                                                                         *)
(* Every hole that is not in focus is filled with a call of tick(n) /      *)
(* tickb(b) - functions that print their argument and return it - so the   *)
(* ORDER of evaluation and short-circuiting are observable in the trace.   *)
(***************************************************************************)
EXTENDS SyltAst, FiniteSets, TLC

(* global binder ids of the prelude *)
GTick == 1001
GTickB == 1002
GInc == 1003
GG == 1004
GSumTo == 1005
GMkB == 1006
GMkC == 1007
GBumpG == 1008
GStart == 1000
GRes == 1010
GRec == 1011
GTwice == 1012
GMkP == 1013

TB == TName("B")
TE == TName("E")
TPair == TTuple(<<TInt, TInt>>)
TListI == TList(TInt)

Tick(n) == Call(V(GTick), <<I(n)>>)
TickB(b) == Call(V(GTickB), <<Bo(b)>>)

Prelude == <<
  EnumD("E", <<VD1("X", TInt), VD0("Y")>>),
  BlobD("B", <<FD("n", TInt), FD("get", TFn(<<>>, TInt)), FD("add", TFn(<<TInt>>, TInt))>>),
  \* tick :: fn n: int -> int do print(n) ; n end
  DefN(GTick, "const", TNone, Fn(<<P(1, TInt)>>, TInt, <<Print(V(1)), Ex(V(1))>>), "tick"),
  DefN(GTickB, "const", TNone, Fn(<<P(2, TBool)>>, TBool, <<Print(V(2)), Ex(V(2))>>), "tickb"),
  DefN(GInc, "const", TNone, Fn(<<P(3, TInt)>>, TInt, <<Ex(Bin("+", V(3), I(1)))>>), "inc"),
  DefN(GG, "mut", TInt, I(10), "g"),
  \* sumto :: fn n: int -> int do if n <= 0 do ret 0 end ; n + sumto(n - 1) end
  DefN(GSumTo, "const", TNone,
       Fn(<<P(4, TInt)>>, TInt, <<Ex(If1(Bin("<=", V(4), I(0)), <<Ret(I(0))>>)),
                                  Ex(Bin("+", V(4), Call(V(GSumTo), <<Bin("-", V(4), I(1))>>)))>>), "sumto"),
  \* mkb :: fn n: int -> B do B { n: n, get: fn -> int do self.n end, add: fn d: int -> int do self.n += d ; self.n end } end
  DefN(GMkB, "const", TNone,
       Fn(<<P(5, TInt)>>, TB,
          <<Ex(BlobL("B", <<FI("n", V(5)),
                            FI("get", Fn(<<>>, TInt, <<Ex(Fld(Self, "n"))>>)),
                            FI("add", Fn(<<P(6, TInt)>>, TInt, <<Asg("+=", Fld(Self, "n"), V(6)), Ex(Fld(Self, "n"))>>))>>))>>), "mkb"),
  \* mkc :: fn k: int -> fn -> int do c := k ; fn -> int do c += 1 ; c end end
  DefN(GMkC, "const", TNone,
       Fn(<<P(7, TInt)>>, TFn(<<>>, TInt),
          <<DefM(8, TInt, V(7)), Ex(Fn(<<>>, TInt, <<Asg("+=", V(8), I(1)), Ex(V(8))>>))>>), "mkc"),
  DefN(GBumpG, "const", TNone, Fn(<<>>, TInt, <<Asg("+=", V(GG), I(1)), Ex(V(GG))>>), "bumpg"),
  \* applyn :: fn f: fn int -> int, n: int, x: int -> int do if n <= 0 do ret x end ; f(applyn(f, n - 1, x)) end
  DefN(GMkP, "const", TNone,
       Fn(<<P(18, TFn(<<TInt>>, TInt)), P(19, TInt), P(20, TInt)>>, TInt,
          <<Ex(If1(Bin("<=", V(19), I(0)), <<Ret(V(20))>>)),
            Ex(Call(V(18), <<Call(V(GMkP), <<V(18), Bin("-", V(19), I(1)), V(20)>>)>>))>>), "applyn"),
  \* twice :: fn f: fn int -> int, n: int -> int do f(f(n)) end
  DefN(GTwice, "const", TNone,
       Fn(<<P(9, TFn(<<TInt>>, TInt)), P(10, TInt)>>, TInt, <<Ex(Call(V(9), <<Call(V(9), <<V(10)>>)>>))>>), "twice")
>>

---------------------------------------------------------------------------
(* Templates.  T(name, b, h): the expression; b = base for fresh binder ids; h = hole fillers.
   HoleTypes(name), ResultType(name) give the typing.  Context variables every template may use:
   x (mutable int local, id 11) and kk (constant int local, id 12) are declared by the harness
   (in global context the templates that read them are not offered). *)
X == V(11)
KK == V(12)

TemplateNames == {
  "lit7", "var", "const", "glob", "add", "sub", "mul", "neg", "ifx", "ifelif", "casex", "caseelse",
  "callinc", "tick", "rec", "iife", "capture", "tupidx", "fld", "meth", "fldthencall", "len", "fold",
  "earlyret", "loopsum", "asgops", "twice", "counter", "bumpg", "nestedfn", "shadowblock", "iterclo", "casebindclo",
  "applyn", "blit", "lt", "le", "eqi", "nei", "eqs", "eqt", "ltt", "lts", "and", "or", "not", "tickb", "eqlist",
  "flit", "fadd", "fmul", "fdiv", "fneg",
  "slit", "cat", "sif",
  "tlit", "tadd", "tsub", "tmul",
  "llit", "lpush", "lmap", "lfilter",
  "ex", "ey"
}

ResultType(n) ==
  CASE n \in {"lit7", "var", "const", "glob", "add", "sub", "mul", "neg", "ifx", "ifelif", "casex", "caseelse",
              "callinc", "tick", "rec", "iife", "capture", "tupidx", "fld", "meth", "fldthencall", "len", "fold",
              "earlyret", "loopsum", "asgops", "twice", "counter", "bumpg", "nestedfn", "shadowblock",
              "iterclo", "casebindclo", "applyn"} -> "int"
    [] n \in {"blit", "lt", "le", "eqi", "nei", "eqs", "eqt", "ltt", "lts", "and", "or", "not", "tickb", "eqlist"} -> "bool"
    [] n \in {"flit", "fadd", "fmul", "fdiv", "fneg"} -> "float"
    [] n \in {"slit", "cat", "sif"} -> "str"
    [] n \in {"tlit", "tadd", "tsub", "tmul"} -> "tup"
    [] n \in {"llit", "lpush", "lmap", "lfilter"} -> "list"
    [] n \in {"ex", "ey"} -> "E"

HoleTypes(n) ==
  CASE n \in {"lit7", "var", "const", "glob", "blit", "flit", "slit", "ey", "bumpg"} -> <<>>
    [] n \in {"add", "sub", "mul", "lt", "le", "eqi", "nei", "tlit", "llit", "tupidx", "fdiv", "twice"} -> <<"int", "int">>
    [] n \in {"neg", "callinc", "tick", "rec", "iife", "capture", "fld", "meth", "fldthencall", "loopsum",
              "asgops", "counter", "nestedfn", "shadowblock", "ex", "lpush", "iterclo", "casebindclo", "applyn"} -> <<"int">>
    [] n = "ifx" -> <<"bool", "int", "int">>
    [] n = "ifelif" -> <<"bool", "bool", "int">>
    [] n = "casex" -> <<"E", "int", "int">>
    [] n = "caseelse" -> <<"E", "int">>
    [] n \in {"len", "fold", "lmap", "lfilter"} -> <<"list">>
    [] n = "earlyret" -> <<"bool", "int">>
    [] n \in {"eqs", "lts", "cat"} -> <<"str", "str">>
    [] n \in {"eqt", "ltt", "tadd", "tsub", "tmul"} -> <<"tup", "tup">>
    [] n \in {"and", "or"} -> <<"bool", "bool">>
    [] n \in {"not", "tickb"} -> <<"bool">>
    [] n = "eqlist" -> <<"list", "list">>
    [] n \in {"fadd", "fmul"} -> <<"float", "float">>
    [] n = "fneg" -> <<"float">>
    [] n = "sif" -> <<"bool", "str", "str">>

\* templates that read the harness locals x / kk (not available in a global initialiser)
UsesLocals(n) == n \in {"var", "const", "capture", "asgops"}

T(n, b, h) ==
  CASE n = "lit7"  -> I(7)
    [] n = "var"   -> X
    [] n = "const" -> KK
    [] n = "glob"  -> V(GG)
    [] n = "add"   -> Bin("+", h[1], h[2])
    [] n = "sub"   -> Bin("-", h[1], h[2])
    [] n = "mul"   -> Bin("*", h[1], h[2])
    [] n = "neg"   -> Un("-", h[1])
    [] n = "ifx"   -> If2(h[1], <<Ex(h[2])>>, <<Ex(h[3])>>)
    [] n = "ifelif" -> If(<<ArmC(h[1], <<Ex(I(1))>>), ArmC(h[2], <<Ex(h[3])>>), ArmE(<<Ex(I(3))>>)>>)
    [] n = "casex" -> CaseT(h[1], <<CArmB("X", b + 1, <<Ex(Bin("+", V(b + 1), h[2]))>>), CArm("Y", <<Ex(h[3])>>)>>)
    [] n = "caseelse" -> CaseE(h[1], <<CArmB("X", b + 1, <<Ex(Bin("*", V(b + 1), I(2)))>>)>>, <<Ex(h[2])>>)
    [] n = "callinc" -> Call(V(GInc), <<h[1]>>)
    [] n = "tick"  -> Call(V(GTick), <<h[1]>>)
    [] n = "rec"   -> Call(V(GSumTo), <<If2(Bin("<", h[1], I(4)), <<Ex(I(3))>>, <<Ex(I(2))>>)>>)
    [] n = "iife"  -> Call(Fn(<<P(b + 1, TInt)>>, TInt, <<Ex(Bin("*", V(b + 1), I(2)))>>), <<h[1]>>)
    [] n = "capture" -> IIFE(TInt, <<Asg("+=", X, I(1)), Ex(Bin("+", X, h[1]))>>)
    [] n = "tupidx" -> Idx(Tup(<<h[1], h[2]>>), 1)
    [] n = "fld"   -> Fld(Call(V(GMkB), <<h[1]>>), "n")
    [] n = "meth"  -> Call(Fld(Call(V(GMkB), <<h[1]>>), "get"), <<>>)
    [] n = "fldthencall" ->
         IIFE(TInt, <<DefC(b + 1, TB, Call(V(GMkB), <<h[1]>>)),
                      Ex(Bin("+", Fld(V(b + 1), "n"), Call(Fld(V(b + 1), "add"), <<I(5)>>)))>>)
    [] n = "len"   -> Call(Std("list.len"), <<h[1]>>)
    [] n = "fold"  -> Call(Std("fold"), <<h[1], I(0), Pu(<<P(b + 1, TInt), P(b + 2, TInt)>>, TInt, <<Ex(Bin("+", V(b + 1), V(b + 2)))>>)>>)
    [] n = "earlyret" -> IIFE(TInt, <<Ex(If1(h[1], <<Ret(h[2])>>)), Ex(Un("-", I(1)))>>)
    [] n = "loopsum" ->
         IIFE(TInt, <<DefM(b + 1, TInt, I(0)), DefM(b + 2, TInt, I(0)),
                      Loop(Bin("<", V(b + 2), I(6)),
                           <<Asg("+=", V(b + 2), I(1)),
                             Ex(If1(Bin("==", V(b + 2), I(2)), <<Cont>>)),
                             Ex(If1(Bin(">", V(b + 2), I(4)), <<Break>>)),
                             Asg("+=", V(b + 1), Bin("+", V(b + 2), h[1]))>>),
                      Ex(V(b + 1))>>)
    [] n = "asgops" ->
         IIFE(TInt, <<DefM(b + 1, TInt, h[1]), Asg("+=", V(b + 1), I(2)), Asg("*=", V(b + 1), I(3)),
                      Asg("-=", V(b + 1), KK), Asg("=", X, V(b + 1)), Ex(Bin("+", X, V(b + 1)))>>)
    [] n = "twice" -> Call(V(GTwice), <<Fn(<<P(b + 1, TInt)>>, TInt, <<Ex(Bin("+", V(b + 1), h[1]))>>), h[2]>>)
    [] n = "counter" ->
         IIFE(TInt, <<DefC(b + 1, TFn(<<>>, TInt), Call(V(GMkC), <<h[1]>>)),
                      DefC(b + 2, TFn(<<>>, TInt), Call(V(GMkC), <<I(100)>>)),
                      Ex(Call(V(b + 1), <<>>)), Ex(Call(V(b + 2), <<>>)),
                      Ex(Bin("+", Call(V(b + 1), <<>>), Call(V(b + 2), <<>>)))>>)
    [] n = "bumpg" -> Bin("+", V(GG), Call(V(GBumpG), <<>>))
    [] n = "nestedfn" ->
         IIFE(TInt, <<DefM(b + 1, TInt, h[1]),
                      DefC(b + 2, TFn(<<>>, TVoid), Fn(<<>>, TVoid, <<Asg("+=", V(b + 1), I(10))>>)),
                      DefC(b + 3, TFn(<<>>, TInt), Fn(<<>>, TInt, <<Ex(Call(V(b + 2), <<>>)), Ex(V(b + 1))>>)),
                      Ex(Bin("+", Call(V(b + 3), <<>>), V(b + 1)))>>)
    [] n = "shadowblock" ->
         IIFE(TInt, <<DefM(b + 1, TInt, h[1]),
                      Block(<<DefM(b + 2, TInt, Bin("+", V(b + 1), I(1))), Asg("=", V(b + 1), Bin("*", V(b + 2), I(2)))>>),
                      Ex(V(b + 1))>>)
    [] n = "iterclo" ->
         IIFE(TInt, <<DefC(b + 1, TList(TFn(<<>>, TInt)), Lst(<<>>)), DefM(b + 2, TInt, I(0)),
                      Loop(Bin("<", V(b + 2), I(3)),
                           <<DefM(b + 3, TInt, Bin("*", V(b + 2), h[1])),
                             Ex(Call(Std("list.push"), <<V(b + 1), Fn(<<>>, TInt, <<Asg("+=", V(b + 3), I(1)), Ex(V(b + 3))>>)>>)),
                             Asg("+=", V(b + 2), I(1))>>),
                      DefM(b + 4, TInt, I(0)),
                      Ex(Call(Std("for_each"), <<V(b + 1),
                            Fn(<<P(b + 5, TFn(<<>>, TInt))>>, TVoid,
                               <<Asg("=", V(b + 4), Bin("+", Bin("*", V(b + 4), I(10)),
                                                         Bin("+", Call(V(b + 5), <<>>), Call(V(b + 5), <<>>))))>>)>>)),
                      Ex(V(b + 4))>>)
    [] n = "casebindclo" ->
         IIFE(TInt, <<DefC(b + 1, TList(TFn(<<>>, TInt)), Lst(<<>>)),
                      Ex(Call(Std("for_each"), <<Lst(<<Var1("E", "X", h[1]), Var0("E", "Y"), Var1("E", "X", I(7))>>),
                            Fn(<<P(b + 2, TE)>>, TVoid,
                               <<Ex(CaseT(V(b + 2),
                                     <<CArmB("X", b + 3, <<Ex(Call(Std("list.push"), <<V(b + 1), Fn(<<>>, TInt, <<Ex(V(b + 3))>>)>>))>>),
                                       CArm("Y", <<Ex(Call(Std("list.push"), <<V(b + 1), Fn(<<>>, TInt, <<Ex(I(0))>>)>>))>>)>>))>>)>>)),
                      DefM(b + 4, TInt, I(0)),
                      Ex(Call(Std("for_each"), <<V(b + 1),
                            Fn(<<P(b + 5, TFn(<<>>, TInt))>>, TVoid,
                               <<Asg("=", V(b + 4), Bin("+", Bin("*", V(b + 4), I(10)), Call(V(b + 5), <<>>)))>>)>>)),
                      Ex(V(b + 4))>>)
    [] n = "applyn" -> Call(V(GMkP), <<Fn(<<P(b + 1, TInt)>>, TInt, <<Ex(Bin("+", Bin("*", V(b + 1), I(2)), h[1]))>>), I(2), I(1)>>)
    [] n = "blit"  -> Bo(TRUE)
    [] n = "lt"    -> Bin("<", h[1], h[2])
    [] n = "le"    -> Bin("<=", h[1], h[2])
    [] n = "eqi"   -> Bin("==", h[1], h[2])
    [] n = "nei"   -> Bin("!=", h[1], h[2])
    [] n = "eqs"   -> Bin("==", h[1], h[2])
    [] n = "eqt"   -> Bin("==", h[1], h[2])
    [] n = "ltt"   -> Bin("<", h[1], h[2])
    [] n = "lts"   -> Bin("<", h[1], h[2])
    [] n = "and"   -> Bin("and", h[1], h[2])
    [] n = "or"    -> Bin("or", h[1], h[2])
    [] n = "not"   -> Un("not", h[1])
    [] n = "tickb" -> Call(V(GTickB), <<h[1]>>)
    [] n = "eqlist" -> Bin("==", h[1], h[2])
    [] n = "flit"  -> Fl(1, 1)
    [] n = "fadd"  -> Bin("+", h[1], h[2])
    [] n = "fmul"  -> Bin("*", h[1], h[2])
    [] n = "fdiv"  -> Bin("/", h[1], If2(Bin("==", h[2], I(0)), <<Ex(I(4))>>, <<Ex(I(2))>>))
    [] n = "fneg"  -> Un("-", h[1])
    [] n = "slit"  -> St("ab")
    [] n = "cat"   -> Bin("+", h[1], h[2])
    [] n = "sif"   -> If2(h[1], <<Ex(h[2])>>, <<Ex(h[3])>>)
    [] n = "tlit"  -> Tup(<<h[1], h[2]>>)
    [] n = "tadd"  -> Bin("+", h[1], h[2])
    [] n = "tsub"  -> Bin("-", h[1], h[2])
    [] n = "tmul"  -> Bin("*", h[1], h[2])
    [] n = "llit"  -> Lst(<<h[1], h[2]>>)
    [] n = "lpush" -> IIFE(TListI, <<DefC(b + 1, TListI, Lst(<<h[1]>>)),
                                     Ex(Call(Std("list.push"), <<V(b + 1), I(9)>>)), Ex(V(b + 1))>>)
    [] n = "lmap"  -> Call(Std("map"), <<h[1], Pu(<<P(b + 1, TInt)>>, TInt, <<Ex(Bin("*", V(b + 1), I(3)))>>)>>)
    [] n = "lfilter" -> Call(Std("filter"), <<h[1], Pu(<<P(b + 1, TInt)>>, TBool, <<Ex(Bin(">", V(b + 1), I(1)))>>)>>)
    [] n = "ex"    -> Var1("E", "X", h[1])
    [] n = "ey"    -> Var0("E", "Y")

(* default fillers of a hole of type ty at (global) hole number p; a SET, so that both truth values
   and both enum variants are explored where a hole decides control flow *)
Defaults(ty, p) ==
  CASE ty = "int"   -> {Tick(p)}
    [] ty = "bool"  -> {TickB(TRUE), TickB(FALSE)}
    [] ty = "float" -> {Fl(2 * p + 1, 1)}
    [] ty = "str"   -> {IF p % 2 = 1 THEN St("a") ELSE St("b")}
    [] ty = "tup"   -> {Tup(<<Tick(p), I(p + 1)>>)}
    [] ty = "list"  -> {Lst(<<I(p), Tick(p + 1), I(3)>>)}
    [] ty = "E"     -> {Var1("E", "X", Tick(p)), Var0("E", "Y")}

\* all ways to fill the holes of template n with defaults, hole numbers starting at off
RECURSIVE Fillings(_, _, _)
Fillings(tys, i, off) ==
  IF i > Len(tys) THEN {<<>>}
  ELSE {<<d>> \o rest : d \in Defaults(tys[i], off + i), rest \in Fillings(tys, i + 1, off)}

Instances(n, b, off) == {T(n, b, h) : h \in Fillings(HoleTypes(n), 1, off)}

\* outer template o with hole `pos` filled by every instance of inner template i, other holes defaults
RECURSIVE FillWith(_, _, _, _, _)
FillWith(tys, i, pos, inner, off) ==
  IF i > Len(tys) THEN {<<>>}
  ELSE {<<d>> \o rest : d \in (IF i = pos THEN inner ELSE Defaults(tys[i], off + i)),
                        rest \in FillWith(tys, i + 1, pos, inner, off)}

Nest(o, pos, i) == {T(o, 100, h) : h \in FillWith(HoleTypes(o), 1, pos, Instances(i, 200, 4), 0)}

Pairs == {<<o, pos, i>> \in TemplateNames \X (1..3) \X TemplateNames :
             /\ pos <= Len(HoleTypes(o))
             /\ HoleTypes(o)[pos] = ResultType(i)}

---------------------------------------------------------------------------
(* Harness contexts: where the expression is evaluated *)
TyOf(t) == CASE t = "int" -> TInt [] t = "bool" -> TBool [] t = "float" -> TFloat [] t = "str" -> TStr
             [] t = "tup" -> TPair [] t = "list" -> TListI [] t = "E" -> TE

Locals == <<DefM(11, TInt, I(3)), DefC(12, TInt, I(5))>>

StartDef(body) == DefN(GStart, "const", TNone, Fn(<<>>, TVoid, body), "start")

\* H1: in start
HStart(e) == Prelude \o <<StartDef(Locals \o <<Print(e), Print(X), Print(V(GG))>>)>>
\* H2: as a global initialiser (no locals)
HGlobal(e, ty) == Prelude \o <<DefN(GRes, "const", TyOf(ty), e, "res"), StartDef(<<Print(V(GRes)), Print(V(GG))>>)>>
\* H3/H4: value live across a recursive call, on the left / right of it (int only)
HRecL(e) == Prelude \o <<
   DefN(GRec, "const", TNone,
        Fn(<<P(13, TInt)>>, TInt, <<Ex(If1(Bin("<=", V(13), I(0)), <<Ret(I(0))>>))>> \o Locals \o
           <<Ex(Bin("+", e, Call(V(GRec), <<Bin("-", V(13), I(1))>>)))>>), "rec"),
   StartDef(<<Print(Call(V(GRec), <<I(2)>>)), Print(V(GG))>>)>>
HRecR(e) == Prelude \o <<
   DefN(GRec, "const", TNone,
        Fn(<<P(13, TInt)>>, TInt, <<Ex(If1(Bin("<=", V(13), I(0)), <<Ret(I(0))>>))>> \o Locals \o
           <<Ex(Bin("+", Call(V(GRec), <<Bin("-", V(13), I(1))>>), e))>>), "rec"),
   StartDef(<<Print(Call(V(GRec), <<I(2)>>)), Print(V(GG))>>)>>
\* H5: closure created in each loop iteration, all called afterwards
HLoopClo(e, ty) == Prelude \o <<StartDef(<<
   DefC(14, TList(TFn(<<>>, TyOf(ty))), Lst(<<>>)), DefM(15, TInt, I(0)),
   Loop(Bin("<", V(15), I(2)),
        <<DefM(11, TInt, Bin("+", V(15), I(3))), DefC(12, TInt, I(5)),
          Ex(Call(Std("list.push"), <<V(14), Fn(<<>>, TyOf(ty), <<Ex(e)>>)>>)),
          Asg("+=", V(15), I(1))>>),
   Ex(Call(Std("for_each"), <<V(14), Fn(<<P(16, TFn(<<>>, TyOf(ty)))>>, TVoid, <<Print(Call(V(16), <<>>))>>)>>)),
   Print(V(GG))>>)>>
\* H6: inside a blob method that reads self
HMethod(e, ty) == Prelude \o <<
   BlobD("M", <<FD("n", TInt), FD("m", TFn(<<>>, TyOf(ty)))>>),
   StartDef(<<DefC(17, TName("M"), BlobL("M", <<FI("n", I(3)),
                 FI("m", Fn(<<>>, TyOf(ty), <<DefM(11, TInt, Fld(Self, "n")), DefC(12, TInt, I(5)), Ex(e)>>))>>)),
              Print(Call(Fld(V(17), "m"), <<>>)), Print(Call(Fld(V(17), "m"), <<>>)), Print(V(GG))>>)>>

HarnessNames(ty, usesLocals) ==
   {"start", "loopclo", "method"} \cup (IF usesLocals THEN {} ELSE {"global"})
   \cup (IF ty = "int" THEN {"recl", "recr"} ELSE {})

Harness(h, e, ty) ==
   CASE h = "start" -> HStart(e)
     [] h = "global" -> HGlobal(e, ty)
     [] h = "recl" -> HRecL(e)
     [] h = "recr" -> HRecR(e)
     [] h = "loopclo" -> HLoopClo(e, ty)
     [] h = "method" -> HMethod(e, ty)
=============================================================================
