SPECIFICATION CSpec
CONSTANTS
  Inputs <- MCInputs
  Procs <- MCProcs
  Results <- MCResults
  Cfgs <- MCCfgs
  Mode <- MCFunction
  MaxRuns = 4
INVARIANTS Determinism HistDeterminism HistoryIndependence SpellingIndependence ContextFormsFollow SeenIsImageOfHist TwoFormsAgree
CHECK_DEADLOCK FALSE
