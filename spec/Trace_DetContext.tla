-------------------------- MODULE Trace_DetContext --------------------------
(***************************************************************************)
(* Trace validation for the context dimensions of C16 (SyltDetContext).    *)
(* The recorder writes three files:                                        *)
(*   TRACE   one record per compilation, the records of a group adjacent   *)
(*   GROUPS  one record per group: [g, first, n, key, ...]                 *)
(*   PROGS   the program library as the recorder rendered it               *)
(* and KIND says which universe the trace belongs to:                      *)
(*   "hist"  group = target program t; the records are the steps of the    *)
(*           processes HistScenario(t, s), s in the group's shape list;    *)
(*           every record says which programs its process compiled before  *)
(*           and TLC checks that against the history variable ph           *)
(*   "long"  group = long scenario s; record j is compilation j of ONE     *)
(*           thread: it must be LongInput(s, j)                            *)
(*   "path"  group = DiskProj(key); record j = the project compiled under  *)
(*           Spellings[j] (cwd and argument re-derived here)               *)
(*   "seed"  group = SeedCase(key); record j = j-th repetition under fresh *)
(*           hash keys, at least MinSeeds of them                          *)
(*   "line"  group = LineCase(key) (SyltDetLayout); record j = j-th        *)
(*           repetition under fresh hash keys, at least LineMinSeeds       *)
(*   "pair"  group = target program t of the name-sharing library XProg;   *)
(*           the records are the steps of the processes PairScenario(t, s) *)
(*           for ALL shapes s, each compiled in configuration PairCfg(t,s) *)
(*           (into a writer / with -o into one file per process); PROGS is *)
(*           the library XProg as the recorder rendered it                 *)
(* A group is replayed as RunFresh / RunIn actions of SyltDetContext; when *)
(* it is consumed, Determinism decides: TraceAccept or TraceReject (prints *)
(* one REJECT naming the input, the two first disagreeing runs and their   *)
(* contexts).  Any mismatch between a record and the universe is an Assert *)
(* (tool error), never a verdict.                                          *)
(***************************************************************************)
EXTENDS SyltDetLayout, Json, IOUtils

VARIABLES g,      \* group being validated
          j,      \* next record of the group
          st      \* "run" | "ok" | "fail"

tvars == <<seen, hist, oracle, ph, g, j, st>>

Rec == ndJsonDeserialize(IOEnv.TRACE)
Grp == ndJsonDeserialize(IOEnv.GROUPS)
PrgRec == ndJsonDeserialize(IOEnv.PROGS)
Kind == IOEnv.KIND
NG == Len(Grp)

R(gg, jj) == Rec[Grp[gg].first + jj - 1]
N(gg) == Grp[gg].n

ResultOf(r) == [class |-> r.class, digest |-> r.digest]

ProgFields(p) == [id |-> p.id, name |-> p.name, files |-> p.files, stdlibs |-> p.stdlibs, site |-> p.site,
                  collide |-> p.collide, err |-> p.err, bracket |-> p.bracket, depth |-> p.depth,
                  nostd |-> p.nostd, warm |-> p.warm, expect |-> p.expect]
DiskFields(c) == [idx |-> c.idx, shape |-> c.shape, subdepth |-> c.subdepth, exports |-> c.exports, err |-> c.err,
                  expect |-> c.expect]
SeedFields(c) == [idx |-> c.idx, fam |-> c.fam, n |-> c.n, m |-> c.m, which |-> c.which, place |-> c.place,
                  sub |-> c.sub, dup |-> c.dup, slots |-> c.slots]

LineFields(c) == [idx |-> c.idx, fam |-> c.fam, n |-> c.n, k |-> c.k, layout |-> c.layout, ord |-> c.ord, pos |-> c.pos,
                  errpos |-> c.errpos, perm |-> c.perm, lines |-> c.lines, same |-> c.same, expect |-> c.expect]
XFields(p) == [id |-> p.id, defs |-> p.defs, stem |-> p.stem, kind |-> p.kind, site |-> p.site, locl |-> p.locl,
               std |-> p.std, expect |-> p.expect]

\* the layout of the files: groups tile the trace
LayoutWellFormed(gg) ==
    /\ Assert(Grp[gg].g = gg, <<"group numbering", gg>>)
    /\ Assert(Grp[gg].first = IF gg = 1 THEN 1 ELSE Grp[gg - 1].first + Grp[gg - 1].n, <<"groups do not tile the trace", gg>>)
    /\ Assert(gg < NG \/ Grp[gg].first + Grp[gg].n - 1 = Len(Rec), <<"trace longer than its groups", Len(Rec)>>)
    /\ Assert(N(gg) >= 2, <<"a group needs two runs", gg>>)
    /\ \A jj \in 1..N(gg) :
          LET r == R(gg, jj) IN
          /\ Assert(r.g = gg /\ r.j = jj, <<"record out of place", gg, jj>>)
          /\ Assert(r.class \in {"ok", "err", "panic"}, <<"unknown class", gg, jj, r.class>>)

LibraryWellFormed ==
    /\ Assert(Len(PrgRec) = NProg, <<"program library size", Len(PrgRec), NProg>>)
    /\ \A i \in 1..NProg : Assert(ProgFields(PrgRec[i]) = Prog(i), <<"program library mismatch", i, PrgRec[i], Prog(i)>>)

\* kind "hist": the records walk through the scenarios of the shape list in order, step by step
HistWellFormed(gg) ==
    LET t   == Grp[gg].key
        scs == Grp[gg].scens
    IN
    /\ LibraryWellFormed
    /\ Assert(t \in 1..NProg, <<"target outside the library", gg, t>>)
    /\ Assert(\A x \in 1..Len(scs) : scs[x] \in 1..NShapes /\ (x > 1 => scs[x - 1] < scs[x]), <<"shape list", gg, scs>>)
    /\ Assert(RequiredShapes \subseteq {scs[x] : x \in 1..Len(scs)}, <<"required shapes missing", gg, scs>>)
    /\ \A jj \in 1..N(gg) :
          LET r == R(gg, jj)
              h == HistScenario(t, scs[r.si])
          IN
          /\ Assert(r.si \in 1..Len(scs) /\ r.scen = scs[r.si], <<"scenario index", gg, jj>>)
          /\ Assert(r.step \in 1..Len(h) /\ r.prog = h[r.step], <<"scenario step is not what the spec demands", gg, jj, r.prog, h>>)
          /\ Assert(r.nostd = Prog(r.prog).nostd, <<"std flag", gg, jj>>)
          /\ IF jj = 1
               THEN Assert(r.si = 1 /\ r.step = 1, <<"group must start with its first scenario", gg>>)
               ELSE LET q  == R(gg, jj - 1)
                        hq == HistScenario(t, scs[q.si])
                    IN Assert(\/ (r.si = q.si /\ r.step = q.step + 1)
                              \/ (q.step = Len(hq) /\ r.si = q.si + 1 /\ r.step = 1),
                              <<"scenario steps missing or out of order", gg, jj>>)
          /\ (jj = N(gg)) => Assert(r.si = Len(scs) /\ r.step = Len(h), <<"last scenario incomplete", gg>>)

LongWellFormed(gg) ==
    LET s == Grp[gg].key IN
    /\ LibraryWellFormed
    /\ Assert(s \in 1..NLong, <<"long scenario", gg, s>>)
    /\ Assert(N(gg) >= LongMinLen(s), <<"history too short", gg, N(gg), LongMinLen(s)>>)
    /\ \A jj \in 1..N(gg) :
          LET r == R(gg, jj) IN
          /\ Assert(r.step = jj /\ r.prog = LongInput(s, jj), <<"long history step", gg, jj, r.prog, LongInput(s, jj)>>)
          /\ Assert(r.nostd = LongNoStd(s), <<"std flag", gg, jj>>)

PathWellFormed(gg) ==
    /\ Assert(Grp[gg].key \in 1..NDisk, <<"disk project", gg>>)
    /\ Assert(DiskFields(Grp[gg].case) = DiskProj(Grp[gg].key), <<"disk project mismatch", gg, Grp[gg].case, DiskProj(Grp[gg].key)>>)
    /\ Assert(N(gg) = NSpell, <<"every spelling must be recorded", gg, N(gg)>>)
    /\ \A jj \in 1..N(gg) :
          LET r == R(gg, jj) IN
          Assert(r.spelling = Spellings[jj].name /\ r.cwd = Spellings[jj].cwd /\ r.arg = Spellings[jj].arg,
                 <<"spelling is not what the spec demands", gg, jj, r.spelling, r.cwd, r.arg>>)

SeedWellFormed(gg) ==
    /\ Assert(Grp[gg].key \in 1..NSeedCases, <<"seed case", gg>>)
    /\ Assert(SeedFields(Grp[gg].case) = SeedCase(Grp[gg].key), <<"seed case mismatch", gg, Grp[gg].case, SeedCase(Grp[gg].key)>>)
    /\ Assert(N(gg) >= MinSeeds, <<"too few hash seeds", gg, N(gg), MinSeeds>>)
    /\ \A jj \in 1..N(gg) : Assert(R(gg, jj).run = jj, <<"seed run", gg, jj>>)

LineWellFormed(gg) ==
    /\ Assert(Grp[gg].key \in 1..NLineCases, <<"line case", gg>>)
    /\ Assert(LineFields(Grp[gg].case) = LineCase(Grp[gg].key), <<"line case mismatch", gg, Grp[gg].case, LineCase(Grp[gg].key)>>)
    /\ Assert(N(gg) >= LineMinSeeds, <<"too few hash seeds", gg, N(gg), LineMinSeeds>>)
    /\ \A jj \in 1..N(gg) : Assert(R(gg, jj).run = jj, <<"seed run", gg, jj>>)

\* kind "pair": ALL shapes of the target, in order, step by step, each in the configuration the spec demands
XLibraryWellFormed ==
    /\ Assert(Len(PrgRec) = NX, <<"program library size", Len(PrgRec), NX>>)
    /\ \A i \in 1..NX : Assert(XFields(PrgRec[i]) = XProg(i), <<"program library mismatch", i, PrgRec[i], XProg(i)>>)

PairWellFormed(gg) ==
    LET t == Grp[gg].key IN
    /\ XLibraryWellFormed
    /\ Assert(t \in 1..NX, <<"target outside the library", gg, t>>)
    /\ \A jj \in 1..N(gg) :
          LET r == R(gg, jj)
              h == PairScenario(t, r.scen)
          IN
          /\ Assert(r.scen \in 1..NPairShapes, <<"scenario index", gg, jj>>)
          /\ Assert(r.step \in 1..Len(h) /\ r.prog = h[r.step], <<"scenario step is not what the spec demands", gg, jj, r.prog, h>>)
          /\ Assert(r.cfg = PairCfg(t, r.scen), <<"configuration is not what the spec demands", gg, jj, r.cfg>>)
          /\ Assert(r.nostd = (XProg(r.prog).std = 0), <<"std flag", gg, jj>>)
          /\ IF jj = 1
               THEN Assert(r.scen = 1 /\ r.step = 1, <<"group must start with its first scenario", gg>>)
               ELSE LET q  == R(gg, jj - 1)
                        hq == PairScenario(t, q.scen)
                    IN Assert(\/ (r.scen = q.scen /\ r.step = q.step + 1)
                              \/ (q.step = Len(hq) /\ r.scen = q.scen + 1 /\ r.step = 1),
                              <<"scenario steps missing or out of order", gg, jj>>)
          /\ (jj = N(gg)) => Assert(r.scen = NPairShapes /\ r.step = Len(h), <<"last scenario incomplete", gg>>)

GroupWellFormed(gg) ==
    /\ LayoutWellFormed(gg)
    /\ CASE Kind = "hist" -> HistWellFormed(gg)
         [] Kind = "long" -> LongWellFormed(gg)
         [] Kind = "path" -> PathWellFormed(gg)
         [] Kind = "seed" -> SeedWellFormed(gg)
         [] Kind = "line" -> LineWellFormed(gg)
         [] Kind = "pair" -> PairWellFormed(gg)
         [] OTHER -> Assert(FALSE, <<"unknown kind", Kind>>)

\* the input identity of a record inside its group, and its configuration
InputOf(r) == IF Kind \in {"hist", "long", "pair"} THEN r.prog ELSE Grp[r.g].key
CfgOf(r) == CASE Kind = "path" -> r.spelling [] Kind \in {"seed", "line"} -> "seed" [] Kind = "pair" -> r.cfg [] OTHER -> "-"
StartsProcess(r) == CASE Kind = "hist" -> r.step = 1
                      [] Kind = "long" -> r.step = 1
                      [] Kind = "pair" -> r.step = 1
                      [] Kind = "path" -> TRUE          \* one process per spelling
                      [] OTHER -> FALSE                 \* seed repetitions share processes; their number of predecessors is not modelled

TraceInit ==
    /\ g \in 1..NG
    /\ GroupWellFormed(g)
    /\ seen = <<>> /\ hist = <<>> /\ oracle = <<>> /\ ph = <<>>
    /\ j = 1 /\ st = "run"

TraceRun ==
    /\ st = "run" /\ j <= N(g)
    /\ LET r == R(g, j)
           h == IF StartsProcess(r) THEN <<>> ELSE ph
       IN /\ (Kind \in {"hist", "pair"}) => Assert(r.before = h, <<"recorded history differs from the history of the process", g, j, r.before, h>>)
          /\ RunFrom(h, InputOf(r), CfgOf(r), ResultOf(r))
    /\ j' = j + 1
    /\ UNCHANGED <<oracle, g, st>>

TraceAccept ==
    /\ st = "run" /\ j > N(g)
    /\ Determinism
    /\ st' = "ok"
    /\ UNCHANGED <<seen, hist, oracle, ph, g, j>>

What(ra, rb) ==
    IF ra.class # rb.class THEN "class"
    ELSE IF ra.class = "ok" THEN "lua-bytes"
    ELSE IF ra.class = "panic" THEN "panic-message"
    ELSE IF ra.d_set = rb.d_set THEN "order"
    ELSE IF ra.d_first # rb.d_first THEN "first-error"
    ELSE IF ra.d_locs = rb.d_locs THEN "message"
    ELSE "later-error"

CtxOf(r) == CASE Kind = "hist" -> [scen |-> r.scen, step |-> r.step, before |-> r.before]
              [] Kind = "long" -> [step |-> r.step]
              [] Kind = "path" -> [spelling |-> r.spelling, cwd |-> r.cwd, arg |-> r.arg]
              [] Kind = "pair" -> [scen |-> r.scen, step |-> r.step, before |-> r.before, cfg |-> r.cfg]
              [] OTHER -> [run |-> r.run]

TraceReject ==
    /\ st = "run" /\ j > N(g)
    /\ ~Determinism
    /\ st' = "fail"
    /\ LET Bad == {i \in DOMAIN seen : Cardinality(seen[i]) > 1}
           i   == CHOOSE x \in Bad : \A y \in Bad : x <= y
           w   == Witness(hist, i)
           ra  == R(g, w[1])
           rb  == R(g, w[2])
       IN PrintT(<<"REJECT", ToJson([g |-> g, key |-> Grp[g].key, input |-> i, inputs_differing |-> Cardinality(Bad),
                                     runs |-> w, classes |-> <<ra.class, rb.class>>, digests |-> <<ra.digest, rb.digest>>,
                                     distinct |-> Cardinality(seen[i]),
                                     fresh_differs |-> ~HistoryIndependence,
                                     ctx_a |-> CtxOf(ra), ctx_b |-> CtxOf(rb),
                                     what |-> What(ra, rb)])>>)
    /\ UNCHANGED <<seen, hist, oracle, ph, g, j>>

TraceNext == TraceRun \/ TraceAccept \/ TraceReject

TraceSpec == TraceInit /\ [][TraceNext]_tvars

\* spec invariants; the quadratic ones are evaluated while the history is short and once more when the group is consumed
TraceInv ==
    /\ Len(hist) = j - 1
    /\ (j > 1) => (Len(ph) >= 1 /\ ph[Len(ph)] = hist[Len(hist)].input /\ Len(ph) = hist[Len(hist)].nbefore + 1)
    /\ (j <= 12 \/ st # "run") => SeenIsImageOfHist
    /\ (Len(hist) <= 300 /\ (j <= 12 \/ st # "run")) => (TwoFormsAgree /\ ContextFormsFollow)
    /\ st = "ok" => (Determinism /\ HistoryIndependence /\ j = N(g) + 1)
    /\ st = "fail" => ~Determinism

TraceTotal == st = "run" => ENABLED TraceNext
=============================================================================
