"""C14 - call/return sugar and layout never change meaning.

SyltSurface (TLA+) defines the surface sites of a core program (call form, function tail, loop header, redundant
parentheses, comment/blank-line points, bracket line breaks, indentation), WHEN a choice is legal (from the token that
follows the call in the rendering), Resolve (preference -> legal choice) and a token-level model (Render, a reference
parser that follows sylt-parser, Desugar).

 1. model      TLC checks Sound (legal => Desugar(Parse(Render(core, choice))) = core) and Tight (illegal => other
               tree or syntax error) over every RAW choice of the call skeletons, and prints the expected tree of every
               rendering; the harness renders the same (expression, choice) pairs, parses them with the REAL parser, and
               TLC (mode pvalidate) compares tree by tree: the reference parser IS the real parser on this universe.
 2. emit       TLC enumerates the programs (call-heavy skeletons, the shared prelude, the pairwise-nesting universe of
               SyltGen, one harness context per expression) and for each its variant universe: every legal choice
               function over <= 6 sugar sites, every single site toggled, uniform / strided / mixed patterns of all knobs.
 3. record     the harness renders every variant (strict: a choice it cannot honour is a tool error), compiles it and
               parses it: class, raw Lua digest, digest with the `<!>` line number masked, parser-tree digest.
 4. validate   TLC re-derives the variant universe per program, asserts that the record covers it, that every recorded
               choice is legal and every site option exercised, and decides: all variants accepted, same parser tree,
               same masked digest, and the same RAW bytes when the variant keeps the line structure.
"""
import json
import os
import random
import re
import subprocess
import vlib

PID = "C14"
MOD = "MC_Surface"


def tlc(wd, mode, cfg, env, tags, name=None, workers=None, timeout=3000, xmx="10g"):
    e = {"MODE": mode}
    e.update(env)
    # -coverage is off: TLC's cost model does not survive the deeply recursive operators of the token-level parser
    return vlib.tlc(MOD, cfg=cfg, wd=wd, env=e, tags=tags, workers=workers, timeout=timeout, xmx=xmx, coverage=False,
                    out_file=os.path.join(wd, "tlc-%s.out" % (name or mode)))


def dedupe(records):
    seen, out = set(), []
    for (_, p) in records:
        h = vlib.sha(p)
        if h not in seen:
            seen.add(h)
            out.append(p)
    return out


TRIV = []   # SyltSurface!TrivSeqs, filled from TLC's PRELUDE record


def kind_opt(key, v):
    if key == "indent":
        return "indent=%d" % v
    kind = key.split("@")[0]
    if kind in ("b", "g", "o", "d", "f", "h") and v // 8 < len(TRIV):
        # gaps mask / trivia sequence (T end-of-line comment, C comment line, B blank line)
        return "%s=%d/%s" % (kind, v % 8, "".join(TRIV[v // 8]) or "-")
    return "%s=%d" % (kind, v)


def diff_keys(ch):
    return {k: v for k, v in ch.items() if not (k == "indent" and v == 4) and v != 0}


def signature(case, why, ch):
    """From the case: which kinds of choice the smallest offending variant makes, and in which position class."""
    sites = case.get("sites", {})
    parts = sorted({"%s@%s" % (kind_opt(k, v), sites.get(k, "-")) for k, v in diff_keys(ch).items()})
    if len(parts) > 3:
        kinds = sorted({p.split("@")[0] for p in parts})
        return "C14|%s|combination|%s" % (why, ",".join(kinds))
    return "C14|%s|%s" % (why, "+".join(parts))


def render(tops, ch, triv):
    p = subprocess.run([os.path.join(vlib.BIN, "c14"), "render"], input=json.dumps({"tops": tops, "ch": ch, "triv": triv}),
                       stdout=subprocess.PIPE, stderr=subprocess.PIPE, text=True)
    return p.stdout if p.returncode == 0 else "<<render failed: %s>>" % p.stderr[-300:]


def run(ctx):
    tier = ctx.tier
    wd = vlib.workdir(PID)
    ev = vlib.Evidence(PID, tier, "model_checking")
    verdicts = vlib.Verdicts(PID)
    vlib.build_harness(["c14"])
    quick = tier == "quick"
    seed = ctx.seed
    genv = {"SEED": seed, "MAXEXH": 6, "MAXPROD": 256, "SKMAXPROD": 1024 if quick else 4096, "NMIX": 4 if quick else 8,
            "GENSTRIDE": 64 if quick else 1, "GENPHASE": seed % 64 if quick else 0}
    menv = {"MODELSTRIDE": 5 if quick else 1, "MODELPHASE": seed % 5 if quick else 0}
    replay_case = None
    if ctx.replay:
        replay_case = json.load(open(ctx.replay))["replay"]

    # the two preludes (put in front of every focus by the harness and by the validation alike)
    r = tlc(wd, "preludes", "MC_Surface.cfg", {}, ("PRELUDE",), workers=1)
    vlib.require_tlc_ok(r, "MC_Surface preludes")
    preludes = r.records[0][1]
    TRIV[:] = preludes["triv"]
    pf = os.path.join(wd, "preludes.json")
    with open(pf, "w") as f:
        json.dump(preludes, f)

    # ------------------------------------------------------------------ 1. token-level model and its binding to the real parser
    model_stats = {}
    if not replay_case or replay_case.get("kind") == "parse":
        r = tlc(wd, "exprs", "MC_Surface.cfg", {}, ("EXPR",), workers=1)
        vlib.require_tlc_ok(r, "MC_Surface exprs")
        exprs = dedupe(r.records)
        xf = os.path.join(wd, "exprs.ndjson")
        vlib.write_ndjson(xf, exprs)
        if replay_case:
            pcases = [replay_case["case"]]
        else:
            m = tlc(wd, "model", "MC_Surface.cfg", menv, ("PARSE",), timeout=1500)
            if m.invariant_violated:
                vlib.tool_error("SyltSurface's own invariant %s fails (legality rule vs reference parser): %s" % (m.invariant_violated, (m.error or "")[:1500]))
            vlib.require_tlc_ok(m, "MC_Surface model (Sound, Tight)")
            pcases = dedupe(m.records)
            nlegal = sum(1 for p in pcases if p["legal"])
            nerr = sum(1 for p in pcases if p["expect"] == "error")
            nother = sum(1 for p in pcases if not p["legal"] and p["expect"] != "error")
            if len(pcases) < 5000 or min(nlegal, nerr, nother) == 0:
                vlib.tool_error("vacuity: token-level universe too small (%d cases, %d legal, %d errors, %d other trees)" % (len(pcases), nlegal, nerr, nother))
            model_stats = {"skeleton_expressions": len(exprs), "renderings": len(pcases), "legal": nlegal,
                           "illegal_syntax_error": nerr, "illegal_other_tree": nother}
            ev.set(states=m.distinct, transitions=m.generated, spec_invariants=["Sound", "Tight", "ResolveLegal"], token_model=model_stats)
        cf = os.path.join(wd, "pcases.ndjson")
        tf = os.path.join(wd, "ptrace.ndjson")
        vlib.write_ndjson(cf, pcases)
        vlib.harness("c14", ["parse", xf, cf, tf])
        v = tlc(wd, "pvalidate", "MC_Surface.cfg", {"TRACE": tf}, ("REJECT",), timeout=1500)
        vlib.require_tlc_ok(v, "MC_Surface pvalidate")
        precs = vlib.read_ndjson(tf)
        ev.add("states", v.distinct)
        ev.add("transitions", v.generated)
        ev.add("traces_validated_against_impl", len(precs))
        for rej in dedupe(v.records):
            rec = precs[rej["rec"] - 1]
            # The reference parser is the specification (it equals the real parser on the whole universe of the unchanged
            # tree, legal and illegal renderings alike): a rendering the real parser reads differently is a violation.
            # legal: a form the grammar rule calls meaning-preserving is read as something else / rejected;
            # illegal: the grammar itself moved (what such a text means, or whether it is an error, changed).
            forms = sorted({kind_opt(k, x) for k, x in diff_keys(rec["ch"]).items()})
            cls = "skeleton" if rej["legal"] else "skeleton-illegal-form"
            verdicts.add("C14|tree-differs|%s|%s" % (cls, "+".join(forms)),
                         "real parser reads %r as %s, the specification's parser as %s (core %s)" % (rec["src"], rec["got"], rej["expect"], rec["core"]),
                         {"kind": "parse", "case": pcases[rej["rec"] - 1], "source": rec["src"], "got": rec["got"], "expect": rej["expect"]})
        if not replay_case:
            # negative control: a parser that swaps the first two arguments of every call must be caught
            # (calls of f with at least two arguments: swapping is visible there unless the two are alike)
            sub = [p for p in pcases if p["legal"] and re.search(r"f\([^()]*,", p["core"])][:400]
            if len(sub) < 20:
                sub = [p for p in pcases if p["legal"] and "f(" in p["core"]][:400]
            ncf, ntf = os.path.join(wd, "neg-pcases.ndjson"), os.path.join(wd, "neg-ptrace.ndjson")
            vlib.write_ndjson(ncf, sub)
            vlib.harness("c14", ["parse", xf, ncf, ntf], env={"C14_STUB": "flip"})
            nv = tlc(wd, "pvalidate", "MC_Surface.cfg", {"TRACE": ntf}, ("REJECT",), name="neg-flip", workers=4)
            vlib.require_tlc_ok(nv, "MC_Surface pvalidate (negative control)")
            nflip = len({p["rec"] for (_, p) in nv.records})
            if nflip == 0 or nflip * 5 < len(sub):      # a backstop against a blind validator, not a statistic
                vlib.tool_error("negative control accepted: argument-swapping parser detected on only %d of %d renderings" % (nflip, len(sub)))
            ev.add("negative_controls_rejected", nflip)

    # ------------------------------------------------------------------ 2. programs and their variant universes
    if replay_case and replay_case.get("kind") == "parse":
        cases = []
    elif replay_case:
        cases = [replay_case["case"]]
        genv["REPLAYMODE"] = 1
    else:
        r = tlc(wd, "emit", "MC_Surface_emit.cfg", genv, ("REPLAY",), timeout=2400, xmx="12g")
        if r.invariant_violated:
            vlib.tool_error("SyltSurface's own invariant %s fails: %s" % (r.invariant_violated, (r.error or "")[:1500]))
        vlib.require_tlc_ok(r, "MC_Surface emit")
        cases = dedupe(r.records)
        ev.add("states", r.distinct)
        ev.add("transitions", r.generated)
        nsk = sum(1 for c in cases if c["id"]["u"] != "gen")
        if nsk < 10 or len(cases) - nsk < (80 if quick else 2000):
            vlib.tool_error("vacuity: only %d skeleton and %d generated programs" % (nsk, len(cases) - nsk))
        if not any(c["nsugar"] <= 6 for c in cases):
            vlib.tool_error("vacuity: no program small enough for the exhaustive family")

    nvariants = 0
    recs = []
    if cases:
        cf = os.path.join(wd, "cases.ndjson")
        tf = os.path.join(wd, "trace.ndjson")
        vlib.write_ndjson(cf, cases)
        vlib.harness("c14", ["record", cf, pf, tf], timeout=3000)
        recs = vlib.read_ndjson(tf)
        v = tlc(wd, "validate", "MC_Surface_emit.cfg", dict(genv, TRACE=tf), ("REJECT",), timeout=2400, xmx="12g")
        vlib.require_tlc_ok(v, "MC_Surface validate")
        ev.add("states", v.distinct)
        ev.add("transitions", v.generated)
        ev.add("traces_validated_against_impl", len(recs))
        nvariants = sum(len(r_["results"]) for r_ in recs)
        for rej in dedupe(v.records):
            rec = recs[rej["rec"] - 1]
            case = cases[rej["rec"] - 1]
            results = rec["results"]
            # the smallest offending variants name the defects: an offending variant is EXPLAINED by a smaller offending one
            # (same failure class) whose choices it contains; every unexplained one gets a signature of its own
            bad = sorted(rej["bad"], key=lambda b_: (len(diff_keys(results[b_["j"] - 1]["ch"])), b_["j"]))
            roots = []
            for b_ in bad:
                d_ = diff_keys(results[b_["j"] - 1]["ch"])
                if not any(r_["why"] == b_["why"] and all(d_.get(k_) == x_ for k_, x_ in diff_keys(results[r_["j"] - 1]["ch"]).items()) for r_ in roots):
                    roots.append(b_)
            by_sig = {}
            for b_ in roots:
                by_sig.setdefault(signature(case, b_["why"], results[b_["j"] - 1]["ch"]), b_)
            tops = (preludes[rec["pre"]] if rec["pre"] != "none" else []) + rec["focus"]
            for _sig, b_ in by_sig.items():
                why = b_["why"]
                res = results[b_["j"] - 1]
                sig = signature(case, why, res["ch"])
                small = dict(case, variants=[results[0]["ch"], res["ch"]])
                verdicts.add(sig, "%s: variant %s of program %s (%d of %d variants offend) %s" % (
                    why, json.dumps(diff_keys(res["ch"]), sort_keys=True)[:200], json.dumps(case["id"], sort_keys=True),
                    len(bad), len(results), res.get("detail", "")),
                    {"kind": "program", "case": small, "bad_variant": res, "plain": results[0],
                     "plain_source": render(tops, results[0]["ch"], preludes["triv"]),
                     "variant_source": render(tops, res["ch"], preludes["triv"])})

    # ------------------------------------------------------------------ vacuity: every sugar kind and layout knob was exercised
    if not replay_case:
        written = {}
        for r_ in recs:
            for k_, n_ in r_["written"].items():
                written[k_] = written.get(k_, 0) + n_
        need = ["c=1", "c=2", "c=3", "t=1", "l=1", "p=1", "p=2", "s&1", "s&2", "s&4", "s&8",
                "indent=0", "indent=1", "indent=2", "indent=8", "indent=9"]
        # every trivia sequence (comment line / blank line / end-of-line comment, length <= 3) inside every bracket-like construct,
        # and every gap (after the opener, after a separator, before the closer) of each
        ntriv = len(preludes["triv"])
        gaps = {"call": (1, 2, 4), "tuple": (1, 2, 4), "list": (1, 2, 4), "blob": (1, 2, 4), "enum": (1, 2, 4), "blobdecl": (1, 2, 4),
                "fromuse": (1, 2, 4), "group": (1, 4), "prime": (2,), "op": (2,), "fnsig": (1, 2, 4), "fnhead": (1,)}
        for cls, bits in gaps.items():
            need += ["gap&%d:%s" % (b_, cls) for b_ in bits]
            need += ["triv:%s=%d" % (cls, t_) for t_ in range(0 if cls not in ("blob", "enum", "blobdecl", "fnhead") else 1, ntriv)]
        missing = [k_ for k_ in need if written.get(k_, 0) == 0]
        if missing:
            vlib.tool_error("vacuity: never written in an accepted variant: %s" % missing)
        ev.set(written_in_accepted_variants={k_: written[k_] for k_ in sorted(written)})

        # -------------------------------------------------------------- negative controls on the recorded results
        rnd = random.Random(seed)
        small = [c for c in cases if len(c["variants"]) <= 250]
        sub = rnd.sample(small, min(len(small), 12))
        ncf = os.path.join(wd, "neg-cases.ndjson")
        vlib.write_ndjson(ncf, sub)
        rejected = 0
        for stub in ("swap", "salt", "rawsalt"):
            ntf = os.path.join(wd, "neg-%s.ndjson" % stub)
            vlib.harness("c14", ["record", ncf, pf, ntf], env={"C14_STUB": stub})
            nv = tlc(wd, "validate", "MC_Surface_emit.cfg", dict(genv, TRACE=ntf), ("REJECT",), name="neg-" + stub, workers=4)
            vlib.require_tlc_ok(nv, "MC_Surface validate (negative control %s)" % stub)
            n = len({p["rec"] for (_, p) in nv.records})
            if n != len(sub):
                vlib.tool_error("negative control %s accepted: only %d of %d corrupted records rejected" % (stub, n, len(sub)))
            rejected += n
        for stub, msg in (("drop", "does not cover"), ("extra", "not legal")):
            ntf = os.path.join(wd, "neg-%s.ndjson" % stub)
            vlib.harness("c14", ["record", ncf, pf, ntf], env={"C14_STUB": stub})
            nv = tlc(wd, "validate", "MC_Surface_emit.cfg", dict(genv, TRACE=ntf), ("REJECT",), name="neg-" + stub, workers=4)
            if nv.ok or msg not in (nv.error or ""):
                vlib.tool_error("negative control %s accepted: TLC did not refuse the incomplete/illegal record" % stub)
            rejected += 1
        ev.add("negative_controls_rejected", rejected)

    by_u = {}
    for c in cases:
        by_u[c["id"]["u"]] = by_u.get(c["id"]["u"], 0) + 1
    exh_programs = sum(1 for c in cases if c["nsugar"] <= 6)
    line_moving = sum(1 for r_ in recs for x in r_["results"] if x["raw"] != r_["results"][0]["raw"] and x["masked"] == r_["results"][0]["masked"])
    ev.set(programs=len(recs), programs_by_universe=by_u, evaluations=nvariants, distinct_nontrivial=len(recs),
           programs_with_at_most_6_sugar_sites=exh_programs,
           variants_whose_only_difference_is_the_masked_line_number=line_moving,
           exhaustive=(tier == "thorough"),
           rule="programs: 19 skeletons + the shared prelude (all sites) + SyltGen's pairwise-nesting universe, one harness context per "
                "expression (quick: every 64th pair; skeletons exhaustive up to 1024 preference functions); variants per program = SyltSurface/MC_Surface!Variants: all legal choice functions over the "
                "nested expression's (skeleton: all) sugar sites when <= 6 sites and <= 256 (skeleton: 4096) preference functions, every sugar site "
                "toggled alone to each option, every layout site toggled alone (programs with <= 40 sites), uniform/strided/mixed patterns of call form, "
                "tails, loops, parentheses 1/2, comment/blank-line masks, indentation 0/1/2/8/tab, and the layout family: every trivia sequence (<= 3 of comment "
                "line / blank line / end-of-line comment) at every gap of every bracket-like construct (b@ g@ o@ d@ sites); a program counts as non-trivial "
                "when it has >= 1 sugar site (all have)",
           samples=[{"id": r_["id"], "variants": len(r_["results"]), "a_choice": r_["results"][len(r_["results"]) // 2]["ch"]} for r_ in recs[:3]],
           known_findings_hit=verdicts.known_hits)
    ev.assume("masked before comparing: exactly the number N in the text 'Reached unreachable code on line N' (the only source-line number the emitter embeds: "
              "sylt-compiler/src/intermediate.rs, S::Unreachable); variants that keep the line structure are compared byte for byte, unmasked",
              "every callee takes `'` and `->` (a prime after a callee that is not a bare name chain only at the lowest precedence level); `->` is not offered where "
              "callee and first argument both contain a function literal; every expression may be parenthesised; assignment targets are lvalue paths without sites; line breaks are varied inside brackets only",
              "parser trees are compared after astdump (spans and Parenthesis nodes dropped, arrow calls desugared), with `ret e` as a function's last "
              "statement read as `e` and the blob literal's type-name length field dropped (it encodes span columns)",
              "TLC's -coverage is switched off for MC_Surface (its cost model runs out of memory on the recursive parser); action counts are taken from "
              "the state counts instead: one state pair per case in every mode")
    rc = verdicts.finish()
    ev.violations = len(verdicts.violations)
    ev.write()
    return rc
