"""C12 - modules: imports resolve as documented and files are isolated.

1. TLC model-checks SyltModules (MC_Modules): PathToFile is total on the candidate texts of the file tree and agrees
   with every documented way of naming a file (PathsOK), every global of every base program is reachable from start and
   SyltSem runs the program to completion (ProgramsOK); for every configuration (program x placement of its globals in
   the tree x variant = import style per cross-file reference, path form, back-imports, decoys) the invariant ConfigOK
   holds: names visible in a file are unambiguous, every reference as written resolves to the intended global of the
   intended file, a name that was not imported is not visible (no negative twin's reference resolves), each file occurs
   once in the load sequence, every import path names a file of the tree. TLC prints each configuration (REPLAY) and
   the expected behaviour of each base program as computed by the dynamic semantics SyltSem (PROG).
2. The harness (c12) writes every configuration as an in-memory project (the import lines are the specification's
   text), compiles it through the public API with a counting reader, runs the Lua in minilua, and compiles each
   negative twin (one needed import removed / a name used unqualified / through the implicit name although aliased /
   through another or an unknown namespace).
3. TLC (Trace_Modules) re-derives every configuration from its address (p, m, v), asserts that the records cover the
   universe exactly, that the harness wrote the derived import lines and twins, and judges every record: variant accepted,
   prints and terminal status equal the specification's, every file of the load sequence read exactly once and no other
   file read, every twin rejected (and not for a syntax error). One REJECT line per non-conforming record.
3b. The configurations of the disk universe (SyltModules: a mutable global or an initialiser with an effect, and a file
   named by a rooted and by a relative path, or a diamond, or the main file imported back) are also written to disk and
   compiled in child processes, once per spelling of the main file (bare name from inside the project directory,
   ./main.sy, a path from the parent directory, a path with .., an absolute path), with sylt's own file reader behind a
   counter that counts per FILE (canonical path); Trace_Modules (UNIVERSE=disk) asserts that every configuration occurs
   under all spellings, spelled as the specification says, and judges each record like the in-memory ones.
3c. Family L (SyltLayers / MC_Layers / Trace_Layers): module order, names handed on by `from` through exporting files
   (chains of length 1..3 through shapes/exports.sy and kit/exports.sy), every order of the main file's import
   statements, the same global names (run, start, boot) in every file, printing initialisers in every file, an imported
   file's own `start` called from the main file's start directly or through other files. The specification says what an
   accepted configuration prints; every configuration must be accepted except those in which a `from` takes a name the
   other file only imported itself (verdict free: guide and tests/import/faulty_from_circular.sy disagree), and the verdict
   must not depend on the order of the main file's import statements. c12 runl renders the files (import lines and
   reference texts are the specification's), compiles and runs them; Trace_Layers re-derives every configuration and
   judges the record together with the records of the same program in the other orders.
4. Negative controls: corrupted observations (print dropped, status flipped, a file read twice, an unimported file read,
   a twin accepted, the variant rejected) and a stub implementation in which dropped imports stay visible must all be
   rejected by TLC.
"""
import json
import os
import vlib

PID = "C12"
STYLES = ("use", "useas", "from", "fromas")
FORMS = ("rel-plain", "root-plain", "rel-folder", "root-folder", "bare-root")
TWIN_KINDS = ("drop-import", "unqualified", "alias-bypass", "wrong-namespace", "unknown-namespace",
              "chain-skip", "chain-reversed", "chain-unknown-hop", "chain-foreign-hop")
WORKERS = 4
# the two file trees (constants of the specification): name -> (MC cfg, trace cfg, number of base programs)
MODELS = {"A": ("MC_Modules.cfg", "Trace_Modules.cfg", 4), "B": ("MC_ModulesB.cfg", "Trace_ModulesB.cfg", 2)}
# tree B: where the std module name sits in the paths that name the file
STD_POS = {"geometry/math.sy": "last-component", "util/list.sy": "last-component", "set/b.sy": "first-folder",
           "sub/dict/c.sy": "inner-folder", "vendor/set/exports.sy": "exports-folder"}


LAYERS_NV = {"quick": 2, "thorough": 16}


def emit_l(wd, nv, seed, only=None, name="emit-L"):
    env = {"NV": nv, "SEED": seed}
    if only:
        env.update({"ONLY": "1", "ONLY_N": only[0], "ONLY_W": only[1]})
    r = vlib.tlc("MC_Layers", cfg="MC_Layers.cfg", wd=wd, env=env, tags=("REPLAY", "INFO"), workers=WORKERS, timeout=2400, xmx="8g",
                 coverage=False, out_file=os.path.join(wd, "tlc-%s.out" % name))
    vlib.require_tlc_ok(r, "SyltLayers universe (MC_Layers)")
    info = [c for (t, c) in r.records if t == "INFO"][:1]
    cases = {}
    for (t, c) in r.records:
        if t == "REPLAY":
            cases[(c["base"], c["w"], c["n"])] = c      # sorted so: the orders of one program are neighbours
    cases = [cases[key] for key in sorted(cases)]
    for c in cases:
        c["tree"] = "L"
    if not info or not cases:
        vlib.tool_error("MC_Layers printed %d info records and %d configurations" % (len(info), len(cases)))
    if r.distinct != 2 * len(cases):
        vlib.tool_error("MC_Layers explored %d states but printed %d configurations" % (r.distinct, len(cases)))
    if not only and len(cases) != nv * info[0]["primaries"]:
        vlib.tool_error("MC_Layers: %d configurations for %d primaries x %d variants" % (len(cases), info[0]["primaries"], nv))
    return r, info, cases


def record_l(wd, info, cases, name):
    inf, cf = os.path.join(wd, name + "-info.ndjson"), os.path.join(wd, name + "-cases.ndjson")
    tf, ff = os.path.join(wd, name + "-trace.ndjson"), os.path.join(wd, name + "-full.ndjson")
    vlib.write_ndjson(inf, info)
    vlib.write_ndjson(cf, cases)
    vlib.harness("c12", ["runl", inf, cf, tf, ff])
    return tf, ff


def validate_l(wd, name, trace, universe, nv, seed, nrec):
    r = vlib.tlc("Trace_Layers", cfg="Trace_Layers.cfg", wd=wd, workers=WORKERS, timeout=3000, xmx="8g",
                 env={"TRACE": trace, "UNIVERSE": universe, "NV": nv, "SEED": seed}, tags=("REJECT",), coverage=False,
                 out_file=os.path.join(wd, "tlc-%s.out" % name))
    vlib.require_tlc_ok(r, "Trace_Layers/" + name)
    if r.distinct != 2 * nrec:
        vlib.tool_error("%s: TLC validated %d states for %d records" % (name, r.distinct, nrec))
    return r, {p["rec"]: sorted(p["whys"]) for (_, p) in r.records}


def signature_l(case, why):
    if why == "order-dependent-verdict":
        return "C12|%s|family=layers|chain=%d|consumer=%s|last-hop=%s|handed-on-via-from=%d" % (
            why, case["len"], case["cons"].replace(".sy", ""), case["last"], case["free"])
    return "C12|%s|family=layers|chain=%d|consumer=%s|last-hop=%s|handed-on-via-from=%d|boots=%d|own-start-called=%d" % (
        why, case["len"], case["cons"].replace(".sy", ""), case["last"], case["free"], case["boots"], case["startdep"])


def describe_l(case, full, why, group=None):
    if why == "order-dependent-verdict" and group:
        return "the same program (layers n %% 288 = %d, w=%d: chain of %d, consumer %s, last hop %s) is %s depending on the order of the main file's import statements: %s" % (
            case["base"], case["w"], case["len"], case["cons"], case["last"],
            "accepted or rejected", "; ".join("%s -> %s" % (" / ".join(g[0]), g[1]) for g in group[:6]))
    return "%s (layers n=%d w=%d: chain of %d, consumer %s, last hop %s, module order %s): specification prints %s; compile=%s %s prints=%s status=%s" % (
        why, case["n"], case["w"], case["len"], case["cons"], case["last"], ">".join(case["load"]),
        case["expect"]["prints"], full["class"], full["error"][:120], full["prints"], full["status"])


def replay_obj_l(case, full):
    return {"family": "L", "tree": "L", "n": case["n"], "w": case["w"], "program": "layers",
            "expected": {"verdict": "free: accepted or rejected, the same in every order of the main file's imports" if case["free"] else "accepted",
                         "prints": case["expect"]["prints"], "status": case["expect"]["status"], "load": case["load"]},
            "files": full["files"], "observed": {k: full[k] for k in ("class", "error", "prints", "status", "reads")},
            "case": {k: v for k, v in case.items() if k != "files"}}


def groups_l(cases, fulls):
    """(base, w) -> [(main's import lines, compile result)] over the recorded configurations"""
    g = {}
    for c, f in zip(cases, fulls):
        g.setdefault((c["base"], c["w"]), []).append((c["files"][0]["lines"], f["class"]))
    return g


def judge_l(cases, fulls, rejects, verdicts):
    grp = groups_l(cases, fulls)
    for rec, whys in sorted(rejects.items()):
        case, full = cases[rec - 1], fulls[rec - 1]
        for why in whys:
            verdicts.add(signature_l(case, why), describe_l(case, full, why, grp[(case["base"], case["w"])]), replay_obj_l(case, full))


def vacuity_l(cases, recs, rejects, conforming_only):
    """family L: every shape of the universe occurs (conforming_only: in configurations that were accepted and conformed)"""
    cnt = {}

    def bump(key):
        cnt[key] = cnt.get(key, 0) + 1
    for i, c in enumerate(cases):
        if conforming_only and ((i + 1) in rejects or recs[i]["class"] != "ok"):
            continue
        bump("L:configurations")
        bump("L:chain%d/%s" % (c["len"], c["last"]))
        bump("L:consumer:%s" % c["cons"])
        bump("L:verdict-free" if c["free"] else "L:verdict-definite")
        if c["free"] and c["last"] == "from":
            bump("L:handed-on-name-through-from/chain%d" % c["len"])
        if c["len"] >= 2 and c["last"] == "ns":
            bump("L:handed-on-name-through-namespace")
        for key in ("boots", "startdep", "extras", "cycle", "gofrom", "rev", "a1", "a2"):
            if c[key]:
                bump("L:" + key)
        if c["boots"] and len(c["load"]) >= 5 and c["nmain"] >= 3:
            bump("L:boots-in-5-files-main-with-3-imports")
        if c["startdep"] and c["em"] == 2:
            bump("L:own-start-called-through-another-file")
        if c["startdep"] and c["em"] != 2:
            bump("L:own-start-called-from-main-start")
        bump("L:smode%d" % c["smode"])
        bump("L:main-imports:%d" % min(c["nmain"], 4))
        if c["multi"] >= 1:
            bump("L:other-file-with-several-imports")
        bump("L:layout:" + c["layout"])
    need = ["L:verdict-definite", "L:handed-on-name-through-namespace",
            "L:boots", "L:startdep", "L:extras", "L:cycle", "L:gofrom", "L:rev", "L:a1", "L:a2",
            "L:boots-in-5-files-main-with-3-imports", "L:own-start-called-through-another-file", "L:own-start-called-from-main-start",
            "L:other-file-with-several-imports"] + \
           ["L:smode%d" % k for k in range(4)] + ["L:main-imports:%d" % k for k in (1, 2, 3, 4)] + \
           ["L:layout:" + l for l in ("plain", "paren", "multi")] + \
           ["L:chain%d/%s" % (n, l) for n in (1, 2, 3) for l in ("from", "ns") if not conforming_only or (n, l) in ((1, "from"), (1, "ns"), (2, "ns"))] + \
           ["L:consumer:%s" % f for f in ("main.sy", "report.sy")] + \
           ([] if conforming_only else ["L:verdict-free", "L:handed-on-name-through-from/chain2", "L:handed-on-name-through-from/chain3"])
    missing = [k for k in need if cnt.get(k, 0) == 0]
    if missing:
        vlib.tool_error("vacuity (family L): never exercised in %s configuration: %s" % (
            "an accepted, conforming" if conforming_only else "any", ", ".join(missing)))
    return cnt


def controls_l(wd, recs, cases, rejects, nv, seed):
    """corrupted observations of conforming L records: TLC must reject exactly those, for the expected reason.
    Whole groups (all orders of one program) are copied, one member is corrupted."""
    groups = {}
    for i, c in enumerate(cases):
        groups.setdefault((c["base"], c["w"]), []).append(i)
    # groups in which every record conforms and was accepted
    clean = [g for g in groups.values() if all((i + 1) not in rejects and recs[i]["class"] == "ok" for i in g)]
    chosen = {}      # group key -> (records, {position in group: whys})

    def add_group(g, k, mutate, why, all_whys=None):
        key = (cases[g[0]]["base"], cases[g[0]]["w"])
        if key in chosen:
            return False
        xs, wl = [], {}
        for j, i in enumerate(g):
            x = json.loads(json.dumps(recs[i]))
            if j == k:
                mutate(x, cases[i])
                wl[j] = [why]
            xs.append(x)
        for j in range(len(g)):
            if all_whys:
                wl[j] = sorted(set(wl.get(j, [])) | set(all_whys))
        chosen[key] = (xs, wl)
        return True

    def drop_print(x, c):
        x["prints"] = x["prints"][:-1]

    def reject(x, c):
        x["class"], x["errkind"], x["prints"], x["status"] = "err", "compile", [], "none"

    def read_twice(x, c):
        [r for r in x["reads"] if r["path"] == c["load"][-1]][0]["n"] = 2

    def status(x, c):
        x["status"] = "assert_failed"

    def swap_boots(x, c):
        x["prints"][1], x["prints"][2] = x["prints"][2], x["prints"][1]

    def other_start(x, c):
        x["prints"] = [p for p in x["prints"] if p.endswith(" boot")] + ["engine start", "engine run"]

    definite = [g for g in clean if not cases[g[0]]["free"]]
    free = [g for g in clean if cases[g[0]]["free"]]
    plan = [(drop_print, "prints-differ", clean, lambda c: True),
            (read_twice, "file-read-twice", clean, lambda c: True),
            (status, "status-differs", clean, lambda c: True),
            (swap_boots, "prints-differ", clean, lambda c: c["boots"] and len(c["load"]) >= 3),
            (other_start, "prints-differ", clean, lambda c: c["startdep"])]
    for mutate, why, pool, cond in plan:
        n = 0
        for g in pool[::max(1, len(pool) // 40)]:
            if n < 6 and cond(cases[g[0]]) and add_group(g, len(g) // 2, mutate, why):
                n += 1
        if n == 0:
            vlib.tool_error("negative control (family L): no group to corrupt for %s" % why)
    # a configuration in which no name is handed on through `from` is rejected: variant-err, and - when another order of
    # the same program is accepted - an order-dependent verdict
    n = 0
    for g in definite[::max(1, len(definite) // 40)]:
        if n < 6 and add_group(g, len(g) // 2, reject, "variant-err", ["order-dependent-verdict"] if len(g) > 1 else None):
            n += 1
    # a free-verdict program whose verdict is the same in every order, with ONE order flipped: the flipped record conforms on
    # its own (rejected resp. accepted with the model's prints), the order dependence does not
    def accept(x, c):
        x["class"], x["errkind"], x["prints"], x["status"] = "ok", "", list(c["expect"]["prints"]), "done"

    uniform = [g for g in groups.values() if len(g) > 1 and cases[g[0]]["free"] and all((i + 1) not in rejects for i in g)
               and len({recs[i]["class"] for i in g}) == 1]
    n_free = 0
    for g in uniform[::max(1, len(uniform) // 40)]:
        if n_free < 6 and add_group(g, 0, reject if recs[g[0]]["class"] == "ok" else accept, "order-dependent-verdict",
                                    ["order-dependent-verdict"]):
            n_free += 1
    if n_free == 0:
        vlib.tool_error("negative control (family L): no free-verdict program with a uniform verdict to make order dependent")
    out, want = [], {}
    for key in sorted(chosen):          # Trace_Layers wants the records sorted by (n % NBaseL, w, n)
        xs, wl = chosen[key]
        for j, x in enumerate(xs):
            out.append(x)
            if j in wl:
                want[len(out)] = wl[j]
    path = os.path.join(wd, "neg-L.ndjson")
    vlib.write_ndjson(path, out)
    _, got = validate_l(wd, "neg-L", path, "part", nv, seed, len(out))
    kinds = {w for ws in want.values() for w in ws}
    if got != want or len(kinds) < 5:
        bad = [k for k in want if got.get(k) != want[k]] + [k for k in got if k not in want]
        vlib.tool_error("negative control accepted (family L): %d of %d corrupted observations were not judged as expected (e.g. record %s: want %s got %s)" % (
            len(bad), len(want), bad[:1], [want.get(b) for b in bad[:1]], [got.get(b) for b in bad[:1]]))
    return len(want), n_free


def layers_phase(wd, tier, seed, verdicts):
    nv = LAYERS_NV[tier]
    r, info, cases = emit_l(wd, nv, seed)
    tf, ff = record_l(wd, info, cases, "cross-L")
    recs, fulls = vlib.read_ndjson(tf), vlib.read_ndjson(ff)
    if len(recs) != len(cases):
        vlib.tool_error("harness recorded %d of %d L configurations" % (len(recs), len(cases)))
    v, rejects = validate_l(wd, "cross-L", tf, "cross", nv, seed, len(recs))
    before = len(verdicts.violations)
    judge_l(cases, fulls, rejects, verdicts)
    vacuity_l(cases, recs, rejects, False)
    cnt = vacuity_l(cases, recs, rejects, True) if len(verdicts.violations) == before else vacuity_l(cases, recs, rejects, False)
    nconf = len(cases) - len(rejects)
    n_ctl, n_free = controls_l(wd, recs, cases, rejects, nv, seed) if (len(verdicts.violations) == before or nconf >= 200) else (0, 0)
    grp = groups_l(cases, fulls)
    obs = {"programs": len(grp),
           "accepted_in_every_order": sum(1 for g in grp.values() if {x[1] for x in g} == {"ok"}),
           "rejected_in_every_order": sum(1 for g in grp.values() if {x[1] for x in g} == {"err"}),
           "verdict_depends_on_order": sum(1 for g in grp.values() if len({x[1] for x in g}) > 1),
           "configurations_accepted": sum(1 for x in recs if x["class"] == "ok"),
           "configurations_rejected": sum(1 for x in recs if x["class"] == "err"),
           "free_verdict_configurations": sum(1 for c in cases if c["free"])}
    return {"r": r, "v": v, "info": info[0], "cases": cases, "recs": recs, "fulls": fulls, "rejects": rejects, "cnt": cnt,
            "controls": n_ctl, "controls_free_groups": n_free, "nv": nv, "observed": obs}


def cid(c):
    return (c["p"], c["m"], c["v"])


def emit(wd, nv, seed, model, only=None, name="emit"):
    env = {"NV": nv, "SEED": seed}
    if only:
        env.update({"ONLY": "1", "ONLY_P": only[0], "ONLY_M": only[1], "ONLY_V": only[2]})
    # no -coverage: the cost instrumentation of the recursive evaluator (SyltSem) exhausts the heap
    r = vlib.tlc("MC_Modules", cfg=MODELS[model][0], wd=wd, env=env, tags=("REPLAY", "PROG"), workers=WORKERS, timeout=2400, xmx="12g",
                 coverage=False, out_file=os.path.join(wd, "tlc-%s-%s.out" % (name, model)))
    vlib.require_tlc_ok(r, "SyltModules universe (MC_Modules, tree %s)" % model)
    progs = {p["p"]: p for (t, p) in r.records if t == "PROG"}
    cases = {}
    for (t, c) in r.records:
        if t == "REPLAY":
            cases[cid(c)] = c        # an action conjunct may be evaluated twice: dedupe
    cases = [cases[key] for key in sorted(cases)]
    for c in cases:
        c["tree"] = model
    if len(progs) != MODELS[model][2] or not cases:
        vlib.tool_error("MC_Modules printed %d programs and %d configurations" % (len(progs), len(cases)))
    if r.distinct != 2 * len(cases):
        vlib.tool_error("MC_Modules explored %d states but printed %d configurations" % (r.distinct, len(cases)))
    return r, [progs[p] for p in sorted(progs)], cases


def record(wd, progs, cases, name, env=None):
    pf, cf = os.path.join(wd, name + "-progs.ndjson"), os.path.join(wd, name + "-cases.ndjson")
    tf, ff = os.path.join(wd, name + "-trace.ndjson"), os.path.join(wd, name + "-full.ndjson")
    vlib.write_ndjson(pf, progs)
    vlib.write_ndjson(cf, cases)
    vlib.harness("c12", ["run", pf, cf, tf, ff], env=env)
    return tf, ff


def validate(wd, name, trace, universe, nv, seed, nrec, model):
    r = vlib.tlc("Trace_Modules", cfg=MODELS[model][1], wd=wd, workers=WORKERS, timeout=3000, xmx="12g",
                 env={"TRACE": trace, "UNIVERSE": universe, "NV": nv, "SEED": seed}, tags=("REJECT",), coverage=False,
                 out_file=os.path.join(wd, "tlc-%s.out" % name))
    vlib.require_tlc_ok(r, "Trace_Modules/" + name)
    if r.distinct != 2 * nrec:      # one initial state and one verdict state per record
        vlib.tool_error("%s: TLC validated %d states for %d records" % (name, r.distinct, nrec))
    rejects = {p["rec"]: sorted(p["whys"]) for (_, p) in r.records}
    return r, rejects


def signature(case, why):
    if "spelling" in case:
        return "C12|%s|main-file-spelling=%s|prog=%s|mixed=%d|mainback=%d|diamond=%d" % (
            why, case["spelling"], case["prog"], case["mixed"], case["mainback"], case["diamond"])
    if why.startswith("twin-"):
        kind = why.split(":", 1)[1]
        tw = [t for t in case["twins"] if t["kind"] == kind][0]
        return "C12|%s|style=%s|path=%s|item=%s" % (why, tw["st"], tw["form"], tw["itemkind"])
    styles = ",".join(sorted({e["st"] for e in case["edges"]}))
    return "C12|%s|tree=%s|prog=%s|styles=%s|cycle=%d|diamond=%d|decoys=%d" % (
        why, case["tree"], case["prog"], styles, case["cycle"], case["diamond"], case["decoy"])


def describe(case, full, why):
    if "spelling" in case:
        return "%s when the main file is given as %s from %s (program %s, placement %d, variant %d): compile=%s %s prints=%s reads=%s asked=%s" % (
            why, full["arg"], full["cwd"], case["prog"], case["m"], case["v"], full["class"], full["error"][:100], full["prints"],
            {r["path"]: r["n"] for r in full["reads"] if r["n"] != 1 or r["path"] not in case["load"]}, full.get("asked"))
    if why.startswith("twin-"):
        kind = why.split(":", 1)[1]
        tw = [t for t in full["twins"] if t["kind"] == kind][0]
        return "negative twin (%s of %s in %s) was not rejected: %s" % (kind, tw["item"], tw["file"], tw["class"])
    return "%s (program %s, placement %d, variant %d): compile=%s %s prints=%s status=%s reads=%s" % (
        why, case["prog"], case["m"], case["v"], full["class"], full["error"][:120], full["prints"], full["status"],
        {r["path"]: r["n"] for r in full["reads"] if r["n"] != 1 or r["path"] not in case["load"]})


def replay_obj(case, full, prog):
    return {"tree": case["tree"], "p": case["p"], "m": case["m"], "v": case["v"], "program": case["prog"],
            "spelling": full.get("spelling"), "cwd": full.get("cwd"), "arg": full.get("arg"), "asked": full.get("asked"),
            "expected": {"prints": prog["prints"], "status": prog["status"], "load": case["load"]},
            "files": full["files"], "observed": {k: full[k] for k in ("class", "error", "prints", "status", "reads")},
            "twins": full["twins"], "case": case}


def judge(cases, fulls, progs, rejects, verdicts):
    pmap = {p["p"]: p for p in progs}
    for rec, whys in sorted(rejects.items()):
        case, full = cases[rec - 1], fulls[rec - 1]
        for why in whys:
            verdicts.add(signature(case, why), describe(case, full, why), replay_obj(case, full, pmap[case["p"]]))


def corrupt_controls(wd, recs, cases, rejects, nv, seed, model):
    """(a) corrupt observations of conforming records: TLC must reject exactly those, for the expected reason."""
    good = [i for i in range(len(recs)) if (i + 1) not in rejects and cases[i]["edges"]]
    picked = good[::max(1, len(good) // 90)]
    out, want = [], {}
    for n, i in enumerate(picked):
        x, c = json.loads(json.dumps(recs[i])), cases[i]
        unloaded = [r for r in x["reads"] if r["path"] not in c["load"]]
        kind = n % 6
        if kind == 0:
            x["prints"] = x["prints"][:-1]
            w = "prints-differ"
        elif kind == 1:
            x["status"] = "assert_failed"
            w = "status-differs"
        elif kind == 2:
            [r for r in x["reads"] if r["path"] == c["load"][-1]][0]["n"] = 2
            w = "file-read-twice"
        elif kind == 3 and unloaded:
            unloaded[0]["n"] = 1
            w = "unimported-file-read"
        elif kind == 4 and x["twins"]:
            x["twins"][0]["class"], x["twins"][0]["errkind"] = "ok", ""
            w = "twin-ok:" + x["twins"][0]["kind"]
        else:
            x["class"], x["errkind"], x["prints"], x["status"] = "err", "compile", [], "none"
            w = "variant-err"
        out.append(x)
        want[len(out)] = [w]
    path = os.path.join(wd, "neg-corrupt.ndjson")
    vlib.write_ndjson(path, out)
    _, got = validate(wd, "neg-corrupt", path, "part", nv, seed, len(out), model)
    if got != want or len({w[0].split(":")[0] for w in want.values()}) < 6:
        bad = [k for k in want if got.get(k) != want[k]]
        vlib.tool_error("negative control accepted: %d of %d corrupted observations were not rejected as expected (e.g. record %s: want %s got %s)" % (
            len(bad), len(want), bad[:1], [want[b] for b in bad[:1]], [got.get(b) for b in bad[:1]]))
    return len(want)


def stub_control(wd, progs, cases, rejects, nv, seed, model):
    """(b) an implementation in which a dropped import stays visible: every drop-import twin must be flagged."""
    sub = [c for i, c in enumerate(cases) if (i + 1) not in rejects and any(t["kind"] == "drop-import" for t in c["twins"])]
    sub = sub[::max(1, len(sub) // 150)]
    tf, _ = record(wd, progs, sub, "neg-stub", env={"C12_STUB": "autoimport"})
    _, got = validate(wd, "neg-stub", tf, "part", nv, seed, len(sub), model)
    ok = [k for k in range(1, len(sub) + 1) if got.get(k) == ["twin-ok:drop-import"]]
    if not sub or len(ok) != len(sub):
        vlib.tool_error("negative control accepted: stub with visible dropped imports: %d of %d cases rejected" % (len(ok), len(sub)))
    return len(sub)


def disk_phase(wd, progs, cases, nv, seed, tier, verdicts):
    """3b: the disk universe under every spelling of the main file, plus a corruption control."""
    dsel = [c for c in cases if c["disk"]]
    cap = 400 if tier == "quick" else 1200
    dsel = dsel[::max(1, -(-len(dsel) // cap))]
    if len(dsel) < 100:
        vlib.tool_error("vacuity: only %d configurations in the disk universe" % len(dsel))
    pf, cf = os.path.join(wd, "disk-progs.ndjson"), os.path.join(wd, "disk-cases.ndjson")
    tf, ff = os.path.join(wd, "disk-trace.ndjson"), os.path.join(wd, "disk-full.ndjson")
    vlib.write_ndjson(pf, progs)
    vlib.write_ndjson(cf, dsel)
    vlib.harness("c12", ["disk", pf, cf, tf, ff, os.path.join(wd, "disk")])
    recs, fulls = vlib.read_ndjson(tf), vlib.read_ndjson(ff)
    nsp = len(progs[0]["spellings"])
    if len(recs) != nsp * len(dsel) or nsp < 5:
        vlib.tool_error("disk run recorded %d records for %d configurations x %d spellings" % (len(recs), len(dsel), nsp))
    v, rejects = validate(wd, "disk", tf, "disk", nv, seed, len(recs), "A")
    dcases = [dict(dsel[i // nsp], spelling=recs[i]["spelling"]) for i in range(len(recs))]
    judge(dcases, fulls, progs, rejects, verdicts)
    cnt = {}
    for i, c in enumerate(dcases):
        if (i + 1) not in rejects:
            for key in ["spelling:%s/prog:%s" % (c["spelling"], c["prog"])] + [k for k in ("mixed", "mainback", "diamond") if c[k]]:
                cnt["disk-" + key] = cnt.get("disk-" + key, 0) + 1
    need = ["disk-spelling:%s/prog:%s" % (sp["name"], p) for sp in progs[0]["spellings"] for p in ("cell", "init")] + \
           ["disk-mixed", "disk-mainback", "disk-diamond"]
    missing = [k for k in need if cnt.get(k, 0) == 0]
    if missing and not verdicts.violations:
        vlib.tool_error("vacuity: never conforming in the disk run: %s" % ", ".join(missing))
    # control: corrupted disk observations must be rejected
    n_ctl = 0
    good = [i for i in range(len(recs)) if (i + 1) not in rejects]
    if len(good) >= 50:
        out, want = [], {}
        for n, i in enumerate(good[::max(1, len(good) // 10)][:10]):
            base = (i // nsp) * nsp
            grp = [json.loads(json.dumps(recs[j])) for j in range(base, base + nsp)]   # keep the group complete
            x = grp[i - base]
            if n % 2 == 0:
                [r for r in x["reads"] if r["path"] == dcases[i]["load"][-1]][0]["n"] = 2
                w = "file-read-twice"
            else:
                x["prints"] = x["prints"][:1] + x["prints"]
                w = "prints-differ"
            want[len(out) + (i - base) + 1] = [w]
            out += grp
        path = os.path.join(wd, "neg-disk.ndjson")
        vlib.write_ndjson(path, out)
        _, got = validate(wd, "neg-disk", path, "disk", nv, seed, len(out), "A")
        if got != want:
            vlib.tool_error("negative control accepted: corrupted disk observations: want %s got %s" % (want, got))
        n_ctl = len(want)
    return v, len(dsel), recs, fulls, dcases, rejects, cnt, n_ctl


def vacuity(cases, recs, rejects, conforming_only):
    """every import style, path form, twin kind, and the cycle/diamond/decoy/back-import shapes occur in
    configurations that were accepted and conformed (per program where it makes sense)"""
    ok = [c for i, c in enumerate(cases) if not conforming_only or ((i + 1) not in rejects and recs[i]["class"] == "ok")]
    cnt = {}

    def bump(key, n=1):
        cnt[key] = cnt.get(key, 0) + n
    for c in ok:
        bump("prog:" + c["prog"])
        for e in c["edges"]:
            bump("style:" + e["st"])
            bump("form:" + e["form"])
            bump("style:%s/prog:%s" % (e["st"], c["prog"]))
            if e["st"].startswith("chain"):
                parts = e["ns"].split(".")
                bump("chain-hop:" + ("all-aliased" if all(x.startswith("ns") for x in parts) else
                                     "all-implicit" if not any(x.startswith("ns") for x in parts) else "mixed"))
            if c["tree"] == "B" and e["g"] in STD_POS:
                bump("std:%s/%s" % (STD_POS[e["g"]], e["st"]))
                if not e["via"]:
                    bump("std:%s/%s" % (STD_POS[e["g"]], e["form"]))
                for h in e["via"]:
                    if h in STD_POS:
                        bump("std-chain-through:" + STD_POS[h])
                if c["prog"] == "shadow" and e["g"] == "geometry/math.sy" and e["st"] in ("use", "useas", "chain2", "chain3"):
                    bump("shadow:std-named-global-through-namespace")
                if c["prog"] == "shadow" and e["g"] == "geometry/math.sy" and e["st"] in ("from", "fromas"):
                    bump("shadow:std-named-global-from-import")
        for t in c["twins"]:
            bump("twin:" + t["kind"])
        for flag in ("cycle", "diamond", "decoy", "cyc", "chain", "chaincycle"):
            if c[flag]:
                bump(flag)
        if c["cycle"] and not c["cyc"]:
            bump("natural-cycle")
        if len(c["files"]) == 1:
            bump("single-file")
        if any(e["g"] == "main.sy" for e in c["edges"]):
            bump("main-imported")
        for f in c["files"]:
            for ln in f["lines"]:
                if ln.startswith("from ") and "," in ln.replace(",\n)", ""):
                    bump("multi-name-from:" + c["layout"])
                if ln.startswith("from ") and " as " in ln:
                    bump("from-with-alias:" + c["layout"])
        kinds = {(e["f"], e["g"]): set() for e in c["edges"]}
        for e in c["edges"]:
            kinds[(e["f"], e["g"])].add(e["st"])
        if any(len(v) >= 2 for v in kinds.values()):
            bump("mixed-styles-one-file-pair")
    need = ["style:" + s for s in STYLES] + ["form:" + f for f in FORMS] + ["twin:" + k for k in TWIN_KINDS] + \
           ["cycle", "natural-cycle", "cyc", "diamond", "decoy", "single-file", "main-imported", "mixed-styles-one-file-pair"] + \
           ["style:chain2", "style:chain3", "chaincycle", "chain-hop:all-aliased", "chain-hop:all-implicit", "chain-hop:mixed"] + \
           ["std:%s/%s" % (pos, st) for pos in sorted(set(STD_POS.values())) for st in STYLES[1:] + ("chain2", "chain3")] + \
           ["std:first-folder/use", "std:inner-folder/use", "std:exports-folder/rel-folder", "std:exports-folder/root-folder",
            "std:last-component/rel-plain", "std:last-component/root-plain", "std-chain-through:last-component",
            "shadow:std-named-global-through-namespace", "shadow:std-named-global-from-import"] + \
           ["multi-name-from:" + l for l in ("plain", "paren", "multi")] + ["from-with-alias:" + l for l in ("plain", "paren", "multi")] + \
           ["prog:" + p for p in ("calls", "cell", "types", "init", "shadow")] + \
           ["style:%s/prog:%s" % (s, p) for s in STYLES + ("chain2",) for p in ("calls", "cell", "types", "init", "shadow")]
    missing = [k for k in need if cnt.get(k, 0) == 0]
    if missing:
        vlib.tool_error("vacuity: never exercised in %s configuration: %s" % (
            "an accepted, conforming" if conforming_only else "any", ", ".join(missing)))
    return cnt


def sample_of(case, full):
    return {"tree": case["tree"], "program": case["prog"], "placement": case["m"], "variant": case["v"], "files": full["files"],
            "prints": full["prints"], "status": full["status"], "reads": {r["path"]: r["n"] for r in full["reads"]},
            "twins": [{"kind": t["kind"], "file": t["file"], "item": t["item"], "result": t["class"]} for t in full["twins"]]}


def sample_l(case, full):
    return {"tree": "L", "program": "layers", "n": case["n"], "w": case["w"], "files": full["files"], "module_order": case["load"],
            "specification": case["expect"], "prints": full["prints"], "status": full["status"], "compile": full["class"],
            "reads": {r["path"]: r["n"] for r in full["reads"]}}


def run(ctx):
    tier = ctx.tier
    wd = vlib.workdir(PID)
    ev = vlib.Evidence(PID, tier, "model_checking")
    verdicts = vlib.Verdicts(PID)
    vlib.build_harness(["c12"])
    seed = ctx.seed % 64
    nv = 1 if tier == "quick" else 8

    if ctx.replay:
        rp = json.load(open(ctx.replay))["replay"]
        if rp.get("family") == "L":
            r, info, cases = emit_l(wd, 1, 0, only=(rp["n"], rp["w"]), name="replay-emit-L")
            tf, ff = record_l(wd, info, cases, "replay-L")
            fulls = vlib.read_ndjson(ff)
            v, rejects = validate_l(wd, "replay-L", tf, "part", 1, 0, len(cases))
            for path, text in fulls[0]["files"].items():
                print("----- %s\n%s" % (path, text))
            k0 = [i for i, c in enumerate(cases) if c["n"] == rp["n"]][0]
            print("module order: %s" % " > ".join(cases[k0]["load"]))
            print("expected: %s %s" % ("verdict free;" if cases[k0]["free"] else "accepted;", json.dumps(cases[k0]["expect"])))
            print("observed: %s" % json.dumps({k: fulls[k0][k] for k in ("class", "error", "prints", "status")}))
            for c, f in zip(cases, fulls):
                print("main file's imports %s -> %s %s" % (" / ".join(c["files"][0]["lines"]), f["class"], f["error"][:90]))
            judge_l(cases, fulls, rejects, verdicts)
            ev.set(states=r.distinct + v.distinct, transitions=r.generated + v.generated, traces_validated_against_impl=len(cases),
                   samples=[sample_l(cases[k0], fulls[k0])])
            rc = verdicts.finish()
            ev.violations = len(verdicts.violations)
            ev.write()
            return rc
        model = rp.get("tree", "A")
        r, progs, cases = emit(wd, 1, 0, model, only=(rp["p"], rp["m"], rp["v"]), name="replay-emit")
        if rp.get("spelling"):      # a disk record: the configuration again under every spelling of the main file
            pf, cf = os.path.join(wd, "replay-progs.ndjson"), os.path.join(wd, "replay-cases.ndjson")
            tf, ff = os.path.join(wd, "replay-trace.ndjson"), os.path.join(wd, "replay-full.ndjson")
            vlib.write_ndjson(pf, progs)
            vlib.write_ndjson(cf, cases)
            vlib.harness("c12", ["disk", pf, cf, tf, ff, os.path.join(wd, "disk")])
            fulls = vlib.read_ndjson(ff)
            v, rejects = validate(wd, "replay", tf, "disk", 1, 0, len(fulls), model)
            cases = [dict(cases[0], spelling=f["spelling"]) for f in fulls]
            for f in fulls:
                print("main file given as %s from %s: prints=%s reads=%s asked=%s" % (
                    f["arg"], f["cwd"], f["prints"], {r["path"]: r["n"] for r in f["reads"] if r["n"]}, f["asked"]))
        else:
            tf, ff = record(wd, progs, cases, "replay")
            fulls = vlib.read_ndjson(ff)
            v, rejects = validate(wd, "replay", tf, "part", 1, 0, len(cases), model)
        for path, text in fulls[0]["files"].items():
            print("----- %s\n%s" % (path, text))
        print("observed: %s" % json.dumps({k: fulls[0][k] for k in ("class", "error", "prints", "status")}))
        judge(cases, fulls, progs, rejects, verdicts)
        ev.set(states=r.distinct + v.distinct, transitions=r.generated + v.generated, traces_validated_against_impl=1,
               samples=[sample_of(cases[0], fulls[0])])
        rc = verdicts.finish()
        ev.violations = len(verdicts.violations)
        ev.write()
        return rc

    rdir = os.path.join(vlib.ROOT, "replays", PID)   # replay files of earlier runs are stale
    for fn in os.listdir(rdir) if os.path.isdir(rdir) else ():
        if fn.endswith(".json"):
            os.remove(os.path.join(rdir, fn))

    cases, recs, fulls, rejects, progs_all, per_model = [], [], [], {}, [], {}
    states = transitions = nplace = 0
    t_emit = t_val = 0.0
    for model in sorted(MODELS):
        # 1. the specification and its universe
        r, progs, mcases = emit(wd, nv, seed, model)
        np_ = sum(p["nplaces"] for p in progs)
        if len({(c["p"], c["m"]) for c in mcases}) != np_:
            vlib.tool_error("tree %s: the emitted configurations cover %d placements, the universe has %d" % (
                model, len({(c["p"], c["m"]) for c in mcases}), np_))
        # 2. conformance run, 3. judged by TLC
        tf, ff = record(wd, progs, mcases, "cross-" + model)
        mrecs, mfulls = vlib.read_ndjson(tf), vlib.read_ndjson(ff)
        if len(mrecs) != len(mcases):
            vlib.tool_error("harness recorded %d of %d configurations" % (len(mrecs), len(mcases)))
        v, mrej = validate(wd, "cross-" + model, tf, "cross", nv, seed, len(mrecs), model)
        judge(mcases, mfulls, progs, mrej, verdicts)
        per_model[model] = {"progs": progs, "cases": mcases, "recs": mrecs, "rejects": mrej}
        if model == "A":
            dv, ndisk, drecs, dfulls, dcases, drej, dcnt, n_dctl = disk_phase(wd, progs, mcases, nv, seed, tier, verdicts)
            states += dv.distinct
            transitions += dv.generated
            t_val += dv.wall_s
        for k, w in mrej.items():
            rejects[len(cases) + k] = w
        cases += mcases
        recs += mrecs
        fulls += mfulls
        progs_all += [dict(p, tree=model) for p in progs]
        states += r.distinct + v.distinct
        transitions += r.generated + v.generated
        nplace += np_
        t_emit += r.wall_s
        t_val += v.wall_s

    vacuity(cases, recs, rejects, False)         # the universe contains every shape ...
    # ... and every shape was accepted and conformed; when records were rejected their absence from the conforming set is
    # explained by the VIOLATION / KNOWN-FINDING lines below, not by a vacuous universe
    cnt = vacuity(cases, recs, rejects, not verdicts.violations)

    # 4. negative controls (on tree A)
    ma = per_model["A"]
    nconf = sum(1 for i in range(len(ma["recs"])) if (i + 1) not in ma["rejects"] and ma["cases"][i]["edges"])
    if verdicts.violations and nconf < 200:
        n_a = n_b = 0        # (nearly) nothing conforms: there is no conforming record to corrupt; the violations are reported
    else:
        n_a = corrupt_controls(wd, ma["recs"], ma["cases"], ma["rejects"], nv, seed, "A")
        n_b = stub_control(wd, ma["progs"], ma["cases"], ma["rejects"], nv, seed, "A")

    # 3c. family L
    L = layers_phase(wd, tier, seed, verdicts)
    states += L["r"].distinct + L["v"].distinct
    transitions += L["r"].generated + L["v"].generated
    t_emit += L["r"].wall_s
    t_val += L["v"].wall_s
    l_ok = [i for i, c in enumerate(L["cases"]) if (i + 1) not in L["rejects"]]
    l_acc = [i for i in range(len(L["cases"])) if L["recs"][i]["class"] == "ok"]
    l_pick = [i for i in l_acc if L["cases"][i]["len"] == 3 and L["cases"][i]["last"] == "from"][:1] + \
             [i for i in l_acc if i in l_ok and L["cases"][i]["startdep"] and L["cases"][i]["boots"]][:1] + \
             [i for i in range(len(L["cases"])) if L["recs"][i]["class"] == "err" and L["cases"][i]["cons"] == "report.sy"][:1]

    ntwins = sum(len(c["twins"]) for c in cases)
    multi = [i for i, c in enumerate(cases) if len(c["files"]) > 1]
    distinct = len({vlib.sha(fulls[i]["files"]) for i in multi if (i + 1) not in rejects})
    pick = [multi[0], multi[len(multi) // 3]] + \
           [i for i in multi if cases[i]["diamond"]][:1] + [i for i in multi if cases[i]["decoy"] and cases[i]["cycle"]][:1] + \
           [i for i in multi if cases[i]["chaincycle"]][:1] + \
           [i for i in multi if any(e["st"] == "chain3" for e in cases[i]["edges"])][:1] + \
           [i for i in multi if cases[i]["tree"] == "B" and cases[i]["prog"] == "shadow"
            and any(e["g"] == "geometry/math.sy" and e["st"] == "useas" for e in cases[i]["edges"])][:1]
    ev.set(states=states, transitions=transitions,
           traces_validated_against_impl=len(recs) + len(drecs) + len(L["recs"]), programs=len(recs) + ntwins + len(drecs) + len(L["recs"]),
           evaluations=len(recs) + ntwins + len(drecs) + len(L["recs"]),
           distinct_nontrivial=distinct + len({vlib.sha(L["fulls"][i]["files"]) for i in l_ok if L["recs"][i]["class"] == "ok"}),
           configurations=len(cases) + len(L["cases"]), placements=nplace, negative_twins=ntwins,
           layers={"primaries": L["info"]["primaries"], "variants_per_primary": L["nv"], "configurations": len(L["cases"]),
                   "observed": L["observed"], "rejected_records": len(L["rejects"]), "tree": L["info"]["tree"]},
           variants_per_placement=nv,
           base_programs={"%s/%s" % (p["tree"], p["name"]): {"expected_prints": p["prints"], "status": p["status"],
                                                            "placements": p["nplaces"]} for p in progs_all},
           trees={m: per_model[m]["progs"][0]["tree"] for m in per_model},
           exercised=dict(dict(cnt, **dcnt), **L["cnt"]), rejected_records=len(rejects) + len(drej) + len(L["rejects"]),
           disk={"configurations": ndisk, "records": len(drecs), "spellings": per_model["A"]["progs"][0]["spellings"],
                 "rejected": len(drej)}, tlc_emit_wall_s=round(t_emit, 1), tlc_validate_wall_s=round(t_val, 1),
           spec_invariants=["PathsOK", "ProgramsOK", "ConfigOK = UniqueNames /\\ RefsResolve /\\ NotImportedInvisible /\\ LoadOnce /\\ ImportsExist",
                            "ConfigOKL = LoadOnceL /\\ UniqueNamesL /\\ RefsResolveL /\\ ModelOK", "OrderIndependent (Trace_Layers: one verdict per program)"],
           negative_controls_rejected=n_a + n_b + n_dctl + L["controls"],
           negative_controls={"corrupted_observations_rejected": n_a, "stub_visible_dropped_imports_rejected": n_b,
                              "corrupted_disk_observations_rejected": n_dctl, "corrupted_layers_observations_rejected": L["controls"],
                              "layers_groups_made_order_dependent_rejected": L["controls_free_groups"]},
           exhaustive=(tier == "thorough"),
           exhaustive_scope="all placements of every base program's globals over each 6-file tree (<= 3 files besides main.sy); "
                            "thorough: 8 of the 64 variants per placement, quick: 1 (seed-dependent); family L: all 1106 applicable primaries "
                            "(chain length x consumer x last hop x who imports engine x extra imports of main x order of main's imports), "
                            "thorough 16 of 64 variants each, quick 2",
           rule="configuration = tree (A: siblings / sub-folders / two exports.sy; B: std module names as file name, folder names and "
                "exports folder) x base program (A: 4, B: 2) x placement of its 3-4 non-start globals in the tree (all %d) x variant "
                "(style offset and stride over use / use-as / from / from-as per cross-file reference, namespace chains of depth 2 and 3, "
                "relative or rooted or folder or bare-/ path, back-imports forming cycles, same-named decoys), index-addressed by "
                "SyltModules!Derive; a configuration is non-trivial when it has >= 2 files and was accepted and conformed; "
                "distinct = distinct rendered file sets; family L (SyltLayers!DeriveL, address (n, w)): chain of `from` imports of "
                "length 1..3 through exports.sy files x consumer x last hop from / namespace x importer of engine.sy x order of the "
                "main file's imports x variant (aliases, printing initialisers, own start functions, extra back imports)" % nplace,
           samples=[sample_of(cases[i], fulls[i]) for i in pick] +
                   [dict(sample_of(dcases[j], dfulls[j]), main_file_given_as=dfulls[j]["arg"], cwd=dfulls[j]["cwd"],
                         paths_asked_of_the_reader=dfulls[j]["asked"]) for j in (0, len(dcases) // 2)] +
                   [sample_l(L["cases"][i], L["fulls"][i]) for i in l_pick],
           known_findings_hit=verdicts.known_hits)
    ev.assume("SyltSem (TLA+) is the reference for what a base program does; minilua stands in for Lua 5.3",
              "the documented mapping: path relative to the importing file, leading / = directory of the file being run, trailing / = "
              "that folder's exports.sy, bare / = the root's exports.sy, implicit namespace = last path component; a namespace chain "
              "a.b.x is followed left to right through the namespaces each file itself introduces (tests/import)",
              "a path text of two or more components names a project file whatever its components are called; one-component texts that "
              "are std module names are never written (whether a project file shadows the std module is not documented)",
              "out of the universe: `use /` without alias, path texts with a .sy suffix; names a file only imported (handed on by "
              "`from` or through its namespace) occur in family L only",
              "family L: a program in which `from p use n` takes a name p's file only imported may be accepted or rejected (the guide "
              "suggests the former, tests/import/faulty_from_circular.sy pins the latter) but the verdict must not depend on the "
              "order of the main file's import statements, and an accepted one must behave as the model; every other configuration "
              "must be accepted; module order (as built) = main file first, then depth-first with the LAST import of a file first; "
              "initialisers on which nothing depends run in module order, then text order; the entry point is the start of the "
              "file being run",
              "the project root is the directory containing the file being run, however that file is spelled; on disk a read is "
              "attributed to the canonical file, so two spellings of one file count as two reads of it",
              "import statements are written at the start or at the end of a file; twins are judged by compile result only")
    rc = verdicts.finish()
    ev.violations = len(verdicts.violations)
    ev.write()
    return rc
