"""C15 - diagnostics name the file and line of the offending construct.

1. TLC model-checks SyltDiag itself (MC_Diag): the case universe is well formed (every dimension value occurs in an
   applicable case, cases pairwise different, every planted construct is one line) and the text-derived line index
   agrees with a running newline counter on every prefix of the spec's own sample texts.
2. The harness (c15) renders every applicable case of the index-addressed cross product
   kind x file x position x preceding-text shape to a three-file project, compiles the unplanted and the planted
   program through the public API and records file/line of the FIRST error. TLC (Trace_Diag) re-derives each case from
   its index, checks that the marker points at the construct the spec spells and that the preceding text has the named
   shape, computes the expected file/line from the recorded text and prints one REJECT line per non-conforming record.
3. Seeded random variations (several shapes stacked, CRLF/tabs mixed in, planting up to three ifs deeper).
4. Negative controls: corrupted observations (line shifted by one, file swapped) and a stub re-creating the
   tokenizer regression fixed by e1d1e87 must be rejected by TLC.
"""
import json
import os
import vlib

PID = "C15"
ACTIONS = ("TraceInit", "TraceConforms")
DUP = ("dup_global", "dup_import", "dup_from_import")


def signature(rec, why):
    return "C15|%s|%s|%s|reported=%s" % (rec["kind"], rec["file"], rec["shape"], why)


def line_of(text, marker):
    return 1 + text[:marker - 1].count("\n")


def sample_of(rec, full):
    lines = full["files"][full["path"]].split("\n")
    pl = line_of(rec["text"], rec["marker"])
    return {"kind": rec["kind"], "file": rec["file"], "pos": rec["pos"], "shape": rec["shape"],
            "planted": "%s:%d: %s" % (rec["path"], pl, lines[pl - 1].strip()),
            "reported": "%s:%d" % (rec["efile"], rec["eline"]) if rec["res"] == "err" else rec["res"]}


def run_tlc(wd, name, trace, universe, workers=None, timeout=2400):
    workers = workers or min(8, vlib.NCPU)   # string slicing contends on TLC's intern table: 8 is as fast as 16
    r = vlib.tlc("MC_TraceDiag", cfg="MC_TraceDiag.cfg", wd=wd, env={"TRACE": trace, "UNIVERSE": universe},
                 tags=("REJECT",), workers=workers, timeout=timeout, out_file=os.path.join(wd, "tlc-" + name + ".out"))
    vlib.require_tlc_ok(r, "Trace_Diag/" + name)
    rejects = list({p["rec"]: p for (_, p) in r.records}.values())  # ENABLED re-evaluates PrintT: dedupe
    return r, rejects


def validate(wd, name, trace, fullpath, universe, ev, verdicts, workers=None, guards=True):
    recs = vlib.read_ndjson(trace)
    fulls = vlib.read_ndjson(fullpath)
    if len(recs) != len(fulls) or not recs:
        vlib.tool_error("%s: trace and case files disagree or are empty" % name)
    r, rejects = run_tlc(wd, name, trace, universe, workers=workers)
    base_bad = [x for x in rejects if x["why"] == "base-rejected"]
    bad = [x for x in rejects if x["why"] != "base-rejected"]
    # vacuity: the templates must be valid programs apart from the planted error
    if len(base_bad) * 20 > len(recs):
        ex = fulls[base_bad[0]["rec"] - 1]
        vlib.tool_error("vacuity: %d of %d base programs of %s were rejected, e.g. %s: %s" % (
            len(base_bad), len(recs), name, json.dumps(ex["case"]), ex["base_error"][:300]))
    for act in ACTIONS if guards else ():
        if r.coverage.get(act, (0, 0))[1] == 0:
            vlib.tool_error("vacuity: trace action %s never taken in %s" % (act, name))
    if r.coverage.get("TraceInit", (0, 0))[0] != len(recs):
        vlib.tool_error("%s: TLC validated %d records, the trace has %d" % (name, r.coverage["TraceInit"][0], len(recs)))
    for rej in bad:
        rec, full = recs[rej["rec"] - 1], fulls[rej["rec"] - 1]
        sig = signature(rec, rej["why"])
        what = "%s planted at %s:%d (%s, after %s) but the first error is reported %s" % (
            rec["kind"], rej["expected_file"] if rec["kind"] not in DUP else rec["path"],
            line_of(rec["text"], rec["marker"]), rec["pos"], rec["shape"],
            ("at %s:%d" % (rec["efile"], rec["eline"])) if rec["res"] == "err" else ("as " + rej["why"]))
        if rec["kind"] in DUP:
            what += " (the later of the two definition sites is %s:%d)" % (rej["expected_file"], rej["expected_line"])
        verdicts.add(sig, what, {"case": full["case"], "files": full["files"], "path": full["path"],
                                 "planted_line": line_of(rec["text"], rec["marker"]),
                                 "expected": {"file": rej["expected_file"], "line": rej["expected_line"]},
                                 "observed": {"res": rec["res"], "file": rec["efile"], "line": rec["eline"]},
                                 "first_error_rendered": full["first_error_rendered"]})
    ev.add("states", r.distinct)
    ev.add("transitions", r.generated)
    ev.add("traces_validated_against_impl", len(recs) - len(base_bad))
    ev.add("programs", 2 * len(recs))
    ev.add("evaluations", len(recs))
    ev.cov.setdefault("dropped", {}).setdefault("base_rejected", 0)
    ev.cov["dropped"]["base_rejected"] += len(base_bad)
    ev.cov.setdefault("universes", {})[name] = {
        "records": len(recs), "rejected": len(bad), "base_rejected": len(base_bad), "tlc_states": r.distinct,
        "tlc_wall_s": round(r.wall_s, 1), "actions": {k: v[1] for k, v in r.coverage.items() if k.startswith("Trace")},
        "per_kind": {kd: sum(1 for x in recs if x["kind"] == kd) for kd in sorted({x["kind"] for x in recs})}}
    return recs, fulls, bad


def control_corrupt(wd, recs, bad):
    """(a) corrupt observations of conforming records: TLC must reject exactly those."""
    badset = {x["rec"] for x in bad}
    good = [x for i, x in enumerate(recs) if (i + 1) not in badset and x["base_ok"] and x["res"] == "err"]
    picked = good[::max(1, len(good) // 120)]
    out, want = [], {}
    for i, x in enumerate(picked):
        y = dict(x)
        if i % 3 == 0:
            y["eline"], want[i + 1] = x["eline"] + 1, "later"
        elif i % 3 == 1 and x["eline"] > 1:
            y["eline"], want[i + 1] = x["eline"] - 1, "earlier"
        else:
            y["efile"], want[i + 1] = ("other.sy" if x["path"] != "other.sy" else "main.sy"), "other-file"
        out.append(y)
    path = os.path.join(wd, "neg-corrupt.ndjson")
    vlib.write_ndjson(path, out)
    _, rejects = run_tlc(wd, "neg-corrupt", path, "part")
    got = {x["rec"]: x["why"] for x in rejects}
    if got != want or not want:
        vlib.tool_error("negative control accepted: %d corrupted observations, TLC rejected %d as expected" % (
            len(want), sum(1 for q in want if got.get(q) == want[q])))
    return len(want)


def control_stub(wd, bad_sigs):
    """(b) a stub that does not count newlines inside string literals (the regression fixed by e1d1e87)."""
    t, f = os.path.join(wd, "neg-f1-all.ndjson"), os.path.join(wd, "neg-f1-cases.ndjson")
    vlib.harness("c15", ["cross", t, f], env={"C15_STUB": "f1"})
    recs = [x for x in vlib.read_ndjson(t) if x["shape"] in ("none", "ml_string2", "ml_string3")]
    path = os.path.join(wd, "neg-f1.ndjson")
    vlib.write_ndjson(path, recs)
    _, rejects = run_tlc(wd, "neg-f1", path, "part")
    got = {x["rec"] for x in rejects}
    ml = {i + 1 for i, x in enumerate(recs) if x["shape"] != "none" and x["kind"] not in DUP}
    plain = {i + 1 for i, x in enumerate(recs) if x["shape"] == "none" and signature(x, "earlier") not in bad_sigs}
    if not ml or not ml <= got or (plain & got):
        vlib.tool_error("negative control accepted: stub tokenizer losing newlines in strings: %d of %d multi-line cases "
                        "rejected, %d plain cases rejected" % (len(ml & got), len(ml), len(plain & got)))
    return len(ml)


def run(ctx):
    tier = ctx.tier
    wd = vlib.workdir(PID)
    ev = vlib.Evidence(PID, tier, "model_checking")
    verdicts = vlib.Verdicts(PID)
    vlib.build_harness()

    if ctx.replay:
        rp = json.load(open(ctx.replay))["replay"]
        cf, tf, ff = (os.path.join(wd, n) for n in ("one-case.json", "one.ndjson", "one-full.ndjson"))
        json.dump(rp["case"], open(cf, "w"))
        p = vlib.harness("c15", ["one", cf, tf])
        open(ff, "w").write(p.stdout)
        recs, _, _ = validate(wd, "replay", tf, ff, "free", ev, verdicts, workers=1, guards=False)
        ev.set(samples=[recs[0]["kind"] + " in " + recs[0]["path"]])
        ev.write()
        return verdicts.finish()

    rdir = os.path.join(vlib.ROOT, "replays", PID)   # replay files of earlier runs are stale
    for fn in os.listdir(rdir) if os.path.isdir(rdir) else ():
        if fn.endswith(".json"):
            os.remove(os.path.join(rdir, fn))

    # 1. the specification on its own
    r = vlib.tlc("MC_Diag", wd=wd, timeout=900, tags=("STATS",))
    vlib.require_tlc_ok(r, "SyltDiag generator model")
    for act in ("DiagInit", "DiagStep"):
        if r.coverage.get(act, (0, 0))[1] == 0:
            vlib.tool_error("vacuity: spec action %s never taken" % act)
    stats = r.records[0][1] if r.records else vlib.tool_error("MC_Diag printed no STATS record")
    ev.set(spec_model={"states": r.distinct, "sample_texts": stats["samples"], "universe": stats,
                       "invariants": ["LineAgrees", "ColSane", "SampleLineOK"], "assumes": ["UniverseOK"],
                       "tlc_wall_s": round(r.wall_s, 1)})
    ev.add("states", r.distinct)
    ev.add("transitions", r.generated)

    # 2. conformance: the full cross product, decided by TLC
    t_cross, f_cross = os.path.join(wd, "cross.ndjson"), os.path.join(wd, "cross-cases.ndjson")
    vlib.harness("c15", ["cross", t_cross, f_cross])
    recs, fulls, bad = validate(wd, "cross-product", t_cross, f_cross, "cross", ev, verdicts)
    if len(recs) != stats["applicable"]:
        vlib.tool_error("harness rendered %d cases, the spec's universe has %d" % (len(recs), stats["applicable"]))
    badset = {x["rec"] for x in bad}
    samples = [sample_of(recs[i], fulls[i]) for i in (0, len(recs) // 3, len(recs) // 2, len(recs) - 40, len(recs) - 1)]
    samples += [sample_of(recs[i - 1], fulls[i - 1]) for i in sorted(badset)[:2]]
    samples.append({"file_text": fulls[len(recs) // 2]["files"][fulls[len(recs) // 2]["path"]],
                    "case": fulls[len(recs) // 2]["case"]})

    # 3. seeded random variations
    nfree = 1500 if tier == "quick" else 24000
    t_free, f_free = os.path.join(wd, "free.ndjson"), os.path.join(wd, "free-cases.ndjson")
    vlib.harness("c15", ["free", nfree, t_free, f_free])
    frecs, ffulls, _ = validate(wd, "random-variations", t_free, f_free, "free", ev, verdicts)
    samples.append(sample_of(frecs[0], ffulls[0]))
    distinct = len({vlib.sha(x["files"]) for x in fulls + ffulls if x["base_ok"] and x["res"] != "ok"})

    # 4. negative controls (binding demonstrations)
    n_a = control_corrupt(wd, recs, bad)
    n_b = control_stub(wd, {signature(recs[i - 1], "earlier") for i in badset})
    ev.set(negative_controls_rejected=n_a + n_b,
           negative_controls={"corrupted_observations_rejected": n_a, "stub_f1_multiline_cases_rejected": n_b})

    ev.set(samples=samples, exhaustive=True, exhaustive_scope="the cross product; the random variations are sampled",
           distinct_nontrivial=distinct,
           rule="every applicable case of kind(14) x file(3) x position(5) x preceding shape(9), index-addressed in "
                "SyltDiag!Case, plus %d seeded random variations; a case is non-trivial when its base program compiles and "
                "the planted program (base + exactly the one planted line) is rejected; distinct planted projects are counted" % nfree,
           known_findings_hit=verdicts.known_hits)
    ev.assume("TLC and SyltDiag are the reference: expected line = 1 + number of newline characters before the planted "
              "construct in the file's text; for duplicate names the textually later definition site is the offending one",
              "non-ASCII characters are shown to TLC as '@' (character-for-character); the compiler sees the real text",
              "planted constructs are single-line, so 'the line where the construct is written' is unambiguous",
              "only the FIRST returned error's file and span.line_start are observed, never message texts")
    rc = verdicts.finish()
    ev.violations = len(verdicts.violations)
    ev.write()
    return rc
