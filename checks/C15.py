"""C15 - diagnostics name the file and line of the offending construct.

1. TLC model-checks SyltDiag itself (MC_Diag): the case universe is well formed (every dimension value occurs in an
   applicable case, cases pairwise different, every planted construct is one line) and the text-derived line index
   agrees with a running newline counter on every prefix of the spec's own sample texts.
2. The harness (c15) renders every applicable case of the index-addressed cross product
   kind x file x position x preceding-text shape x layout of the imported modules (rel) to a multi-file project
   (main.sy, other.sy, sub/inner.sy and the leaf modules leaf.sy / twin.sy), compiles the unplanted and the planted
   program through the public API and records file/line of the FIRST error. TLC (Trace_Diag) re-derives each case from
   its index, checks that the marker points at the construct the spec spells and that the preceding text has the named
   shape, computes the expected file/line from the recorded text and prints one REJECT line per non-conforming record.
3. Seeded random variations (several shapes stacked, CRLF/tabs mixed in, planting up to three ifs deeper).
4. Negative controls: corrupted observations (line shifted by one, file swapped), a stub re-creating the
   tokenizer regression fixed by e1d1e87 (newlines in literals not counted), a stub counting a literal's lines
   with str::lines() (a literal ending in a newline is one line short), a stub relating line numbers of
   different files for colliding imports, a stub locating errors at the first line of the enclosing statement, a stub
   reporting a duplicate definition where the name was written first and a stub losing a line after a conflict-marker
   look-alike must be rejected by TLC - and only where the spec says they matter.
Round 5 widened the universe: duplicate top-level names for every ordered pair of kinds of definition (constant /
function / blob / enum), names declared twice inside a blob or enum declaration (one line and several lines), the three
conflict markers alone, a whole conflict block and two begin markers (both must be located: the second error is
observed too), and conflict-marker look-alikes as preceding text.
"""
import json
import os
import vlib

PID = "C15"
ACTIONS = ("TraceInit", "TraceCheck", "TraceConforms")
DUP = {"dup_global", "dup_import", "dup_from_import", "dup_use_use", "dup_from_from", "dup_from_use", "dup_use_from"}
TLC_WORKERS = 4     # the machine is shared; more than 4-8 workers do not speed string slicing up anyway


def signature(rec, why):
    # the layout of the imported modules is part of the signature only where it is not the plain one
    rel = "" if rec.get("rel", "def_earlier") == "def_earlier" else rec["rel"] + "|"
    return "C15|%s|%s|%s|%sreported=%s" % (rec["kind"], rec["file"], rec["shape"], rel, why)


def line_of(text, marker):
    return 1 + text[:marker - 1].count("\n")


def sample_of(rec, full):
    lines = full["files"][full["path"]].split("\n")
    pl = line_of(rec["text"], rec["marker"])
    return {"kind": rec["kind"], "file": rec["file"], "pos": rec["pos"], "shape": rec["shape"], "rel": rec["rel"],
            "planted": "%s:%d: %s" % (rec["path"], pl, lines[pl - 1].strip()),
            "reported": "%s:%d" % (rec["efile"], rec["eline"]) if rec["res"] == "err" else rec["res"]}


def run_tlc(wd, name, trace, universe, workers=None, timeout=2400, coverage=True):
    workers = workers or min(TLC_WORKERS, vlib.NCPU)
    r = vlib.tlc("MC_TraceDiag", cfg="MC_TraceDiag.cfg", wd=wd, env={"TRACE": trace, "UNIVERSE": universe},
                 tags=("REJECT",), workers=workers, timeout=timeout, coverage=coverage,
                 out_file=os.path.join(wd, "tlc-" + name + ".out"))
    vlib.require_tlc_ok(r, "Trace_Diag/" + name)
    rejects = list({p["rec"]: p for (_, p) in r.records}.values())  # ENABLED re-evaluates PrintT: dedupe
    return r, rejects


def validate(wd, name, trace, fullpath, universe, ev, verdicts, workers=None, guards=True, coverage=True):
    """coverage=False (the big cross product: TLC's -coverage costs a third of the run): the action counts follow from the
    state count (every record passes new -> run -> verdict, checked below) and the REJECT lines; the action-coverage
    vacuity guard then rests on the random-variations run, which uses the same spec with coverage on."""
    recs = vlib.read_ndjson(trace)
    fulls = vlib.read_ndjson(fullpath)
    if len(recs) != len(fulls) or not recs:
        vlib.tool_error("%s: trace and case files disagree or are empty" % name)
    r, rejects = run_tlc(wd, name, trace, universe, workers=workers, coverage=coverage)
    base_bad = [x for x in rejects if x["why"] == "base-rejected"]
    bad = [x for x in rejects if x["why"] != "base-rejected"]
    # vacuity: the templates must be valid programs apart from the planted error
    if len(base_bad) * 20 > len(recs):
        ex = fulls[base_bad[0]["rec"] - 1]
        vlib.tool_error("vacuity: %d of %d base programs of %s were rejected, e.g. %s: %s" % (
            len(base_bad), len(recs), name, json.dumps(ex["case"]), ex["base_error"][:300]))
    for act in ACTIONS if guards and coverage else ():
        if r.coverage.get(act, (0, 0))[1] == 0:
            vlib.tool_error("vacuity: trace action %s never taken in %s" % (act, name))
    # every record is three states (new, run, verdict); (coverage counts are summed over TLC's periodic reports)
    if r.distinct != 3 * len(recs):
        vlib.tool_error("%s: TLC validated %d/3 records, the trace has %d" % (name, r.distinct, len(recs)))
    for rej in bad:
        rec, full = recs[rej["rec"] - 1], fulls[rej["rec"] - 1]
        sig = signature(rec, rej["why"])
        what = "%s planted at %s:%d (%s, after %s) but the first error is reported %s" % (
            rec["kind"], rej["expected_file"] if rec["kind"] not in DUP else rec["path"],
            line_of(rec["text"], rec["marker"]), rec["pos"], rec["shape"],
            ("at %s:%d" % (rec["efile"], rec["eline"])) if rec["res"] == "err" else ("as " + rej["why"]))
        if rec["kind"] in DUP:
            what += " (the later of the two introductions of the name is %s:%d; imported modules laid out %s)" % (
                rej["expected_file"], rej["expected_line"], rec["rel"])
        if rej["why"].startswith("second-"):
            what = "%s planted at %s:%d (%s, after %s): the first error is located correctly, the SECOND offending element " \
                   "stands at %s:%d but the second error is reported %s" % (
                       rec["kind"], rec["path"], line_of(rec["text"], rec["marker"]), rec["pos"], rec["shape"], rec["path"],
                       line_of(rec["text"], rec["marker2"]),
                       ("at %s:%d" % (rec["efile2"], rec["eline2"])) if rec["eline2"] else "not at all")
        verdicts.add(sig, what, {"case": full["case"], "files": full["files"], "path": full["path"],
                                 "planted_line": line_of(rec["text"], rec["marker"]),
                                 "expected": {"file": rej["expected_file"], "line": rej["expected_line"]},
                                 "observed": {"res": rec["res"], "file": rec["efile"], "line": rec["eline"],
                                              "second_file": rec["efile2"], "second_line": rec["eline2"]},
                                 "first_error_rendered": full["first_error_rendered"]})
    ev.add("states", r.distinct)
    ev.add("transitions", r.generated)
    ev.add("traces_validated_against_impl", len(recs) - len(base_bad))
    ev.add("programs", 2 * len(recs))
    ev.add("evaluations", len(recs))
    ev.cov.setdefault("dropped", {}).setdefault("base_rejected", 0)
    ev.cov["dropped"]["base_rejected"] += len(base_bad)
    ev.cov.setdefault("universes", {})[name] = {
        "records": len(recs), "rejected": len(bad), "base_rejected": len(base_bad), "tlc_states": r.distinct,
        "tlc_wall_s": round(r.wall_s, 1),
        "actions": ({k: v[1] for k, v in r.coverage.items() if k.startswith("Trace")} if coverage else
                    {"TraceInit": len(recs), "TraceCheck": len(recs), "TraceConforms": len(recs) - len(rejects),
                     "TraceReject": len(bad), "TraceBaseRejected": len(base_bad), "derived_from": "state count and REJECT lines"}),
        "per_kind": {kd: sum(1 for x in recs if x["kind"] == kd) for kd in sorted({x["kind"] for x in recs})}}
    return recs, fulls, bad


def corrupt_records(recs, bad):
    """(a) corrupt observations of conforming records: TLC must reject exactly those."""
    badset = {x["rec"] for x in bad}
    good = [x for i, x in enumerate(recs) if (i + 1) not in badset and x["base_ok"] and x["res"] == "err"]
    picked = good[::max(1, len(good) // 150)]
    out = []
    for x in [x for x in good if x["marker2"]][:30]:      # the second observation of a form with two offending elements
        y = dict(x)
        y["eline2"] = x["eline2"] - 1
        out.append((y, "second-earlier"))
        y = dict(x)
        y["eline2"], y["efile2"] = 0, ""
        out.append((y, "second-missing"))
    for i, x in enumerate(picked):
        y = dict(x)
        if i % 3 == 0:
            y["eline"], want = x["eline"] + 1, "later"
        elif i % 3 == 1 and x["eline"] > 1:
            y["eline"], want = x["eline"] - 1, "earlier"
        else:
            y["efile"], want = ("other.sy" if x["path"] != "other.sy" else "main.sy"), "other-file"
        out.append((y, want))
    return out


def stub_records(wd, stub, shapes=None, kinds=None, files=None):
    t, f = os.path.join(wd, "neg-%s-all.ndjson" % stub), os.path.join(wd, "neg-%s-cases.ndjson" % stub)
    env = {"C15_STUB": stub, "C15_SHAPES": ",".join(shapes or ()), "C15_KINDS": ",".join(kinds or ()),
           "C15_FILES": ",".join(files or ())}
    vlib.harness("c15", ["cross", t, f], env=env)
    return vlib.read_ndjson(t)


def controls(wd, recs, bad, stats):
    """Negative controls, validated by ONE TLC run over the concatenated control records (universe 'part').
    Every control record carries what TLC must say about it: a verdict class, 'reject' (any class), 'conform',
    or None (not constrained)."""
    bad_sigs = {signature(recs[x["rec"] - 1], "earlier") for x in bad}
    ends_nl = set(stats["ends_nl_shapes"])
    plain_ml = ["ml_string2", "ml_string3", "str_startnl_init", "str_blankmid_arg", "str_crlfmid_stmt"]
    if ends_nl & set(plain_ml) or not ends_nl:
        vlib.tool_error("the spec's EndsNLShapes and the control's list of other multi-line shapes overlap")
    items = [("corrupt", y, want) for (y, want) in corrupt_records(recs, bad)]
    # (b) newlines inside string literals are not counted at all (the regression fixed by e1d1e87)
    tok_kinds = ["syn_rparen", "syn_char", "unresolved", "dup_global", "const_local", "const_global", "const_param",
                 "op_mismatch", "arg_mismatch", "annot_mismatch", "break_outside", "conflict", "ml_arg_paren", "ml_from_last"]
    for x in stub_records(wd, "f1", shapes=["none", "ml_string2", "ml_string3", "str_endnl_arg", "str_onlynl_stmt"],
                          kinds=tok_kinds):
        want = None
        if x["shape"] == "none":
            want = None if signature(x, "earlier") in bad_sigs else "conform"
        elif x["kind"] not in DUP:
            want = "earlier"
        items.append(("f1", x, want))
    # (c) a literal's newlines counted with str::lines(): one line short iff the content ends with a newline
    for x in stub_records(wd, "lines", shapes=["none"] + sorted(ends_nl) + plain_ml, files=["sub"], kinds=tok_kinds):
        want = None
        if x["shape"] not in ends_nl:
            want = None if signature(x, "earlier") in bad_sigs else "conform"
        elif x["kind"] not in DUP:
            want = "earlier"
        items.append(("lines", x, want))
    # (d) line numbers of different files related to each other when ordering the introductions of an imported name
    for x in stub_records(wd, "xfile", shapes=["none", "str_endnl_init", "tabs"], kinds=sorted(stats["from_kinds"])):
        items.append(("xfile", x, "other-file" if x["rel"] == "def_later" else "conform"))
    # (e) errors located at the first line of the planted statement instead of at the offending element
    ml = set(stats["ml_kinds"])
    for x in stub_records(wd, "stmt", shapes=["none", "tabs", "str_endnl_init"],
                          kinds=sorted(ml) + ["syn_rparen", "unresolved", "arg_mismatch", "op_mismatch", "const_global"]):
        items.append(("stmt", x, "earlier" if x["kind"] in ml else "conform"))
    # (f) a duplicate definition reported where the name was written FIRST (the two writings are on different lines)
    dd = set(stats["dd_kinds"])
    for x in stub_records(wd, "first", shapes=["none", "tabs", "mk_lt_cmt"], files=["main", "sub"],
                          kinds=sorted(dd) + ["dup_global", "syn_rparen", "unresolved", "dup_field1", "ml_dup_field_gap"]):
        items.append(("first", x, "earlier" if x["kind"] in dd else "conform"))
    # (g) the conflict scan loses a line after a begin marker that is no conflict: exactly the shapes the spec says hold one
    lt = set(stats["lt_decoy_shapes"])
    other_marks = sorted(set(stats["mark_shapes"]) - lt)
    if not lt or not other_marks:
        vlib.tool_error("the spec names no look-alike shapes with / without the begin marker")
    for x in stub_records(wd, "decoy", shapes=["none", "ascii_comment", "ml_string2"] + sorted(lt) + other_marks,
                          files=["sibling"], kinds=sorted(stats["conflict_kinds"]) + ["syn_rparen", "unresolved"]):
        hit = x["shape"] in lt and x["kind"] in stats["conflict_kinds"]
        items.append(("decoy", x, "earlier" if hit else "conform"))
    path = os.path.join(wd, "neg-controls.ndjson")
    vlib.write_ndjson(path, [y for (_, y, _) in items])
    _, rejects = run_tlc(wd, "neg-controls", path, "part")
    got = {x["rec"]: x["why"] for x in rejects}
    counts = {}
    # a case the implementation itself gets wrong in the cross product says nothing about a stub: not constrained
    bad_idx = {recs[x["rec"] - 1]["idx"] for x in bad}
    for i, (name, y, want) in enumerate(items):
        why = got.get(i + 1)
        if name != "corrupt" and y["idx"] in bad_idx:
            want = None
        c = counts.setdefault(name, {"records": 0, "must_reject": 0, "rejected_as_required": 0, "must_conform": 0,
                                     "wrongly_rejected": 0})
        c["records"] += 1
        if want == "conform":
            c["must_conform"] += 1
            c["wrongly_rejected"] += why is not None
        elif want is not None:
            c["must_reject"] += 1
            c["rejected_as_required"] += (why == want)
    for name, c in counts.items():
        if c["must_reject"] == 0 or c["rejected_as_required"] != c["must_reject"] or c["wrongly_rejected"]:
            vlib.tool_error("negative control %s accepted: %s" % (name, json.dumps(c)))
    for name in ("f1", "lines", "xfile", "stmt", "first", "decoy"):
        if counts[name]["must_conform"] == 0:
            vlib.tool_error("negative control %s has no case that must stay conforming" % name)
    return counts


def run(ctx):
    tier = ctx.tier
    wd = vlib.workdir(PID)
    ev = vlib.Evidence(PID, tier, "model_checking")
    verdicts = vlib.Verdicts(PID)
    vlib.build_harness()

    if ctx.replay:
        rp = json.load(open(ctx.replay))["replay"]
        cf, tf, ff = (os.path.join(wd, n) for n in ("one-case.json", "one.ndjson", "one-full.ndjson"))
        json.dump(rp["case"], open(cf, "w"))
        p = vlib.harness("c15", ["one", cf, tf])
        open(ff, "w").write(p.stdout)
        recs, _, _ = validate(wd, "replay", tf, ff, "free", ev, verdicts, workers=1, guards=False)
        ev.set(samples=[recs[0]["kind"] + " in " + recs[0]["path"]])
        ev.write()
        return verdicts.finish()

    rdir = os.path.join(vlib.ROOT, "replays", PID)   # replay files of earlier runs are stale
    for fn in os.listdir(rdir) if os.path.isdir(rdir) else ():
        if fn.endswith(".json"):
            os.remove(os.path.join(rdir, fn))

    # 1. the specification on its own
    r = vlib.tlc("MC_Diag", wd=wd, timeout=900, tags=("STATS",), workers=min(TLC_WORKERS, vlib.NCPU))
    vlib.require_tlc_ok(r, "SyltDiag generator model")
    for act in ("DiagInit", "DiagStep"):
        if r.coverage.get(act, (0, 0))[1] == 0:
            vlib.tool_error("vacuity: spec action %s never taken" % act)
    stats = r.records[0][1] if r.records else vlib.tool_error("MC_Diag printed no STATS record")
    DUP.update(stats["dup_kinds"])
    ev.set(spec_model={"states": r.distinct, "sample_texts": stats["samples"],
                       "universe": {k: v for k, v in stats.items() if not isinstance(v, list)},
                       "shape_names": stats["shape_names"], "shapes_ending_a_literal_with_a_newline": stats["ends_nl_shapes"],
                       "kinds_with_module_layout_dimension": stats["from_kinds"],
                       "multi_line_kinds": stats["ml_kinds"],
                       "duplicate_definition_kinds": stats["dd_kinds"], "declaration_kinds": stats["decl_kinds"],
                       "conflict_kinds": stats["conflict_kinds"], "kinds_with_two_offending_elements": stats["two_kinds"],
                       "look_alike_shapes": stats["mark_shapes"], "look_alike_shapes_with_begin_marker": stats["lt_decoy_shapes"],
                       "invariants": ["LineAgrees", "PrevNLAgrees", "ColSane", "SampleLineOK"], "assumes": ["UniverseOK"],
                       "tlc_wall_s": round(r.wall_s, 1)})
    ev.add("states", r.distinct)
    ev.add("transitions", r.generated)

    # 2. conformance: the full cross product, decided by TLC
    t_cross, f_cross = os.path.join(wd, "cross.ndjson"), os.path.join(wd, "cross-cases.ndjson")
    vlib.harness("c15", ["cross", t_cross, f_cross])
    recs, fulls, bad = validate(wd, "cross-product", t_cross, f_cross, "cross", ev, verdicts, coverage=False)
    if len(recs) != stats["applicable"]:
        vlib.tool_error("harness rendered %d cases, the spec's universe has %d" % (len(recs), stats["applicable"]))
    badset = {x["rec"] for x in bad}
    samples = [sample_of(recs[i], fulls[i]) for i in (0, len(recs) // 3, len(recs) // 2, len(recs) - 40, len(recs) - 1)]
    samples += [sample_of(recs[i - 1], fulls[i - 1]) for i in sorted(badset)[:2]]
    samples.append({"file_text": fulls[len(recs) // 2]["files"][fulls[len(recs) // 2]["path"]],
                    "case": fulls[len(recs) // 2]["case"]})

    # 3. seeded random variations
    nfree = 1500 if tier == "quick" else 24000
    t_free, f_free = os.path.join(wd, "free.ndjson"), os.path.join(wd, "free-cases.ndjson")
    vlib.harness("c15", ["free", nfree, t_free, f_free])
    frecs, ffulls, _ = validate(wd, "random-variations", t_free, f_free, "free", ev, verdicts)
    samples.append(sample_of(frecs[0], ffulls[0]))
    distinct = len({vlib.sha(x["files"]) for x in fulls + ffulls if x["base_ok"] and x["res"] != "ok"})

    # 4. negative controls (binding demonstrations)
    counts = controls(wd, recs, bad, stats)
    ev.set(negative_controls_rejected=sum(c["rejected_as_required"] for c in counts.values()),
           negative_controls={
               "corrupted_observations": counts["corrupt"], "stub_f1_newlines_in_literals_not_counted": counts["f1"],
               "stub_lines_literal_ending_in_newline_one_short": counts["lines"],
               "stub_xfile_line_numbers_related_across_files": counts["xfile"],
               "stub_stmt_first_line_of_the_statement_instead_of_the_element": counts["stmt"],
               "stub_first_duplicate_definition_reported_at_the_first_writing": counts["first"],
               "stub_decoy_line_lost_after_a_begin_marker_that_is_no_conflict": counts["decoy"]})

    ev.set(samples=samples, exhaustive=True, exhaustive_scope="the cross product; the random variations are sampled",
           distinct_nontrivial=distinct,
           rule="every applicable case of kind(%d) x file(%d) x position(%d) x preceding shape(%d) x layout of the imported "
                "modules(%d; only for duplicates involving a name import), index-addressed in SyltDiag!Case (%d applicable of %d), "
                "plus %d seeded random variations; a case is non-trivial when its base program compiles and the planted program "
                "(base + exactly the one planted line) is rejected; distinct planted projects are counted" % (
                    stats["kinds"], stats["files"], stats["positions"], stats["shapes"], stats["rels"], stats["applicable"],
                    stats["ncases"], nfree),
           known_findings_hit=verdicts.known_hits)
    ev.assume("TLC and SyltDiag are the reference: expected line = 1 + number of newline characters before the planted "
              "construct in the file's text; for duplicate names the textually later of the two introductions (definition, "
              "`use`, `from .. use`) in the file that holds both is the offending one, wherever the imported names are defined",
              "non-ASCII characters are shown to TLC as '@' (character-for-character); the compiler sees the real text",
              "the offending element of every planted form is written on one line, so 'the line where the construct is written' "
              "is unambiguous; for the multi-line kinds the element (argument, list/tuple/blob element, imported name, operand "
              "expression, statement of a block lambda) is the construct, not the statement that contains it",
              "a name written twice - two top-level definitions of any kinds, two fields of a blob declaration, two variants "
              "of an enum declaration - makes the SECOND writing the offending construct",
              "only the FIRST returned error's file and span.line_start are observed (for a form with two offending elements "
              "- two conflict markers - also the second error's), never message texts")
    rc = verdicts.finish()
    ev.violations = len(verdicts.violations)
    ev.write()
    return rc
