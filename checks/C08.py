"""C08 - type annotations are optional and never change the generated code.

SyltAnnot (TLA+) defines the annotation sites of a program and the erasure universe Masks(n, np).  Two universes of
programs are emitted by TLC with their site counts:
  * MC_Annot: SyltGen's pairwise-nesting programs,
  * MC_AnnotFam: the annotation-type families of SyltAnnotFam (G: generic / structured nominal types at two
    instantiations, S: generic function signatures, F: function-typed variable definitions, L: annotations naming
    types that are declared later in the file, in every order, M: qualified type names in multi-file projects),
  * SyltAnnotOrd (family O, emitted by MC_AnnotFam too): positional type arguments - generic blobs / enums with 2-3 type
    variables in every declaration and mention order, applied to every tuple of argument types, at every site and nested.
The harness compiles every erasure variant of every program; MC_AnnotVal checks the recorded results: the
record must cover the spec's mask universe (Assert: a tool error otherwise), every variant must be accepted and all
variants of one program must have the same Lua digest.
"""
import json
import os
import random
import vlib

PID = "C08"

# dimensions of family G every run must have exercised (vacuity guard), read off the case ids
G_KINDS = {"Box", "Opt", "Maybe", "Pair", "Cell", "WrapG", "Wrap", "Act", "Star"}
G_NESTS = {"flat", "list", "tup", "opt", "box"}
G_INNERS = {"bare", "app", "part"}
G_SITES = {"varc", "varm", "param", "ret", "pret", "lam", "lamret", "global", "gparam", "gret", "gpret"}
G_CTXS = {"plain", "clo", "loop", "arm", "ifarm", "block", "method"}
G_PLACES = {"same12", "same21", "u1fn_before", "u1fn_after", "u2fn_before", "u2fn_after"}
L_MENTIONS = {"tup", "list", "fnret", "garg", "tuplist", "nest", "enum", "opt"}
L_FORMS = {"list", "opt", "tuplist", "ulist", "uopt", "boxlist"}
L_KINDS = {"gvar", "gmut", "gfnret", "gfnpar", "local"}
L_ORDERS = {o + ":" + r for o in ("DTU", "DUT", "TDU", "TUD", "UDT", "UTD") for r in ("before", "after")}
M_ROUTES = {"one", "alias", "chain", "chainin", "chainas", "mixed", "reexp", "from", "fromas", "folder", "folderas", "path",
            "pathas", "rooted", "srel", "sroot", "schain", "sfolder"}
M_FORMS = {"color", "variant", "pt", "boxbare", "boxapp", "boxlit", "listcolor", "tup", "boxcolor"}
M_HOSTS = {"main", "mid", "sub"}
O_KINDS = {"blob", "enum"}
O_NESTS = {"flat", "list", "box", "self", "field", "gfield", "payload", "sigF", "sigL"}
O_ORDERS = {"AB", "BA", "ABC", "ACB", "BAC", "BCA", "CAB", "CBA"}
O_SITES = G_SITES | {"gsig", "lsig"}
O_PLACES = {"same12", "same21"}
O_VALUES = {"lit", "all", "1", "2", "3"}
FAMS = "PGSFLMO"
# records per validation run (bounds TLC's memory in the thorough tier; the chunks are independent)
CHUNK = 3000


def family(case):
    o = case["id"].get("o", "")
    return o[0] if len(o) > 1 and o[1] == ":" else "P"      # P = pairwise-nesting universe


def culprit(rec):
    """the single site (1-based, printer order) whose erasure alone separates the bad variants from the good ones"""
    res = rec["results"]
    ref = next((r["digest"] for r in res if r["class"] == "ok"), None)
    bad = [r for r in res if r["class"] != "ok" or r["digest"] != ref]
    good = [r for r in res if not (r["class"] != "ok" or r["digest"] != ref)]
    if not bad or not good:
        return "all" if not good else "none"
    n = rec["nsites"]
    hits = [j + 1 for j in range(n) if all(not r["mask"][j] for r in bad) and all(r["mask"][j] for r in good)]
    if len(hits) == 1:
        return str(hits[0])
    hits = [j + 1 for j in range(n) if all(r["mask"][j] for r in bad) and all(not r["mask"][j] for r in good)]
    return "on%d" % hits[0] if len(hits) == 1 else "mixed"


def run(ctx):
    tier = ctx.tier
    quick = tier == "quick"
    wd = vlib.workdir(PID)
    ev = vlib.Evidence(PID, tier, "model_checking")
    verdicts = vlib.Verdicts(PID)
    vlib.build_harness()
    maxexh = 8 if quick else 6
    # a thorough run may be long on a busy machine; it must not die of a timeout
    tmo = 1800 if quick else 10800
    tseed = ["-seed", str(ctx.seed % (2 ** 31))]

    if ctx.replay:
        cases = [json.load(open(ctx.replay))["replay"]["case"]]
    else:
        # universe 1: pairwise nesting (quick: TLC emits the programs of a seeded random subset of the keys)
        r = vlib.tlc("MC_Annot", wd=wd, env={"SAMPLE": 500 if quick else 0}, timeout=tmo, xmx="12g", extra=tseed)
        vlib.require_tlc_ok(r, "MC_Annot emit")
        # universe 2: annotation-type families (quick: family S complete, seeded random subsets of G and F)
        rf = vlib.tlc("MC_AnnotFam", wd=wd, env={"GSAMPLE": 700 if quick else 0, "FSAMPLE": 120 if quick else 0,
                                                 "LSAMPLE": 300 if quick else 0, "MSAMPLE": 300 if quick else 0,
                                                 "OSAMPLE": 400 if quick else 0},
                      timeout=tmo, xmx="12g", extra=tseed)
        vlib.require_tlc_ok(rf, "MC_AnnotFam emit")
        seen = set()
        cases = []
        for c in [p for (_, p) in r.records] + [p for (_, p) in rf.records]:
            h = vlib.sha([c["tops"], c.get("files") or []])
            if h not in seen:
                seen.add(h)
                cases.append(c)
        nfam = {f: sum(1 for c in cases if family(c) == f) for f in FAMS}
        ev.set(emitted_programs=len(cases), emitted_per_family=nfam, states=r.distinct + rf.distinct,
               transitions=r.generated + rf.generated)
        if quick:
            rnd = random.Random(ctx.seed)
            p = [c for c in cases if family(c) == "P"]
            cases = rnd.sample(p, min(len(p), 600)) + [c for c in cases if family(c) != "P"]
            nfam = {f: sum(1 for c in cases if family(c) == f) for f in FAMS}
        # vacuity guards: enough programs of every family, every dimension of family G exercised
        need = ({"P": 500, "G": 600, "S": 130, "F": 100, "L": 280, "M": 280, "O": 380} if quick
                else {"P": 10000, "G": 8000, "S": 130, "F": 400, "L": 2800, "M": 3100, "O": 8000})
        for f in FAMS:
            if nfam[f] < need[f]:
                vlib.tool_error("vacuity: only %d programs of family %s (need %d)" % (nfam[f], f, need[f]))
        def dims_guard(fam, extract, wants):
            got = [set() for _ in wants]
            for c in cases:
                if family(c) == fam:
                    for d, x in zip(got, extract(c["id"])):
                        d.add(x)
            for d, (name, want) in zip(got, wants):
                if d != want:
                    vlib.tool_error("vacuity: family %s %s exercised %s, expected %s" % (fam, name, sorted(d), sorted(want)))

        dims_guard("G", lambda i: i["o"].split(":")[1:] + i["i"].split(":")[:2] + i["h"].split(":")[:1],
                   [("kinds", G_KINDS), ("nests", G_NESTS), ("inner forms", G_INNERS), ("sites", G_SITES), ("contexts", G_CTXS),
                    ("placements", G_PLACES)])
        dims_guard("L", lambda i: i["o"].split(":")[1:] + [i["i"], i["h"]],
                   [("mention positions", L_MENTIONS), ("annotation forms", L_FORMS), ("definition kinds", L_KINDS), ("orders", L_ORDERS)])
        dims_guard("M", lambda i: i["o"].split(":")[1:] + [i["i"], i["h"]],
                   [("routes", M_ROUTES), ("forms", M_FORMS), ("sites", G_SITES), ("hosts", M_HOSTS)])
        dims_guard("O", lambda i: i["o"].split(":")[1:] + i["i"].split(":")[:2] + i["h"].split(":"),
                   [("kinds", O_KINDS), ("nests", O_NESTS), ("declaration orders", O_ORDERS), ("sites", O_SITES),
                    ("mention orders", O_ORDERS), ("placements", O_PLACES), ("value forms", O_VALUES)])

    cf = os.path.join(wd, "cases.ndjson")
    tf = os.path.join(wd, "trace.ndjson")
    vlib.write_ndjson(cf, cases)
    vlib.harness("c08", ["record", cf, tf, maxexh], timeout=2 * tmo)
    recs = vlib.read_ndjson(tf)
    chunk = CHUNK
    vstates = vtrans = 0
    for lo in range(0, len(recs), chunk):
        part = recs[lo:lo + chunk]
        ptf = tf if len(recs) <= chunk else os.path.join(wd, "trace-%d.ndjson" % lo)
        if ptf != tf:
            vlib.write_ndjson(ptf, part)
        v = vlib.tlc("MC_AnnotVal", wd=wd, env={"TRACE": ptf, "MAXEXH": maxexh}, tags=("REJECT",),
                     timeout=tmo, xmx="12g", out_file=os.path.join(wd, "tlc-validate-%d.out" % lo))
        vlib.require_tlc_ok(v, "MC_AnnotVal")
        if v.coverage.get("Validate", (0, 0))[0] < len(part):
            vlib.tool_error("vacuity: Validate fired for %s of %d records" % (v.coverage.get("Validate"), len(part)))
        vstates += v.distinct
        vtrans += v.generated
        for (_, rej) in {(t, vlib.sha(p)): (t, p) for (t, p) in v.records}.values():
            rec = recs[lo + rej["rec"] - 1]
            case = cases[lo + rej["rec"] - 1]
            bad = [rec["results"][j - 1] for j in rej["bad"]][:3]
            cid = case["id"]
            sig = "C08|%s|%s|%s|%s" % (rej["why"], cid.get("o"), cid.get("i"), cid.get("h"))
            if family(case) != "P":
                sig += "|site=%s" % culprit(rec)
            verdicts.add(sig, "annotation variants disagree (%s): %s" % (rej["why"], str([b.get("detail") or b["digest"] for b in bad])[:200]),
                         {"case": case, "bad_variants": bad, "reference_digest": rec["results"][0]["digest"]})
    nvariants = sum(len(r_["results"]) for r_ in recs)
    exhaustive_programs = sum(1 for r_ in recs if r_["nsites"] - r_["nprelude"] <= maxexh)

    if not ctx.replay:
        # negative control: salted digest must be rejected by the specification (programs of both universes)
        sub = sum(([c for c in cases if family(c) == f][:8] for f in FAMS), [])
        ncf = os.path.join(wd, "neg-cases.ndjson")
        ntf = os.path.join(wd, "neg-trace.ndjson")
        vlib.write_ndjson(ncf, sub)
        vlib.harness("c08", ["record", ncf, ntf, maxexh], env={"C08_STUB": "salt"})
        nv = vlib.tlc("MC_AnnotVal", wd=wd, env={"TRACE": ntf, "MAXEXH": maxexh}, tags=("REJECT",),
                      workers=4, timeout=tmo, out_file=os.path.join(wd, "tlc-neg.out"))
        vlib.require_tlc_ok(nv, "MC_AnnotVal negative control")
        nrej = len({p["rec"] for (_, p) in nv.records})
        if nrej != len(sub):
            vlib.tool_error("negative control: only %d of %d salted records rejected" % (nrej, len(sub)))
        ev.set(negative_controls_rejected=nrej)

    ev.add("states", vstates)
    ev.add("transitions", vtrans)
    perfam = {f: sum(1 for c in cases if family(c) == f) for f in FAMS}
    samples = []
    for f in FAMS:
        samples += [{"id": r_["id"], "nsites": r_["nsites"], "nprelude": r_["nprelude"], "variants": len(r_["results"])}
                    for (c, r_) in zip(cases, recs) if family(c) == f][:2]
    ev.set(traces_validated_against_impl=len(recs), programs=len(recs), programs_per_family=perfam, evaluations=nvariants,
           distinct_nontrivial=len(recs), programs_with_all_subsets=exhaustive_programs,
           exhaustive=(tier == "thorough"),
           rule="P: programs of SyltGen's pairwise-nesting universe (quick: seeded sample of 600); G / S / F / L / M: the annotation-type "
                "families of SyltAnnotFam (quick: all of S, seeded samples of 700 of G, 120 of F, 300 of L, 300 of M; every value of every "
                "dimension of G, L and M must occur); O: positional type arguments, SyltAnnotOrd (quick: seeded sample of 400; every kind, "
                "nest, declaration order, mention order, site, placement and value form must occur); per program every mask of SyltAnnot!Masks (all subsets of the program-specific sites "
                "when <= %d - always the case in the families -, plus all-on/all-off/single-off/single-on/prefix-off over all sites); "
                "a program is non-trivial when it has >= 1 site of its own (asserted by TLC for the families; all P have >= 20)" % maxexh,
           samples=samples,
           known_findings_hit=verdicts.known_hits)
    ev.assume("annotation sites are variable definitions whose value is not a function literal (function-typed values included), parameters of "
              "non-function type, and return types of value-returning functions",
              "a parameter through which a function value is reached and called in the body (SyltAnnotFam!PK) is not a site: a call is "
              "typed where it is written, like for parameters of function type",
              "the printer writes the sites in the order the specification counts them; the count is cross-checked per program")
    rc = verdicts.finish()
    ev.violations = len(verdicts.violations)
    ev.write()
    return rc
