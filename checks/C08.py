"""C08 - type annotations are optional and never change the generated code.

SyltAnnot (TLA+) defines the annotation sites of a program and the erasure universe Masks(n, np); MC_Annot
emits SyltGen's programs with their site counts (mode emit) and validates the recorded compile results (mode
validate): the record must cover the spec's mask universe (Assert: a tool error otherwise), every variant must be
accepted and all variants of one program must have the same Lua digest.
"""
import os
import random
import vlib

PID = "C08"


def run(ctx):
    tier = ctx.tier
    wd = vlib.workdir(PID)
    ev = vlib.Evidence(PID, tier, "model_checking")
    verdicts = vlib.Verdicts(PID)
    vlib.build_harness()
    maxexh = 8 if tier == "quick" else 6

    if ctx.replay:
        import json
        cases = [json.load(open(ctx.replay))["replay"]["case"]]
    else:
        r = vlib.tlc("MC_Annot", wd=wd, env={"MODE": "emit", "MAXEXH": maxexh}, timeout=1800, xmx="12g")
        vlib.require_tlc_ok(r, "MC_Annot emit")
        allcases = [p for (_, p) in r.records]
        seen = set()
        cases = []
        for c in allcases:
            h = vlib.sha(c["tops"])
            if h not in seen:
                seen.add(h)
                cases.append(c)
        ev.set(universe_programs=len(cases), states=r.distinct, transitions=r.generated)
        if tier == "quick":
            rnd = random.Random(ctx.seed)
            cases = rnd.sample(cases, min(len(cases), 600))
        if len(cases) < 500:
            vlib.tool_error("vacuity: only %d programs" % len(cases))

    cf = os.path.join(wd, "cases.ndjson")
    tf = os.path.join(wd, "trace.ndjson")
    vlib.write_ndjson(cf, cases)
    vlib.harness("c08", ["record", cf, tf, maxexh], timeout=3000)
    recs = vlib.read_ndjson(tf)
    v = vlib.tlc("MC_Annot", wd=wd, env={"MODE": "validate", "TRACE": tf, "MAXEXH": maxexh}, tags=("REJECT",),
                 timeout=1800, xmx="12g", out_file=os.path.join(wd, "tlc-validate.out"))
    vlib.require_tlc_ok(v, "MC_Annot validate")
    nvariants = sum(len(r_["results"]) for r_ in recs)
    exhaustive_programs = sum(1 for r_ in recs if r_["nsites"] - r_["nprelude"] <= maxexh)
    for (_, rej) in {(t, vlib.sha(p)): (t, p) for (t, p) in v.records}.values():
        rec = recs[rej["rec"] - 1]
        case = cases[rej["rec"] - 1]
        bad = [rec["results"][j - 1] for j in rej["bad"]][:3]
        cid = case["id"]
        sig = "C08|%s|%s|%s|%s" % (rej["why"], cid.get("o"), cid.get("i"), cid.get("h"))
        verdicts.add(sig, "annotation variants disagree (%s): %s" % (rej["why"], str([b.get("detail") or b["digest"] for b in bad])[:200]),
                     {"case": case, "bad_variants": bad, "reference_digest": rec["results"][0]["digest"]})

    if not ctx.replay:
        # negative control: salted digest must be rejected by the specification
        sub = cases[:40]
        ncf = os.path.join(wd, "neg-cases.ndjson")
        ntf = os.path.join(wd, "neg-trace.ndjson")
        vlib.write_ndjson(ncf, sub)
        vlib.harness("c08", ["record", ncf, ntf, maxexh], env={"C08_STUB": "salt"})
        nv = vlib.tlc("MC_Annot", wd=wd, env={"MODE": "validate", "TRACE": ntf, "MAXEXH": maxexh}, tags=("REJECT",),
                      workers=4, out_file=os.path.join(wd, "tlc-neg.out"))
        vlib.require_tlc_ok(nv, "MC_Annot negative control")
        nrej = len({p["rec"] for (_, p) in nv.records})
        if nrej != len(sub):
            vlib.tool_error("negative control: only %d of %d salted records rejected" % (nrej, len(sub)))
        ev.set(negative_controls_rejected=nrej)

    ev.add("states", v.distinct)
    ev.add("transitions", v.generated)
    ev.set(traces_validated_against_impl=len(recs), programs=len(recs), evaluations=nvariants,
           distinct_nontrivial=len(recs), programs_with_all_subsets=exhaustive_programs,
           exhaustive=(tier == "thorough"),
           rule="programs of SyltGen's universe (quick: seeded sample of 600); per program every mask of SyltAnnot!Masks "
                "(all subsets of the non-prelude sites when <= %d, plus all-on/all-off/single-off/single-on/prefix-off over all sites); "
                "a program is non-trivial when it has >= 1 site (all have >= 20)" % maxexh,
           samples=[{"id": r_["id"], "nsites": r_["nsites"], "variants": len(r_["results"])} for r_ in recs[:3]],
           known_findings_hit=verdicts.known_hits)
    ev.assume("annotation sites are variable definitions of non-function values, parameters of non-function type, and return types of value-returning functions",
              "the printer writes the sites in the order the specification counts them; the count is cross-checked per program")
    rc = verdicts.finish()
    ev.violations = len(verdicts.violations)
    ev.write()
    return rc
