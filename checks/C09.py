"""C09 - names resolve lexically; consistent renaming changes nothing.

SyltScope (TLA+) states Sylt's lexical scoping as a scope-stack machine (enter/exit of functions, blocks, if/elif/else
bodies, case arms, loop bodies; declare; use -> innermost match, else a global of the current module or std, else
unresolved; `m.x` -> the globals of module m; the entry is an implicit use of `start` at the main module's top level) and
defines
  * 23 binder skeletons (<= 7 renamable binders: parameters, block-/branch-/loop-locals, case bindings, nested and
    recursive functions, module globals; scopes inside GLOBAL INITIALISERS that are not function literals: if / case
    bodies, a block, a loop, function literals in a list / tuple / blob literal; a TWO-FILE program; a recursive LOCAL
    FUNCTION under each of the five ways of declaring it - `::`, `:=`, `: T :`, `: T =`, `:= (fn ..)` - with a global
    function, a parameter and an enclosing local of its type around it; BLOB LITERALS whose implicit `self` is a binder
    declared for the method fields only: data fields before / between / after methods, a parenthesised method, a
    nested literal, a literal built inside a method of another blob) with SLOTS at every interesting position,
  * Resolve / Legal(naming) by running the machine; the namings: all maps into a pool of 2 (quick) or 3 (thorough) names,
    AllDistinct, MaxShadow, every single-pair merge, and every binder under every ROLE NAME (`start`, `print`, `list`,
    `len`, the type `E`) - type, std and namespace names are binders with a fixed name, so legality is decided by the machine,
  * for every (binder, slot) pair whether the binder is visible there and, if not, the position class; the use is planted in
    17 SYNTACTIC POSITIONS (argument, `ret f(v)`, `ret v`, condition, loop condition, callee, operand, negation, `<=>`,
    tuple / list / blob-field element, index base, field base, assignment target and value, case scrutinee) and in
    expression slots (initialiser, elif and loop condition, data fields of blob literals), in void and value-returning
    functions and at module level; and as DEAD CODE behind an unconditional jump: `ret` / `ret 0` / break / continue
    at the slot itself, and wrapped (own function body, do block, if / else body, loop body, case arm, case else
    behind ret / break / continue) - jumps are no scope events, the scope rules hold for dead code as well.
MC_Scope runs the machine action by action over skeleton x naming (spec-level invariants and ASSUMEs: exit 2 when one
fails) and emits the cases; for SyltGen's pairwise-nesting programs (MC_ScopeGen: the universe of C01/C08) it computes a
heavily shadowing naming and asserts its legality with the machine.  The harness renders (the printer's `naming` knob),
compiles and records; Trace_Scope re-derives the universe, asserts coverage and decides per record:
  (a) nam: all legal namings of a skeleton are accepted with one and the same Lua digest (when the all-distinct program is
      rejected but a renaming is accepted: renaming-changes-verdict),
  (b) oos: a use planted where its binder is visible (in a well-typed position) is accepted; elsewhere it is rejected
      (non-empty error list, nothing written, not by the parser),
  (c) gen: all-distinct vs shadowing rendering of a generated program: both accepted, same digest.
"""
import json
import os
import random
from concurrent.futures import ThreadPoolExecutor
import vlib

PID = "C09"
GENERATOR_WHYS = ("base-rejected", "rejected-by-parser")
MACHINE_ACTIONS = ("EnterFn", "ExitFn", "EnterBlock", "ExitBlock", "EnterBranch", "ExitBranch", "EnterArm", "ExitArm",
                   "EnterLoopBody", "ExitLoopBody", "EnterMethod", "ExitMethod", "Declare", "Use", "QualifiedUse", "EnterModule", "EnterTop", "Finish", "CheckPlanted")


def dedupe(records, key):
    seen = {}
    for (_, p) in records:
        seen.setdefault(key(p), p)
    return list(seen.values())


def signature(rej, case):
    """Computed from the case: the failure class, and the position class / binder kind (oos), the merged pair's frame
    and binder kinds (nam), or the generator's template names (gen)."""
    t = rej["t"]
    if t == "oos":
        kind = rej["bk"]
        if rej["cls"] not in ("after-" + rej["own"], "before-" + rej["own"], "before-decl", "other-module"):
            kind += "@" + rej["own"]          # the binder's own frame is nested inside the separating frame
        if rej.get("ginit"):
            kind += "+ginit"                  # declared in a scope that sits directly in a global's initialiser
        return ["C09|%s|%s|%s|%s" % (rej["why"], rej["cls"], kind, rej["form"])]
    if t == "nam":
        if rej.get("pairs"):
            return ["C09|%s|%s" % (rej["why"], d) for d in sorted(rej["pairs"])]
        return ["C09|%s|multi|%s" % (rej["why"], rej.get("name", "?"))]
    i = rej["id"]
    return ["C09|%s|gen|%s|%s|%s" % (rej["why"], i.get("o"), i.get("i"), i.get("h"))]


def validate(wd, name, recs, pool, gen_file, full, workers=4, xmx="8g"):
    """(runs of this function overlap: every run has its own TLC metadir under wd/<name>.d)"""
    tf = os.path.join(wd, name + "-trace.ndjson")
    vlib.write_ndjson(tf, recs)
    env = {"POOL": pool, "TRACE": tf}
    if gen_file:
        env["GEN"] = gen_file
    if full:
        env["FULL"] = "1"
    sub = os.path.join(wd, name + ".d")
    os.makedirs(sub, exist_ok=True)
    v = vlib.tlc("Trace_Scope", wd=sub, env=env, tags=("REJECT",), workers=workers, timeout=3600, xmx=xmx,
                 out_file=os.path.join(wd, "tlc-%s.out" % name))
    rejects = list({p["rec"]: p for (_, p) in v.records}.values())
    return v, rejects


def record(wd, name, cases, env=None):
    cf = os.path.join(wd, name + "-cases.ndjson")
    tf = os.path.join(wd, name + "-rec.ndjson")
    vlib.write_ndjson(cf, cases)
    vlib.harness("c09", ["record", cf, tf], env=env, timeout=3000)
    recs = vlib.read_ndjson(tf)
    if len(recs) != len(cases):
        vlib.tool_error("%s: %d cases but %d records" % (name, len(cases), len(recs)))
    return recs


def in_thread(fn, *a, **kw):
    """Run fn in a worker thread; a tool error raised there (sys.exit) is handed back instead of ending the thread
    silently, so that the main thread can raise it at the point where the sequential check would have."""
    try:
        return ("ok", fn(*a, **kw))
    except BaseException as e:  # noqa (SystemExit from vlib.tool_error included)
        return ("err", e)


def outcome(fut):
    kind, val = fut.result()
    if kind == "err":
        raise val
    return val


def generated_programs(wd, tier, seed):
    """SyltGen's pairwise-nesting programs and their shadowing naming (two TLC runs in a row)."""
    keep = 20 if tier == "quick" else 1
    big = "8g" if tier == "quick" else "12g"          # (the heap sizes of rounds 1-2; not raised)
    sub = os.path.join(wd, "gen.d")
    os.makedirs(sub, exist_ok=True)
    ra = vlib.tlc("MC_ScopeGen", wd=sub, env={"KEEP": keep, "SEED": seed % 1000}, workers=4, timeout=3600, xmx=big,
                  coverage=False, out_file=os.path.join(wd, "tlc-programs.out"))
    if not ra.ok:
        return ra, None, None, None, keep
    seen = set()
    programs = []
    for (_, c) in ra.records:
        h = vlib.sha(c["tops"])
        if h not in seen:
            seen.add(h)
            programs.append({"id": c["id"], "tops": c["tops"]})
    gen_file = os.path.join(wd, "gen-programs.ndjson")
    vlib.write_ndjson(gen_file, programs)
    rg = vlib.tlc("MC_Scope", wd=sub, env={"MODE": "gen", "GEN": gen_file}, workers=4, timeout=3600, xmx=big,
                  out_file=os.path.join(wd, "tlc-gen.out"))
    return ra, rg, programs, gen_file, keep


def run(ctx):
    tier = ctx.tier
    wd = vlib.workdir(PID)
    ev = vlib.Evidence(PID, tier, "model_checking")
    verdicts = vlib.Verdicts(PID)
    vlib.build_harness(["c09"])
    pool = 2 if tier == "quick" else 3
    overlap = tier == "quick"
    ctl_xmx = "4g" if overlap else "8g"
    gen_file = None
    nshadowing = 0

    if ctx.replay:
        rp = json.load(open(ctx.replay))["replay"]
        case = rp["case"]
        pool = rp.get("pool", pool)
        if case["t"] == "gen":
            case = dict(case, rec=1)
            gen_file = os.path.join(wd, "gen-programs.ndjson")
            vlib.write_ndjson(gen_file, [{"id": case["id"], "tops": case["tops"]}])
        cases = rp.get("context", []) + [case]
    else:
        # 1. the scope machine over skeleton x naming: spec-level invariants, ASSUMEs, emission
        #    (the generated programs of step 2 are prepared by two further TLC runs at the same time)
        #    (quick tier only: thorough has the time to run one JVM after the other, and its JVMs are big)
        pool_ex = ThreadPoolExecutor(max_workers=2)
        if overlap:
            f_gen = pool_ex.submit(in_thread, generated_programs, wd, tier, ctx.seed)
        r = vlib.tlc("MC_Scope", wd=wd, env={"MODE": "emit", "POOL": pool}, workers=4, timeout=3600,
                     out_file=os.path.join(wd, "tlc-emit.out"))
        vlib.require_tlc_ok(r, "MC_Scope emit (scope machine, invariants, universe assumptions)")
        for a in MACHINE_ACTIONS:
            if r.coverage.get(a, (0, 0))[1] == 0:
                vlib.tool_error("vacuity: action %s of the scope machine never fired" % a)
        skels = {p["sk"]: p for p in dedupe(r.records, lambda p: (p["t"], p["sk"])) if p["t"] == "skel"}
        nams = [p for p in dedupe(r.records, lambda p: (p["t"], p["sk"], tuple(p.get("nm", [])))) if p["t"] == "nam"]
        ooss = [p for p in dedupe(r.records, lambda p: (p["t"], p["sk"], p.get("b"), p.get("slot"), p.get("form"))) if p["t"] == "oos"]
        if r.coverage["Finish"][1] < len(nams):
            vlib.tool_error("vacuity: %d namings emitted but Finish fired %s times" % (len(nams), r.coverage["Finish"]))
        legal = {}
        for p in nams:
            if p["legal"]:
                legal.setdefault(p["sk"], []).append(p)
        nlegal = sum(len(v) for v in legal.values())
        nshadowing = sum(1 for v in legal.values() for p in v if len(set(p["nm"])) < len(p["nm"]))
        n_oos = sum(1 for p in ooss if not p["inscope"])
        if len(skels) < 23 or any(len(legal.get(sk, [])) < 3 for sk in skels):
            vlib.tool_error("vacuity: a skeleton has fewer than 3 legal namings")
        nspecial = sum(1 for v_ in legal.values() for p in v_ if "special" in p["tags"])
        dead = [p for p in ooss if p["form"].startswith("dead-")]
        selfs = [p for p in ooss if p["bk"] == "self"]
        if (nlegal < (600 if tier == "quick" else 1500) or n_oos < 4000 or len(ooss) - n_oos < 1800 or nspecial < 300
                or sum(1 for p in dead if not p["inscope"]) < 1200 or sum(1 for p in selfs if not p["inscope"]) < 100
                or sum(1 for p in selfs if p["inscope"]) < 30):
            vlib.tool_error("vacuity: %d legal namings, %d out-of-scope and %d in-scope planted uses" % (nlegal, n_oos, len(ooss) - n_oos))
        cases = []
        for sk in sorted(skels):
            ns = sorted(legal[sk], key=lambda p: (0 if "distinct" in p["tags"] else 1, p["nm"]))
            cases.append({"t": "nam", "sk": sk, "name": skels[sk]["name"], "tops": skels[sk]["tops"],
                          "namings": [{"nm": n["nm"], "names": n["names"]} for n in ns]})
        for p in sorted(ooss, key=lambda p: (p["sk"], p["b"], p["slot"], p["form"])):
            names = [n for n in legal[p["sk"]] if "distinct" in n["tags"]][0]["names"]
            cases.append({"t": "oos", "sk": p["sk"], "b": p["b"], "slot": p["slot"], "form": p["form"], "tops": p["tops"], "names": names})
        ev.set(states=r.distinct, transitions=r.generated, skeletons=len(skels), namings_tried=len(nams), legal_namings=nlegal,
               legal_namings_with_shadowing=nshadowing, legal_namings_with_role_name=nspecial,
               planted_forms=sorted({p["form"] for p in ooss}), planted_out_of_scope=n_oos, planted_in_scope=len(ooss) - n_oos,
               position_classes=sorted({p["cls"] for p in ooss}), machine_action_counts={a: r.coverage[a][1] for a in MACHINE_ACTIONS},
               spec_assumptions_checked=["SkeletonsWellFormed", "AllDistinctLegal", "MaxShadowLegal", "NamesOnlyCompared",
                                         "OutOfScopeUnresolved", "EveryBinderHasBase", "ClassesCovered", "FormsCovered", "SpecialCovered",
                                         "DeadCovered", "LocalRecCovered",
                                         "StackOk", "NoStuck", "DoneOk", "TraceComplete"])

        # 2. SyltGen's pairwise-nesting programs (same universe as MC_Annot / MC_Sem emit; quick: a seeded 1-in-20 sample
        #    of the (outer, position, inner) triples, in all their fillings and harness contexts) and their shadowing naming
        if not overlap:
            f_gen = pool_ex.submit(in_thread, generated_programs, wd, tier, ctx.seed)
        ra, rg, programs, gen_file, keep = outcome(f_gen)
        pool_ex.shutdown()
        vlib.require_tlc_ok(ra, "MC_ScopeGen (program universe)")
        universe = len(programs) * keep
        if len(programs) < (300 if tier == "quick" else 15000):
            vlib.tool_error("vacuity: only %d generated programs" % len(programs))
        vlib.require_tlc_ok(rg, "MC_Scope gen (shadowing naming of the generated programs, legality asserted)")
        gens = {p["rec"]: p for (_, p) in rg.records}
        if len(gens) != len(programs) or rg.coverage.get("GenEmit", (0, 0))[1] < len(programs):
            vlib.tool_error("vacuity: %d programs but %d namings (GenEmit %s)" % (len(programs), len(gens), rg.coverage.get("GenEmit")))
        if any(g["ncolours"] * 2 > g["nbinders"] for g in gens.values()):
            vlib.tool_error("vacuity: a generated program's shadowing naming uses more than half as many names as binders")
        for i, p in enumerate(programs):
            cases.append({"t": "gen", "rec": i + 1, "id": p["id"], "tops": p["tops"], "shadow": gens[i + 1]["shadow"]})
        ev.add("states", ra.distinct + rg.distinct)
        ev.add("transitions", ra.generated + rg.generated)
        ev.set(universe_programs_approx=universe, generated_programs=len(programs),
               names_per_program=[min(g["ncolours"] for g in gens.values()), max(g["ncolours"] for g in gens.values())],
               binders_per_program=[min(g["nbinders"] for g in gens.values()), max(g["nbinders"] for g in gens.values())])

    # 3. conformance: render, compile, record; TLC re-derives the universe and decides.  The negative controls of
    #    step 4 run at the same time (own harness runs, own TLC runs); their outcome is looked at after the verdicts.
    recs = record(wd, "main", cases)
    controls = {}
    ctl_ex = ThreadPoolExecutor(max_workers=3 if overlap else 1)
    start_controls = None
    if not ctx.replay:
        rnd = random.Random(ctx.seed)
        nam_cases = [c for c in cases if c["t"] == "nam"]
        oos_cases = [c for c in cases if c["t"] == "oos"]
        gen_cases = [c for c in cases if c["t"] == "gen"]
        sub = nam_cases + rnd.sample(gen_cases, 40)

        def salted():
            srecs = record(wd, "neg-salt", sub, env={"C09_STUB": "salt"})
            return validate(wd, "neg-salt", srecs, pool, gen_file, full=False, workers=2, xmx=ctl_xmx)

        def accepting():
            arecs = record(wd, "neg-accept", oos_cases, env={"C09_STUB": "accept"})
            return validate(wd, "neg-accept", arecs, pool, None, full=False, workers=2, xmx=ctl_xmx)

        first_nam = next(i for i, c in enumerate(cases) if c["t"] == "nam")
        first_gen = next(i for i, c in enumerate(cases) if c["t"] == "gen")
        dropped = json.loads(json.dumps(recs[first_nam]))
        dropped["results"] = dropped["results"][:-1]
        renamed = json.loads(json.dumps(recs[first_gen]))
        renamed["shadow"][-1]["n"] = "zz"
        foreign = json.loads(json.dumps(next(x for x in recs if x["t"] == "oos")))
        foreign["form"] = "callee" if foreign["form"] != "callee" else "scrutinee"
        foreign["slot"] = 19
        corrupt = {"naming-dropped": [dropped], "other-naming-used": [renamed], "not-a-pair": [foreign],
                   "record-missing": recs[:first_gen][1:]}
        def start_controls():
            controls["salt"] = ctl_ex.submit(in_thread, salted)
            controls["accept"] = ctl_ex.submit(in_thread, accepting)
            for nm, trace in corrupt.items():
                controls[nm] = ctl_ex.submit(in_thread, validate, wd, "neg-" + nm, trace, pool,
                                             gen_file if nm == "other-naming-used" else None, nm == "record-missing", 2, ctl_xmx)
        if overlap:
            start_controls()
    v, rejects = validate(wd, "main", recs, pool, gen_file, full=not ctx.replay, xmx="8g" if tier == "quick" else "12g")
    vlib.require_tlc_ok(v, "Trace_Scope validate")
    fired = sum(v.coverage.get(a, (0, 0))[1] for a in ("VNam", "VOos", "VGen"))
    if fired < len(recs) or (not ctx.replay and any(v.coverage.get(a, (0, 0))[1] == 0 for a in ("VNam", "VOos", "VGen"))):
        vlib.tool_error("vacuity: %d records but the validation actions fired %d times (%s)" % (len(recs), fired, v.coverage))
    generator_problems = []
    for rej in rejects:
        rec = recs[rej["rec"] - 1]
        case = cases[rej["rec"] - 1]
        if rej["why"] in GENERATOR_WHYS:
            generator_problems.append((rej, rec))
            continue
        if rej["t"] == "oos":
            what = "a use of binder %d (%s of a %s frame) planted %s as %s in skeleton '%s' (slot %d): %s %s" % (
                rej["b"], rej["bk"], rej["own"], rej["cls"], rej["form"], rej["name"], rej["slot"], rej["why"], rec.get("detail", "")[:120])
            replay = {"case": case, "pool": pool, "observed": {k: rec[k] for k in ("class", "bytes", "stage", "detail")}, "src": rec.get("src"),
                      "context": [c for c in cases if c["t"] == "nam" and c["sk"] == case["sk"]]}
        elif rej["t"] == "nam":
            what = "skeleton '%s': %d of %d legal namings %s (single merged pairs / role names that tell: %s)" % (
                rej["name"], rej["nbad"], rej["nlegal"], rej["why"], ", ".join(sorted(rej.get("pairs", []))) or "none")
            replay = {"case": case, "pool": pool, "bad_variants": rej["bad"][:20], "sources": rec.get("sources")}
        else:
            what = "generated program %s: all-distinct vs shadowing names: %s %s" % (
                json.dumps(rej["id"], sort_keys=True), rej["why"], rec["shadowed"].get("detail", "")[:120])
            replay = {"case": case, "pool": pool, "observed": {"distinct": rec["distinct"], "shadowed": rec["shadowed"]},
                      "sources": rec.get("sources")}
        for sig in signature(rej, case):
            verdicts.add(sig, what, replay)
    for (rej, rec) in generator_problems[:10]:
        print("NOTE generator: %s %s" % (rej["why"], json.dumps({k: rej[k] for k in rej if k in ("t", "sk", "name", "b", "slot", "id")}, sort_keys=True)))
    nskel_problems = sum(1 for (rj, _) in generator_problems if rj["t"] != "gen")
    # a rejected base says nothing about the property; but it must not hide verdicts reached on other cases
    if not verdicts.violations and (nskel_problems or len(generator_problems) * 20 > len(recs)):
        vlib.tool_error("vacuity: %d cases say nothing about the property (base program rejected / variant stopped by the parser), "
                        "%d of them skeleton cases" % (len(generator_problems), nskel_problems))

    if not ctx.replay:
        # 4. negative controls (binding demonstration; in the quick tier they were started above)
        if not overlap:
            start_controls()
        # (i) a perturbed digest for one naming per skeleton / for the shadowing rendering: every record must be rejected
        sv, srej = outcome(controls["salt"])
        vlib.require_tlc_ok(sv, "negative control (salted digests)")
        if len(srej) != len(sub):
            vlib.tool_error("negative control accepted: only %d of %d records with a perturbed digest were rejected" % (len(srej), len(sub)))
        # (ii) a compiler that accepts every planted use: every out-of-scope pair must be rejected
        av, arej = outcome(controls["accept"])
        vlib.require_tlc_ok(av, "negative control (accept stub)")
        n_oos = ev.cov["planted_out_of_scope"]
        if len(arej) != n_oos or any(x["why"] != "out-of-scope-accepted" for x in arej):
            vlib.tool_error("negative control accepted: an always-accepting compiler was rejected on %d of %d out-of-scope uses" % (len(arej), n_oos))
        # (iii) corrupted traces must stop TLC (Assert / completeness assumption)
        for nm in corrupt:
            cv, _ = outcome(controls[nm])
            if cv.ok:
                vlib.tool_error("negative control accepted: corrupted trace '%s' passed validation" % nm)
        ev.set(negative_controls_rejected=len(srej) + len(arej) + len(corrupt))
    ctl_ex.shutdown()

    ev.add("states", v.distinct)
    ev.add("transitions", v.generated)
    nam_recs = [x for x in recs if x["t"] == "nam"]
    oos_recs = [x for x in recs if x["t"] == "oos"]
    gen_recs = [x for x in recs if x["t"] == "gen"]
    compiles = sum(len(x["results"]) for x in nam_recs) + len(oos_recs) + 2 * len(gen_recs)
    nontrivial = (nshadowing + ev.cov.get("legal_namings_with_role_name", 0) + ev.cov.get("planted_out_of_scope", 0) + len(gen_recs)) if not ctx.replay else len(recs)
    samples = []
    for x in (nam_recs[:1] + oos_recs[:1] + gen_recs[:1]):
        if x["t"] == "nam":
            samples.append({"t": "nam", "sk": x["sk"], "namings": [r_["nm"] for r_ in x["results"]][:8],
                            "digests": sorted({r_["digest"] for r_ in x["results"]})})
        elif x["t"] == "oos":
            samples.append({k: x[k] for k in ("t", "sk", "b", "slot", "form", "class", "bytes", "src")})
        else:
            samples.append({"t": "gen", "id": x["id"], "shadow": x["shadow"][:12], "distinct": x["distinct"]["digest"],
                            "shadowed": x["shadowed"]["digest"]})
    ev.set(traces_validated_against_impl=len(recs), programs=compiles, evaluations=compiles, distinct_nontrivial=nontrivial,
           records={"nam": len(nam_recs), "oos": len(oos_recs), "gen": len(gen_recs)}, rejects=len(rejects), pool=pool,
           rejected_by_compiler=len(generator_problems), exhaustive=(tier == "thorough" and not ctx.replay),
           rule="23 binder skeletons (SyltScope!Skel, incl. scopes in non-function global initialisers, a two-file program, a recursive "
                "local function under 5 declaration kinds, blob literals with `self` as a binder of their method fields) x {every "
                "map of the <= 7 binders into a pool of %d names (4 of the 5 declaration-kind twins without this part), all-distinct, "
                "max-shadow, every single pair merged, every binder under each "
                "of 5 role names (start, print, list, len, E)}, legality decided by the scope machine, every legal naming compiled; every "
                "(binder, slot, syntactic position) triple of every skeleton as a planted use (in scope and well typed: must be accepted; "
                "out of scope, or `self` where it means another instance: must be rejected; 17 positions + 11 dead-code forms behind "
                "ret / break / continue); %s programs of SyltGen's pairwise-nesting universe rendered "
                "all-distinct and with the specification's greedy shadowing naming. Non-trivial and distinct: legal namings that really "
                "share a name between two binders or carry a role name + out-of-scope planted uses + generated programs (each shares "
                "names: <= half as many names as binders), counted by case id" % (pool, "all" if tier == "thorough" else "a seeded 1-in-20 sample of the"),
           samples=samples, known_findings_hit=verdicts.known_hits)
    ev.assume("same-frame redeclaration (`a := 1` twice in one block, a local named like a parameter of its function) is left out of the "
              "legal namings: the property does not say which declaration wins",
              "type, field, variant and std names are not renamed themselves (variables may take their names); `start` keeps its name; "
              "`self` is a reserved word and a case binding must start with a lower-case letter (grammar), so these are not offered as names; "
              "a local named like a namespace that is USED as a namespace in its scope is not a legal naming; a local named `list` that is "
              "the base of a field access is legal and rejected by sylt (K4, known finding)",
              "`self` planted where it means the instance of ANOTHER blob literal is written as `self.<f>` with a field only the intended "
              "literal's type has: the expected rejection then comes from typing the resolved instance",
              "the printer renders binder ids through the `naming` map faithfully (a wrong rendering shows up as a rejected base program: exit 2)",
              "FNV digest of the emitted Lua text stands for byte identity")
    rc = verdicts.finish()
    ev.violations = len(verdicts.violations)
    ev.write()
    return rc
