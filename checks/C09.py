"""C09 - names resolve lexically; consistent renaming changes nothing.

SyltScope (TLA+) states Sylt's lexical scoping as a scope-stack machine (enter/exit of functions, blocks, if/elif/else
bodies, case arms, loop bodies; declare; use -> innermost match, else a global of the current module or std, else
unresolved; `m.x` -> the globals of module m; the entry is an implicit use of `start` at the main module's top level) and
defines
  * 17 binder skeletons (<= 6 renamable binders: parameters, block-/branch-/loop-locals, case bindings, nested and
    recursive functions, module globals; scopes inside GLOBAL INITIALISERS that are not function literals: if / case
    bodies, a block, a loop, function literals in a list / tuple / blob literal; a TWO-FILE program) with SLOTS at every
    interesting position,
  * Resolve / Legal(naming) by running the machine; the namings: all maps into a pool of 2 (quick) or 3 (thorough) names,
    AllDistinct, MaxShadow, every single-pair merge, and every binder under every ROLE NAME (`start`, `print`, `list`,
    `len`, the type `E`) - type, std and namespace names are binders with a fixed name, so legality is decided by the machine,
  * for every (binder, slot) pair whether the binder is visible there and, if not, the position class; the use is planted in
    17 SYNTACTIC POSITIONS (argument, `ret f(v)`, `ret v`, condition, loop condition, callee, operand, negation, `<=>`,
    tuple / list / blob-field element, index base, field base, assignment target and value, case scrutinee) and in
    expression slots (initialiser, elif and loop condition), in void and value-returning functions and at module level.
MC_Scope runs the machine action by action over skeleton x naming (spec-level invariants and ASSUMEs: exit 2 when one
fails) and emits the cases; for SyltGen's pairwise-nesting programs (MC_ScopeGen: the universe of C01/C08) it computes a
heavily shadowing naming and asserts its legality with the machine.  The harness renders (the printer's `naming` knob),
compiles and records; Trace_Scope re-derives the universe, asserts coverage and decides per record:
  (a) nam: all legal namings of a skeleton are accepted with one and the same Lua digest (when the all-distinct program is
      rejected but a renaming is accepted: renaming-changes-verdict),
  (b) oos: a use planted where its binder is visible (in a well-typed position) is accepted; elsewhere it is rejected
      (non-empty error list, nothing written, not by the parser),
  (c) gen: all-distinct vs shadowing rendering of a generated program: both accepted, same digest.
"""
import json
import os
import random
import vlib

PID = "C09"
GENERATOR_WHYS = ("base-rejected", "rejected-by-parser")
MACHINE_ACTIONS = ("EnterFn", "ExitFn", "EnterBlock", "ExitBlock", "EnterBranch", "ExitBranch", "EnterArm", "ExitArm",
                   "EnterLoopBody", "ExitLoopBody", "Declare", "Use", "QualifiedUse", "EnterModule", "EnterTop", "Finish", "CheckPlanted")


def dedupe(records, key):
    seen = {}
    for (_, p) in records:
        seen.setdefault(key(p), p)
    return list(seen.values())


def signature(rej, case):
    """Computed from the case: the failure class, and the position class / binder kind (oos), the merged pair's frame
    and binder kinds (nam), or the generator's template names (gen)."""
    t = rej["t"]
    if t == "oos":
        kind = rej["bk"]
        if rej["cls"] not in ("after-" + rej["own"], "before-" + rej["own"], "before-decl", "other-module"):
            kind += "@" + rej["own"]          # the binder's own frame is nested inside the separating frame
        if rej.get("ginit"):
            kind += "+ginit"                  # declared in a scope that sits directly in a global's initialiser
        return ["C09|%s|%s|%s|%s" % (rej["why"], rej["cls"], kind, rej["form"])]
    if t == "nam":
        if rej.get("pairs"):
            return ["C09|%s|%s" % (rej["why"], d) for d in sorted(rej["pairs"])]
        return ["C09|%s|multi|%s" % (rej["why"], rej.get("name", "?"))]
    i = rej["id"]
    return ["C09|%s|gen|%s|%s|%s" % (rej["why"], i.get("o"), i.get("i"), i.get("h"))]


def validate(wd, name, recs, pool, gen_file, full, workers=8):
    tf = os.path.join(wd, name + "-trace.ndjson")
    vlib.write_ndjson(tf, recs)
    env = {"POOL": pool, "TRACE": tf}
    if gen_file:
        env["GEN"] = gen_file
    if full:
        env["FULL"] = "1"
    v = vlib.tlc("Trace_Scope", wd=wd, env=env, tags=("REJECT",), workers=workers, timeout=2400, xmx="12g",
                 out_file=os.path.join(wd, "tlc-%s.out" % name))
    rejects = list({p["rec"]: p for (_, p) in v.records}.values())
    return v, rejects


def record(wd, name, cases, env=None):
    cf = os.path.join(wd, name + "-cases.ndjson")
    tf = os.path.join(wd, name + "-rec.ndjson")
    vlib.write_ndjson(cf, cases)
    vlib.harness("c09", ["record", cf, tf], env=env, timeout=3000)
    recs = vlib.read_ndjson(tf)
    if len(recs) != len(cases):
        vlib.tool_error("%s: %d cases but %d records" % (name, len(cases), len(recs)))
    return recs


def run(ctx):
    tier = ctx.tier
    wd = vlib.workdir(PID)
    ev = vlib.Evidence(PID, tier, "model_checking")
    verdicts = vlib.Verdicts(PID)
    vlib.build_harness(["c09"])
    pool = 2 if tier == "quick" else 3
    gen_file = None
    nshadowing = 0

    if ctx.replay:
        rp = json.load(open(ctx.replay))["replay"]
        case = rp["case"]
        pool = rp.get("pool", pool)
        if case["t"] == "gen":
            case = dict(case, rec=1)
            gen_file = os.path.join(wd, "gen-programs.ndjson")
            vlib.write_ndjson(gen_file, [{"id": case["id"], "tops": case["tops"]}])
        cases = rp.get("context", []) + [case]
    else:
        # 1. the scope machine over skeleton x naming: spec-level invariants, ASSUMEs, emission
        r = vlib.tlc("MC_Scope", wd=wd, env={"MODE": "emit", "POOL": pool}, workers=8, timeout=1500,
                     out_file=os.path.join(wd, "tlc-emit.out"))
        vlib.require_tlc_ok(r, "MC_Scope emit (scope machine, invariants, universe assumptions)")
        for a in MACHINE_ACTIONS:
            if r.coverage.get(a, (0, 0))[1] == 0:
                vlib.tool_error("vacuity: action %s of the scope machine never fired" % a)
        skels = {p["sk"]: p for p in dedupe(r.records, lambda p: (p["t"], p["sk"])) if p["t"] == "skel"}
        nams = [p for p in dedupe(r.records, lambda p: (p["t"], p["sk"], tuple(p.get("nm", [])))) if p["t"] == "nam"]
        ooss = [p for p in dedupe(r.records, lambda p: (p["t"], p["sk"], p.get("b"), p.get("slot"), p.get("form"))) if p["t"] == "oos"]
        if r.coverage["Finish"][1] < len(nams):
            vlib.tool_error("vacuity: %d namings emitted but Finish fired %s times" % (len(nams), r.coverage["Finish"]))
        legal = {}
        for p in nams:
            if p["legal"]:
                legal.setdefault(p["sk"], []).append(p)
        nlegal = sum(len(v) for v in legal.values())
        nshadowing = sum(1 for v in legal.values() for p in v if len(set(p["nm"])) < len(p["nm"]))
        n_oos = sum(1 for p in ooss if not p["inscope"])
        if len(skels) < 17 or any(len(legal.get(sk, [])) < 3 for sk in skels):
            vlib.tool_error("vacuity: a skeleton has fewer than 3 legal namings")
        nspecial = sum(1 for v_ in legal.values() for p in v_ if "special" in p["tags"])
        if nlegal < (400 if tier == "quick" else 1200) or n_oos < 2500 or len(ooss) - n_oos < 1200 or nspecial < 200:
            vlib.tool_error("vacuity: %d legal namings, %d out-of-scope and %d in-scope planted uses" % (nlegal, n_oos, len(ooss) - n_oos))
        cases = []
        for sk in sorted(skels):
            ns = sorted(legal[sk], key=lambda p: (0 if "distinct" in p["tags"] else 1, p["nm"]))
            cases.append({"t": "nam", "sk": sk, "name": skels[sk]["name"], "tops": skels[sk]["tops"],
                          "namings": [{"nm": n["nm"], "names": n["names"]} for n in ns]})
        for p in sorted(ooss, key=lambda p: (p["sk"], p["b"], p["slot"], p["form"])):
            names = [n for n in legal[p["sk"]] if "distinct" in n["tags"]][0]["names"]
            cases.append({"t": "oos", "sk": p["sk"], "b": p["b"], "slot": p["slot"], "form": p["form"], "tops": p["tops"], "names": names})
        ev.set(states=r.distinct, transitions=r.generated, skeletons=len(skels), namings_tried=len(nams), legal_namings=nlegal,
               legal_namings_with_shadowing=nshadowing, legal_namings_with_role_name=nspecial,
               planted_forms=sorted({p["form"] for p in ooss}), planted_out_of_scope=n_oos, planted_in_scope=len(ooss) - n_oos,
               position_classes=sorted({p["cls"] for p in ooss}), machine_action_counts={a: r.coverage[a][1] for a in MACHINE_ACTIONS},
               spec_assumptions_checked=["SkeletonsWellFormed", "AllDistinctLegal", "MaxShadowLegal", "NamesOnlyCompared",
                                         "OutOfScopeUnresolved", "EveryBinderHasBase", "ClassesCovered", "FormsCovered", "SpecialCovered",
                                         "StackOk", "NoStuck", "DoneOk", "TraceComplete"])

        # 2. SyltGen's pairwise-nesting programs (same universe as MC_Annot / MC_Sem emit; quick: a seeded 1-in-20 sample
        #    of the (outer, position, inner) triples, in all their fillings and harness contexts) and their shadowing naming
        keep = 20 if tier == "quick" else 1
        ra = vlib.tlc("MC_ScopeGen", wd=wd, env={"KEEP": keep, "SEED": ctx.seed % 1000}, workers=8, timeout=1800, xmx="12g",
                      coverage=False, out_file=os.path.join(wd, "tlc-programs.out"))
        vlib.require_tlc_ok(ra, "MC_ScopeGen (program universe)")
        seen = set()
        programs = []
        for (_, c) in ra.records:
            h = vlib.sha(c["tops"])
            if h not in seen:
                seen.add(h)
                programs.append({"id": c["id"], "tops": c["tops"]})
        universe = len(programs) * keep
        if len(programs) < (300 if tier == "quick" else 15000):
            vlib.tool_error("vacuity: only %d generated programs" % len(programs))
        gen_file = os.path.join(wd, "gen-programs.ndjson")
        vlib.write_ndjson(gen_file, programs)
        rg = vlib.tlc("MC_Scope", wd=wd, env={"MODE": "gen", "GEN": gen_file}, workers=8, timeout=2400, xmx="12g",
                      out_file=os.path.join(wd, "tlc-gen.out"))
        vlib.require_tlc_ok(rg, "MC_Scope gen (shadowing naming of the generated programs, legality asserted)")
        gens = {p["rec"]: p for (_, p) in rg.records}
        if len(gens) != len(programs) or rg.coverage.get("GenEmit", (0, 0))[1] < len(programs):
            vlib.tool_error("vacuity: %d programs but %d namings (GenEmit %s)" % (len(programs), len(gens), rg.coverage.get("GenEmit")))
        if any(g["ncolours"] * 2 > g["nbinders"] for g in gens.values()):
            vlib.tool_error("vacuity: a generated program's shadowing naming uses more than half as many names as binders")
        for i, p in enumerate(programs):
            cases.append({"t": "gen", "rec": i + 1, "id": p["id"], "tops": p["tops"], "shadow": gens[i + 1]["shadow"]})
        ev.add("states", ra.distinct + rg.distinct)
        ev.add("transitions", ra.generated + rg.generated)
        ev.set(universe_programs_approx=universe, generated_programs=len(programs),
               names_per_program=[min(g["ncolours"] for g in gens.values()), max(g["ncolours"] for g in gens.values())],
               binders_per_program=[min(g["nbinders"] for g in gens.values()), max(g["nbinders"] for g in gens.values())])

    # 3. conformance: render, compile, record; TLC re-derives the universe and decides
    recs = record(wd, "main", cases)
    v, rejects = validate(wd, "main", recs, pool, gen_file, full=not ctx.replay)
    vlib.require_tlc_ok(v, "Trace_Scope validate")
    fired = sum(v.coverage.get(a, (0, 0))[1] for a in ("VNam", "VOos", "VGen"))
    if fired < len(recs) or (not ctx.replay and any(v.coverage.get(a, (0, 0))[1] == 0 for a in ("VNam", "VOos", "VGen"))):
        vlib.tool_error("vacuity: %d records but the validation actions fired %d times (%s)" % (len(recs), fired, v.coverage))
    generator_problems = []
    for rej in rejects:
        rec = recs[rej["rec"] - 1]
        case = cases[rej["rec"] - 1]
        if rej["why"] in GENERATOR_WHYS:
            generator_problems.append((rej, rec))
            continue
        if rej["t"] == "oos":
            what = "a use of binder %d (%s of a %s frame) planted %s as %s in skeleton '%s' (slot %d): %s %s" % (
                rej["b"], rej["bk"], rej["own"], rej["cls"], rej["form"], rej["name"], rej["slot"], rej["why"], rec.get("detail", "")[:120])
            replay = {"case": case, "pool": pool, "observed": {k: rec[k] for k in ("class", "bytes", "stage", "detail")}, "src": rec.get("src"),
                      "context": [c for c in cases if c["t"] == "nam" and c["sk"] == case["sk"]]}
        elif rej["t"] == "nam":
            what = "skeleton '%s': %d of %d legal namings %s (single merged pairs / role names that tell: %s)" % (
                rej["name"], rej["nbad"], rej["nlegal"], rej["why"], ", ".join(sorted(rej.get("pairs", []))) or "none")
            replay = {"case": case, "pool": pool, "bad_variants": rej["bad"][:20], "sources": rec.get("sources")}
        else:
            what = "generated program %s: all-distinct vs shadowing names: %s %s" % (
                json.dumps(rej["id"], sort_keys=True), rej["why"], rec["shadowed"].get("detail", "")[:120])
            replay = {"case": case, "pool": pool, "observed": {"distinct": rec["distinct"], "shadowed": rec["shadowed"]},
                      "sources": rec.get("sources")}
        for sig in signature(rej, case):
            verdicts.add(sig, what, replay)
    for (rej, rec) in generator_problems[:10]:
        print("NOTE generator: %s %s" % (rej["why"], json.dumps({k: rej[k] for k in rej if k in ("t", "sk", "name", "b", "slot", "id")}, sort_keys=True)))
    nskel_problems = sum(1 for (rj, _) in generator_problems if rj["t"] != "gen")
    # a rejected base says nothing about the property; but it must not hide verdicts reached on other cases
    if not verdicts.violations and (nskel_problems or len(generator_problems) * 20 > len(recs)):
        vlib.tool_error("vacuity: %d cases say nothing about the property (base program rejected / variant stopped by the parser), "
                        "%d of them skeleton cases" % (len(generator_problems), nskel_problems))

    if not ctx.replay:
        # 4. negative controls (binding demonstration)
        rnd = random.Random(ctx.seed)
        nam_cases = [c for c in cases if c["t"] == "nam"]
        oos_cases = [c for c in cases if c["t"] == "oos"]
        gen_cases = [c for c in cases if c["t"] == "gen"]
        # (i) a perturbed digest for one naming per skeleton / for the shadowing rendering: every record must be rejected
        sub = nam_cases + rnd.sample(gen_cases, 40)
        srecs = record(wd, "neg-salt", sub, env={"C09_STUB": "salt"})
        sv, srej = validate(wd, "neg-salt", srecs, pool, gen_file, full=False, workers=4)
        vlib.require_tlc_ok(sv, "negative control (salted digests)")
        if len(srej) != len(sub):
            vlib.tool_error("negative control accepted: only %d of %d records with a perturbed digest were rejected" % (len(srej), len(sub)))
        # (ii) a compiler that accepts every planted use: every out-of-scope pair must be rejected
        arecs = record(wd, "neg-accept", oos_cases, env={"C09_STUB": "accept"})
        av, arej = validate(wd, "neg-accept", arecs, pool, None, full=False, workers=4)
        vlib.require_tlc_ok(av, "negative control (accept stub)")
        n_oos = ev.cov["planted_out_of_scope"]
        if len(arej) != n_oos or any(x["why"] != "out-of-scope-accepted" for x in arej):
            vlib.tool_error("negative control accepted: an always-accepting compiler was rejected on %d of %d out-of-scope uses" % (len(arej), n_oos))
        # (iii) corrupted traces must stop TLC (Assert / completeness assumption)
        first_nam = next(i for i, c in enumerate(cases) if c["t"] == "nam")
        first_gen = next(i for i, c in enumerate(cases) if c["t"] == "gen")
        dropped = json.loads(json.dumps(recs[first_nam]))
        dropped["results"] = dropped["results"][:-1]
        renamed = json.loads(json.dumps(recs[first_gen]))
        renamed["shadow"][-1]["n"] = "zz"
        foreign = json.loads(json.dumps(next(x for x in recs if x["t"] == "oos")))
        foreign["form"] = "callee" if foreign["form"] != "callee" else "scrutinee"
        foreign["slot"] = 19
        corrupt = {"naming-dropped": [dropped], "other-naming-used": [renamed], "not-a-pair": [foreign],
                   "record-missing": recs[:first_gen][1:]}
        for nm, trace in corrupt.items():
            cv, _ = validate(wd, "neg-" + nm, trace, pool, gen_file if nm == "other-naming-used" else None,
                             full=(nm == "record-missing"), workers=2)
            if cv.ok:
                vlib.tool_error("negative control accepted: corrupted trace '%s' passed validation" % nm)
        ev.set(negative_controls_rejected=len(srej) + len(arej) + len(corrupt))

    ev.add("states", v.distinct)
    ev.add("transitions", v.generated)
    nam_recs = [x for x in recs if x["t"] == "nam"]
    oos_recs = [x for x in recs if x["t"] == "oos"]
    gen_recs = [x for x in recs if x["t"] == "gen"]
    compiles = sum(len(x["results"]) for x in nam_recs) + len(oos_recs) + 2 * len(gen_recs)
    nontrivial = (nshadowing + ev.cov.get("legal_namings_with_role_name", 0) + ev.cov.get("planted_out_of_scope", 0) + len(gen_recs)) if not ctx.replay else len(recs)
    samples = []
    for x in (nam_recs[:1] + oos_recs[:1] + gen_recs[:1]):
        if x["t"] == "nam":
            samples.append({"t": "nam", "sk": x["sk"], "namings": [r_["nm"] for r_ in x["results"]][:8],
                            "digests": sorted({r_["digest"] for r_ in x["results"]})})
        elif x["t"] == "oos":
            samples.append({k: x[k] for k in ("t", "sk", "b", "slot", "form", "class", "bytes", "src")})
        else:
            samples.append({"t": "gen", "id": x["id"], "shadow": x["shadow"][:12], "distinct": x["distinct"]["digest"],
                            "shadowed": x["shadowed"]["digest"]})
    ev.set(traces_validated_against_impl=len(recs), programs=compiles, evaluations=compiles, distinct_nontrivial=nontrivial,
           records={"nam": len(nam_recs), "oos": len(oos_recs), "gen": len(gen_recs)}, rejects=len(rejects), pool=pool,
           rejected_by_compiler=len(generator_problems), exhaustive=(tier == "thorough" and not ctx.replay),
           rule="17 binder skeletons (SyltScope!Skel, incl. scopes in non-function global initialisers and a two-file program) x {every "
                "map of the <= 6 binders into a pool of %d names, all-distinct, max-shadow, every single pair merged, every binder under each "
                "of 5 role names (start, print, list, len, E)}, legality decided by the scope machine, every legal naming compiled; every "
                "(binder, slot, syntactic position) triple of every skeleton as a planted use (in scope and well typed: must be accepted; "
                "out of scope: must be rejected, in all 17 positions); %s programs of SyltGen's pairwise-nesting universe rendered "
                "all-distinct and with the specification's greedy shadowing naming. Non-trivial and distinct: legal namings that really "
                "share a name between two binders or carry a role name + out-of-scope planted uses + generated programs (each shares "
                "names: <= half as many names as binders), counted by case id" % (pool, "all" if tier == "thorough" else "a seeded 1-in-20 sample of the"),
           samples=samples, known_findings_hit=verdicts.known_hits)
    ev.assume("same-frame redeclaration (`a := 1` twice in one block, a local named like a parameter of its function) is left out of the "
              "legal namings: the property does not say which declaration wins",
              "type, field, variant and std names are not renamed themselves (variables may take their names); `start` keeps its name; "
              "`self` is a reserved word and a case binding must start with a lower-case letter (grammar), so these are not offered as names; "
              "a local hiding a namespace name (K4) is not a legal naming and therefore not tried",
              "the printer renders binder ids through the `naming` map faithfully (a wrong rendering shows up as a rejected base program: exit 2)",
              "FNV digest of the emitted Lua text stands for byte identity")
    rc = verdicts.finish()
    ev.violations = len(verdicts.violations)
    ev.write()
    return rc
