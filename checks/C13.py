"""C13 - operators parse with the documented precedence and associativity.

Round 3: SyltPrimary adds PRIMARY x POSTFIX x WRAP x CONTEXT (every kind of primary expression - literals, name, grouping,
tuple, list, blob literal, fn literal, if- / case-expression - with every postfix form behind it, in every operand position
and in every statement position), the same with a run-time meaning (value computed by the specification's environment
machine, program run), and stacks of unary operators over int / float / variable operands, spaced and tight (`--2.5`), run.

TLC enumerates the universes of SyltExpr (all depth-2 operator/postfix shapes over distinct leaf names,
all 13^3 unparenthesised three-operator chains, all depth-2 well-typed int/bool trees with their value) and
checks at spec level that the printing rules, the operator table and the reference precedence-climbing parser
agree (RoundTrip, ChainRoot). Every case is replayed: the real parser must produce the expected tree from the
minimal-parenthesis text and from the fully parenthesised text, and (typed universe) the compiled program must
print the value the specification computes.
"""
import os
import vlib

PID = "C13"


def ops_in(t, acc):
    if isinstance(t, dict):
        if t.get("k") in ("bin", "un"):
            acc.append(t["op"] if t["k"] == "bin" else "u" + t["op"])
        elif t.get("k") in ("call", "idx", "fld"):
            acc.append(t["k"])
        for v in t.values():
            ops_in(v, acc)
    elif isinstance(t, list):
        for v in t:
            ops_in(v, acc)
    return acc


def signature(case, chk):
    if "pk" in case:      # the keyed universes of SyltPrimary: kind of primary, postfix form, wrap, context
        return "C13|%s|%s|pk=%s|px=%s|w=%s|cx=%s" % (chk["what"], case["u"], case["pk"], case["px"], case["w"].split(":")[0], case["cx"])
    t = case["t"]
    root = t.get("op", t.get("k"))
    kids = []
    for key in ("l", "r", "a", "e", "f"):
        if key in t and isinstance(t[key], dict):
            c = t[key]
            kids.append("%s=%s" % (key, c.get("op", c.get("k")) if c.get("k") != "un" else "u" + c["op"]))
    return "C13|%s|%s|%s(%s)" % (chk["what"], case["u"], root, ",".join(kids))


def run(ctx):
    tier = ctx.tier
    wd = vlib.workdir(PID)
    ev = vlib.Evidence(PID, tier, "model_checking")
    verdicts = vlib.Verdicts(PID)
    vlib.build_harness()

    if ctx.replay:
        import json
        cases = [json.load(open(ctx.replay))["replay"]["case"]]
    else:
        r = vlib.tlc("MC_Expr", wd=wd, timeout=1500, workers=4, env={"C13_ONLY": "all"})
        vlib.require_tlc_ok(r, "SyltExpr universe")
        cases = [p for (_, p) in r.records]
        seen = set()
        uniq = []
        for c in cases:
            h = vlib.sha(c)
            if h not in seen:
                seen.add(h)
                uniq.append(c)
        cases = uniq
        if r.coverage.get("Emit", (0, 0))[1] == 0 or len(cases) < 1000:
            vlib.tool_error("vacuity: universe too small (%d cases)" % len(cases))
        per_u = {}
        for c in cases:
            per_u[c["u"]] = per_u.get(c["u"], 0) + 1
        for u, least in (("shape", 5000), ("typed", 10000), ("chain", 2197), ("mlchain", 8000), ("longchain", 300), ("prime", 20),
                         ("prim", 4000), ("pctx", 5000), ("ptyped", 1000), ("ustack", 800), ("ustk", 400)):
            if per_u.get(u, 0) < least:
                vlib.tool_error("vacuity: universe %s has %d cases (< %d)" % (u, per_u.get(u, 0), least))
        # every kind of primary meets every postfix form at the start of a statement and after `ret`
        met = {(c["pk"], c["px"], c["cx"]) for c in cases if c["u"] == "pctx"}
        kinds = {c["pk"] for c in cases if c["u"] == "prim"}
        if len(kinds) < 20 or any((k, px, cx) not in met for k in kinds for px in ("call", "idx", "fld") for cx in ("stmt", "ret", "ldef")):
            vlib.tool_error("vacuity: primary x postfix x context is not fully crossed")
        ev.set(states=r.distinct, transitions=r.generated,
               spec_invariants=["RoundTrip", "TypedOk", "ChainRoot"], tlc_wall_s=round(r.wall_s, 1))

    cf = os.path.join(wd, "cases.ndjson")
    rf = os.path.join(wd, "results.ndjson")
    vlib.write_ndjson(cf, cases)
    vlib.harness("c13", ["replay", cf, rf])
    results = vlib.read_ndjson(rf)
    nchecks = 0
    kinds = {}
    pairs = set()
    for res in results:
        case = cases[res["i"]]
        for chk in res["checks"]:
            nchecks += 1
            kinds[chk["what"]] = kinds.get(chk["what"], 0) + 1
            if not chk["ok"]:
                verdicts.add(signature(case, chk),
                             "%s of %r: got %s" % (chk["what"], chk["text"], str(chk.get("got"))[:200]),
                             {"case": case, "check": chk})
        o = ops_in(case["t"], [])
        for a in o:
            for b in o:
                pairs.add((a, b))

    # negative control: a parser that swaps the operands of '-' must be caught
    if not ctx.replay:
        nf = os.path.join(wd, "neg.ndjson")
        sub = [c for c in cases if "-" in ops_in(c["t"], [])][:300]
        nc = os.path.join(wd, "neg-cases.ndjson")
        vlib.write_ndjson(nc, sub)
        vlib.harness("c13", ["replay", nc, nf], env={"C13_STUB": "flip"})
        bad = sum(1 for res in vlib.read_ndjson(nf) for chk in res["checks"] if not chk["ok"] and chk["what"].startswith("parse"))
        if bad == 0:
            vlib.tool_error("negative control accepted: operand-swapping parser not detected")
        # negative control for the run checks: a generator that writes the two minus signs of a double negation side by side
        sub2 = [c for c in cases if c["u"] == "ustack" and c["px"].startswith("n2") and c["pk"] in ("float", "int", "ivar")][:120]
        nc2 = os.path.join(wd, "neg2-cases.ndjson")
        nf2 = os.path.join(wd, "neg2.ndjson")
        vlib.write_ndjson(nc2, sub2)
        vlib.harness("c13", ["replay", nc2, nf2], env={"C13_STUB": "comment"})
        bad2 = sum(1 for res in vlib.read_ndjson(nf2) for chk in res["checks"] if not chk["ok"] and chk["what"].startswith("eval"))
        if bad2 == 0:
            vlib.tool_error("negative control accepted: `--` written into the emitted Lua not detected by the run checks")
        ev.set(negative_controls_rejected=bad + bad2)

    by_u = {}
    for c in cases:
        by_u[c["u"]] = by_u.get(c["u"], 0) + 1
    ev.set(traces_validated_against_impl=len(results), evaluations=nchecks, distinct_nontrivial=len(cases),
           checks_by_kind=kinds, cases_by_universe=by_u, operator_pairs_covered=len(pairs), exhaustive=True,
           rule="SyltPrimary: every kind of primary expression (22: literals, name, parenthesised operator forms, tuples, list, blob literal, fn literals, if / elif / else-less if, case with / without binding, else) x postfix form (call, index, field access, prime call, 7 chains of two) x position in the expression (alone, either operand of each of the 13 binary operators, under both unary operators, argument, list / tuple element, blob field, if condition / branch, fn body) on the right of a definition, and x 10 statement positions (start of a statement: first / later / one-line body / if / else / loop body; right of := = +=; after ret); the same with run-time meaning in 5 ways of reaching print (value from the environment machine EvalE); stacks of 1-3 unary operators over 12 operands (int, float, variables, call, grouping, field, index, bools) x operand positions x spaced / tight spelling, run; mixed unary stacks (parse). Older universes: every tree of SyltExpr!Shapes2 (depth<=2 over 13 binary, 2 unary, 3 postfix forms, distinct leaf names) and Shapes3 (unary operators over postfix forms with composite bases, alone and as operands; postfix chains on composite bases), "
                "every unparenthesised chain a op b op c op d, the same over literals on several lines inside parentheses, chains of 5-10 operands, unary before prime calls, every depth-2 well-typed int/bool tree; distinct by JSON hash; "
                "each yields 2 parse checks (+1 whole-module comparison of the two spellings in the keyed universes, +2 run checks when typed)",
           samples=[{"min": " ".join(c["min"]), "full": " ".join(c["full"]), "u": c["u"]} for c in cases[:3] + cases[len(cases) // 2:len(cases) // 2 + 3]],
           known_findings_hit=verdicts.known_hits)
    ev.assume("the grouping of a unary operator directly beside * or / is not fixed by the property: always parenthesised",
              "value checks need minilua (stand-in for Lua 5.3); division is excluded from evaluation; floats are multiples of 1/16 (exact)",
              "a prime call `b' x` is written only where nothing of the expression follows it (it takes the rest of the line as arguments)",
              "left out as statement grammar, not operator table: a blob literal or an else-less `if` directly in front of `else` on the same line")
    rc = verdicts.finish()
    ev.violations = len(verdicts.violations)
    ev.write()
    return rc
