"""C06 - every accepted program yields loadable Lua.

1. TLC model-checks the load protocol SyltLoad on its own (SyltPipeline + LoadOk; a successful run may only finish
   after its chunk was loaded): invariants, no dead end, `compiled ~> loaded`, every fair behaviour completes, every
   action covered.
2. SyltCorners (TLA+) defines the LEXICAL-CORNER UNIVERSE as an index-addressed sequence of complete Sylt projects
   written out as text by the specification: spelling class x emission site of identifiers (every Lua keyword that is a
   legal Sylt name - derived as Lua's reserved words minus Sylt's -, underscores, digits, 300 characters; fields,
   methods with self, externblob fields, parameters, locals, globals, function names, case bindings, externals,
   namespaces, variants, blob / enum names), string contents x site, numeric literals x site, every expression form as
   an unused statement x position (thorough: also every ordered pair of forms inside an unused tuple), program shapes x
   sizes around Lua's static limits, control transfers (break / continue / ret / <!>) x where they are written, transfer x
   function flavour (fn, pu, method, immediately invoked, argument, nested, pure in pure) x enclosing construct, and dead
   code (a transfer that is not last in its block x every kind of following statement x block position x kind of
   function body; quick: the star of that product, thorough: all of it); round 3: control transfers inside if / case
   EXPRESSIONS in value position (transfer x expression form x value site x loop context x function), string-literal
   CONTENT (control / separator character x following character x preceding character x site; these chunks are also
   run and TLC compares what they print with the bytes of the literal) and WIDE constructs (26 comma-separated
   constructs x widths 1..80).  MC_LoadCases checks the universe (ids and texts unique, every cell inhabited, the spelling really occurs
   in the text, sizes straddle the limits) and emits every case.
3. The recorder (harness c06) substitutes the placeholders, compiles each project through the public API, hands every
   emitted chunk to minilua's loader and writes one event list per case.  TLC (Trace_Load) re-derives every case from
   its index (a mismatch is a tool error), requires the trace to cover 1..NCases, validates every event list as a
   COMPLETE behaviour of SyltLoad with all invariants evaluated in every state, and prints one REJECT line per run
   that is not: a loader refusal is consumed by no action.  Those lines are the verdicts.
4. The same validation for every program of the corpus /repo/tests/**/*.sy and of the C01 universe (SyltGen, emitted
   by MC_LoadGen; a seeded sample in the quick tier).
5. Negative controls: a recorder that corrupts the emitted chunk before loading (two ways), a record whose load event
   was dropped, a record whose source text was altered, an incomplete trace - all must be rejected.
"""
import concurrent.futures
import json
import os
import random

import vlib

PID = "C06"
TLC_WORKERS = 4
TRACE_ACTIONS = ("TraceStart", "TraceParseOk", "TraceRetOk", "TraceLoadOk", "TraceFinish", "TraceAccept")
PROTOCOL_ACTIONS = ("LStart", "LParseErr", "LParseOk", "LCompileErr", "LCompileOk", "LRenderErr", "LoadOk", "LFinish")
SPEC_ASSUMES = ["KwDerivation", "IdsUnique", "TextsUnique", "FilesSane", "FamiliesCovered", "CellsInhabited",
                "SpellingOccurs", "SizesStraddle", "ExpectSane", "TraceComplete"]


def outcome(rec):
    """ok | loaderr | rejected | panic - only for counting; the verdicts come from TLC's REJECT lines."""
    es = [(e["e"], e["r"]) for e in rec["ev"]]
    if ("ret", "err") in es:
        return "rejected"
    if any(e[0] in ("panic", "render_panic") for e in es):
        return "panic"
    if ("load", "err") in es:
        return "loaderr"
    if ("load", "ok") in es:
        return "ok"
    return "other"


TIER_ENV = {"C06_TIER": "quick"}     # SyltCorners!Thorough reads it: the thorough universe has the extra family unused2


def validate(wd, name, trace_file, full=False, workers=TLC_WORKERS):
    env = dict(TIER_ENV, TRACE=trace_file)
    if full:
        env["FULL"] = "1"
    r = vlib.tlc("MC_TraceLoad", wd=wd, env=env, tags=("REJECT", "UNIVERSE"), workers=workers, timeout=1500,
                 out_file=os.path.join(wd, "tlc-%s.out" % name))
    rejects = {}
    for (tag, p) in r.records:
        if tag == "REJECT":
            rejects.setdefault(p["rec"], p)     # an expression under ENABLED is evaluated twice
    return r, [rejects[k] for k in sorted(rejects)]


def record(wd, name, mode, cases, env=None):
    tf = os.path.join(wd, name + "-trace.ndjson")
    if mode == "corpus":
        vlib.harness("c06", ["corpus", tf], env=env, timeout=900)
    else:
        cf = os.path.join(wd, name + "-cases.ndjson")
        vlib.write_ndjson(cf, cases)
        vlib.harness("c06", [mode, cf, tf], env=env, timeout=900)
    recs = vlib.read_ndjson(tf)
    if mode != "corpus" and len(recs) != len(cases):
        vlib.tool_error("%s: %d cases but %d records" % (name, len(cases), len(recs)))
    return tf, recs


def signature(rej, rec, case):
    i = rej["id"]
    if rej["u"] == "lex":
        return "C06|load|%s|%s|%s|%s" % (i["fam"], i["a"], i["b"], rej["cls"])
    if rej["u"] == "sem":
        c = case["id"]
        return "C06|load|sem|%s|%s|%s|%s" % (c["o"], c["i"], c["h"], rej["cls"])
    return "C06|load|%s|%s" % (rej["u"], rej["cls"])


class Run:
    def __init__(self):
        self.states = 0
        self.transitions = 0
        self.validated = 0
        self.coverage = {}
        self.counts = {}
        self.accepted_keys = set()
        self.panics = []
        self.loaded = 0
        self.byte_rejects = 0
        self.byte_notes = []
        self.ran = 0


def judge(run, verdicts, name, recs, cases, v, rejects):
    """Turn TLC's REJECT lines into verdicts; count outcomes."""
    vlib.require_tlc_ok(v, "Trace_Load validation of %s" % name)
    run.states += v.distinct
    run.transitions += v.generated
    run.validated += len(recs)
    for a, (d, t) in v.coverage.items():
        od, ot = run.coverage.get(a, (0, 0))
        run.coverage[a] = (od + d, ot + t)
    cnt = {}
    for i, rec in enumerate(recs):
        o = outcome(rec)
        cnt[o] = cnt.get(o, 0) + 1
        if o in ("ok", "loaderr"):
            key = vlib.sha([rec["files"], rec["req"]]) if rec["u"] == "lex" else rec["u"] + ":" + rec["id"]["a"]
            run.accepted_keys.add(key)
        if o == "ok":
            run.loaded += 1
        if any(e["e"] == "run" for e in rec["ev"]):
            run.ran += 1
    run.counts[name] = cnt
    if cnt.get("other"):
        vlib.tool_error("%s: %d records with an event list the recorder should never write" % (name, cnt["other"]))
    nrej_expected = cnt.get("loaderr", 0) + cnt.get("panic", 0)
    nrej = sum(1 for x in rejects if x["why"] in ("load-error", "panic", "render_panic"))
    if nrej != nrej_expected:
        vlib.tool_error("%s: TLC rejected %d runs but %d recorded runs end in a loader refusal or a panic" % (name, nrej, nrej_expected))
    for rej in rejects:
        rec = recs[rej["rec"] - 1]
        case = cases[rej["rec"] - 1] if cases else None
        if rej["why"] in ("panic", "render_panic"):
            run.panics.append((rej, rec))       # not an accepted program: C07's business, reported as a note
            continue
        if rej["why"] in ("output-mismatch", "run-failed") and rej["u"] == "lex":
            # the chunk loaded, but it is not the program's chunk: running it does not print the bytes of the literal
            i = rej["id"]
            what = "lex %s: compiled and loaded, but the run %s: expected %s, printed %s" % (
                json.dumps(i, sort_keys=True), "prints other bytes than the literal holds" if rej["why"] == "output-mismatch"
                else "ended with " + rej["cls"], json.dumps(case["expect"])[:120], json.dumps(rec.get("out", "-"))[:120])
            # C06 states "loads", not "prints the literal's bytes" (that is C01's statement): a note, never a C06 violation
            run.byte_notes.append(("C06|bytes|%s|%s|%s|%s" % (i["fam"], i["a"], i["b"], rej["why"]), what))
            run.byte_rejects += 1
            continue
        if rej["why"] != "load-error":
            vlib.tool_error("%s: unexpected reject class %r at record %d (recorder / protocol problem)" % (name, rej["why"], rej["rec"]))
        what = "%s %s: compiled, but the loader refuses the chunk (%s): %s" % (
            rej["u"], json.dumps(rej["id"], sort_keys=True), rej["cls"], rec.get("detail", "")[:220])
        if rej["u"] == "lex":
            replay = {"universe": "lex", "case": case, "observed": {"ev": rec["ev"], "detail": rec.get("detail", "")}}
        elif rej["u"] == "sem":
            replay = {"universe": "sem", "case": case, "observed": {"ev": rec["ev"], "detail": rec.get("detail", "")}}
        else:
            replay = {"universe": "corpus", "file": rej["id"]["a"], "observed": {"ev": rec["ev"], "detail": rec.get("detail", "")}}
        verdicts.add(signature(rej, rec, case), what, replay)
    return cnt


def vacuity_lex(cases, recs):
    """Most cases of every family, every row and every column must be accepted by the compiler (else the universe says
    nothing about loading); `must = FALSE` cases (expected rejections, kept for the boundary) are left out."""
    fam, row, col = {}, {}, {}
    for c, r in zip(cases, recs):
        if not c["must"]:
            continue
        acc = 1 if outcome(r) in ("ok", "loaderr") else 0
        i = c["id"]
        for table, key in ((fam, i["fam"]), (row, (i["fam"], i["a"])), (col, (i["fam"], i["b"]))):
            t = table.setdefault(key, [0, 0])
            t[0] += acc
            t[1] += 1
    for key, (a, n) in fam.items():
        if a * 10 < n * 9:
            vlib.tool_error("vacuity: only %d of %d cases of family %s are accepted by the compiler" % (a, n, key))
    for table in (row, col):
        for key, (a, n) in table.items():
            if a * 2 < n:
                vlib.tool_error("vacuity: only %d of %d cases of cell line %s are accepted by the compiler "
                                "(drop the spelling from the universe if the Sylt parser rejects it)" % (a, n, key))
    sizes = {}
    for c in cases:
        sizes[c["id"]["fam"]] = sizes.get(c["id"]["fam"], 0) + 1
    return sizes


def negative_controls(wd, ctx, cases, recs, tf):
    rnd = random.Random(ctx.seed)
    good = [c for c, r in zip(cases, recs) if outcome(r) == "ok"]
    sub = rnd.sample(good, min(60, len(good)))
    n = 0
    for stub in ("append-end", "cut"):
        stf, srecs = record(wd, "neg-" + stub, "record", sub, env={"C06_STUB": stub, "C06_STUB_EVERY": "1"})
        v, rej = validate(wd, "neg-" + stub, stf)
        vlib.require_tlc_ok(v, "negative control (%s stub)" % stub)
        if len(rej) != len(sub) or any(x["why"] != "load-error" for x in rej):
            vlib.tool_error("negative control accepted: chunks corrupted by '%s' were rejected only %d/%d times" % (stub, len(rej), len(sub)))
        n += len(rej)
    okix = [i for i, r in enumerate(recs) if outcome(r) == "ok"]
    # (c) a successful run that finishes without having loaded its chunk
    bad = json.loads(json.dumps([recs[i] for i in okix[:5]]))
    bad[2]["ev"] = [e for e in bad[2]["ev"] if e["e"] != "load"]
    btf = os.path.join(wd, "neg-noload-trace.ndjson")
    vlib.write_ndjson(btf, bad)
    v, rej = validate(wd, "neg-noload", btf, workers=1)
    vlib.require_tlc_ok(v, "negative control (dropped load event)")
    if [(x["rec"], x["why"]) for x in rej] != [(3, "finish-before-load")]:
        vlib.tool_error("negative control accepted: a run that finished without loading its chunk was not rejected (%s)" % rej)
    # (d) a chunk "loaded" although nothing was compiled
    bad = json.loads(json.dumps([r for r in recs if outcome(r) == "rejected"][:1] + [recs[i] for i in okix[:2]]))
    if outcome(bad[0]) == "rejected":
        bad[0]["ev"].insert(len(bad[0]["ev"]) - 1, {"e": "load", "r": "ok", "n": 0, "len": 0, "st": "-", "cls": "-"})
        vlib.write_ndjson(btf, bad)
        v, rej = validate(wd, "neg-loadnothing", btf, workers=1)
        vlib.require_tlc_ok(v, "negative control (load of a rejected program)")
        if [(x["rec"], x["why"]) for x in rej] != [(1, "load-of-nothing")]:
            vlib.tool_error("negative control accepted: a load event after a rejection was not rejected (%s)" % rej)
        n += 1
    # (e) a record whose source text is not the one the specification derives for its index
    bad = json.loads(json.dumps(recs[:4]))
    bad[1]["files"][0]["text"] = bad[1]["files"][0]["text"].replace("start", "start ", 1)
    vlib.write_ndjson(btf, bad)
    v, _ = validate(wd, "neg-text", btf, workers=1)
    if v.ok:
        vlib.tool_error("negative control accepted: a record with an altered source text passed the universe check")
    # (g) a run whose output is not the literal's bytes / a case with a byte expectation that finishes without a run
    runix = [i for i, r in enumerate(recs) if any(e["e"] == "run" for e in r["ev"]) and "@U" in r["out"]]
    if len(runix) < 3:
        vlib.tool_error("negative control impossible: fewer than 3 runs printed a control character")
    bad = json.loads(json.dumps([recs[i] for i in runix[:3]]))
    bad[0]["out"] = bad[0]["out"].replace("@U", "\\", 1).replace("@", "", 1)       # what an escape that was not read would print
    bad[1]["ev"] = [e for e in bad[1]["ev"] if e["e"] != "run"]
    vlib.write_ndjson(btf, bad)
    v, rej = validate(wd, "neg-run", btf, workers=1)
    vlib.require_tlc_ok(v, "negative control (altered output / dropped run)")
    if [(x["rec"], x["why"]) for x in rej] != [(1, "output-mismatch"), (2, "finish-before-run")]:
        vlib.tool_error("negative control accepted: an altered output or a dropped run was not rejected (%s)" % rej)
    n += 2
    # (f) a trace that misses a case must fail the completeness assumption
    mtf = os.path.join(wd, "neg-missing-trace.ndjson")
    vlib.write_ndjson(mtf, recs[:7] + recs[8:])
    v, _ = validate(wd, "neg-missing", mtf, full=True, workers=1)
    if v.ok:
        vlib.tool_error("negative control accepted: an incomplete trace passed the completeness assumption")
    return n + 3


def run(ctx):
    tier = ctx.tier
    wd = vlib.workdir(PID)
    ev = vlib.Evidence(PID, tier, "exploration")
    verdicts = vlib.Verdicts(PID)
    vlib.build_harness(["c06"])
    run_ = Run()

    # the quick universe is a prefix of the thorough one, so a replayed index is always valid in the latter
    TIER_ENV["C06_TIER"] = "thorough" if (ctx.replay or tier == "thorough") else "quick"

    if ctx.replay:
        rp = json.load(open(ctx.replay))["replay"]
        u = rp["universe"]
        if u == "lex":
            tf, recs = record(wd, "replay", "record", [rp["case"]])
            cases = [rp["case"]]
            print(vlib.harness("c06", ["print", os.path.join(wd, "replay-cases.ndjson"), rp["case"]["idx"]]).stdout)
        elif u == "sem":
            tf, recs = record(wd, "replay", "sem", [rp["case"]])
            cases = [rp["case"]]
            print(vlib.harness("c06", ["print", os.path.join(wd, "replay-cases.ndjson"), 1]).stdout)
        else:
            tf, allrecs = record(wd, "replay", "corpus", None)
            recs = [r for r in allrecs if r["id"]["a"] == rp["file"]]
            if not recs:
                vlib.tool_error("replay: no corpus file %r" % rp["file"])
            for i, r in enumerate(recs):
                r["idx"] = i + 1
            vlib.write_ndjson(tf, recs)
            cases = None
        v, rejects = validate(wd, "replay", tf)
        judge(run_, verdicts, "replay", recs, cases, v, rejects)
        for r in recs:
            print("observed: %s %s" % (outcome(r), r.get("detail", "")))
        ev.set(evaluations=len(recs), distinct_nontrivial=len(run_.accepted_keys), samples=[recs[0]["id"]] if recs else [],
               rule="replay of one case", traces_validated_against_impl=len(recs), known_findings_hit=verdicts.known_hits)
        rc = verdicts.finish()
        ev.violations = len(verdicts.violations)
        ev.write()
        return rc

    # the C01 universe is enumerated in the background while the lexical universe is recorded and validated
    gen_pool = concurrent.futures.ThreadPoolExecutor(max_workers=1)
    gen_future = gen_pool.submit(vlib.tlc, "MC_LoadGen", wd=wd, workers=TLC_WORKERS, timeout=1500, coverage=False, xmx="8g")

    # 1. the protocol on its own
    p = vlib.tlc("MC_Load", wd=wd, workers=TLC_WORKERS, timeout=600)
    vlib.require_tlc_ok(p, "SyltLoad protocol (MC_Load)")
    for a in PROTOCOL_ACTIONS:
        if p.coverage.get(a, (0, 0))[1] == 0:
            vlib.tool_error("vacuity: protocol action %s never fired in MC_Load" % a)
    ev.set(protocol_states=p.distinct, protocol_actions={a: p.coverage[a][1] for a in PROTOCOL_ACTIONS},
           protocol_properties=["CompiledLeadsToLoaded", "LTerminates", "LNoStuck", "LoadedIsCompiled", "FinishedOkIsLoaded",
                                "RejectedNeverLoaded"])

    # 2. the lexical-corner universe: well-formedness (ASSUMEs) and emission
    e = vlib.tlc("MC_LoadCases", wd=wd, workers=TLC_WORKERS, timeout=900, env=TIER_ENV)
    vlib.require_tlc_ok(e, "MC_LoadCases (universe sanity + emission)")
    byidx = {}
    for (_, c) in e.records:
        byidx.setdefault(c["idx"], c)
    cases = [byidx[i] for i in sorted(byidx)]
    if [c["idx"] for c in cases] != list(range(1, len(cases) + 1)) or len(cases) < 8000 or e.coverage.get("Emit", (0, 0))[1] < len(cases):
        vlib.tool_error("vacuity: %d cases emitted (indices not 1..N, or fewer than 8000), Emit fired %s times" % (len(cases), e.coverage.get("Emit")))

    # 3. conformance of the lexical universe: record, then TLC re-derives every case and validates every run
    tf, recs = record(wd, "lex", "record", cases)
    v, rejects = validate(wd, "lex", tf, full=True)
    vlib.require_tlc_ok(v, "Trace_Load validation of the lexical-corner universe")
    uni = [q for (tag, q) in v.records if tag == "UNIVERSE"]
    if not uni or uni[0]["ncases"] != len(cases) or uni[0]["records"] != len(cases):
        vlib.tool_error("universe size mismatch: TLC derives %s, %d cases were emitted" % (uni[:1], len(cases)))
    lex_cnt = judge(run_, verdicts, "lex", recs, cases, v, rejects)
    for a in TRACE_ACTIONS + ("TraceRetErr", "TraceRender", "TraceRun"):
        if v.coverage.get(a, (0, 0))[1] == 0:
            vlib.tool_error("vacuity: trace action %s never fired on the lexical universe" % a)
    fam_sizes = vacuity_lex(cases, recs)
    # every case with a byte expectation that loaded was run, and most of them exist and load
    need = [(c, r) for c, r in zip(cases, recs) if c["expect"] != "-"]
    ran = [(c, r) for c, r in need if any(e["e"] == "run" for e in r["ev"])]
    notrun = [c["idx"] for c, r in need if outcome(r) == "ok" and not any(e["e"] == "run" for e in r["ev"])]
    if len(need) < 1000 or notrun:
        vlib.tool_error("vacuity: %d cases carry a byte expectation; loaded but not run: %s" % (len(need), notrun[:5]))
    if v.coverage.get("TraceRun", (0, 0))[1] + run_.byte_rejects < len(ran):
        vlib.tool_error("vacuity: %d chunks were run but TLC compared only %d outputs" % (len(ran), v.coverage.get("TraceRun", (0, 0))[1]))

    # 4. the other universes: corpus (all files), C01 universe (sample in quick)
    ctf, crecs = record(wd, "corpus", "corpus", None)
    cv, crej = validate(wd, "corpus", ctf)
    corpus_cnt = judge(run_, verdicts, "corpus", crecs, None, cv, crej)
    if corpus_cnt.get("ok", 0) + corpus_cnt.get("loaderr", 0) < 150:
        vlib.tool_error("vacuity: only %d corpus programs are accepted" % (corpus_cnt.get("ok", 0) + corpus_cnt.get("loaderr", 0)))

    g = gen_future.result()
    gen_pool.shutdown()
    vlib.require_tlc_ok(g, "MC_LoadGen (emission of the C01 universe)")
    seen = {}
    for (_, c) in g.records:
        seen.setdefault(vlib.sha(c["tops"]), c)
    sem_all = []
    for h in sorted(seen):
        seen[h]["key"] = h
        sem_all.append(seen[h])
    if len(sem_all) < 5000:
        vlib.tool_error("vacuity: the C01 universe has only %d programs" % len(sem_all))
    if tier == "quick":
        rnd = random.Random(ctx.seed)
        sem_cases = rnd.sample(sem_all, 2000)
    else:
        sem_cases = sem_all
    stf, srecs = record(wd, "sem", "sem", sem_cases)
    sv, srej = validate(wd, "sem", stf)
    sem_cnt = judge(run_, verdicts, "sem", srecs, sem_cases, sv, srej)
    if sem_cnt.get("rejected", 0) * 5 > len(sem_cases):
        vlib.tool_error("vacuity: %d of %d programs of the C01 universe are rejected by the compiler" % (sem_cnt.get("rejected", 0), len(sem_cases)))

    # 5. negative controls
    nneg = negative_controls(wd, ctx, cases, recs, tf)

    for (sig, what) in run_.byte_notes[:10]:
        print("NOTE loaded chunk prints other bytes than the literal holds (C06 holds: it loads; C01's subject): %s :: %s" % (sig, what[:300]))
    for (rej, rec) in run_.panics[:10]:
        print("NOTE compiler panic (not an accepted program; C07's subject): %s %s :: %s" % (
            rej["u"], json.dumps(rej["id"], sort_keys=True), rec.get("detail", "")[:200]))

    # evidence
    total = len(recs) + len(crecs) + len(srecs)
    loaderr_by_class = {}
    for rej in rejects:
        if rej["why"] == "load-error":
            k = "%s/%s" % (rej["id"]["fam"], rej["cls"])
            loaderr_by_class[k] = loaderr_by_class.get(k, 0) + 1
    six = [0, len(recs) // 3, 2 * len(recs) // 3, len(recs) - 1]
    ev.set(states=run_.states + e.distinct + p.distinct, transitions=run_.transitions + e.generated + p.generated,
           traces_validated_against_impl=run_.validated,
           programs=total, evaluations=total, distinct_nontrivial=len(run_.accepted_keys), chunks_loaded=run_.loaded,
           universe_cases=len(cases), cases_per_family=fam_sizes, outcome_counts=run_.counts,
           chunks_run_and_output_compared=run_.ran,
           rejected_by_compiler=sum(c.get("rejected", 0) for c in run_.counts.values()),
           compiler_panics=len(run_.panics), byte_mismatch_notes=len(run_.byte_notes), load_refusals_by_family_and_class=loaderr_by_class,
           c01_universe_programs=len(sem_all), c01_universe_validated=len(sem_cases), corpus_files=len(crecs),
           trace_action_counts={a: run_.coverage[a][1] for a in sorted(run_.coverage)},
           spec_assumptions_checked=SPEC_ASSUMES, negative_controls_rejected=nneg,
           exhaustive=(tier != "quick"), known_findings_hit=verdicts.known_hits,
           rule="every case of SyltCorners!Cases (spelling x site, string content x site, numeric literal x site, unused expression "
                "form x position, shape x size, control transfer x placement, transfer x function flavour x construct, dead code after a transfer, "
                "transfer inside an if / case expression x value site x loop context, control character x follower x position x site of a string literal (run, "
                "output compared with the literal's bytes by TLC), construct x width; thorough: + the full products of the dead-code, value-transfer and "
                "string-content families and pairs of forms in an unused tuple), every file under /repo/tests, and the programs of the C01 "
                "universe (all in thorough, a seeded sample of 2000 in quick); one evaluation = compile through the public API + "
                "minilua load of the emitted chunk + TLC validation of the event list; a program is non-trivial when the compiler "
                "accepted it, i.e. its chunk really went to the loader; distinct by source text (lexical cases, TLC: TextsUnique), "
                "file name (corpus) and AST hash (C01 universe)",
           samples=[{"idx": recs[i]["idx"], "id": recs[i]["id"], "outcome": outcome(recs[i]),
                     "main": recs[i]["files"][0]["text"][:300]} for i in six])
    ev.assume("no Lua interpreter exists in the sandbox: 'the Lua interpreter loads the chunk' means minilua's loader (vharness::luarun::load_only) "
              "accepts it - full Lua 5.3 lexer and grammar plus the static limits of lparser.c (200 local variables and 255 upvalues per function, "
              "200 nested C levels, break/goto resolution); chunks are loaded and - except those of the string-content family, which minilua also "
              "runs so that the printed bytes can be compared - never run",
              "the loader's refusals are classified by the wording fixed by Lua 5.3 (too many local variables / upvalues / C levels, unfinished "
              "string, invalid escape, malformed number, break outside a loop, no visible label); everything else is 'syntax'",
              "minilua does not enforce Lua's 255-registers-per-function limit nor the constant / instruction count limits (minilua README, "
              "deviation 12): a chunk real Lua would refuse for those reasons only is counted as loading",
              "the recorder substitutes the @Uhhhh@ placeholders (CR, NUL, BEL, non-ASCII) faithfully and serves the files from memory",
              "a program the compiler rejects or on which it panics is not an 'accepted program': counted, not judged (panics are C07's subject)",
              "nested if-statements deeper than 10 are left out of the size family: the compiler's running time is exponential in that depth "
              "(depth 12 takes 23 s, depth 14 more than a minute), which is a totality problem (C07), not a loading problem")
    rc = verdicts.finish()
    ev.violations = len(verdicts.violations)
    ev.write()
    return rc
