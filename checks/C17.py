"""C17 - tokenizer: tokens tile the source and carry exact positions.

1. TLC model-checks SyltLex itself (generator mode) over all texts of length <= 3 over the round-1 characters plus one
   stand-in per class of characters outside the token alphabet: the lexer spec is self-consistent (tiling, maximal
   munch, sane positions, deterministic up to error extents, foreign characters confined to strings/comments/errors).
2. The harness runs the real tokenizer over index-addressed universes; TLC (Trace_Lex) re-derives each text from its
   index and validates every recorded token list against SyltLex's actions with the spec invariants evaluated in
   every state. REJECT lines are the verdicts. Universes: strings / fragments / random longer texts (round 1);
   ustrings, uctx (every class of non-token characters next to everything), numgram, numctx (number grammar),
   files (how files begin and end), long (very long lines, very many lines) (round 2); actx (every 7-bit character
   between contexts: before LF / CR LF / end / digit / letter, inside strings and comments, with lines after it), apair
   (every pair of 7-bit characters), bigint (digit runs around 2^k and 10^k: the VALUE boundary of the Int token),
   floatlim (float forms at the limits of the double range), longnum (digit runs of up to 310 digits) (round 3).
   Round 3: every recorded Int / Float token carries its value; the specification (SyltLexNum) decides kind AND value.
3. Negative controls: a stub tokenizer that never counts lines, one that swallows a byte-order mark and one whose number
   values went through 32-bit types must be rejected.

The traces are cut into shards and several TLC processes run side by side (one TLC does not scale beyond ~4 workers
on this workload).
"""
import concurrent.futures
import json
import os
import vlib

PID = "C17"
SHARD = 28000          # records per TLC process
PAR = 4                # TLC processes side by side
WORKERS = 4            # workers per TLC process


def signature(rec, rej):
    """Signature from the *case*: what kind of text precedes/contains the rejected token."""
    text = rec["input"]
    toks = rec["toks"]
    j = rej["tok"] - 1
    why = rej["why"]
    if why.startswith("prefix-"):
        c = rec.get("count", 0)
        bucket = "le255" if c <= 255 else "le4095" if c <= 4095 else "le65535" if c <= 65535 else "gt65535"
        return "C17|long-text|%s|%s|%s" % (why, "lines" if "\n" in rec.get("unit", "") else "columns", bucket)
    # a multi-line token (a token whose source text contains a newline but is not the newline token)
    # at or before the rejected token?
    pos = rej["pos"]
    before = text[:max(pos - 1, 0)]
    in_str = False
    multiline_before = False
    for ch in before:
        if ch == '"':
            in_str = not in_str
        elif ch == "\n" and in_str:
            multiline_before = True
    exp = rej.get("expected") or []
    cur_multiline = any(e.get("lend", 0) != e.get("line", 0) for e in exp) if isinstance(exp, list) else False
    if any(t["k"] == "panic" for t in toks):
        return "C17|tokenizer-panics|%s" % ("multi-line-token" if '"' in text and "\n" in text else "single-line")
    if why == "token-mismatch" and j < len(toks):
        got = toks[j]
        one = exp[0] if exp and isinstance(exp, list) and len(exp) == 1 else None
        if rej.get("valbad") and one:
            # kind, text and span are the expected ones, the VALUE of the number token is not
            digits = len(one["txt"].lstrip("0")) if one["k"] == "int" else 0
            return "C17|value|%s|%s" % (one["k"], ("digits>18" if digits > 18 else "digits<=18") if one["k"] == "int" else "float")
        if rej.get("numlike") and got["k"] == "err":
            # the recorded error token would be an int/float if its non-ASCII decimal digits were ASCII digits
            return "C17|uni-digit-read-as-digit-of-number|spec=%s" % (one["k"] if one else "err")
        if one and one["k"] == "float" and got["k"] == "err" and one["txt"].endswith(".") \
                and all(got[f] == one[f] for f in ("line", "cs", "lend", "ce")):
            raw = rec.get("raw", text)
            nxt = raw[pos - 1 + one["n"]:pos + one["n"]]
            if nxt and ord(nxt) > 0x7f:
                return "C17|float-ending-in-dot-before-multibyte-char-is-error"
        if one:
            e = one
            if got["k"] == e["k"] and (got["line"], got["cs"]) == (e["line"], e["cs"]) and cur_multiline:
                return "C17|span-end-of-multiline-token|%s" % e["k"]
            if got["k"] == e["k"] and multiline_before:
                return "C17|position-after-multiline-token"
            if got["k"] != e["k"]:
                return "C17|kind|spec=%s|impl=%s" % (e["k"], got["k"])
            if (got["line"], got["cs"], got["lend"]) == (e["line"], e["cs"], e["lend"]) and got["ce"] != e["ce"]:
                return "C17|extent|%s|%s|next=%s" % (e["k"], "longer" if got["ce"] > e["ce"] else "shorter", rej.get("next", "?"))
            return "C17|position|%s" % e["k"]
        if got["k"] == "err" and "\n" in text[pos - 1:pos - 1 + max(got["ce"] - got["cs"], 0)][:-1]:
            return "C17|span-end-of-multiline-token|err"
        if multiline_before:
            return "C17|position-after-multiline-token"
        return "C17|error-token-mismatch|at=%s|impl=%s" % (rej.get("at", "?"), got["k"])
    return "C17|%s" % why


class Job:
    """One trace to validate (cut into shards)."""

    def __init__(self, name, trace, universe, env=None, control=False, weight=1.0, cover=True):
        self.name, self.trace, self.universe, self.env, self.control, self.weight = name, trace, universe, env or {}, control, weight
        self.cover = cover  # -coverage (action counts) on the first shard; every shard has the state-count guard anyway
        self.recs = vlib.read_ndjson(trace)
        self.shards = []    # (offset, path, n)
        self.results = {}   # offset -> TlcResult


def make_shards(wd, job, shard=SHARD):
    if len(job.recs) <= shard:
        job.shards = [(0, job.trace, len(job.recs))]
        return
    with open(job.trace) as f:
        lines = [l for l in f if l.strip()]
    for off in range(0, len(lines), shard):
        path = "%s.%d" % (job.trace, off)
        with open(path, "w") as g:
            g.writelines(lines[off:off + shard])
        job.shards.append((off, path, len(lines[off:off + shard])))


def run_jobs(wd, jobs, extra=None):
    """Run every shard of every job (and the extra callables) on a pool of TLC processes."""
    tasks = []
    for job in jobs:
        make_shards(wd, job)
        for i, (off, path, n) in enumerate(job.shards):
            tasks.append((n * job.weight, job, off, path, i))
    tasks.sort(key=lambda t: -t[0])

    def one(job, off, path, i):
        swd = os.path.join(wd, "tlc", "%s-%d" % (job.name.replace("/", "_"), off))
        os.makedirs(swd, exist_ok=True)
        env = {"TRACE": path, "UNIVERSE": job.universe, "OFFSET": off}
        env.update(job.env)
        # coverage (action counts) on the first shard of every trace; every shard has the state-count guard below
        return vlib.tlc("MC_TraceLex", cfg="MC_TraceLex.cfg", wd=swd, env=env, tags=("REJECT",), workers=WORKERS,
                        timeout=14400, xmx="4g", coverage=(i == 0 and job.cover),
                        out_file=os.path.join(wd, "tlc-%s-%d.out" % (job.name.replace("/", "_"), off)))

    with concurrent.futures.ThreadPoolExecutor(max_workers=PAR) as ex:
        futs = {}
        for fn in (extra or []):
            futs[ex.submit(fn)] = ("extra", fn)
        for (_, job, off, path, i) in tasks:
            futs[ex.submit(one, job, off, path, i)] = (job, off)
        out_extra = {}
        for fut in concurrent.futures.as_completed(futs):
            tag = futs[fut]
            res = fut.result()      # exceptions of the worker threads surface here (main thread)
            if tag[0] == "extra":
                out_extra[tag[1]] = res
            else:
                tag[0].results[tag[1]] = res
    return out_extra


def collect(job, ev, verdicts, action_guard=True):
    """Main thread: turn the TLC results of one trace into verdicts and evidence."""
    rejects = []
    states = trans = 0
    actions = {}
    wall = 0.0
    for i, (off, path, n) in enumerate(job.shards):
        r = job.results[off]
        vlib.require_tlc_ok(r, "Trace_Lex/%s@%d" % (job.name, off))
        rj = list({(p["rec"], p["tok"]): p for (_, p) in r.records}.values())  # ENABLED re-evaluates PrintT
        rejected = {p["rec"] for p in rj}
        # vacuity: every record is an initial state and ends in accept or reject (TraceTotal forbids silent stops);
        # an accepted record has taken one TraceEmit per recorded token (prefix tokens of long texts excepted)
        shard_recs = job.recs[off:off + n]
        need = n + sum(1 + (len(rc["toks"]) if "first" not in rc else 1)
                       for q, rc in enumerate(shard_recs, 1) if q not in rejected) + len(rejected)
        if r.distinct < need:
            vlib.tool_error("vacuity: %s@%d: %d states for %d records, at least %d expected" % (job.name, off, r.distinct, n, need))
        if i == 0:
            actions = {k: v[1] for k, v in r.coverage.items() if k.startswith("Trace")}
        if i == 0 and action_guard and job.cover:
            need_acts = ["TraceEmit", "TraceAccept"] + {"long": ["TracePrefix"], "numgram": [], "longnum": []}.get(job.universe, ["TraceSkip"])
            for act in need_acts:
                if r.coverage.get(act, (0, 0))[1] == 0:
                    vlib.tool_error("vacuity: trace action %s never taken in %s" % (act, job.name))
        for p in rj:
            p = dict(p, rec=p["rec"] + off)
            rejects.append(p)
        states += r.distinct
        trans += r.generated
        wall += r.wall_s
    for rej in rejects:
        rec = job.recs[rej["rec"] - 1]
        sig = signature(rec, rej)
        replay = {"universe": job.universe, "input": rec["input"][:400], "raw": rec.get("raw", rec["input"])[:400],
                  "recorded": rec["toks"], "reject": rej}
        if "idx" in rec:
            replay["idx"] = rec["idx"]
        verdicts.add(sig, "tokenizer trace rejected (%s) at token %d of %r" % (rej["why"], rej["tok"], rec["input"][:120]), replay)
    ev.add("states", states)
    ev.add("transitions", trans)
    ev.add("traces_validated_against_impl", len(job.recs))
    ev.add("evaluations", len(job.recs))
    ev.cov.setdefault("universes", {})[job.name] = {
        "records": len(job.recs), "rejected": len(rejects), "tlc_states": states, "shards": len(job.shards),
        "tlc_cpu_wall_s": round(wall, 1), "actions_first_shard": actions}
    return rejects


CLASS_OF = {"@": "uni-letter", "%": "uni-digit", "^": "uni-number", "~": "other-space", "`": "uni-mark",
            "&": "uni-connector", ";": "uni-format", "$": "other-char"}


def _cat(ch):
    if ch in CLASS_OF:
        return "nontoken"
    if ch.isalpha() or ch == "_":
        return "idchar"
    if ch.isdigit():
        return "digit"
    return {'"': "quote", "\n": "newline", " ": "blank", "\t": "blank", "\r": "blank"}.get(ch, "symbol")


NEIGHBOURS = {"idchar", "digit", "quote", "newline", "blank", "symbol", "nontoken"}


def neighbour_coverage(jobs):
    """Measured from the texts (not a verdict): for every class of non-token characters, which kinds of characters
    stood directly before / after a character of the class, and whether it occurred inside a string literal, inside a
    comment, first and last in a text."""
    cov = {c: {"prev": set(), "next": set(), "in_string": 0, "in_comment": 0, "records": 0} for c in CLASS_OF.values()}
    for job in jobs:
        for rec in job.recs:
            text = rec["input"]
            if "first" in rec or not any(ch in CLASS_OF for ch in text):
                continue
            in_str = in_com = False
            seen = set()
            for q, ch in enumerate(text):
                if in_com and ch == "\n":
                    in_com = False
                elif not in_com and ch == '"':
                    in_str = not in_str
                elif not in_str and not in_com and text[q:q + 2] == "//":
                    in_com = True
                cls = CLASS_OF.get(ch)
                if not cls:
                    continue
                c = cov[cls]
                seen.add(cls)
                c["prev"].add(_cat(text[q - 1]) if q else "start")
                c["next"].add(_cat(text[q + 1]) if q + 1 < len(text) else "end")
                c["in_string"] += in_str
                c["in_comment"] += in_com
            for cls in seen:
                cov[cls]["records"] += 1
    return {c: {k: (sorted(v) if isinstance(v, set) else v) for k, v in d.items()} for c, d in cov.items()}


def run(ctx):
    tier = ctx.tier
    quick = tier == "quick"
    wd = vlib.workdir(PID)
    ev = vlib.Evidence(PID, tier, "model_checking")
    verdicts = vlib.Verdicts(PID)
    vlib.build_harness()

    if ctx.replay:
        rp = json.load(open(ctx.replay))["replay"]
        trace = os.path.join(wd, "one.ndjson")
        if rp.get("universe") == "long":
            p = vlib.harness("c17", ["long-one", rp["idx"]])
            open(trace, "w").write(p.stdout)
            job = Job("replay", trace, "long")
        else:
            tf = os.path.join(wd, "one.txt")
            open(tf, "w").write(rp.get("raw", rp["input"]))
            p = vlib.harness("c17", ["one", tf])
            open(trace, "w").write(p.stdout)
            job = Job("replay", trace, "free")
        run_jobs(wd, [job])
        collect(job, ev, verdicts, action_guard=False)   # a single text need not contain a blank
        ev.set(samples=[rp["input"]])
        ev.write()
        return verdicts.finish()

    def rec(mode, args, name, env=None):
        path = os.path.join(wd, name + ".ndjson")
        p = vlib.harness("c17", [mode] + list(args) + [path], env=env)
        return path, p.stdout.split()

    # ---- record (fast) -------------------------------------------------------------------------------------
    jobs = []
    maxlen = 4 if quick else 5
    t, _ = rec("strings", [maxlen], "strings")
    jobs.append(Job("strings<=%d" % maxlen, t, "strings"))
    t, _ = rec("frags", [2, 3000 if quick else 150000], "frags")
    jobs.append(Job("fragments", t, "frags"))
    t, _ = rec("free", [400 if quick else 6000], "free")
    jobs.append(Job("random-longer", t, "free", weight=3))

    u_exh = 3
    t, o = rec("ustrings", [u_exh, 4000 if quick else 120000], "ustrings")
    jobs.append(Job("class-strings<=%d+samples" % u_exh, t, "ustrings", {"EXHLEN": u_exh, "EXPECT_EXH": o[1]}))
    t, o = rec("uctx", [], "uctx")
    jobs.append(Job("class-contexts", t, "uctx", {"EXHLEN": 1, "EXPECT_EXH": o[1]}))
    n_exh = 5 if quick else 6
    t, o = rec("numgram", [n_exh, 4000 if quick else 0], "numgram")
    jobs.append(Job("number-grammar<=%d" % n_exh, t, "numgram", {"EXHLEN": n_exh, "EXPECT_EXH": o[1]}))
    c_exh = -1 if quick else 3
    t, o = rec("numctx", [c_exh, 6000 if quick else 80000], "numctx")
    jobs.append(Job("number-grammar-in-context", t, "numctx", {"EXHLEN": c_exh, "EXPECT_EXH": o[1]}))
    t, o = rec("files", [], "files")
    jobs.append(Job("file-corners", t, "files", {"EXHLEN": 1, "EXPECT_EXH": o[1]}))
    t, o = rec("long", [10 if quick else 120, 140000 if quick else 270000], "long")
    jobs.append(Job("long-texts", t, "long", weight=4000))
    # round 3 (no -coverage for these: it costs 40 %; all trace actions are counted on the first shards of the universes above
    # and every shard has the state-count guard, which implies that TraceEmit and TraceAccept fired)
    t, o = rec("actx", [], "actx")
    jobs.append(Job("ascii-contexts", t, "actx", {"EXHLEN": 1, "EXPECT_EXH": o[1]}, cover=False))
    p_exh = 1 if quick else 4
    t, o = rec("apair", [p_exh, 1000 if quick else 0], "apair")
    jobs.append(Job("ascii-pairs", t, "apair", {"EXHLEN": p_exh, "EXPECT_EXH": o[1]}, weight=2, cover=False))
    b_exh = 3 if quick else 60
    t, o = rec("bigint", [b_exh, 2000 if quick else 0], "bigint")
    jobs.append(Job("int-value-boundary", t, "bigint", {"EXHLEN": b_exh, "EXPECT_EXH": o[1]}, weight=3, cover=False))
    f_exh = 1 if quick else 16
    t, o = rec("floatlim", [f_exh, 2000 if quick else 0], "floatlim")
    jobs.append(Job("float-limits", t, "floatlim", {"EXHLEN": f_exh, "EXPECT_EXH": o[1]}, weight=3, cover=False))
    t, o = rec("longnum", [], "longnum")
    jobs.append(Job("long-numbers", t, "longnum", {"EXHLEN": 1, "EXPECT_EXH": o[1]}, weight=150, cover=False))
    # C17_ONLY=<universe,...>: while working on one family, validate only those universes (no spec model, no negative
    # controls, no neighbour guard; the evidence says so).  The registered check never sets it.
    only = [u for u in os.environ.get("C17_ONLY", "").split(",") if u]
    if only:
        jobs = [jb for jb in jobs if jb.universe in only]
        if not jobs:
            vlib.tool_error("C17_ONLY names no universe: %r" % only)
        run_jobs(wd, jobs)
        for job in jobs:
            collect(job, ev, verdicts)
        ev.set(samples=[jb.recs[len(jb.recs) // 2].get("raw", jb.recs[len(jb.recs) // 2]["input"])[:80] for jb in jobs],
               partial_run_only=only)
        rc = verdicts.finish()
        ev.violations = len(verdicts.violations)
        ev.write()
        return rc
    for job in jobs:
        if "EXPECT_EXH" in job.env and len(job.recs) < int(job.env["EXPECT_EXH"]):
            vlib.tool_error("%s: %d records, %s exhaustive ones announced" % (job.name, len(job.recs), job.env["EXPECT_EXH"]))

    # negative controls: binding demonstration
    t, _ = rec("free", [300], "neg-line1", env={"C17_STUB": "line1"})
    neg1 = Job("negative-control-lines", t, "free", control=True, weight=3)
    t, o = rec("files", [], "neg-bom", env={"C17_STUB": "bom"})
    neg2 = Job("negative-control-bom", t, "files", {"EXHLEN": 1, "EXPECT_EXH": o[1]}, control=True)
    t, o = rec("longnum", [], "neg-narrow", env={"C17_STUB": "narrow"})
    neg3 = Job("negative-control-values", t, "longnum", {"EXHLEN": 1, "EXPECT_EXH": o[1]}, control=True, weight=150, cover=False)

    # ---- TLC: the specification on its own, and all traces, side by side -------------------------------------
    def spec_model():
        swd = os.path.join(wd, "tlc", "spec")
        os.makedirs(swd, exist_ok=True)
        return vlib.tlc("MC_Lex", wd=swd, timeout=1800, workers=WORKERS, xmx="4g", out_file=os.path.join(wd, "tlc-MC_Lex.out"))

    extra = run_jobs(wd, jobs + [neg1, neg2, neg3], extra=[spec_model])
    r = extra[spec_model]
    vlib.require_tlc_ok(r, "SyltLex generator model")
    for act in ("SkipBlank", "EmitLongest", "EmitError"):
        if r.coverage.get(act, (0, 0))[1] == 0:
            vlib.tool_error("vacuity: spec action %s never taken" % act)
    ev.set(spec_model={"states": r.distinct, "texts": r.coverage.get("Init", (0, 0))[0],
                       "actions": {k: v[1] for k, v in r.coverage.items()},
                       "invariants": ["Tiling", "Maximal", "PositionsSane", "Exclusive", "NoStuck", "PosInRange", "NonTokenConfined"],
                       "assumptions_checked": ["NonTokenSound", "ClassesDisjoint"]})
    ev.add("states", r.distinct)
    ev.add("transitions", r.generated)

    samples = []
    for job in jobs:
        collect(job, ev, verdicts)
        n = len(job.recs)
        samples += [job.recs[i].get("raw", job.recs[i]["input"])[:80] for i in (n // 3, n // 2, max(n - 7, 0))]

    # measured coverage of the character classes, with a guard: every class met every neighbour kind
    ncov = neighbour_coverage(jobs)
    for cls, d in ncov.items():
        if not (NEIGHBOURS | {"start"} <= set(d["prev"]) and NEIGHBOURS | {"end"} <= set(d["next"])
                and d["in_string"] and d["in_comment"]):
            vlib.tool_error("vacuity: characters of class %s did not meet every kind of neighbour: %r" % (cls, d))
    ev.set(class_neighbours=ncov)

    # negative controls must be rejected
    nrej = {}
    for neg in (neg1, neg2, neg3):
        neg_v = vlib.Verdicts(PID, control=True)
        neg_v.known = []
        neg_ev = vlib.Evidence(PID, tier, "model_checking")
        rj = collect(neg, neg_ev, neg_v)
        nrej[neg.name] = len(rj)
    if not nrej[neg1.name]:
        vlib.tool_error("negative control accepted: a tokenizer that never counts lines was not rejected")
    if not nrej[neg2.name]:
        vlib.tool_error("negative control accepted: a tokenizer that drops a leading byte-order mark was not rejected")
    if not nrej[neg3.name]:
        vlib.tool_error("negative control accepted: number values that went through 32-bit types were not rejected")
    ev.set(negative_controls_rejected=sum(nrej.values()), negative_controls=nrej)

    ev.set(samples=samples, exhaustive=True,
           rule="every text of the index-addressed universes (all strings of length<=%d over an 18-character alphabet; all 1- and "
                "2-fragment concatenations and sampled 3-fragment ones from a 120-fragment pool; seeded random longer texts; all "
                "strings of length<=%d over 9 token characters + 15 representatives of the 8 classes of non-token characters and "
                "sampled ones of length 4; context x 25 representatives x context; all strings of length<=%d over {1 . e E + - a _} "
                "and sampled longer / embedded ones; head x body x tail file corners; sampled unit^count+window texts with "
                "counts 255..65537; context x each of the 128 7-bit characters x context; all pairs of 7-bit characters in %d of 4 contexts; "
                "digit runs around 2^k and 10^k x 10 variations x leading zeros in %d of 60 contexts (+ samples); integer part x float "
                "tail in %d of 16 contexts (+ samples); digit runs of 19..310 digits in 7 number forms); a case is non-trivial when "
                "it yields >=1 token" % (maxlen, u_exh, n_exh, p_exh, b_exh, f_exh),
           distinct_nontrivial=sum(1 for job in jobs for rc in job.recs if rc["toks"]),
           known_findings_hit=verdicts.known_hits)
    ev.assume("TLC and the SyltLex module are the reference; error-token extents are unconstrained by the property",
              "characters outside the token alphabet reach TLC as one ASCII stand-in per Unicode class; the class table of the "
              "recorder (general categories of the representatives, cross-checked against std's predicates) is trusted",
              "number values are compared as strings: Int in decimal, Float in the recorder's shortest round-trip scientific form "
              "(Rust's {:e}); the specification fixes a float's class always and its exact value for <= 15 significant digits "
              "and exponents -300..300",
              "texts of the long universe: the periodic prefix is validated by token count and sampled tokens (positions still "
              "derived from the whole text), only the window token by token")
    rc = verdicts.finish()
    ev.violations = len(verdicts.violations)
    ev.write()
    return rc
