"""C17 - tokenizer: tokens tile the source and carry exact positions.

1. TLC model-checks SyltLex itself (generator mode) over all texts of length <= 3: the lexer spec is
   self-consistent (tiling, maximal munch, sane positions, deterministic up to error extents).
2. The harness runs the real tokenizer over index-addressed universes; TLC (Trace_Lex) re-derives each
   text from its index and validates every recorded token list against SyltLex's actions with the spec
   invariants evaluated in every state. REJECT lines are the verdicts.
3. Negative control: a stub tokenizer that never counts lines must be rejected.
"""
import os
import vlib

PID = "C17"


def signature(rec, rej):
    """Signature from the *case*: what kind of text precedes/contains the rejected token."""
    text = rec["input"]
    toks = rec["toks"]
    j = rej["tok"] - 1
    why = rej["why"]
    # a multi-line token (a token whose source text contains a newline but is not the newline token)
    # at or before the rejected token?
    pos = rej["pos"]
    before = text[:max(pos - 1, 0)]
    in_str = False
    multiline_before = False
    for ch in before:
        if ch == '"':
            in_str = not in_str
        elif ch == "\n" and in_str:
            multiline_before = True
    exp = rej.get("expected") or []
    cur_multiline = any(e.get("lend", 0) != e.get("line", 0) for e in exp) if isinstance(exp, list) else False
    if why == "token-mismatch" and j < len(toks):
        got = toks[j]
        if exp and isinstance(exp, list) and len(exp) == 1:
            e = exp[0]
            if got["k"] == e["k"] and (got["line"], got["cs"]) == (e["line"], e["cs"]) and cur_multiline:
                return "C17|span-end-of-multiline-token|%s" % e["k"]
            if got["k"] == e["k"] and multiline_before:
                return "C17|position-after-multiline-token"
            if got["k"] != e["k"]:
                return "C17|kind|spec=%s|impl=%s" % (e["k"], got["k"])
            return "C17|position|%s" % e["k"]
        if got["k"] == "err" and "\n" in text[pos - 1:pos - 1 + max(got["ce"] - got["cs"], 0)][:-1]:
            return "C17|span-end-of-multiline-token|err"
        if multiline_before:
            return "C17|position-after-multiline-token"
        return "C17|error-token-mismatch|impl=%s" % got["k"]
    return "C17|%s" % why


def validate(wd, name, trace, universe, ev, verdicts, workers=None, timeout=14400):
    recs = vlib.read_ndjson(trace)
    r = vlib.tlc("MC_TraceLex", cfg="MC_TraceLex.cfg", wd=wd, env={"TRACE": trace, "UNIVERSE": universe},
                 tags=("REJECT",), workers=workers, timeout=timeout, out_file=os.path.join(wd, "tlc-" + name + ".out"))
    vlib.require_tlc_ok(r, "Trace_Lex/" + name)
    rejects = list({(p["rec"], p["tok"]): p for (_, p) in r.records}.values())  # ENABLED re-evaluates PrintT
    for rej in rejects:
        rec = recs[rej["rec"] - 1]
        sig = signature(rec, rej)
        verdicts.add(sig, "tokenizer trace rejected (%s) at token %d of %r" % (rej["why"], rej["tok"], rec["input"]),
                     {"universe": universe, "input": rec["input"], "raw": rec.get("raw", rec["input"]), "recorded": rec["toks"], "reject": rej})
    ev.add("states", r.distinct)
    ev.add("transitions", r.generated)
    ev.add("traces_validated_against_impl", len(recs))
    ev.add("evaluations", len(recs))
    ev.cov.setdefault("universes", {})[name] = {
        "records": len(recs), "rejected": len(rejects), "tlc_states": r.distinct,
        "tlc_wall_s": round(r.wall_s, 1),
        "actions": {k: v[1] for k, v in r.coverage.items() if k.startswith("Trace")}}
    for act in ("TraceSkip", "TraceEmit", "TraceAccept"):
        if r.coverage.get(act, (0, 0))[1] == 0:
            vlib.tool_error("vacuity: trace action %s never taken in %s" % (act, name))
    return recs, rejects


def run(ctx):
    tier = ctx.tier
    wd = vlib.workdir(PID)
    ev = vlib.Evidence(PID, tier, "model_checking")
    verdicts = vlib.Verdicts(PID)
    vlib.build_harness()

    if ctx.replay:
        import json
        rp = json.load(open(ctx.replay))["replay"]
        tf = os.path.join(wd, "one.txt")
        open(tf, "w").write(rp.get("raw", rp["input"]))
        p = vlib.harness("c17", ["one", tf])
        trace = os.path.join(wd, "one.ndjson")
        open(trace, "w").write(p.stdout)
        validate(wd, "replay", trace, "free", ev, verdicts, workers=1)
        ev.set(samples=[rp["input"]])
        ev.write()
        return verdicts.finish()

    # 1. the specification on its own
    r = vlib.tlc("MC_Lex", wd=wd, timeout=900)
    vlib.require_tlc_ok(r, "SyltLex generator model")
    for act in ("SkipBlank", "EmitLongest", "EmitError"):
        if r.coverage.get(act, (0, 0))[1] == 0:
            vlib.tool_error("vacuity: spec action %s never taken" % act)
    ev.set(spec_model={"states": r.distinct, "texts": r.coverage.get("Init", (0, 0))[0],
                       "actions": {k: v[1] for k, v in r.coverage.items()},
                       "invariants": ["Tiling", "Maximal", "PositionsSane", "Exclusive", "NoStuck", "PosInRange"]})
    ev.add("states", r.distinct)
    ev.add("transitions", r.generated)

    # 2. conformance
    maxlen = 4 if tier == "quick" else 5
    t_strings = os.path.join(wd, "strings.ndjson")
    vlib.harness("c17", ["strings", maxlen, t_strings])
    recs, _ = validate(wd, "strings<=%d" % maxlen, t_strings, "strings", ev, verdicts)
    samples = [recs[i]["input"] for i in (len(recs) // 3, len(recs) // 2, len(recs) - 7)]

    t_frags = os.path.join(wd, "frags.ndjson")
    nsamp = 3000 if tier == "quick" else 150000
    vlib.harness("c17", ["frags", 2, nsamp, t_frags])
    recs, _ = validate(wd, "fragments", t_frags, "frags", ev, verdicts)
    samples += [recs[i]["input"] for i in (200, len(recs) // 2, len(recs) - 5)]

    t_free = os.path.join(wd, "free.ndjson")
    vlib.harness("c17", ["free", 400 if tier == "quick" else 6000, t_free])
    recs, _ = validate(wd, "random-longer", t_free, "free", ev, verdicts)
    samples += [recs[0]["input"], recs[1]["input"]]

    # 3. negative control: binding demonstration
    t_neg = os.path.join(wd, "neg.ndjson")
    vlib.harness("c17", ["free", 300, t_neg], env={"C17_STUB": "line1"})
    neg_v = vlib.Verdicts(PID, control=True)
    neg_v.known = []
    neg_ev = vlib.Evidence(PID, tier, "model_checking")
    _, neg_rej = validate(wd, "negative-control", t_neg, "free", neg_ev, neg_v)
    if not neg_rej:
        vlib.tool_error("negative control accepted: a tokenizer that never counts lines was not rejected")
    ev.set(negative_controls_rejected=len(neg_rej))

    ev.set(samples=samples, exhaustive=True,
           rule="every text of the index-addressed universes (all strings of length<=%d over an 18-character "
                "alphabet; all 1- and 2-fragment concatenations and sampled 3-fragment ones from a 105-fragment pool; "
                "seeded random longer texts); a case is non-trivial when it yields >=1 token" % maxlen,
           distinct_nontrivial=ev.cov.get("evaluations", 0),
           known_findings_hit=verdicts.known_hits)
    ev.assume("TLC and the SyltLex module are the reference; error-token extents are unconstrained by the property",
              "characters outside the Basic Multilingual Plane are not in the universes (TLC strings are UTF-16)")
    rc = verdicts.finish()
    ev.violations = len(verdicts.violations)
    ev.write()
    return rc
