"""C01 - compiled Lua behaves as the Sylt source denotes.

The dynamic semantics SyltSem (TLA+) is the reference: TLC runs every program of the pairwise-nesting universe
(SyltGen: every construct in every type-compatible child position of every other construct, in six harness
contexts) through the specification and prints the expected observation (print events with value snapshots,
terminal status). Each program is rendered to Sylt source, compiled by the real compiler, the emitted Lua is run
in minilua, and the observed trace must equal the specified one.

Further dimensions that are no pairwise nestings (spec/MC_SemX.tla, same procedure: TLC runs SyltSem, the real tool chain
must show the same trace): SyltLimits - literal arithmetic at the numeric limits (64-bit wrap-around, overflow to an
infinity, NaN, -0.0; literals only / through variables / as a global / negated / compound assignment, one and two levels
deep); SyltNestSelf - blob literals nested in methods of blob literals: whose `self` a field initialiser of every shape sees.

Second direction (trace validation, docs/C01-corpus.md): programs that were NOT generated from the specification - the
maintainers' own programs under /repo/tests - are compiled from disk by the real compiler and run in minilua; the
harness (c01c) records [file, program as the real parser read it in SyltAst convention, printed lines, terminal
status]; TLC (spec/Trace_Sem.tla) executes each recorded program with SyltSem and ACCEPTs the record iff SyltSem's
print texts and status equal the recorded ones, REJECTs it otherwise (a violation `C01|corpus|<file>|<class>`), or
DROPs it when SyltSem leaves its model. Thorough: every in-model file; quick: a seeded sample of 40.
"""
import os
import random
import vlib

PID = "C01"


def collect(r):
    cases = [p for (_, p) in r.records]
    seen = set()
    out = []
    for c in cases:
        h = vlib.sha(c["tops"])
        if h not in seen:
            seen.add(h)
            out.append(c)
    return out


def diff_class(res):
    w, g = res["want"], res["got"]
    if w["status"] != g["status"]:
        return "status:%s->%s" % (w["status"], g["status"])
    if len(w["prints"]) != len(g["prints"]):
        return "print-count"
    firsts = [i for i in range(len(w["prints"])) if w["prints"][i] != g["prints"][i]]
    if sorted(w["prints"]) == sorted(g["prints"]):
        return "print-order"
    return "print-value"


def signature(pid, case, res):
    cid = case["id"]
    if "o" in cid:
        where = "%s|%s|%s" % (cid["o"], cid["i"], cid["h"])
    else:
        where = "generated"
    v = res["verdict"]
    if v == "mismatch":
        return "%s|mismatch|%s|%s" % (pid, where, diff_class(res))
    return "%s|%s|%s" % (pid, v, where)


def replay_cases(wd, cases, ev, verdicts, name, pid=PID, env=None):
    cf = os.path.join(wd, name + "-cases.ndjson")
    rf = os.path.join(wd, name + "-results.ndjson")
    vlib.write_ndjson(cf, cases)
    vlib.harness("c01", ["replay", cf, rf], env=env)
    results = vlib.read_ndjson(rf)
    counts = {}
    for res in results:
        v = res["verdict"]
        counts[v] = counts.get(v, 0) + 1
        case = cases[res["i"]]
        # "unsupported": the emitted chunk uses something minilua does not provide. What the compiler emits is data: the
        # unchanged compiler emits nothing of the kind for any program of the universe, so this is a deviation to report
        if v in ("mismatch", "load_error", "panic", "unsupported"):
            verdicts.add(signature(pid, case, res),
                         "%s: want %s got %s" % (v, str(res.get("want"))[:160], str(res.get("got", res.get("error")))[:200]),
                         {"id": case["id"], "tops": case["tops"], "out": case["out"], "status": case["status"],
                          "result": {k: res[k] for k in res if k != "source"}, "source": res.get("source")})
    return results, counts


# --------------------------------------------------------------------------- dimensions beyond pairwise nesting

EXTRA_FAMILIES = ("lim-d1-int", "lim-d1-float", "lim-d2-int", "lim-d2-float", "lim-ctx-int", "lim-ctx-float", "lim-lit-float",
                  "ns-direct", "ns-local", "ns-closure", "ns-deep")


def extra_tlc(wd):
    # few programs, some of them long: 4 workers are enough (the pairwise run goes on at the same time)
    return vlib.tlc("MC_SemX", wd=wd, env={"MODE": "extra"}, timeout=2400, xmx="3g", workers=4, coverage=False)


def extra_phase(ctx, wd, ev, verdicts, r):
    """SyltLimits + SyltNestSelf: TLC has run every program through SyltSem (r); replay them into the real tool chain."""
    vlib.require_tlc_ok(r, "SyltSem over the numeric-limits and nested-self universes")
    cases = collect(r)
    by_family = {}
    for c in cases:
        by_family.setdefault(c["id"]["o"], []).append(c)
    missing = [f for f in EXTRA_FAMILIES if len(by_family.get(f, [])) < 5]
    if missing or len(cases) < 1800:
        vlib.tool_error("vacuity: numeric-limits / nested-self universe too small (%d programs; thin families %s)" % (len(cases), missing))
    results, counts = replay_cases(wd, cases, ev, verdicts, "extra")
    judged = {}
    limit_values = {"i64": 0, "inf": 0, "-inf": 0, "nan": 0, "-0.0": 0, "fbig": 0}

    def count_limit(v):
        if v.get("k") == "i64":
            limit_values["i64"] += 1
        elif v.get("k") == "fx":
            limit_values[v["text"]] += 1
        elif v.get("k") == "fbig":
            limit_values["fbig"] += 1
        for x in v.get("es", []) if isinstance(v.get("es"), list) else []:
            count_limit(x)
    for res in results:
        c = cases[res["i"]]
        if res["verdict"] != "dropped":
            judged[c["id"]["o"]] = judged.get(c["id"]["o"], 0) + 1
            for e in c["out"]:
                count_limit(e["v"])
    rejected = counts.get("rejected", 0)
    if rejected > 0.2 * len(cases):
        vlib.tool_error("vacuity: %d of %d programs of the numeric-limits / nested-self universes are rejected by the compiler" % (rejected, len(cases)))
    thin = [f for f in EXTRA_FAMILIES if judged.get(f, 0) < 5]
    # every kind of limit value must actually be among the expected observations, or the dimension explores nothing
    absent = [k for k, n in limit_values.items() if n == 0]
    if thin or absent:
        vlib.tool_error("vacuity: numeric-limits / nested-self families hardly judged %s, limit values never expected %s" % (thin, absent))

    # negative control: an expected trace with its last event dropped must be reported as a mismatch
    neg = []
    for fam in EXTRA_FAMILIES:
        for c in by_family[fam][:25]:
            if len(c["out"]) >= 1 and not c["status"].startswith("drop"):
                d = dict(c)
                d["out"] = c["out"][:-1]
                neg.append(d)
    nv = vlib.Verdicts(PID, control=True)
    nv.known = []
    _, ncounts = replay_cases(wd, neg, ev, nv, "extra-neg")
    if ncounts.get("mismatch", 0) != len(neg):
        vlib.tool_error("negative control (numeric limits / nested self): %d of %d corrupted traces were accepted" % (
            len(neg) - ncounts.get("mismatch", 0), len(neg)))
    n_run = sum(counts.get(v, 0) for v in ("ok", "mismatch", "load_error", "unsupported", "panic"))
    ev.set(extra={"programs": len(cases), "by_family": {f: len(by_family[f]) for f in EXTRA_FAMILIES}, "judged_by_family": judged,
                  "verdict_counts": counts, "print_events": sum(len(c["out"]) for c in cases),
                  "expected_limit_values": limit_values, "negative_controls_rejected": len(neg),
                  "tlc_states": r.distinct, "tlc_wall_s": round(r.wall_s, 1),
                  "samples": [{"id": c["id"], "expected_prints": len(c["out"]), "status": c["status"]}
                              for c in (by_family["lim-d1-int"][:1] + by_family["lim-d2-float"][:1] + by_family["ns-deep"][:1])]})
    return n_run, len(neg), len(cases)


# --------------------------------------------------------------------------- corpus trace validation

CORPUS_DIR = "/repo/tests"
TRACE_TAGS = ("ACCEPT", "REJECT", "DROP")


def trace_record(r):
    return {"file": r["file"], "tops": r["tops"], "prints": r["prints"], "status": r["status"]}


def run_trace(wd, name, recs):
    """TLC decides every record: returns {file: (verdict, payload)}; one line per record or it is a tool error."""
    tf = os.path.join(wd, name + "-trace.ndjson")
    vlib.write_ndjson(tf, recs)
    r = vlib.tlc("Trace_Sem", wd=wd, env={"TRACE": tf}, timeout=900, xmx="8g", workers=4, coverage=False,
                 tags=TRACE_TAGS, out_file=os.path.join(wd, "tlc-Trace_Sem-%s.out" % name))
    vlib.require_tlc_ok(r, "Trace_Sem over the recorded corpus runs (%s)" % name)
    out = {}
    for tag, p in r.records:
        out[p["rec"]] = (tag, p)        # Judge is evaluated once per record; a re-evaluation prints the same line
    if sorted(out) != list(range(1, len(recs) + 1)):
        vlib.tool_error("Trace_Sem (%s): %d verdict lines for %d records" % (name, len(out), len(recs)))
    return r, [out[i + 1] for i in range(len(recs))]


def walk_nodes(n, f):
    if isinstance(n, dict):
        f(n)
        for v in n.values():
            walk_nodes(v, f)
    elif isinstance(n, list):
        for v in n:
            walk_nodes(v, f)


def bump_assert_literal(tops):
    """A copy of the program in which the first int literal that is a direct operand of a `<=>` is one larger."""
    import copy
    t = copy.deepcopy(tops)
    done = []

    def visit(n):
        if not done and n.get("k") == "bin" and n.get("op") == "<=>":
            for side in ("l", "r"):
                if n[side].get("k") == "int":
                    n[side]["v"] += 1
                    done.append(1)
                    return
    walk_nodes(t, visit)
    return t if done else None


PROBE_DIR = os.path.join(vlib.ROOT, "checks", "C01-probes")


def probe_phase(ctx, wd, ev, verdicts):
    """Hand-written programs (checks/C01-probes/*.sy) that print the results of the library helpers SyltSem gained for
    the corpus direction (number helpers, list/maybe/dict/set operations, text of values): they bind those additions of
    the SPECIFICATION to the real runtime the same way (record, then TLC decides). Every probe must be judged."""
    rf = os.path.join(wd, "probe-records.ndjson")
    vlib.harness("c01c", ["record", PROBE_DIR, rf])
    recs = vlib.read_ndjson(rf)
    # a probe the compiler does not translate (it translates every one of them on the unchanged tree) is what the
    # implementation did with a well-typed program: data for a verdict, not a tool error
    for r in recs:
        if not r["accepted"]:
            verdicts.add("%s|probe|%s|not-compiled" % (PID, r["file"]),
                         "probe %s (a well-typed program) was not compiled: %s" % (r["file"], str(r.get("detail"))[:200]),
                         {"probe": {"file": r["file"]}, "detail": r.get("detail")})
    recs = [r for r in recs if r["accepted"]]
    bad = [r["file"] for r in recs if not r["in_model"]]
    if bad or (not recs and not verdicts.violations):
        vlib.tool_error("probe programs outside the model: %s" % bad)
    if not recs:
        return 0
    _, vs = run_trace(wd, "probes", [trace_record(x) for x in recs])
    n = 0
    for rec, (tag, p) in zip(recs, vs):
        if tag == "DROP":
            vlib.tool_error("probe %s was dropped by the specification (%s)" % (rec["file"], p["why"]))
        if tag == "REJECT":
            verdicts.add("%s|probe|%s|%s" % (PID, rec["file"], p["why"]),
                         "probe %s: %s at print %d (spec %r, recorded %r), status spec=%s recorded=%s" % (
                             rec["file"], p["why"], p["at"], p["want"], p["got"], p["spec_status"], p["rec_status"]),
                         {"probe": {"file": rec["file"]}, "verdict": p, "prints": rec["prints"], "status": rec["status"]})
        else:
            n += 1
    ev.set(probes={"programs": len(recs), "validated": n, "print_events": sum(len(r["prints"]) for r in recs)})
    return n


def corpus_phase(ctx, wd, ev, verdicts, only=None):
    rf = os.path.join(wd, "corpus-records.ndjson")
    vlib.harness("c01c", ["record", CORPUS_DIR, rf] + ([only] if only else []))
    recs = vlib.read_ndjson(rf)
    accepted = [r for r in recs if r["accepted"]]
    inmodel = [r for r in accepted if r["in_model"]]
    reasons = {}
    for r in accepted:
        for w in r["reasons"]:
            reasons[w] = reasons.get(w, 0) + 1
    chosen = inmodel
    if ctx.tier == "quick" and not only and len(inmodel) > 40:
        # seeded sample, stratified so that the interesting strata are never empty: runs that do not end `done`,
        # runs that print, multi-file programs, then anything
        rng = random.Random(vlib.seed())
        pick = {}
        for stratum, quota in ((lambda x: x["status"] != "done", 3), (lambda x: bool(x["prints"]), 8),
                               (lambda x: x.get("modules", 1) > 1, 5), (lambda x: True, 40)):
            pool = [x for x in inmodel if stratum(x) and x["file"] not in pick]
            for x in rng.sample(pool, min(len(pool), min(quota, 40 - len(pick)))):
                pick[x["file"]] = x
        chosen = sorted(pick.values(), key=lambda r: r["file"])
    if not chosen:
        vlib.tool_error("corpus: no in-model program among %d accepted files" % len(accepted))

    r, verdicts_by_rec = run_trace(wd, "corpus", [trace_record(x) for x in chosen])
    counts = {"ACCEPT": 0, "REJECT": 0, "DROP": 0}
    drops = {}
    validated = []
    for rec, (tag, p) in zip(chosen, verdicts_by_rec):
        counts[tag] += 1
        if tag == "DROP":
            drops[p["why"]] = drops.get(p["why"], 0) + 1
        elif tag == "ACCEPT":
            validated.append(rec)
        else:
            verdicts.add("%s|corpus|%s|%s" % (PID, rec["file"], p["why"]),
                         "recorded run of %s is not the behaviour SyltSem assigns to it: %s at print %d (spec %r, recorded %r), "
                         "status spec=%s recorded=%s" % (rec["file"], p["why"], p["at"], p["want"], p["got"], p["spec_status"], p["rec_status"]),
                         {"corpus": {"file": rec["file"]}, "verdict": p, "prints": rec["prints"], "status": rec["status"],
                          "detail": rec.get("detail"), "tops": rec["tops"]})

    # what the validated programs exercise (measured on the recorded programs)
    kinds, builtins = {}, {}

    def visit(n):
        k = n.get("k")
        if isinstance(k, str):
            kinds[k] = kinds.get(k, 0) + 1
            if k == "std":
                builtins[n["name"]] = builtins.get(n["name"], 0) + 1
    for rec in validated:
        walk_nodes(rec["tops"], visit)
    judged = counts["ACCEPT"] + counts["REJECT"]
    floor = 20 if ctx.tier == "quick" else 100
    if not only and judged < floor:
        vlib.tool_error("vacuity: only %d corpus programs were judged by Trace_Sem (need %d)" % (judged, floor))
    if not only and (len(kinds) < 20 or sum(1 for x in validated if x["prints"]) < 2 or
                     not any(x["status"] != "done" for x in chosen)):
        vlib.tool_error("vacuity: validated corpus programs exercise too little (%d node kinds)" % len(kinds))

    # negative controls: (a) a recorded print altered / (b) the recorded status flipped / (c) the PROGRAM altered under an
    # unchanged recording (the literal of an assertion bumped) - TLC must reject every one of them
    neg, negkind = [], []
    for rec in validated:
        if rec["prints"]:
            d = trace_record(rec)
            d["prints"] = list(rec["prints"])
            d["prints"][len(d["prints"]) // 2] += "x"
            neg.append(d); negkind.append("print-altered")
            d = trace_record(rec)
            d["prints"] = rec["prints"][:-1]
            neg.append(d); negkind.append("print-dropped")
    for rec in validated[:60]:
        d = trace_record(rec)
        d["status"] = "assert_failed" if rec["status"] == "done" else "done"
        neg.append(d); negkind.append("status-flipped")
    nprog = 0
    for rec in validated:
        t = bump_assert_literal(rec["tops"])
        if t is not None and rec["status"] == "done" and nprog < 60:
            d = trace_record(rec)
            d["tops"] = t
            neg.append(d); negkind.append("program-altered")
            nprog += 1
    negres = {}
    if neg and not only:
        _, nv = run_trace(wd, "corpus-neg", neg)
        for kind, (tag, p) in zip(negkind, nv):
            negres.setdefault(kind, {"REJECT": 0, "ACCEPT": 0, "DROP": 0})[tag] += 1
        for kind in ("print-altered", "print-dropped", "status-flipped"):
            c = negres.get(kind, {})
            if c.get("ACCEPT", 0) or c.get("DROP", 0) or not c.get("REJECT", 0):
                vlib.tool_error("negative control (%s): corrupted recordings were not all rejected: %s" % (kind, c))
        c = negres.get("program-altered", {})
        # an altered assertion that is never executed changes nothing; most are executed
        if c.get("REJECT", 0) < max(1, (c.get("REJECT", 0) + c.get("ACCEPT", 0)) // 2):
            vlib.tool_error("negative control (program-altered): SyltSem is not sensitive to the programs it is given: %s" % c)

    ev.set(corpus={
        "files_total": len(recs), "accepted_by_compiler": len(accepted), "in_model": len(inmodel),
        "submitted_to_tlc": len(chosen), "validated": counts["ACCEPT"], "rejected": counts["REJECT"],
        "dropped_by_spec": drops, "out_of_model_by_reason": reasons,
        "multi_file_programs_validated": sum(1 for x in validated if x.get("modules", 1) > 1),
        "validated_with_prints": sum(1 for x in validated if x["prints"]),
        "validated_not_done": sum(1 for x in validated if x["status"] != "done"),
        "ast_nodes_validated": sum(x.get("nodes", 0) for x in validated),
        "node_kinds": kinds, "builtins": builtins,
        "negative_controls": negres, "tlc_states": r.distinct, "tlc_wall_s": round(r.wall_s, 1),
        "samples": [{"file": x["file"], "prints": x["prints"][:3], "status": x["status"]} for x in validated[:3]],
    })
    return counts["ACCEPT"], sum(sum(c.values()) for c in negres.values())


def run(ctx):
    tier = ctx.tier
    wd = vlib.workdir(PID)
    ev = vlib.Evidence(PID, tier, "model_checking")
    verdicts = vlib.Verdicts(PID)
    vlib.build_harness()

    if ctx.replay:
        import json
        rp = json.load(open(ctx.replay))["replay"]
        if "probe" in rp:
            vlib.build_harness(["c01c"])
            probe_phase(ctx, wd, ev, verdicts)
            ev.set(samples=[rp["probe"]], evaluations=1, distinct_nontrivial=1)
            rc = verdicts.finish()
            ev.violations = len(verdicts.violations)
            ev.write()
            return rc
        if "corpus" in rp:
            vlib.build_harness(["c01c"])
            corpus_phase(ctx, wd, ev, verdicts, only=rp["corpus"]["file"])
            ev.set(samples=[rp["corpus"]], evaluations=1, distinct_nontrivial=1)
            rc = verdicts.finish()
            ev.violations = len(verdicts.violations)
            ev.write()
            return rc
        cases = [rp]
        results, counts = replay_cases(wd, cases, ev, verdicts, "replay")
        print(results[0].get("source", ""))
        ev.set(samples=[rp["id"]], evaluations=1, distinct_nontrivial=1)
        ev.write()
        return verdicts.finish()

    # no -coverage here: cost instrumentation of the deeply recursive evaluator slows TLC down ~50x
    from concurrent.futures import ThreadPoolExecutor
    pool = ThreadPoolExecutor(max_workers=1)
    extra_future = pool.submit(extra_tlc, wd)        # the small universes run beside the big one
    r = vlib.tlc("MC_Sem", wd=wd, env={"MODE": "pairs"}, timeout=2400, xmx="16g", workers=10, coverage=False)
    rx = extra_future.result()
    pool.shutdown()
    vlib.require_tlc_ok(r, "SyltSem over the pairwise-nesting universe")
    cases = collect(r)
    if len(cases) < 5000 or r.depth < 10:
        vlib.tool_error("vacuity: universe too small (%d programs, depth %d)" % (len(cases), r.depth))
    ev.set(states=r.distinct, transitions=r.generated, tlc_wall_s=round(r.wall_s, 1),
           spec_invariants=["HeapOk", "GeneratorSound"])
    results, counts = replay_cases(wd, cases, ev, verdicts, "pairs")

    n_run = counts.get("ok", 0) + counts.get("mismatch", 0)
    rejected = counts.get("rejected", 0)
    if rejected > 0.2 * len(cases):
        vlib.tool_error("vacuity: %d of %d generated programs are rejected by the compiler" % (rejected, len(cases)))
    constructs = set()
    for c in cases:
        constructs.add(c["id"]["o"])
        constructs.add(c["id"]["i"])

    # negative control: drop one print event from some expected traces -> must be reported as mismatch
    neg = []
    for c in cases[:200]:
        if len(c["out"]) >= 2:
            d = dict(c)
            d["out"] = c["out"][:-1]
            neg.append(d)
    nv = vlib.Verdicts(PID, control=True)
    nv.known = []
    _, ncounts = replay_cases(wd, neg, ev, nv, "neg")
    if ncounts.get("mismatch", 0) != len(neg):
        vlib.tool_error("negative control: %d of %d corrupted traces were accepted" % (len(neg) - ncounts.get("mismatch", 0), len(neg)))

    n_extra, n_extra_neg, n_extra_cases = extra_phase(ctx, wd, ev, verdicts, rx)
    n_corpus, n_corpus_neg = corpus_phase(ctx, wd, ev, verdicts)
    n_corpus += probe_phase(ctx, wd, ev, verdicts)

    ev.set(traces_validated_against_impl=n_run + n_extra + n_corpus, programs=len(cases) + n_extra_cases,
           evaluations=len(cases) + n_extra_cases,
           distinct_nontrivial=len(cases) + n_extra_cases, verdict_counts=counts, constructs=len(constructs),
           rejected_by_compiler=rejected, negative_controls_rejected=len(neg) + n_extra_neg + n_corpus_neg, exhaustive=True,
           states=r.distinct + rx.distinct, transitions=r.generated + rx.generated,
           known_findings_hit=verdicts.known_hits,
           rule="every program of SyltGen's pairwise-nesting universe (outer construct x hole x inner construct x default "
                "fillers x harness context), distinct by AST hash; all are non-trivial (each prints >= 2 events); plus every "
                "program of SyltLimits (atom x operator x atom, one and two levels, every form) and SyltNestSelf (context x field "
                "shape x use of self)",
           samples=[{"id": c["id"], "expected_prints": len(c["out"]), "status": c["status"]} for c in cases[:2] + cases[len(cases) // 2:len(cases) // 2 + 2]])
    ev.assume("minilua stands in for Lua 5.3 (no Lua interpreter exists in the sandbox)",
              "numbers: |n| < 10^6, floats are dyadic rationals, plus (SyltLimits) 64-bit ints modulo 2^64 and the doubles m * 2^x "
              "with |m| < 10^6, the infinities, NaN and -0.0; programs outside the model (a float result that would be rounded, "
              "a division by zero) are dropped, never judged; the sign a NaN is printed with is not compared",
              "a generated program the compiler rejects is counted, not reported (no listed property promises completeness)",
              "corpus direction: the converter from the real parser's AST to SyltAst (lexical scoping, module flattening, std names) is trusted "
              "to preserve the program; programs using constructs or library functions SyltSem does not evaluate are counted, never judged")
    rc = verdicts.finish()
    ev.violations = len(verdicts.violations)
    ev.write()
    return rc
