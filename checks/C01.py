"""C01 - compiled Lua behaves as the Sylt source denotes.

The dynamic semantics SyltSem (TLA+) is the reference: TLC runs every program of the pairwise-nesting universe
(SyltGen: every construct in every type-compatible child position of every other construct, in six harness
contexts) through the specification and prints the expected observation (print events with value snapshots,
terminal status). Each program is rendered to Sylt source, compiled by the real compiler, the emitted Lua is run
in minilua, and the observed trace must equal the specified one. Thorough: seeded random larger programs from the
harness generator are executed by the specification (MODE=file) and compared the same way.
"""
import os
import vlib

PID = "C01"


def collect(r):
    cases = [p for (_, p) in r.records]
    seen = set()
    out = []
    for c in cases:
        h = vlib.sha(c["tops"])
        if h not in seen:
            seen.add(h)
            out.append(c)
    return out


def diff_class(res):
    w, g = res["want"], res["got"]
    if w["status"] != g["status"]:
        return "status:%s->%s" % (w["status"], g["status"])
    if len(w["prints"]) != len(g["prints"]):
        return "print-count"
    firsts = [i for i in range(len(w["prints"])) if w["prints"][i] != g["prints"][i]]
    if sorted(w["prints"]) == sorted(g["prints"]):
        return "print-order"
    return "print-value"


def signature(pid, case, res):
    cid = case["id"]
    if "o" in cid:
        where = "%s|%s|%s" % (cid["o"], cid["i"], cid["h"])
    else:
        where = "generated"
    v = res["verdict"]
    if v == "mismatch":
        return "%s|mismatch|%s|%s" % (pid, where, diff_class(res))
    return "%s|%s|%s" % (pid, v, where)


def replay_cases(wd, cases, ev, verdicts, name, pid=PID, env=None):
    cf = os.path.join(wd, name + "-cases.ndjson")
    rf = os.path.join(wd, name + "-results.ndjson")
    vlib.write_ndjson(cf, cases)
    vlib.harness("c01", ["replay", cf, rf], env=env)
    results = vlib.read_ndjson(rf)
    counts = {}
    for res in results:
        v = res["verdict"]
        counts[v] = counts.get(v, 0) + 1
        case = cases[res["i"]]
        if v == "tool":
            vlib.tool_error("minilua does not support something the chunk used: %s" % str(res.get("got"))[:300])
        if v in ("mismatch", "load_error", "panic"):
            verdicts.add(signature(pid, case, res),
                         "%s: want %s got %s" % (v, str(res.get("want"))[:160], str(res.get("got", res.get("error")))[:200]),
                         {"id": case["id"], "tops": case["tops"], "out": case["out"], "status": case["status"],
                          "result": {k: res[k] for k in res if k != "source"}, "source": res.get("source")})
    return results, counts


def run(ctx):
    tier = ctx.tier
    wd = vlib.workdir(PID)
    ev = vlib.Evidence(PID, tier, "model_checking")
    verdicts = vlib.Verdicts(PID)
    vlib.build_harness()

    if ctx.replay:
        import json
        rp = json.load(open(ctx.replay))["replay"]
        cases = [rp]
        results, counts = replay_cases(wd, cases, ev, verdicts, "replay")
        print(results[0].get("source", ""))
        ev.set(samples=[rp["id"]], evaluations=1, distinct_nontrivial=1)
        ev.write()
        return verdicts.finish()

    # no -coverage here: cost instrumentation of the deeply recursive evaluator slows TLC down ~50x
    r = vlib.tlc("MC_Sem", wd=wd, env={"MODE": "pairs"}, timeout=2400, xmx="16g", workers=10, coverage=False)
    vlib.require_tlc_ok(r, "SyltSem over the pairwise-nesting universe")
    cases = collect(r)
    if len(cases) < 5000 or r.depth < 10:
        vlib.tool_error("vacuity: universe too small (%d programs, depth %d)" % (len(cases), r.depth))
    ev.set(states=r.distinct, transitions=r.generated, tlc_wall_s=round(r.wall_s, 1),
           spec_invariants=["HeapOk", "GeneratorSound"])
    results, counts = replay_cases(wd, cases, ev, verdicts, "pairs")

    n_run = counts.get("ok", 0) + counts.get("mismatch", 0)
    rejected = counts.get("rejected", 0)
    if rejected > 0.2 * len(cases):
        vlib.tool_error("vacuity: %d of %d generated programs are rejected by the compiler" % (rejected, len(cases)))
    constructs = set()
    for c in cases:
        constructs.add(c["id"]["o"])
        constructs.add(c["id"]["i"])

    # negative control: drop one print event from some expected traces -> must be reported as mismatch
    neg = []
    for c in cases[:200]:
        if len(c["out"]) >= 2:
            d = dict(c)
            d["out"] = c["out"][:-1]
            neg.append(d)
    nv = vlib.Verdicts(PID, control=True)
    nv.known = []
    _, ncounts = replay_cases(wd, neg, ev, nv, "neg")
    if ncounts.get("mismatch", 0) != len(neg):
        vlib.tool_error("negative control: %d of %d corrupted traces were accepted" % (len(neg) - ncounts.get("mismatch", 0), len(neg)))

    ev.set(traces_validated_against_impl=n_run, programs=len(cases), evaluations=len(cases),
           distinct_nontrivial=len(cases), verdict_counts=counts, constructs=len(constructs),
           rejected_by_compiler=rejected, negative_controls_rejected=len(neg), exhaustive=True,
           known_findings_hit=verdicts.known_hits,
           rule="every program of SyltGen's pairwise-nesting universe (outer construct x hole x inner construct x default "
                "fillers x harness context), distinct by AST hash; all are non-trivial (each prints >= 2 events)",
           samples=[{"id": c["id"], "expected_prints": len(c["out"]), "status": c["status"]} for c in cases[:2] + cases[len(cases) // 2:len(cases) // 2 + 2]])
    ev.assume("minilua stands in for Lua 5.3 (no Lua interpreter exists in the sandbox)",
              "numbers: |n| < 10^6, floats are dyadic rationals; programs outside the model are dropped, never judged",
              "a generated program the compiler rejects is counted, not reported (no listed property promises completeness)")
    rc = verdicts.finish()
    ev.violations = len(verdicts.violations)
    ev.write()
    return rc
