"""C19 - composite values compare, order and combine structurally.

SyltComposite (TLA+) defines the universe - value expressions of nested types over small leaves, index-addressed, every
ordered pair of equal type, every operator the property names for that type - and computes the expected result of each
application with the dynamic semantics (SyltSem!ApplyBin = SyltValues!StructEq / Cmp3 / Arith / Negate).  MC_Composite
makes one TLC behaviour per JOB (a chunk of pairs of one type, the diagonal, unary minus, tuple / number, a provenance
entry, an alias group, all triples of a small type, a sample of a depth-3 type).  In every behaviour TLC evaluates the
laws of the property on the job's values (invariant NoLawViolated: reflexive, symmetric, != complements ==, a<=b iff
a<b or a==b, trichotomy, flipped operators, transitivity on the small types, tuples component-wise / lexicographic,
negation involutive and additive inverse, tuple / number component-wise) and prints the batch of applications with the
expected values as a REPLAY record.

The replayer c19 renders each batch as one Sylt program (the declarations, then `print(<a op b>)` per item), compiles it
with the real compiler, runs the Lua in minilua and compares line i with the rendering of the i-th expected value
(numbers normalised on both sides, 2.0 = 2).  A batch that is rejected or does not run to completion is split and every
item retried alone.  Combinations the compiler rejects are `not_exercisable` (counted, never reported); the vacuity
guards require every operator class on every kind of value the property lists to be compiled, run and judged, with
both boolean outcomes.  Python only counts and turns differing items into signatures computed from the case.

Negative controls, every run: (a) expectations of items the implementation got right are corrupted - each must come back
as a mismatch; (b) the runtime part of the emitted Lua is made wrong in eleven realistic ways (C19_PREAMBLE_PATCH, nothing
under /repo is touched) - each must produce mismatches on the operator/kind it breaks; (c) the operators the LAWS see are
made wrong inside the specification (FAULT) - TLC must report NoLawViolated.
"""
import json
import os
import re
import vlib

PID = "C19"
WORKERS = 4

LAWS = ["eq-total", "reflexive", "symmetric", "complement", "eq-iff-same-literal",
        "order-total", "le-is-lt-or-eq", "ge-is-gt-or-eq", "trichotomy", "gt-is-flipped-lt", "ge-is-flipped-le",
        "eq-componentwise", "lt-lexicographic", "add-componentwise", "sub-componentwise", "mul-componentwise",
        "div-componentwise", "eq-transitive", "lt-transitive", "lt-respects-eq", "lt-irreflexive",
        "neg-involutive", "neg-is-additive-inverse", "neg-componentwise", "div-by-number-componentwise",
        "symmetric-across-provenance",
        "step-independent-of-history", "step-equals-application-on-fresh-values", "history-bindings-evaluate",
        "mixed-order-total", "mixed-order-consistent", "mixed-order-flips", "compound-assignment-is-the-operator",
        "at-most-one-of-lt-eq-gt"]
# history templates of SyltComposite!HistTemplates and the shapes of SyltComposite!HistTable: each must be judged
TEMPLATES = ["eq-left", "eq-repeat", "eq-flip", "eq-right", "eq-inside", "eq-mixed", "ord-left", "ord-right", "le-left", "ord-flip",
             "ord-repeat", "ord-then-eq", "ord-inside", "add-repeat", "add-left", "arith-left", "arith-right", "sub-flip", "mul-div",
             "neg-repeat", "arith-inside", "eq-lit-var", "ord-lit-var", "add-lit-var", "add-chain", "arith-lit-var"]
HIST_SHAPES = ["list(int)", "tuple(int,int)", "blob(B)", "enum(E)", "tuple(list(int),int)", "list(tuple(int))", "list(list(int))",
               "tuple(tuple(int,int),int)", "tuple(str,int)", "blob(C)", "list(blob(A))", "str", "int",
               "blob(F)", "tuple()", "tuple(int,tuple())", "float", "escstr", "tuple(escstr,int)", "numstr"]
EQ = ("==", "!=")
ORD = ("<", "<=", ">", ">=")

# (operator, kind of value) cells the property's statement lists; each must be compiled, run and judged
REQUIRED = ([(op, k) for op in EQ for k in ("tuple", "list", "blob", "enum")]
            + [(op, k) for op in ORD for k in ("number", "str", "tuple")]
            + [(op, "tuple") for op in ("+", "-", "*", "/", "/number", "neg")]
            + [("+", "str")])

# emitted-Lua mutations (c19.rs patch_lua) and the cell in which each must be noticed
MUTATIONS = [("lt-first-only", "<", "tuple"), ("le-is-lt", "<=", "tuple"), ("tuple-eq-first-only", "==", "tuple"),
             ("list-eq-ignores-length", "==", "list"), ("blob-eq-ignores-field", "==", "blob"),
             ("variant-eq-tag-only", "==", "enum"), ("sub-swapped", "-", "tuple"), ("mul-first-only", "*", "tuple"),
             ("div-number-first-only", "/number", "tuple"), ("neg-identity", "neg", "tuple"), ("concat-swapped", "+", "str"),
             # stateful runtimes: only a HISTORY (several applications over the same objects) can notice them
             ("list-eq-sticky-seen", "==", "list", "hist:"), ("tuple-lt-memo", "<", "tuple", "hist:"),
             ("tuple-add-in-place", "+", "tuple", "hist:"), ("blob-eq-caches-left", "==", "blob", "hist:"),
             ("variant-eq-sticky", "==", "enum", "hist:"),
             # replicas of the seeded faults 4 and 5: only numeric-looking strings / extreme integers notice them
             ("add-via-string-metatable", "+", "str", "", "numstr"), ("tuple-cmp-subtracts", "<", "tuple", "", "bigint"),
             # replicas of the seeded faults 7, 8 (and a neighbour of 8 that only a NaN component shows) and 9 (the last one rewrites
             # the PROGRAM TEXT: `"x" + "y"` on two literals becomes the one literal "xy" - only escapes at the seam notice)
             ("blob-eq-skips-functions", "==", "blob", "", "blob(F)"), ("tuple-lt-last-once", "<", "tuple", "", "tuple()"),
             ("tuple-le-not-gt", "<=", "tuple", "", "floatx"), ("fold-string-literals", "+", "str", "", "escstr")]
MIN_MUTATIONS_NOTICED = 12     # a restructured runtime may make some patches inapplicable (recorded), never most of them
SPEC_FAULTS = ["lt-first-only", "eq-ignores-last", "sub-swapped"]


# --------------------------------------------------------------------------- cases

def kind_of(shape):
    k = shape.split("~")[0].split("(")[0].split("/")[0]          # "l~r": mixed int / float ordering, the left type
    return {"int": "number", "float": "number", "bigint": "number", "bigfloat": "number", "floatx": "number", "numstr": "str",
            "escstr": "str"}.get(k, k)


def cell(item):
    op = item["op"]
    if op == "/" and item["rel"] == "by-number":
        op = "/number"
    return (op, kind_of(item["shape"]))


def nesting(shape):
    d = m = 0
    for c in shape:
        if c == "(":
            d += 1
            m = max(m, d)
        elif c == ")":
            d -= 1
    return m


def show(v):
    """a value snapshot of the specification as text (messages and evidence only; c19 does the real rendering)"""
    k = v.get("k")
    if k in ("int", "bool"):
        return json.dumps(v["v"])
    if k == "str":
        if isinstance(v["v"], list):       # a byte string of the escape universe
            return json.dumps("".join(chr(b) for b in v["v"]))
        return json.dumps(v["v"])
    if k == "float":
        return repr(v["n"] / 2.0 ** v["d"])
    if k == "tuple":
        return "(" + ", ".join(show(e) for e in v["es"]) + ("," if len(v["es"]) == 1 else "") + ")"
    if k == "list":
        return "[" + ", ".join(show(e) for e in v["es"]) + "]"
    if k == "variant":
        return v["tag"] + ("" if v["val"].get("k") == "nil" else " " + show(v["val"]))
    return k or "?"


def program_line(src):
    """the `print(...)` statement of a one-item program on one line (blob literals are printed over several lines)"""
    lines = src.splitlines()
    starts = [i for i, l in enumerate(lines) if l.strip().startswith("print(")]
    ends = [i for i, l in enumerate(lines) if l.strip() == "end"]
    if len(starts) != 1 or not ends:
        return None
    return re.sub(r"\s+", " ", " ".join(l.strip() for l in lines[starts[0]:ends[-1]])).replace("{ ", "{").replace(", }", "}").strip()


def signature(item, failure):
    return "%s|%s|%s|%s|%s|%s" % (PID, item["op"], item["shape"], item["rel"], item["form"], failure)


def universe(wd, name, env, timeout):
    r = vlib.tlc("MC_Composite", wd=wd, env=env, workers=WORKERS, tags=("REPLAY", "DECLS", "ALIAS"), timeout=timeout,
                 coverage=False, out_file=os.path.join(wd, "tlc-%s.out" % name))
    vlib.require_tlc_ok(r, "SyltComposite laws on the %s universe" % name)
    decls = [c for t, c in r.records if t == "DECLS"]
    alias = [c for t, c in r.records if t == "ALIAS"]
    if not alias:
        vlib.tool_error("TLC printed no ALIAS record for " + name)
    ALIAS[:] = alias[0]
    seen, recs = set(), []
    for t, c in r.records:
        if t == "REPLAY":
            k = json.dumps(c["id"], sort_keys=True)
            if k not in seen:
                seen.add(k)
                recs.append(c)
    if not decls or not recs:
        vlib.tool_error("vacuity: TLC printed no cases for " + name)
    if r.distinct != 2 * len(recs):
        vlib.tool_error("%s: %d distinct states but %d jobs printed" % (name, r.distinct, len(recs)))
    recs.sort(key=lambda c: (c["id"]["kind"], c["id"]["t"], c["id"]["c"]))
    return r, decls[0], recs


ALIAS = []     # SyltComposite!Alias as printed by TLC: spec number -> real literal (the replayer substitutes)


def mk_batch(c, decls):
    b = {"id": c["id"], "shape": c["shape"], "decls": decls, "items": c["items"], "alias": ALIAS}
    if c.get("binds"):
        b["binds"] = c["binds"]            # a history batch: binds[h-1] are the bindings of history h, items carry h and k
    return b


def history_of(b, it):
    """the history of a history item up to and including its step: what has to be re-run to see the item again"""
    return {"binds": b["binds"][it["h"] - 1], "steps": [x for x in b["items"] if x["h"] == it["h"] and x["k"] <= it["k"]]}


def replay(wd, name, batches, patch=None):
    bf = os.path.join(wd, name + "-batches.ndjson")
    rf = os.path.join(wd, name + "-results.ndjson")
    vlib.write_ndjson(bf, batches)
    # patch=None: the emitted Lua as it is - unless the caller of ./check exported C19_PREAMBLE_PATCH to see the whole check
    # run against a mutated (or, with repair-tuple-add, repaired) runtime without touching /repo
    vlib.harness("c19", ["replay", bf, rf], env={"C19_PREAMBLE_PATCH": patch or os.environ.get("C19_PREAMBLE_PATCH", "none")}, timeout=3600)
    res = vlib.read_ndjson(rf)
    if len(res) != len(batches) or any(len(r["verdicts"]) != len(b["items"]) for r, b in zip(res, batches)):
        vlib.tool_error("c19 returned results that do not match the batches (%s)" % name)
    return res, bf


FAILURES = ("mismatch", "runtime_error", "load_error", "mismatch_in_batch_only")


def failure_class(verdict, detail):
    if verdict == "runtime_error":
        return "runtime_error:" + (detail or {}).get("status", "?").replace("lua_error:", "")
    return {"mismatch_in_batch_only": "batch-only"}.get(verdict, verdict)


def judge(batches, results, verdicts, stats, decls):
    """walk all items; count per cell; report the failing ones"""
    for b, r in zip(batches, results):
        det = {d["j"]: d for d in r["details"]}
        stats["programs"] += r["programs"]
        stats["paths"][r["path"]] = stats["paths"].get(r["path"], 0) + 1
        for j, (it, v) in enumerate(zip(b["items"], r["verdicts"])):
            d = det.get(j)
            stats["verdicts"][v] = stats["verdicts"].get(v, 0) + 1
            c = cell(it)
            cs = stats["cells"].setdefault("%s %s" % c, {"judged": 0, "ok": 0, "not_exercisable": 0, "true": 0, "false": 0})
            if v == "tool":
                vlib.tool_error("minilua does not support something the program used: %s" % json.dumps(d)[:600])
            if v == "not_reached":
                continue                   # a history stopped at an earlier step, which is the one reported
            if v in ("not_exercisable", "panic"):
                cs["not_exercisable"] += 1
                stats["rejected_item"].setdefault(c, (it, b["id"]))
                ex = stats["not_exercisable_examples"]
                key = "%s %s" % (it["op"], it["shape"])
                if key not in ex and len(ex) < 12:
                    ex[key] = {"verdict": v, "error": (d or {}).get("error"), "source": (d or {}).get("source")}
                continue
            cs["judged"] += 1
            if it["want"].get("k") == "bool":
                cs["true" if it["want"]["v"] else "false"] += 1
            stats["judged_keys"].add(vlib.sha([it["e"], it["want"]] + ([b["id"], it["h"], it["k"]] if "binds" in b else [])))
            if nesting(it["shape"]) >= 2:
                stats["nested_judged"] += 1
            if "bigint" in it["shape"] and "~" not in it["shape"]:
                key = "extreme integers: %s on %s" % ("ordering" if it["op"] in ORD else "equality", "tuples" if c[1] == "tuple" else "other values")
                stats["special"][key] = stats["special"].get(key, 0) + 1
            if "numstr" in it["shape"] and it["op"] in ("+", "+="):
                key = "numeric-looking strings: %s %s" % (it["op"], "alone" if c[1] == "str" else "as tuple components")
                stats["special"][key] = stats["special"].get(key, 0) + 1
            if "blob(F)" in it["shape"] or it["shape"].startswith(("enum(W)", "blob(G)")):
                stats["special"]["function-valued fields: == != on blobs holding them"] += 1
            if "tuple()" in it["shape"] and it["op"] in ORD:
                stats["special"]["width-0 tuples: ordering"] += 1
            if "floatx" in it["shape"] and it["op"] in ORD and c[1] == "tuple":
                stats["special"]["NaN / infinite components: ordering on tuples"] += 1
            if "escstr" in it["shape"] and it["op"] == "+":
                key = "escape literals: + on %s" % ("variables and literals" if it["form"].startswith("hist:") else "two literals")
                stats["special"][key] += 1
            if it["form"].startswith("hist:"):
                stats["hist_templates"][it["form"].split(":")[1]] = stats["hist_templates"].get(it["form"].split(":")[1], 0) + 1
                stats["hist_shapes"][b["shape"]] = stats["hist_shapes"].get(b["shape"], 0) + 1
            if v == "ok":
                cs["ok"] += 1
                continue
            if v not in FAILURES:
                vlib.tool_error("c19 returned an unknown verdict %r" % v)
            fc = failure_class(v, d)
            sig = signature(it, fc)
            stats["signatures"][sig] = stats["signatures"].get(sig, 0) + 1
            src = (d or {}).get("source", "")
            where = program_line(src)
            if "binds" in b:
                pl, open_braces = [], 0      # the body of the history function; a blob literal spans several lines
                for l in (x.strip() for x in src.splitlines()):
                    if open_braces > 0:
                        pl[-1] += " " + l
                    elif l.startswith(("print(", "v1:", "v2:", "v3:")):
                        pl.append(l)
                    else:
                        continue
                    open_braces += l.count("{") - l.count("}")
                where = "step %d of the history  %s" % (it["k"], " ; ".join(pl).replace("{ ", "{").replace(", }", "}"))
            what = "%s: the specification says %s, the compiled program %s" % (
                where or "%s on %s" % (it["op"], it["shape"]), show(it["want"]),
                ("printed %s" % ", ".join((d or {}).get("got", ["?"])[:3])) if v.startswith("mismatch") else
                ("stopped with %s" % (d or {}).get("status", v)))
            verdicts.add(sig, what, {"batch": b["id"], "decls": decls, "alias": b.get("alias", []), "item": it, **({"hist": history_of(b, it)} if "binds" in b else {}),
                                     "observed": {k: (d or {}).get(k) for k in ("verdict", "want", "got", "status", "detail", "source")}})


# --------------------------------------------------------------------------- negative controls

def corrupt(v):
    """a value snapshot that prints differently"""
    v = json.loads(json.dumps(v))
    k = v.get("k")
    if k == "bool":
        v["v"] = not v["v"]
    elif k == "int":
        v["v"] += 1
    elif k == "float":
        v["n"] += 2 ** v["d"]          # + 1.0
    elif k == "str":
        v["v"] += [120] if isinstance(v["v"], list) else "x"
    elif k in ("tuple", "list"):
        if v["es"]:
            v["es"][-1] = corrupt(v["es"][-1])
        else:
            v["es"] = [{"k": "int", "v": 7}]
    elif k == "variant":
        v["tag"] += "x"
    else:
        vlib.tool_error("negative control: cannot corrupt a value of kind %r" % k)
    return v


def control_expectations(wd, batches, results, decls, per_cell=6, skip=()):
    """(a) corrupted expected values of items that agreed: every one must be reported as a mismatch"""
    taken, picked = {}, []
    order = list(range(len(batches)))
    off = vlib.seed() % max(1, len(order))
    hist_pick = {}
    for bi in order[off:] + order[:off]:
        b, r = batches[bi], results[bi]
        if "binds" in b:
            # a history batch stays whole; one step's expectation is corrupted (two batches per shape)
            if all(v == "ok" for v in r["verdicts"]) and len(hist_pick.setdefault(b["shape"], [])) < 2:
                hist_pick[b["shape"]].append(bi)
            continue
        for it, v in zip(b["items"], r["verdicts"]):
            c = cell(it)
            if v == "ok" and taken.get(c, 0) < per_cell:
                taken[c] = taken.get(c, 0) + 1
                d = dict(it)
                d["want"] = corrupt(it["want"])
                picked.append(d)
    missing = [c for c in REQUIRED if taken.get(c, 0) == 0 and c not in skip]
    if missing or len(picked) < 60:
        vlib.tool_error("negative control: no agreeing item to corrupt in %s (%d picked)" % (missing, len(picked)))
    nb = [{"id": {"kind": "control", "t": 0, "c": i}, "decls": decls, "alias": ALIAS, "items": picked[i:i + 12]} for i in range(0, len(picked), 12)]
    res, _ = replay(wd, "control", nb)
    accepted = [it for b, r in zip(nb, res) for it, v in zip(b["items"], r["verdicts"]) if v != "mismatch"]
    hb, at = [], []
    for bis in hist_pick.values():
        for bi in bis:
            d = json.loads(json.dumps(batches[bi]))
            j = (vlib.seed() + bi) % len(d["items"])
            d["items"][j]["want"] = corrupt(d["items"][j]["want"])
            hb.append(d)
            at.append(j)
    if len(hb) < len(HIST_SHAPES):
        vlib.tool_error("negative control: only %d history batches to corrupt" % len(hb))
    hres, _ = replay(wd, "control-hist", hb)
    for d, r, j in zip(hb, hres, at):
        if r["verdicts"][j] != "mismatch" or any(v != "ok" for k, v in enumerate(r["verdicts"]) if k != j):
            accepted.append(d["items"][j])
    picked = picked + [d["items"][j] for d, j in zip(hb, at)]
    if accepted:
        vlib.tool_error("negative control: %d of %d corrupted expectations were not reported as mismatches, e.g. %s on %s" % (
            len(accepted), len(picked), accepted[0]["op"], accepted[0]["shape"]))
    return len(picked)


def control_mutations(wd, batches, results, skip=()):
    """(b) the emitted runtime made wrong in one way at a time: the broken operator must be noticed on its kind"""
    caught = {}
    order = list(range(len(batches)))
    off = (vlib.seed() * 7) % max(1, len(order))
    order = order[off:] + order[:off]
    inapplicable = []
    for name, op, kind, *more in MUTATIONS:
        form = more[0] if more else ""
        shp = more[1] if len(more) > 1 else ""

        def target(it):
            return cell(it) == (op, kind) and it["form"].startswith(form) and shp in it["shape"]
        if os.environ.get("C19_PREAMBLE_PATCH") == name or (op, kind) in skip:
            continue                       # demonstration run: this mutation is already in the results that are being judged
        by_shape, every = {}, []
        for bi in order:
            b, r = batches[bi], results[bi]
            hit = [it for it, v in zip(b["items"], r["verdicts"]) if target(it) and v == "ok"]
            if not hit:
                continue
            if (op in EQ or op in ORD) and len({it["want"].get("v") for it in hit}) < 2:
                continue                   # a batch in which the operator has one expected outcome only says little
            by_shape.setdefault((hit[0]["shape"], b["id"]["kind"]), []).append(bi)
            every.append(bi)
        for key, bis in by_shape.items():  # some batches of every shape and job kind that has the cell, evenly spread
            n = 40 if form else 3
            by_shape[key] = bis if len(bis) <= n else [bis[(k * len(bis)) // n] for k in range(n)]
        sel = [bi for bis in by_shape.values() for bi in bis]
        if not sel and any(v0 in FAILURES and target(it) for b, r in zip(batches, results) for it, v0 in zip(b["items"], r["verdicts"])):
            inapplicable.append(name + " (its operator already fails on these values in the run being judged)")
            continue
        if not sel:
            vlib.tool_error("negative control: no batch exercises %s on %s (%s)" % (op, kind, form or "any form"))
        def noticed(sel, tag):
            res, _ = replay(wd, "mut-" + name + tag, [batches[bi] for bi in sel], patch=name)
            if any(r.get("patch") == "inapplicable" for r in res):
                return None                # the runtime no longer has the definition this patch overrides
            return sum(1 for bi, r in zip(sel, res)
                       for it, v0, v in zip(batches[bi]["items"], results[bi]["verdicts"], r["verdicts"])
                       if v0 == "ok" and v in FAILURES and target(it))
        n = noticed(sel, "")
        if n == 0:
            # the sample did not show it: the control is decided on EVERY batch in which the operator is applied to such values
            # in some form (a changed implementation may route part of the forms - say, literal operands - around the runtime)
            rest = [bi for bi in every if bi not in set(sel)]
            rest = rest if len(rest) <= 120 else [rest[(k * len(rest)) // 120] for k in range(120)]
            n = noticed(rest, "-wide") if rest else 0
        if n is None:
            inapplicable.append(name)
            continue
        if n == 0 and any(v0 in FAILURES and target(it) for b, r in zip(batches, results) for it, v0 in zip(b["items"], r["verdicts"])):
            inapplicable.append(name + " (its operator already fails on these values in the run being judged)")
            continue
        if n == 0:
            vlib.tool_error("negative control: the emitted-Lua mutation %s was not noticed on `%s` of %s values%s" % (
                name, op, kind, " in the histories" if form else ""))
        caught[name] = n
    if len(caught) < MIN_MUTATIONS_NOTICED and not os.environ.get("C19_PREAMBLE_PATCH"):
        vlib.tool_error("negative control: only %d emitted-Lua mutations could be applied (inapplicable: %s)" % (len(caught), inapplicable))
    return caught, inapplicable


def control_spec_faults(wd):
    """(c) wrong operators inside the specification: TLC must report a violated law"""
    out = {}
    for fault in SPEC_FAULTS:
        r = vlib.tlc("MC_Composite", wd=wd, env={"TIER": "thorough", "SEED": vlib.seed(), "FAULT": fault, "ONLYKIND": "pairs", "ONLYT": 6},
                     workers=2, tags=("REPLAY",), timeout=1800, coverage=False, out_file=os.path.join(wd, "tlc-fault-%s.out" % fault))
        if r.timed_out or r.ok or r.invariant_violated != "NoLawViolated":
            vlib.tool_error("negative control: with the specification fault %s TLC did not report NoLawViolated (log %s)" % (fault, r.log))
        laws = re.findall(r'viol = (\{[^}]*\})', open(r.log, encoding="utf-8", errors="replace").read())
        out[fault] = sorted(set(re.findall(r'"([^"]+)"', laws[-1]))) if laws else []
        if not out[fault]:
            vlib.tool_error("negative control: no violated law named in %s" % r.log)
    return out


def report_rejected_cells(stats, verdicts, decls):
    """A combination of the statement that the compiler rejects on EVERY value (as unary minus on tuples once was, F17) is
    reported: the property says the operator acts on those values. Partial rejections stay not_exercisable."""
    out = []
    for op, kind in REQUIRED:
        cs = stats["cells"].get("%s %s" % (op, kind))
        if cs and cs["judged"] == 0 and cs["not_exercisable"] > 0:
            ex = stats["rejected_item"].get((op, kind))
            verdicts.add("%s|%s|%s|rejected" % (PID, op, kind),
                         "`%s` on %s values is rejected by the compiler for all %d generated operands, e.g. %s on %s" % (
                             op, kind, cs["not_exercisable"], ex[0]["op"], ex[0]["shape"]),
                         {"batch": ex[1], "decls": decls, "item": ex[0], "observed": {"verdict": "not_exercisable"}})
            out.append((op, kind))
    return out


# --------------------------------------------------------------------------- guards

def guards(tier, stats, recs_by_universe, laws_checked, reported=()):
    kinds = {}
    for recs in recs_by_universe.values():
        for c in recs:
            kinds[c["id"]["kind"]] = kinds.get(c["id"]["kind"], 0) + 1
    need = ["pairs", "neg", "divn", "trans", "prov", "alias", "hist", "mixed", "cassign"] + (["diag"] if tier == "quick" else ["deep"])
    for k in need:
        if kinds.get(k, 0) == 0:
            vlib.tool_error("vacuity: no job of kind %s ran in TLC" % k)
    for law in LAWS:
        if laws_checked.get(law, 0) == 0:
            vlib.tool_error("vacuity: the law %s was never evaluated by TLC" % law)
    floor = 8
    for op, kind in REQUIRED:
        if (op, kind) in reported:
            continue
        cs = stats["cells"].get("%s %s" % (op, kind), {"judged": 0, "not_exercisable": 0, "true": 0, "false": 0})
        if cs["judged"] < floor:
            vlib.tool_error("vacuity: `%s` on %s values was judged on %d items only (%d rejected by the compiler): %s" % (
                op, kind, cs["judged"], cs["not_exercisable"], json.dumps(list(stats["not_exercisable_examples"].values())[:1])[:800]))
        if (op in EQ or op in ORD) and (cs["true"] == 0 or cs["false"] == 0):
            vlib.tool_error("vacuity: `%s` on %s values has only one expected outcome (%d true, %d false)" % (op, kind, cs["true"], cs["false"]))
    for what, n in stats["special"].items():
        if n < 40:
            vlib.tool_error("vacuity: %s judged on %d items only" % (what, n))
    for t in TEMPLATES:
        if stats["hist_templates"].get(t, 0) < 20:
            vlib.tool_error("vacuity: history template %s was judged on %d steps only" % (t, stats["hist_templates"].get(t, 0)))
    for sh in HIST_SHAPES:
        if stats["hist_shapes"].get(sh, 0) < 20:
            vlib.tool_error("vacuity: histories over %s values were judged on %d steps only" % (sh, stats["hist_shapes"].get(sh, 0)))
    if stats["verdicts"].get("not_reached", 0) > 0.01 * sum(stats["verdicts"].values()):
        vlib.tool_error("vacuity: %d history steps were not reached" % stats["verdicts"]["not_reached"])
    total = sum(stats["verdicts"].values())
    ne = stats["verdicts"].get("not_exercisable", 0) + stats["verdicts"].get("panic", 0)
    if total < (20000 if tier == "quick" else 100000):
        vlib.tool_error("vacuity: only %d operator applications" % total)
    if ne > 0.2 * total:
        vlib.tool_error("vacuity: the compiler rejects %d of %d applications" % (ne, total))
    if stats["dropped"] > 0.15 * (total + stats["dropped"]):
        vlib.tool_error("vacuity: %d of %d applications are outside the numeric model" % (stats["dropped"], total + stats["dropped"]))
    if stats["nested_judged"] < 0.2 * total:
        vlib.tool_error("vacuity: only %d applications on nested composite values" % stats["nested_judged"])


def new_stats():
    return {"programs": 0, "paths": {}, "verdicts": {}, "cells": {}, "signatures": {}, "not_exercisable_examples": {},
            "judged_keys": set(), "nested_judged": 0, "dropped": 0, "rejected_item": {}, "hist_templates": {}, "hist_shapes": {},
            "special": {"extreme integers: ordering on tuples": 0, "extreme integers: equality on tuples": 0,
                        "extreme integers: ordering on other values": 0, "extreme integers: equality on other values": 0,
                        "numeric-looking strings: + alone": 0, "numeric-looking strings: + as tuple components": 0,
                        "numeric-looking strings: += alone": 0, "numeric-looking strings: += as tuple components": 0,
                        "function-valued fields: == != on blobs holding them": 0, "width-0 tuples: ordering": 0,
                        "NaN / infinite components: ordering on tuples": 0,
                        "escape literals: + on two literals": 0, "escape literals: + on variables and literals": 0}}


# --------------------------------------------------------------------------- entry

def run(ctx):
    tier = ctx.tier
    wd = vlib.workdir(PID)
    ev = vlib.Evidence(PID, tier, "model_checking")
    verdicts = vlib.Verdicts(PID)
    vlib.build_harness(["c19"])
    stats = new_stats()

    if ctx.replay:
        rp = json.load(open(ctx.replay))["replay"]
        batches = [{"id": rp["batch"], "shape": rp["item"]["shape"], "decls": rp["decls"], "alias": rp.get("alias", []), "items": [rp["item"]]}]
        if rp.get("hist"):                 # the history up to the reported step, as history number 1
            steps = [dict(x, h=1) for x in rp["hist"]["steps"]]
            batches[0].update(items=steps, binds=[rp["hist"]["binds"]])
        res, bf = replay(wd, "replay", batches)
        print(vlib.harness("c19", ["print", bf, 0]).stdout)
        for d in res[0]["details"]:
            print("verdict %s  want %r  got %r  status %s" % (d.get("verdict"), d.get("want"), d.get("got"), d.get("status")))
        if not res[0]["details"]:
            print("verdict %s" % res[0]["verdicts"][0])
        judge(batches, res, verdicts, stats, rp["decls"])
        if (rp.get("observed") or {}).get("verdict") == "not_exercisable" and res[0]["verdicts"][0] in ("not_exercisable", "panic"):
            c = cell(rp["item"])       # a replay of report_rejected_cells: still rejected
            verdicts.add("%s|%s|%s|rejected" % (PID, c[0], c[1]), "`%s` on %s is still rejected by the compiler" % (c[0], rp["item"]["shape"]), rp)
        ev.set(states=1, transitions=1, traces_validated_against_impl=1, verdict_counts=stats["verdicts"],
               samples=[{"operator": rp["item"]["op"], "shape": rp["item"]["shape"], "expected": show(rp["item"]["want"])}])
        rc = verdicts.finish()
        ev.violations = len(verdicts.violations)
        ev.write()
        return rc

    # 1. TLC: the laws on every job, and the cases
    env = {"TIER": tier, "SEED": ctx.seed}
    runs = [("table", dict(env), 3600)]
    if tier == "thorough":
        runs.append(("deep", dict(env, TIER="deep", NDEEP=600), 3600))
    states = transitions = 0
    tlc_wall = {}
    universes, all_batches, all_results, laws_checked, recs_by = {}, [], [], {}, {}
    decls = None
    for name, e, to in runs:
        r, decls, recs = universe(wd, name, e, to)
        states += r.distinct
        transitions += r.generated
        tlc_wall[name] = round(r.wall_s, 1)
        recs_by[name] = recs
        for c in recs:
            stats["dropped"] += c["dropped"]
            for l in c["laws"]:
                laws_checked[l] = laws_checked.get(l, 0) + 1
        batches = [mk_batch(c, decls) for c in recs if c["items"]]
        res, _ = replay(wd, name, batches)
        judge(batches, res, verdicts, stats, decls)
        universes[name] = {"jobs": len(recs), "batches": len(batches), "applications": sum(len(b["items"]) for b in batches),
                           "pairs_or_values": sum(c["npairs"] for c in recs),
                           "shapes": len({c["shape"] for c in recs}), "tlc_wall_s": round(r.wall_s, 1)}
        all_batches += batches
        all_results += res

    # 2. guards and controls
    reported = report_rejected_cells(stats, verdicts, decls)
    guards(tier, stats, recs_by, laws_checked, reported)
    n_corrupt = control_expectations(wd, all_batches, all_results, decls, skip=reported)
    caught, inapplicable = control_mutations(wd, all_batches, all_results, skip=reported)
    faults = control_spec_faults(wd)

    # 3. evidence
    judged = sum(c["judged"] for c in stats["cells"].values())
    picks, samples = [], []
    for frac in (0.03, 0.21, 0.47, 0.63, 0.88, 0.99):
        bi = int(frac * (len(all_batches) - 1))
        j = (ctx.seed + bi) % len(all_batches[bi]["items"])
        picks.append((bi, j))
    vlib.write_ndjson(os.path.join(wd, "samples.ndjson"), [all_batches[bi] for bi, _ in picks])
    for n, (bi, j) in enumerate(picks):
        it = all_batches[bi]["items"][j]
        src = vlib.harness("c19", ["print", os.path.join(wd, "samples.ndjson"), n, j]).stdout
        samples.append({"job": all_batches[bi]["id"], "operator": it["op"], "shape": it["shape"], "relation_of_operands": it["rel"],
                        "program_line": program_line(src) or src, "expected_print": show(it["want"]),
                        "verdict": all_results[bi]["verdicts"][j]})
    ev.set(states=states, transitions=transitions, traces_validated_against_impl=judged,
           evaluations=sum(stats["verdicts"].values()), distinct_nontrivial=len(stats["judged_keys"]), programs=stats["programs"],
           universes=universes, tlc_wall_s=tlc_wall, spec_invariants=["NoLawViolated"], laws_evaluated_in_jobs=laws_checked,
           verdict_counts=stats["verdicts"], batch_paths=stats["paths"], cells=stats["cells"],
           not_exercisable=stats["verdicts"].get("not_exercisable", 0) + stats["verdicts"].get("panic", 0),
           not_exercisable_examples=stats["not_exercisable_examples"], outside_numeric_model=stats["dropped"],
           nested_applications_judged=stats["nested_judged"],
           extreme_and_numeric_looking=stats["special"], alias_map=ALIAS,
           history_steps_per_template=stats["hist_templates"], history_steps_per_shape=stats["hist_shapes"], violation_signatures=stats["signatures"],
           negative_controls_rejected=n_corrupt + len(caught) + len(faults),
           negative_controls={"corrupted_expectations_rejected": n_corrupt, "emitted_lua_mutations_noticed": caught,
                              "emitted_lua_mutations_inapplicable": inapplicable,
                              "specification_faults_rejected_by_tlc": faults},
           known_findings_hit=verdicts.known_hits, exhaustive=(tier == "thorough"),
           rule="value expressions of the 78 types of SyltComposite!TypeTable (scalars, tuples of width 0-3, lists, blobs, enum values, nesting depth <= 2, "
                "leaves from 2-4 ints / floats / strings), every ordered pair of equal type (quick: every s-th pair for the larger types, offset "
                "by the seed, plus the whole diagonal; thorough: all pairs, plus sampled pairs of 7 depth-3 types), every operator the property names "
                "for the type, unary minus, tuple / number, 38 mixed-provenance pairs and v op v on one object; HISTORIES: every triple (quick: every s-th) "
                "of values of 13 types bound to three variables and each of the 21 templates of 3 applications over those variables (same object left, "
                "right, repeated, inside a fresh tuple / list), expected values threaded through one state; extreme integers / floats (+-2^63, 2^53, 2^53+1) as "
                "order-preserving aliases in comparisons and equality, int against float ordering, strings that look like numbers under + and +=; "
                "blobs with a function-valued field (same / different function object x equal / different data) alone and inside tuples, lists, enum "
                "payloads and blobs, blob fields / enum payloads of every scalar type; the unit tuple alone, as first / last / only component and in lists; "
                "NaN and the infinities as float values and tuple / list components (comparisons only); string LITERALS with escapes (sequences of <= 2 of "
                "14 atoms: plain characters, \\\\ \\n \\6 \\12 \\065 \\x41 \\z \\u{41} \\u{e9}) whose denotation TLC computes by Lua's lexical rules, + observed "
                "through as_chars; history templates in which operands are written as literals, as variables and chained; "
                "an application is non-trivial when "
                "the compiler accepted it and the program ran, distinct = distinct (expression, expected value)",
           samples=samples)
    ev.assume("the extreme numbers are aliases: the specification orders small stand-ins, the program text holds the real literals; the map is "
              "strictly increasing (checked by TLC on the stand-ins and by c19 on the real values), so only comparisons and equality use them",
              "minilua stands in for Lua 5.3 (no Lua interpreter exists in the sandbox)",
              "numbers are compared after normalising 2.0 to 2 on both sides; results outside the dyadic model (inexact quotients, division by "
              "zero, IEEE negative zero) are dropped by the specification, never judged",
              "ordered strings are over {a, b}, their order is the byte order; the strings with escapes are compared and concatenated only",
              "the globals qnan / pinf are written 0.0 / 0.0 and 1.0 / 0.0 in the program; the specification binds them to IEEE NaN and +infinity",
              "a string literal denotes what Lua 5.3's lexical rules say (SyltComposite!Denote); Sylt hands the text between the quotes to Lua",
              "the printer (AST -> Sylt text) and the rendering of expected values (c19 / util.rs render_value) are trusted")
    rc = verdicts.finish()
    ev.violations = len(verdicts.violations)
    ev.write()
    return rc
