"""C16 - compilation is deterministic.

1. TLC model-checks SyltDeterminism on its own: with an implementation that computes *some* function of its
   input the invariant Determinism (no input ever has two results) holds in every reachable state; with a
   free environment TLC must find the violation (spec-level negative control). The same run checks the
   well-formedness of the input universe Case(1..UniverseSize) (ASSUME).
2. The recorder c16 compiles every input 9 times - 6x inside one process (interleaved with all other inputs,
   fresh HashMap keys every time) and 3x in separate processes with different environments - and writes one
   record per run; TLC (Trace_Determinism) re-derives the case from its index, replays the runs as Run actions
   and prints one REJECT per input whose runs disagree. REJECT lines are the verdicts.
3. Negative control: a recorder that salts the digest of one run must be rejected for exactly those inputs.
"""
import collections
import json
import os
import re
import vlib

PID = "C16"
NRUNS = 9
REJ_FAMS_MIN_MULTI = 0.30


def signature(inp, rej):
    """From the case only: family, number of planted errors, and what differs between the two runs."""
    case = inp["case"]
    if case["fam"] == "corpus":
        return "C16|corpus:%s|-|%s" % (inp["main"], rej["what"])
    return "C16|%s|k=%d|%s" % (case["fam"], case["k"], rej["what"])


def trace_stats(recs):
    """Measurements for the evidence and the vacuity guards (not verdicts)."""
    groups = collections.OrderedDict()
    for r in recs:
        groups.setdefault(r["input"], []).append(r)
    st = {"inputs": len(groups), "classes": collections.Counter(), "unexpected_class": 0,
          "multi_inputs": 0, "multi_with_ge2_errors": 0, "multi_first_error_differs": 0,
          "families": {}, "before_min": None, "before_max": 0}
    for g, rs in groups.items():
        c0 = rs[0]
        fam = c0["fam"]
        f = st["families"].setdefault(fam, {"inputs": 0, "max_nerr": 0, "ge2": 0, "first_differs": 0, "classes": {}})
        f["inputs"] += 1
        cls = rs[0]["class"]
        st["classes"][cls] += 1
        f["classes"][cls] = f["classes"].get(cls, 0) + 1
        if c0["expect"] in ("ok", "err") and cls != c0["expect"]:
            st["unexpected_class"] += 1
        mx = max(r["nerr"] for r in rs)
        f["max_nerr"] = max(f["max_nerr"], mx)
        for r in rs:
            st["before_max"] = max(st["before_max"], r["before"])
            st["before_min"] = r["before"] if st["before_min"] is None else min(st["before_min"], r["before"])
        if c0["expect"] == "err":
            st["multi_inputs"] += 1
            firsts = {r["d_first"] for r in rs if r["class"] == "err"}
            if mx >= 2:
                st["multi_with_ge2_errors"] += 1
                f["ge2"] += 1
            if len(firsts) > 1:
                st["multi_first_error_differs"] += 1
                f["first_differs"] += 1
    st["classes"] = dict(st["classes"])
    return st, groups


def validate(wd, name, trace, inputs_path, universe, ev, verdicts, workers=8, timeout=1500):
    recs = vlib.read_ndjson(trace)
    inputs = vlib.read_ndjson(inputs_path)
    if len(recs) != NRUNS * len(inputs):
        vlib.tool_error("%s: %d records for %d inputs" % (name, len(recs), len(inputs)))
    r = vlib.tlc("MC_TraceDeterminism", cfg="MC_TraceDeterminism.cfg", wd=wd, env={"TRACE": trace, "UNIVERSE": universe},
                 tags=("REJECT",), workers=workers, timeout=timeout, out_file=os.path.join(wd, "tlc-" + name + ".out"))
    vlib.require_tlc_ok(r, "Trace_Determinism/" + name)
    rejects = list({p["input"]: p for (_, p) in r.records}.values())  # ENABLED re-evaluates PrintT
    cov = {k: v[1] for k, v in r.coverage.items() if k.startswith("Trace")}
    if cov.get("TraceInit", 0) != len(inputs) or cov.get("TraceRun", 0) != len(recs):
        vlib.tool_error("vacuity: %s replayed %s runs of %s inputs, trace has %d of %d" % (
            name, cov.get("TraceRun"), cov.get("TraceInit"), len(recs), len(inputs)))
    if cov.get("TraceAccept", 0) + cov.get("TraceReject", 0) != len(inputs) or cov.get("TraceReject", 0) != len(rejects):
        vlib.tool_error("vacuity: %s: accept+reject != inputs (%s)" % (name, cov))
    shown = collections.Counter()
    for rej in sorted(rejects, key=lambda p: p["input"]):
        inp = inputs[rej["input"] - 1]
        sig = signature(inp, rej)
        shown[sig] += 1
        a, b = rej["runs"]
        full = inp.get("full") or {}
        replay = {"spec": inp["spec"], "case": inp["case"], "main": inp["main"], "reject": rej,
                  "observations": [{k: x[k] for k in ("run", "process", "class", "digest", "nerr", "before")}
                                   for x in recs[(rej["input"] - 1) * NRUNS:rej["input"] * NRUNS]]}
        if shown[sig] <= 3:  # sources and both complete results for the first cases of every signature
            replay["files"] = inp["files"]
            replay["results"] = {"run_%d" % a: full.get(str(a)), "run_%d" % b: full.get(str(b))}
        verdicts.add(sig, "input %s: run %d (%s) and run %d (%s) of the same sources differ in %s (%d distinct results in %d runs)" % (
            inp["spec"], a, rej["procs"][0], b, rej["procs"][1], rej["what"], rej["distinct"], NRUNS), replay)
    stats, groups = trace_stats(recs)
    ev.add("states", r.distinct)
    ev.add("transitions", r.generated)
    ev.add("traces_validated_against_impl", len(inputs))
    ev.add("evaluations", len(recs))
    ev.cov.setdefault("universes", {})[name] = {
        "inputs": len(inputs), "runs": len(recs), "rejected": len(rejects), "tlc_states": r.distinct,
        "tlc_wall_s": round(r.wall_s, 1), "actions": cov, "classes": stats["classes"],
        "compilations_before_a_run_min_max": [stats["before_min"], stats["before_max"]]}
    return recs, inputs, rejects, stats


def sample_of(inp, recs):
    rs = recs[(inp["input"] - 1) * NRUNS:inp["input"] * NRUNS]
    return {"spec": inp["spec"], "case": {k: inp["case"][k] for k in ("fam", "n", "k", "ord", "pos", "sub", "errpos", "perm")},
            "main_source": inp["files"].get(inp["main"], ""), "other_files": sorted(k for k in inp["files"] if k != inp["main"]),
            "runs": ["%s:%s:%s" % (x["process"], x["class"], x["digest"]) for x in rs]}


def action_count(log, name):
    """-coverage count of an action whose line carries a location suffix (vlib's pattern expects none)."""
    pat = re.compile(r"^<%s line \d+, col \d+ to line \d+, col \d+ of module \w+(?: \([\d ]+\))?>: (\d+):(\d+)" % name)
    total = 0
    with open(log, encoding="utf-8", errors="replace") as f:
        for line in f:
            m = pat.match(line)
            if m:
                total += int(m.group(2))
    return total


def spec_selftest(wd, ev):
    r = vlib.tlc("MC_Determinism", cfg="MC_Determinism.cfg", wd=wd, workers=4, timeout=600)
    vlib.require_tlc_ok(r, "SyltDeterminism generator model (function mode)")
    steps = action_count(r.log, "Step")
    if steps == 0:
        vlib.tool_error("vacuity: spec action Step never taken")
    ev.add("states", r.distinct)
    ev.add("transitions", r.generated)
    r2 = vlib.tlc("MC_Determinism", cfg="MC_Determinism_free.cfg", wd=wd, workers=1, timeout=600,
                  out_file=os.path.join(wd, "tlc-MC_Determinism_free.out"))
    if r2.timed_out or r2.invariant_violated != "Determinism":
        vlib.tool_error("spec-level negative control: a free environment must violate Determinism, TLC said: %s" % (
            r2.invariant_violated or (r2.error or "no error")[:500]))
    ev.set(spec_model={"function_mode": {"states": r.distinct, "transitions": r.generated, "Step": steps,
                                         "invariants": ["Determinism", "HistDeterminism", "SeenIsImageOfHist", "TwoFormsAgree"],
                                         "assume": "UniverseWellFormed"},
                       "free_mode": {"violated": r2.invariant_violated, "states_until_violation": r2.distinct}})


def run(ctx):
    tier = ctx.tier
    wd = vlib.workdir(PID)
    ev = vlib.Evidence(PID, tier, "exploration")
    verdicts = vlib.Verdicts(PID)
    vlib.build_harness()

    if ctx.replay:
        rp = json.load(open(ctx.replay))["replay"]
        lst = os.path.join(wd, "replay.list")
        open(lst, "w").write("\n".join([rp["spec"]] * 8) + "\n")  # 8 x 9 runs: a chance disagreement shows almost surely
        trace, inputs = os.path.join(wd, "replay.ndjson"), os.path.join(wd, "replay-inputs.ndjson")
        vlib.harness("c16", ["record", "list", lst, trace, inputs])
        universe = "universe" if rp["spec"].startswith("u:") else "free"
        recs, inps, rejects, _ = validate(wd, "replay", trace, inputs, universe, ev, verdicts, workers=2)
        ev.set(samples=[sample_of(inps[0], recs)], distinct_nontrivial=1,
               rule="replay of one input, recorded 8 times x 9 runs")
        rc = verdicts.finish()
        ev.violations = len(verdicts.violations)
        ev.write()
        return rc

    # 1. the specification on its own (+ universe well-formedness, + spec-level negative control)
    spec_selftest(wd, ev)

    # 2. conformance: universe
    count = "600" if tier == "quick" else "all"
    t_u, i_u = os.path.join(wd, "universe.ndjson"), os.path.join(wd, "universe-inputs.ndjson")
    vlib.harness("c16", ["record", "universe", count, t_u, i_u])
    recs, inputs, rejects, stats = validate(wd, "universe", t_u, i_u, "universe", ev, verdicts)
    usize = int(vlib.harness("c16", ["size"]).stdout.strip())
    rejected_inputs = {p["input"] for p in rejects}
    samples = []
    for fam_prefix in ("ok-blob", "rej-blob-lit-fields", "rej-files", "rej-enum-variant-types"):
        for inp in inputs:
            if inp["case"]["fam"] == fam_prefix:
                samples.append(sample_of(inp, recs))
                break
    nontrivial = {inp["src_digest"] for inp, g in zip(inputs, range(1, len(inputs) + 1))
                  if recs[(g - 1) * NRUNS]["class"] == inp["case"]["expect"]}

    # 3. conformance: the corpus of /repo/tests, every file as a main file ("free" records)
    t_c, i_c = os.path.join(wd, "corpus.ndjson"), os.path.join(wd, "corpus-inputs.ndjson")
    vlib.harness("c16", ["record", "corpus", "/repo/tests", t_c, i_c])
    crecs, cinputs, crejects, cstats = validate(wd, "corpus", t_c, i_c, "free", ev, verdicts)
    corpus_nontrivial = {inp["src_digest"] for inp in cinputs}
    if cinputs:
        samples.append({"spec": cinputs[len(cinputs) // 2]["spec"],
                        "runs": ["%s:%s:%s" % (x["process"], x["class"], x["digest"])
                                 for x in crecs[(len(cinputs) // 2) * NRUNS:(len(cinputs) // 2 + 1) * NRUNS]]})

    # 4. negative control: a recorder that lies about one run of every fifth input
    t_n, i_n = os.path.join(wd, "neg.ndjson"), os.path.join(wd, "neg-inputs.ndjson")
    vlib.harness("c16", ["record", "universe", "150", t_n, i_n], env={"C16_STUB": "salt"})
    neg_v = vlib.Verdicts(PID, control=True)
    neg_v.known = []
    neg_ev = vlib.Evidence(PID, tier, "exploration")
    nrecs, ninputs, nrejects, _ = validate(wd, "negative-control", t_n, i_n, "universe", neg_ev, neg_v)
    salted = {r["input"] for r in nrecs if r.get("salted")}
    neg_rejected = {p["input"] for p in nrejects}
    salted_ok_fams = {g for g in salted if ninputs[g - 1]["case"]["expect"] == "ok"}
    if not salted or not salted_ok_fams:
        vlib.tool_error("negative control: nothing was salted")
    if not salted <= neg_rejected:
        vlib.tool_error("negative control accepted: %d inputs with one salted run were not rejected" % len(salted - neg_rejected))
    ev.set(negative_controls_rejected=len(salted & neg_rejected))

    # 5. vacuity guards
    cls = stats["classes"]
    if cls.get("ok", 0) == 0 or cls.get("err", 0) == 0:
        vlib.tool_error("vacuity: both accepted and rejected inputs must occur, classes seen: %s" % cls)
    if stats["unexpected_class"] > 0.05 * stats["inputs"]:
        vlib.tool_error("vacuity: %d of %d universe inputs did not get the class their family intends (generator out of date?)" % (
            stats["unexpected_class"], stats["inputs"]))
    multi_rate = stats["multi_with_ge2_errors"] / max(stats["multi_inputs"], 1)
    stops = sorted(f for f, v in stats["families"].items() if f.startswith("rej-") and v["max_nerr"] <= 1)
    if multi_rate < REJ_FAMS_MIN_MULTI:
        vlib.tool_error("vacuity: only %.0f%% of the multi-error inputs returned >= 2 errors" % (100 * multi_rate))
    if stats["before_max"] < 10:
        vlib.tool_error("vacuity: no run had >= 10 earlier compilations in its thread")

    ev.set(samples=samples,
           exhaustive=False,
           universe_size=usize,
           universe_fully_enumerated=(len(inputs) == usize),
           rule="inputs = Case(i) of SyltDeterminism (15 families x 18 (n,k) pairs x 4 declaration orders x 3 rotations x 2 sub-kinds = %d; "
                "quick: 40 per family, seeded; thorough: all) plus every .sy file under /repo/tests as a main file; each input is compiled "
                "9 times (6 in one process interleaved with all other inputs, 3 in separate processes with different HOME/LANG/TZ/"
                "RUST_BACKTRACE/cwd/thread count). distinct_nontrivial = distinct project texts (fnv of all files) whose first run had the "
                "class its family intends (corpus: distinct main files); hash seeds are sampled by repetition, not enumerated" % usize,
           distinct_nontrivial=len(nontrivial) + len(corpus_nontrivial),
           programs=len(inputs) + len(cinputs),
           multi_error={"inputs_with_k_planted_errors": stats["multi_inputs"],
                        "inputs_returning_ge2_errors": stats["multi_with_ge2_errors"],
                        "rate": round(multi_rate, 3),
                        "families_where_the_compiler_stops_at_the_first_error": stops,
                        "inputs_whose_runs_report_different_first_errors": stats["multi_first_error_differs"],
                        "per_family": {f: {k: v[k] for k in ("inputs", "max_nerr", "ge2", "first_differs")}
                                       for f, v in sorted(stats["families"].items()) if f.startswith("rej-")}},
           inputs_rejected_by_tlc=len(rejected_inputs) + len(crejects),
           known_findings_hit=verdicts.known_hits)
    ev.assume("TLC and the SyltDeterminism module are the reference; the recorder's FNV digests stand for the bytes "
              "(a 64-bit collision between two different results of one input would hide a violation)",
              "RandomState keys are sampled by repeating runs: an order-dependence that shows with probability p per run is missed "
              "with probability about (1-p)^8 per input; every family has >= 40 inputs per run",
              "the three separate processes differ in HOME, LANG/LC_ALL, TZ, RUST_BACKTRACE, TERM/NO_COLOR/COLUMNS, cwd, thread count "
              "and job order; other environment influences (locale files on disk, ulimits) are not varied")
    rc = verdicts.finish()
    ev.violations = len(verdicts.violations)
    ev.write()
    return rc
