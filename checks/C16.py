"""C16 - compilation is deterministic.

1. TLC model-checks SyltDeterminism on its own: with an implementation that computes *some* function of its
   input the invariant Determinism (no input ever has two results) holds in every reachable state; with a
   free environment TLC must find the violation (spec-level negative control). The same run checks the
   well-formedness of the input universe Case(1..UniverseSize) (ASSUME).
2. The recorder c16 compiles every input 9 times - 6x inside one process (interleaved with all other inputs,
   fresh HashMap keys every time) and 3x in separate processes with different environments - and writes one
   record per run; TLC (Trace_Determinism) re-derives the case from its index, replays the runs as Run actions
   and prints one REJECT per input whose runs disagree. REJECT lines are the verdicts.
3. Negative control: a recorder that salts the digest of one run must be rejected for exactly those inputs.
4. The CONTEXT of a run (SyltDetContext, Trace_DetContext): the specification makes the history of the compiling process
   (Run(input, history)) and the configuration (how the main file is named, from which directory) explicit and defines
   four more universes, each recorded from the real compiler and validated by TLC:
     hist  every program of a library (1-3 files, 0-4 std imports, name collisions with preamble imports, syntax /
           resolution / type / import errors inside ( ) [ ] { } at depth 0-6, with and without std) fresh in its own
           process, after itself, after every warm-up program W, after W,W' and as W,P,W',P - one process per history;
     long  histories of hundreds (std) / thousands (no std) of compilations in ONE thread of one process, cycling
           through accepted and rejected programs: every result must equal the first result of that input;
     path  projects written to disk that import one module both relative and rooted (sub-folders, exports.sy, errors),
           compiled by sylt::compile_with_reader_to_writer with sylt's own file reader, one process per spelling of
           the main file: bare name inside the project, ./, relative from the parent, paths with .. segments, absolute;
     seed  declarations with equal-but-not-identical keys (a member written 2-3 times), >= 256 fresh hash keys each.
     line  (SyltDetLayout) the LAYOUT of a declaration: blob / enum declarations, blob literals and case expressions whose
           members share lines in six ways (everything on one line ... one member per line), k of n members wrong in eleven
           ways; 64 (thorough 40, TLC demands >= 32) fresh hash keys each;
     pair  (SyltDetLayout) a library of 360 programs that SHARE file names, namespace ids, global names and a misspelt name
           but differ in which near names exist / what the name is / whether it resolves: every target fresh, t,t, after each
           of its 11 one-axis neighbours, after two neighbours, after a far program - one process per history; accepted
           targets deliver their Lua with -o into ONE file per process (run_file_with_reader), so a longer output precedes a
           shorter one. TLC must find HistoryIndependence violated for a "stale" implementation (an earlier DIFFERENT
           compilation leaks into one configuration) while repetition of one input stays deterministic (RepetitionIsBlind).
   Spec-level self-test: the generator model satisfies HistoryIndependence / SpellingIndependence for an implementation
   that is a function of its input, and TLC finds the violation for a "cache", a "counter" and a "spelling" implementation.
"""
import collections
import concurrent.futures
import json
import os
import re
import threading
import vlib

PID = "C16"
NRUNS = 9
REJ_FAMS_MIN_MULTI = 0.30


def signature(inp, rej):
    """From the case only: family, number of planted errors, and what differs between the two runs."""
    case = inp["case"]
    if case["fam"] == "corpus":
        return "C16|corpus:%s|-|%s" % (inp["main"], rej["what"])
    return "C16|%s|k=%d|%s" % (case["fam"], case["k"], rej["what"])


def trace_stats(recs):
    """Measurements for the evidence and the vacuity guards (not verdicts)."""
    groups = collections.OrderedDict()
    for r in recs:
        groups.setdefault(r["input"], []).append(r)
    st = {"inputs": len(groups), "classes": collections.Counter(), "unexpected_class": 0,
          "multi_inputs": 0, "multi_with_ge2_errors": 0, "multi_first_error_differs": 0,
          "families": {}, "before_min": None, "before_max": 0}
    for g, rs in groups.items():
        c0 = rs[0]
        fam = c0["fam"]
        f = st["families"].setdefault(fam, {"inputs": 0, "max_nerr": 0, "ge2": 0, "first_differs": 0, "classes": {}})
        f["inputs"] += 1
        cls = rs[0]["class"]
        st["classes"][cls] += 1
        f["classes"][cls] = f["classes"].get(cls, 0) + 1
        if c0["expect"] in ("ok", "err") and cls != c0["expect"]:
            st["unexpected_class"] += 1
        mx = max(r["nerr"] for r in rs)
        f["max_nerr"] = max(f["max_nerr"], mx)
        for r in rs:
            st["before_max"] = max(st["before_max"], r["before"])
            st["before_min"] = r["before"] if st["before_min"] is None else min(st["before_min"], r["before"])
        if c0["expect"] == "err":
            st["multi_inputs"] += 1
            firsts = {r["d_first"] for r in rs if r["class"] == "err"}
            if mx >= 2:
                st["multi_with_ge2_errors"] += 1
                f["ge2"] += 1
            if len(firsts) > 1:
                st["multi_first_error_differs"] += 1
                f["first_differs"] += 1
    st["classes"] = dict(st["classes"])
    return st, groups


def validate(wd, name, trace, inputs_path, universe, ev, verdicts, workers=8, timeout=1500):
    recs = vlib.read_ndjson(trace)
    inputs = vlib.read_ndjson(inputs_path)
    if len(recs) != NRUNS * len(inputs):
        vlib.tool_error("%s: %d records for %d inputs" % (name, len(recs), len(inputs)))
    r = vlib.tlc("MC_TraceDeterminism", cfg="MC_TraceDeterminism.cfg", wd=wd, env={"TRACE": trace, "UNIVERSE": universe},
                 tags=("REJECT",), workers=workers, timeout=timeout, out_file=os.path.join(wd, "tlc-" + name + ".out"))
    vlib.require_tlc_ok(r, "Trace_Determinism/" + name)
    rejects = list({p["input"]: p for (_, p) in r.records}.values())  # ENABLED re-evaluates PrintT
    cov = {k: v for k, v in final_coverage(r.log).items() if k.startswith("Trace")}
    if cov.get("TraceInit", 0) != len(inputs) or cov.get("TraceRun", 0) != len(recs):
        vlib.tool_error("vacuity: %s replayed %s runs of %s inputs, trace has %d of %d" % (
            name, cov.get("TraceRun"), cov.get("TraceInit"), len(recs), len(inputs)))
    if cov.get("TraceAccept", 0) + cov.get("TraceReject", 0) != len(inputs) or cov.get("TraceReject", 0) != len(rejects):
        vlib.tool_error("vacuity: %s: accept+reject != inputs (%s)" % (name, cov))
    shown = collections.Counter()
    for rej in sorted(rejects, key=lambda p: p["input"]):
        inp = inputs[rej["input"] - 1]
        sig = signature(inp, rej)
        shown[sig] += 1
        a, b = rej["runs"]
        full = inp.get("full") or {}
        replay = {"spec": inp["spec"], "case": inp["case"], "main": inp["main"], "reject": rej,
                  "observations": [{k: x[k] for k in ("run", "process", "class", "digest", "nerr", "before")}
                                   for x in recs[(rej["input"] - 1) * NRUNS:rej["input"] * NRUNS]]}
        if shown[sig] <= 3:  # sources and both complete results for the first cases of every signature
            replay["files"] = inp["files"]
            replay["results"] = {"run_%d" % a: full.get(str(a)), "run_%d" % b: full.get(str(b))}
        verdicts.add(sig, "input %s: run %d (%s) and run %d (%s) of the same sources differ in %s (%d distinct results in %d runs)" % (
            inp["spec"], a, rej["procs"][0], b, rej["procs"][1], rej["what"], rej["distinct"], NRUNS), replay)
    stats, groups = trace_stats(recs)
    ev.add("states", r.distinct)
    ev.add("transitions", r.generated)
    ev.add("traces_validated_against_impl", len(inputs))
    ev.add("evaluations", len(recs))
    ev.cov.setdefault("universes", {})[name] = {
        "inputs": len(inputs), "runs": len(recs), "rejected": len(rejects), "tlc_states": r.distinct,
        "tlc_wall_s": round(r.wall_s, 1), "actions": cov, "classes": stats["classes"],
        "compilations_before_a_run_min_max": [stats["before_min"], stats["before_max"]]}
    return recs, inputs, rejects, stats


def sample_of(inp, recs):
    rs = recs[(inp["input"] - 1) * NRUNS:inp["input"] * NRUNS]
    return {"spec": inp["spec"], "case": {k: inp["case"][k] for k in ("fam", "n", "k", "ord", "pos", "sub", "errpos", "perm")},
            "main_source": inp["files"].get(inp["main"], ""), "other_files": sorted(k for k in inp["files"] if k != inp["main"]),
            "runs": ["%s:%s:%s" % (x["process"], x["class"], x["digest"]) for x in rs]}


def final_coverage(log):
    """Action counts (total) of the LAST -coverage report of a TLC log: TLC prints an interim report every minute, and
    vlib adds all reports up - on a loaded machine a run that takes longer than a minute would count its actions twice."""
    pat = re.compile(r"^<(\w+) line \d+, col \d+ to line \d+, col \d+ of module \w+(?: \([\d ]+\))?>: (\d+):(\d+)")
    cov = {}
    with open(log, encoding="utf-8", errors="replace") as f:
        for line in f:
            if line.startswith("The coverage statistics at"):
                cov = {}
                continue
            m = pat.match(line)
            if m:
                cov[m.group(1)] = cov.get(m.group(1), 0) + int(m.group(3))
    return cov


def action_count(log, name):
    """-coverage count of an action whose line carries a location suffix (vlib's pattern expects none)."""
    pat = re.compile(r"^<%s line \d+, col \d+ to line \d+, col \d+ of module \w+(?: \([\d ]+\))?>: (\d+):(\d+)" % name)
    total = 0
    with open(log, encoding="utf-8", errors="replace") as f:
        for line in f:
            m = pat.match(line)
            if m:
                total += int(m.group(2))
    return total


def spec_selftest(wd, ev):
    r = vlib.tlc("MC_Determinism", cfg="MC_Determinism.cfg", wd=wd, workers=4, timeout=600)
    vlib.require_tlc_ok(r, "SyltDeterminism generator model (function mode)")
    steps = action_count(r.log, "Step")
    if steps == 0:
        vlib.tool_error("vacuity: spec action Step never taken")
    ev.add("states", r.distinct)
    ev.add("transitions", r.generated)
    r2 = vlib.tlc("MC_Determinism", cfg="MC_Determinism_free.cfg", wd=wd, workers=1, timeout=600,
                  out_file=os.path.join(wd, "tlc-MC_Determinism_free.out"))
    if r2.timed_out or r2.invariant_violated != "Determinism":
        vlib.tool_error("spec-level negative control: a free environment must violate Determinism, TLC said: %s" % (
            r2.invariant_violated or (r2.error or "no error")[:500]))
    ev.set(spec_model={"function_mode": {"states": r.distinct, "transitions": r.generated, "Step": steps,
                                         "invariants": ["Determinism", "HistDeterminism", "SeenIsImageOfHist", "TwoFormsAgree"],
                                         "assume": "UniverseWellFormed"},
                       "free_mode": {"violated": r2.invariant_violated, "states_until_violation": r2.distinct}})


# ------------------------------------------------------------------------------------------------------------
# The context dimensions: histories, long histories, spellings of the main file, hash seeds (SyltDetContext)

CTX_KINDS = ("hist", "long", "path", "seed", "line", "pair")
LINE_SEEDS, LINE_SEEDS_THOROUGH = 64, 40
SEEDS_QUICK, SEEDS_THOROUGH = 256, 512


def ctx_args(kind, tier):
    if kind == "hist":
        return ["all", "all"]
    if kind == "long":
        return ["400", "2500", "all"] if tier == "quick" else ["1200", "6000", "all"]
    if kind == "path":
        return ["all"]
    if kind == "line":
        return [str(LINE_SEEDS), "260"] if tier == "quick" else [str(LINE_SEEDS_THOROUGH), "all"]
    if kind == "pair":
        return ["60"] if tier == "quick" else ["all"]
    return [str(SEEDS_QUICK), "126"] if tier == "quick" else [str(SEEDS_THOROUGH), "all"]


def ctx_signature(kind, grp, rej, progs):
    """From the case and the contexts of the two disagreeing runs only."""
    if kind in ("hist", "long"):
        p = progs[rej["input"] - 1]
        cls = p["err"] if p["collide"] == "-" else "collide"
        if kind == "hist":
            return "C16|history|%s|%s" % (cls, rej["what"])
        return "C16|long-history|%s|%s|%s" % ("no-std" if p["nostd"] else "std", cls, rej["what"])
    if kind == "path":
        return "C16|spelling|%s|shape=%d|%s" % (rej["ctx_b"]["spelling"], grp["case"]["shape"], rej["what"])
    if kind == "line":
        return "C16|layout|%s|layout=%d|%s" % (grp["case"]["fam"], grp["case"]["layout"], rej["what"])
    if kind == "pair":
        p = progs[rej["input"] - 1]
        return "C16|shared-names|%s|kind=%d|site=%d|%s|%s" % (p["expect"], p["kind"], p["site"], rej["ctx_b"]["cfg"], rej["what"])
    return "C16|hash-seed|%s|m=%d|%s" % (grp["case"]["fam"], grp["case"]["m"], rej["what"])


def ctx_describe(kind, grp, rej, progs):
    a, b = rej["ctx_a"], rej["ctx_b"]
    if kind == "hist":
        name = progs[rej["input"] - 1]["name"]
        hist = lambda c: "fresh" if not c["before"] else "after " + ", ".join(progs[i - 1]["name"] for i in c["before"])
        return "program %s compiled %s and %s (one process each) differs in %s" % (name, hist(a), hist(b), rej["what"])
    if kind == "long":
        return "long history %s: compilation %d and compilation %d of program %s in the same thread differ in %s" % (
            grp["spec"], a["step"], b["step"], progs[rej["input"] - 1]["name"], rej["what"])
    if kind == "path":
        return "disk project %s: `cd %s; sylt %s` and `cd %s; sylt %s` differ in %s" % (
            grp["spec"], a["cwd"], a["arg"], b["cwd"], b["arg"], rej["what"])
    if kind == "pair":
        hist = lambda c: ("fresh" if not c["before"] else "after " + ", ".join("x:%d" % i for i in c["before"])) + " (%s)" % c["cfg"]
        return "program x:%d %s compiled %s and %s (one process each) differs in %s" % (
            rej["input"], json.dumps({k: v for k, v in progs[rej["input"] - 1].items() if k not in ("source_files", "id")}, sort_keys=True),
            hist(a), hist(b), rej["what"])
    return "input %s (%s): run %d and run %d under different hash keys differ in %s (%d distinct results in %d runs)" % (
        grp["spec"], grp["case"]["fam"], a["run"], b["run"], rej["what"], rej["distinct"], grp["n"])


def record_ctx(kind, outdir, args, env=None):
    os.makedirs(outdir, exist_ok=True)
    vlib.harness("c16", ["ctx", kind, outdir] + list(args), env=env)
    rd = lambda f: vlib.read_ndjson(os.path.join(outdir, f))
    return rd(kind + ".ndjson"), rd(kind + "-groups.ndjson"), rd(kind + "-full.ndjson"), rd(progs_file(kind))


def progs_file(kind):
    return "xprogs.ndjson" if kind == "pair" else "progs.ndjson"


def tlc_ctx(wd, name, kind, outdir, workers=4, timeout=3000):
    return vlib.tlc("MC_TraceDetContext", cfg="MC_TraceDetContext.cfg", wd=wd,
                    env={"TRACE": os.path.join(outdir, kind + ".ndjson"), "GROUPS": os.path.join(outdir, kind + "-groups.ndjson"),
                         "PROGS": os.path.join(outdir, progs_file(kind)), "KIND": kind},
                    tags=("REJECT",), workers=workers, timeout=timeout, out_file=os.path.join(wd, "tlc-" + name + ".out"))


_recorder_lock = threading.Lock()


def prefetch_ctx(wd, prefix, kind, args, env=None, workers=2):
    """Recorder + TLC of one context universe in directories of its own. The TLC runs overlap (two or three at a time),
    the recorders do not (each of them uses every core and, in the thorough tier, a lot of memory)."""
    outdir = os.path.join(wd, prefix + "-" + kind)
    with _recorder_lock:
        data = record_ctx(kind, outdir, args, env=env)
    return outdir, data, tlc_ctx(outdir, prefix + "-" + kind, kind, outdir, workers=workers)


def validate_ctx(wd, name, kind, outdir, data, ev, verdicts, workers=4, timeout=1500, r=None):
    recs, groups, fulls, progs = data
    if r is None:
        r = tlc_ctx(wd, name, kind, outdir, workers=workers, timeout=timeout)
    vlib.require_tlc_ok(r, "Trace_DetContext/" + name)
    rejects = list({p["g"]: p for (_, p) in r.records}.values())  # ENABLED re-evaluates PrintT
    cov = {k: v for k, v in final_coverage(r.log).items() if k.startswith("Trace")}
    if cov.get("TraceInit", 0) != len(groups) or cov.get("TraceRun", 0) != len(recs):
        vlib.tool_error("vacuity: %s replayed %s runs of %s groups, trace has %d of %d" % (
            name, cov.get("TraceRun"), cov.get("TraceInit"), len(recs), len(groups)))
    if cov.get("TraceAccept", 0) + cov.get("TraceReject", 0) != len(groups) or cov.get("TraceReject", 0) != len(rejects):
        vlib.tool_error("vacuity: %s: accept+reject != groups (%s)" % (name, cov))
    full_at = {(f["g"], f["j"]): f["full"] for f in fulls if not f.get("reference")}
    full_ref = {}
    for f in fulls:
        if f.get("reference"):
            full_ref.setdefault((f.get("g", 0), f["input"]), f["full"])
    shown = collections.Counter()
    for rej in sorted(rejects, key=lambda p: p["g"]):
        grp = groups[rej["g"] - 1]
        sig = ctx_signature(kind, grp, rej, progs)
        shown[sig] += 1
        a, b = rej["runs"]
        res = lambda j: full_at.get((grp["g"], j)) or full_ref.get((grp["g"], rej["input"])) or full_ref.get((0, rej["input"]))
        replay = {"kind": kind, "spec": grp["spec"], "reject": rej}
        if "case" in grp:
            replay["case"] = grp["case"]
        if kind in ("hist", "long"):
            replay["program"] = {k: v for k, v in progs[rej["input"] - 1].items() if k != "source_files"}
            replay["history_a"] = [progs[i - 1]["name"] for i in rej["ctx_a"].get("before", [])]
            replay["history_b"] = [progs[i - 1]["name"] for i in rej["ctx_b"].get("before", [])]
        if kind == "pair":
            replay["program"] = {k: v for k, v in progs[rej["input"] - 1].items() if k != "source_files"}
            replay["history_a"] = ["x:%d" % i for i in rej["ctx_a"].get("before", [])]
            replay["history_b"] = ["x:%d" % i for i in rej["ctx_b"].get("before", [])]
            replay["sources_of_the_histories"] = {"x:%d" % i: progs[i - 1]["source_files"]
                                                  for i in set(rej["ctx_a"].get("before", []) + rej["ctx_b"].get("before", []))}
        if kind in ("seed", "line"):
            replay["digest_counts"] = grp.get("digest_counts")
        if shown[sig] <= 3:
            replay["files"] = grp.get("files") or progs[rej["input"] - 1]["source_files"]
            replay["results"] = {"run_%d" % a: res(a), "run_%d" % b: res(b)}
        verdicts.add(sig, ctx_describe(kind, grp, rej, progs), replay)
    ev.add("states", r.distinct)
    ev.add("transitions", r.generated)
    ev.add("traces_validated_against_impl", len(groups))
    ev.add("evaluations", len(recs))
    ev.cov.setdefault("universes", {})[name] = {
        "groups": len(groups), "runs": len(recs), "rejected": len(rejects), "tlc_states": r.distinct,
        "tlc_wall_s": round(r.wall_s, 1), "actions": cov, "classes": dict(collections.Counter(x["class"] for x in recs))}
    return rejects


def ctx_guards(kind, data, tier):
    """Vacuity guards of the context universes (tool errors, never verdicts). Returns measurements for the evidence."""
    recs, groups, fulls, progs = data
    m = {}
    if kind == "hist":
        fresh = {}
        for g in groups:
            fresh[g["key"]] = recs[g["first"] - 1]
        wrong = [progs[t - 1]["name"] for t, r in fresh.items() if r["class"] != progs[t - 1]["expect"]]
        if wrong:
            vlib.tool_error("vacuity: library programs that do not get the class they are built for: %s" % wrong)
        in_preamble = 0
        for f in fulls:
            if f.get("reference") and progs[f["input"] - 1]["err"] == "collide" and f["full"]:
                errs = f["full"].get("errors") or []
                if errs and errs[0]["file"] == "lib:preamble":
                    in_preamble += 1
        if in_preamble == 0:
            vlib.tool_error("vacuity: no name collision is reported at a location inside the preamble")
        lens = collections.Counter(len(r["before"]) for r in recs)
        if not all(lens.get(k) for k in (0, 1, 2, 3)):
            vlib.tool_error("vacuity: histories of length 0..3 must all occur: %s" % dict(lens))
        m = {"targets": len(groups), "processes": sum(1 for r in recs if r["step"] == 1),
             "compilations_by_history_length": {str(k): v for k, v in sorted(lens.items())},
             "collisions_located_in_preamble": in_preamble,
             "warm_up_programs": [p["name"] for p in progs if p["warm"]]}
    elif kind == "long":
        per = {}
        for g in groups:
            rs = recs[g["first"] - 1:g["first"] - 1 + g["n"]]
            occ = collections.Counter(r["prog"] for r in rs)
            syn = sum(1 for r in rs if progs[r["prog"] - 1]["err"] == "syntax")
            if min(occ.values()) < 2:
                vlib.tool_error("vacuity: a program occurs once in long history %s" % g["spec"])
            if len({r["class"] for r in rs}) < 2:
                vlib.tool_error("vacuity: long history %s does not mix accepted and rejected programs" % g["spec"])
            per[g["spec"]] = {"compilations": g["n"], "programs": len(occ), "syntax_error_compilations": syn,
                              "bracket_levels_around_syntax_errors": sum(progs[r["prog"] - 1]["depth"] for r in rs
                                                                         if progs[r["prog"] - 1]["err"] == "syntax")}
        if max(v["syntax_error_compilations"] for v in per.values()) < 100:
            vlib.tool_error("vacuity: no long history has >= 100 compilations with a syntax error inside brackets")
        m = per
    elif kind == "path":
        wrong = [g["spec"] for g in groups if recs[g["first"] - 1]["class"] != g["case"]["expect"]]
        if wrong:
            vlib.tool_error("vacuity: disk projects whose reference spelling does not get the intended class: %s" % wrong)
        m = {"projects": len(groups), "spellings": sorted({r["spelling"] for r in recs}),
             "accepted_projects": sum(1 for g in groups if g["case"]["expect"] == "ok")}
    elif kind == "line":
        n = min(g["n"] for g in groups)
        if n < 32:
            vlib.tool_error("vacuity: fewer than 32 hash seeds per layout case")
        wrong = [g["spec"] for g in groups if recs[g["first"] - 1]["class"] != g["case"]["expect"]]
        if wrong:
            vlib.tool_error("vacuity: layout cases that do not get the class they are built for: %s" % wrong[:20])
        fams = collections.defaultdict(lambda: {"cases": 0, "two_erroneous_members_on_one_line": 0, "layouts": set()})
        for g in groups:
            f = fams[g["case"]["fam"]]
            f["cases"] += 1
            f["layouts"].add(g["case"]["layout"])
            if g["case"]["same"] >= 2:
                f["two_erroneous_members_on_one_line"] += 1
        if len(fams) != 13:
            vlib.tool_error("vacuity: layout families missing: %s" % sorted(fams))
        thin = [f for f, v in fams.items() if v["two_erroneous_members_on_one_line"] < 3 or len(v["layouts"]) < 5]
        if thin and len(groups) >= 200:
            vlib.tool_error("vacuity: families with < 3 cases that put two erroneous members on one line / < 5 layouts: %s" % thin)
        m = {"cases": len(groups), "seeds_per_case": n,
             "cases_with_two_erroneous_members_on_one_line": sum(v["two_erroneous_members_on_one_line"] for v in fams.values()),
             "per_family": {f: {"cases": v["cases"], "two_erroneous_members_on_one_line": v["two_erroneous_members_on_one_line"],
                                "layouts": sorted(v["layouts"])} for f, v in sorted(fams.items())}}
    elif kind == "pair":
        lens = collections.Counter()
        cfgs = collections.Counter()
        longer_first = 0
        fresh_size = {r["prog"]: r["size"] for r in recs if r["step"] == 1}     # first compilation of a process
        for g in groups:
            rs = recs[g["first"] - 1:g["first"] - 1 + g["n"]]
            if rs[0]["class"] != g["case"]["expect"]:
                vlib.tool_error("vacuity: library program %s does not get the class it is built for" % g["spec"])
            for r in rs:
                if r["step"] == 1 and r["class"] != progs[r["prog"] - 1]["expect"]:
                    vlib.tool_error("vacuity: library program x:%d does not get the class it is built for" % r["prog"])
                lens[len(r["before"])] += 1
                cfgs[r["cfg"]] += 1
            # -o FILE: an accepted program written after another accepted program of the same process
            for a, b in zip(rs, rs[1:]):
                if (b["step"] == a["step"] + 1 and b["cfg"] == "ofile" and a["class"] == "ok" and b["class"] == "ok"
                        and fresh_size[a["prog"]] > fresh_size[b["prog"]]):
                    longer_first += 1
        if not all(lens.get(k) for k in (0, 1, 2, 3)):
            vlib.tool_error("vacuity: histories of length 0..3 must all occur: %s" % dict(lens))
        if not cfgs.get("ofile") or not cfgs.get("writer"):
            vlib.tool_error("vacuity: both output configurations must occur: %s" % dict(cfgs))
        if longer_first < 5:
            vlib.tool_error("vacuity: fewer than 5 compilations write their Lua with -o over the LONGER Lua of the compilation before")
        m = {"targets": len(groups), "library": len(progs), "processes": sum(1 for r in recs if r["step"] == 1) ,
             "compilations_by_history_length": {str(k): v for k, v in sorted(lens.items())},
             "compilations_by_output_configuration": dict(cfgs),
             "shorter_lua_written_with_o_over_a_longer_one": longer_first}
    else:
        n = min(g["n"] for g in groups)
        fams = collections.defaultdict(collections.Counter)
        for g in groups:
            fams[g["case"]["fam"]][recs[g["first"] - 1]["class"]] += 1
        if n < 200:
            vlib.tool_error("vacuity: fewer than 200 hash seeds per input")
        if len(fams) != 7:
            vlib.tool_error("vacuity: seed families missing: %s" % sorted(fams))
        det = {}
        for p in (0.005, 0.0078, 0.016, 0.05):
            one = 1 - (1 - p) ** n - p ** n
            per_fam = min(sum(v.values()) for v in fams.values())
            det["p=%g" % p] = {"one_input": round(one, 4), "family_of_%d_inputs" % per_fam: round(1 - (1 - one) ** per_fam, 6)}
        m = {"inputs": len(groups), "seeds_per_input": n, "first_run_classes_per_family": {f: dict(c) for f, c in sorted(fams.items())},
             "detection_probability_for_a_per_run_effect": det}
    return m


def context_spec_selftest(wd, ev):
    r = vlib.tlc("MC_DetContext", cfg="MC_DetContext.cfg", wd=wd, workers=4, timeout=600)
    vlib.require_tlc_ok(r, "SyltDetContext generator model (function mode)")
    steps = action_count(r.log, "CStep")
    if steps == 0:
        vlib.tool_error("vacuity: spec action CStep never taken")
    ev.add("states", r.distinct)
    ev.add("transitions", r.generated)
    out = {"function_mode": {"states": r.distinct, "transitions": r.generated, "CStep": steps,
                             "invariants": ["Determinism", "HistDeterminism", "HistoryIndependence", "SpellingIndependence",
                                            "ContextFormsFollow", "SeenIsImageOfHist", "TwoFormsAgree"],
                             "assume": "ContextUniverseWellFormed"}}
    modes = (("cache", "HistoryIndependence"), ("counter", "HistoryIndependence"), ("spelling", "SpellingIndependence"))
    with concurrent.futures.ThreadPoolExecutor(max_workers=4) as ex:
        futs = {mode: ex.submit(vlib.tlc, "MC_DetContext", cfg="MC_DetContext_%s.cfg" % mode, wd=wd, workers=1, timeout=600,
                                out_file=os.path.join(wd, "tlc-MC_DetContext_%s.out" % mode)) for mode, _ in modes}
        futs["stale"] = ex.submit(vlib.tlc, "MC_DetLayout", cfg="MC_DetLayout_stale.cfg", wd=wd, workers=1, timeout=600,
                                  out_file=os.path.join(wd, "tlc-MC_DetLayout_stale.out"))
        futs["blind"] = ex.submit(vlib.tlc, "MC_DetLayout", cfg="MC_DetLayout_blind.cfg", wd=wd, workers=1, timeout=600,
                                  out_file=os.path.join(wd, "tlc-MC_DetLayout_blind.out"))
        res = {k: f.result() for k, f in futs.items()}
    for mode, inv in modes:
        r2 = res[mode]
        if r2.timed_out or r2.invariant_violated != inv:
            vlib.tool_error("spec-level negative control: a %s implementation must violate %s, TLC said: %s" % (
                mode, inv, r2.invariant_violated or (r2.error or "no error")[:500]))
        out[mode + "_mode"] = {"violated": r2.invariant_violated, "states_until_violation": r2.distinct}
    # SyltDetLayout: the "stale" implementation class (+ ASSUME LayoutUniverseWellFormed in both runs)
    r3 = res["stale"]
    if r3.timed_out or r3.invariant_violated != "HistoryIndependence":
        vlib.tool_error("spec-level negative control: a stale implementation must violate HistoryIndependence, TLC said: %s" % (
            r3.invariant_violated or (r3.error or "no error")[:500]))
    r4 = res["blind"]
    vlib.require_tlc_ok(r4, "SyltDetLayout: RepetitionIsBlind for the stale implementation")
    if action_count(r4.log, "LStep") == 0:
        vlib.tool_error("vacuity: spec action LStep never taken")
    ev.add("states", r4.distinct)
    ev.add("transitions", r4.generated)
    out["stale_mode"] = {"violated": r3.invariant_violated, "states_until_violation": r3.distinct,
                         "holds_nevertheless": ["RepetitionIsBlind", "SeenIsImageOfHist", "TwoFormsAgree", "ContextFormsFollow"],
                         "states": r4.distinct, "assume": "LayoutUniverseWellFormed"}
    ev.set(context_spec_model=out)


NEG_CTX_ARGS = {"hist": ["required", "7,8,15,20"], "long": ["200", "2000", "2,5"], "path": ["1,2,3,20,40,60"],
                "seed": ["200", "ids:1,2,3,4,5,6,7,8,9"], "line": ["32", "ids:1,15,120,1300,2650,4000"], "pair": ["ids:1,5,105"]}


def context_negative_controls(wd, tier):
    """A recorder that salts one digest of some groups: TLC must reject every salted group."""
    n = 0
    with concurrent.futures.ThreadPoolExecutor(max_workers=3) as ex:
        futs = {kind: ex.submit(prefetch_ctx, wd, "neg", kind, NEG_CTX_ARGS[kind], {"C16_STUB": "salt"}, 1) for kind in CTX_KINDS}
        pre = {kind: f.result() for kind, f in futs.items()}
    for kind in CTX_KINDS:
        outdir, data, r = pre[kind]
        neg_v = vlib.Verdicts(PID, control=True)
        neg_v.known = []
        rej = validate_ctx(wd, "negative-control-" + kind, kind, outdir, data, vlib.Evidence(PID, tier, "exploration"), neg_v, r=r)
        salted = {g["g"] for g in data[1] if g.get("salted")}
        if not salted:
            vlib.tool_error("negative control (%s): nothing was salted" % kind)
        if not salted <= {p["g"] for p in rej}:
            vlib.tool_error("negative control accepted: %s groups with one salted run were not rejected" % kind)
        n += len(salted)
    return n


def run(ctx):
    tier = ctx.tier
    wd = vlib.workdir(PID)
    ev = vlib.Evidence(PID, tier, "exploration")
    verdicts = vlib.Verdicts(PID)
    vlib.build_harness()

    if ctx.replay and json.load(open(ctx.replay))["replay"].get("kind") in CTX_KINDS:
        rp = json.load(open(ctx.replay))["replay"]
        kind, key = rp["kind"], rp["spec"].split(":")[1]
        args = {"hist": ["all", key], "long": ["1200", "6000", key], "path": [key], "seed": ["2048", "ids:" + key],
                "line": ["512", "ids:" + key], "pair": ["ids:" + key]}[kind]
        outdir = os.path.join(wd, "replay-" + kind)
        data = record_ctx(kind, outdir, args)
        validate_ctx(wd, "replay", kind, outdir, data, ev, verdicts, workers=2)
        ev.set(samples=[{"spec": rp["spec"], "kind": kind, "runs": len(data[0])}], distinct_nontrivial=1,
               rule="replay of one %s group" % kind)
        rc = verdicts.finish()
        ev.violations = len(verdicts.violations)
        ev.write()
        return rc

    if ctx.replay:
        rp = json.load(open(ctx.replay))["replay"]
        lst = os.path.join(wd, "replay.list")
        open(lst, "w").write("\n".join([rp["spec"]] * 8) + "\n")  # 8 x 9 runs: a chance disagreement shows almost surely
        trace, inputs = os.path.join(wd, "replay.ndjson"), os.path.join(wd, "replay-inputs.ndjson")
        vlib.harness("c16", ["record", "list", lst, trace, inputs])
        universe = "universe" if rp["spec"].startswith("u:") else "free"
        recs, inps, rejects, _ = validate(wd, "replay", trace, inputs, universe, ev, verdicts, workers=2)
        ev.set(samples=[sample_of(inps[0], recs)], distinct_nontrivial=1,
               rule="replay of one input, recorded 8 times x 9 runs")
        rc = verdicts.finish()
        ev.violations = len(verdicts.violations)
        ev.write()
        return rc

    # 1. the specification on its own (+ universe well-formedness, + spec-level negative control)
    spec_selftest(wd, ev)
    context_spec_selftest(wd, ev)

    # 2. conformance: universe
    count = "600" if tier == "quick" else "all"
    t_u, i_u = os.path.join(wd, "universe.ndjson"), os.path.join(wd, "universe-inputs.ndjson")
    vlib.harness("c16", ["record", "universe", count, t_u, i_u])
    recs, inputs, rejects, stats = validate(wd, "universe", t_u, i_u, "universe", ev, verdicts)
    usize = int(vlib.harness("c16", ["size"]).stdout.strip())
    sizes = json.loads(vlib.harness("c16", ["sizes"]).stdout)
    rejected_inputs = {p["input"] for p in rejects}
    samples = []
    for fam_prefix in ("ok-blob", "rej-blob-lit-fields", "rej-files", "rej-enum-variant-types"):
        for inp in inputs:
            if inp["case"]["fam"] == fam_prefix:
                samples.append(sample_of(inp, recs))
                break
    nontrivial = {inp["src_digest"] for inp, g in zip(inputs, range(1, len(inputs) + 1))
                  if recs[(g - 1) * NRUNS]["class"] == inp["case"]["expect"]}

    # 3. conformance: the corpus of /repo/tests, every file as a main file ("free" records)
    t_c, i_c = os.path.join(wd, "corpus.ndjson"), os.path.join(wd, "corpus-inputs.ndjson")
    vlib.harness("c16", ["record", "corpus", "/repo/tests", t_c, i_c])
    crecs, cinputs, crejects, cstats = validate(wd, "corpus", t_c, i_c, "free", ev, verdicts)
    corpus_nontrivial = {inp["src_digest"] for inp in cinputs}
    if cinputs:
        samples.append({"spec": cinputs[len(cinputs) // 2]["spec"],
                        "runs": ["%s:%s:%s" % (x["process"], x["class"], x["digest"])
                                 for x in crecs[(len(cinputs) // 2) * NRUNS:(len(cinputs) // 2 + 1) * NRUNS]]})

    # 3b. conformance: the context universes (histories, long histories, spellings, hash seeds)
    ctx_meas, ctx_inputs, ctx_rejected = {}, 0, 0
    with concurrent.futures.ThreadPoolExecutor(max_workers=2) as ex:
        futs = {kind: ex.submit(prefetch_ctx, wd, "ctx", kind, ctx_args(kind, tier)) for kind in CTX_KINDS}
        pre = {kind: f.result() for kind, f in futs.items()}
    for kind in CTX_KINDS:
        outdir, data, r = pre[kind]
        rej = validate_ctx(wd, kind, kind, outdir, data, ev, verdicts, r=r)
        ctx_meas[kind] = ctx_guards(kind, data, tier)
        ctx_rejected += len(rej)
        ctx_inputs += len(data[3]) if kind in ("hist", "pair") else (0 if kind == "long" else len(data[1]))
        if kind == "hist":
            g = data[1][7]
            samples.append({"spec": g["spec"], "kind": "hist", "program": data[3][g["key"] - 1]["name"],
                            "main_source": data[3][g["key"] - 1]["source_files"]["main.sy"],
                            "runs": ["after %s: %s:%s" % ([data[3][i - 1]["name"] for i in x["before"]], x["class"], x["digest"])
                                     for x in data[0][g["first"] - 1:g["first"] + 5]]})
        elif kind == "path":
            g = data[1][0]
            samples.append({"spec": g["spec"], "kind": "path", "files": sorted(g["files"]),
                            "runs": ["cd %s; sylt %s: %s:%s" % (x["cwd"], x["arg"], x["class"], x["digest"])
                                     for x in data[0][g["first"] - 1:g["first"] - 1 + g["n"]]]})
        elif kind in ("seed", "line"):
            g = data[1][0] if kind == "seed" else next((x for x in data[1] if x["case"]["same"] >= 2 and x["case"]["layout"] >= 2), data[1][0])
            samples.append({"spec": g["spec"], "kind": kind, "case": g["case"], "main_source": g["files"]["main.sy"],
                            "digest_counts": g["digest_counts"]})
        elif kind == "pair":
            g = data[1][0]
            samples.append({"spec": g["spec"], "kind": "pair", "program": g["case"],
                            "main_source": data[3][g["key"] - 1]["source_files"]["main.sy"],
                            "runs": ["after %s (%s): %s:%s" % (["x:%d" % i for i in x["before"]], x["cfg"], x["class"], x["digest"])
                                     for x in data[0][g["first"] - 1:g["first"] + 7] if x["prog"] == g["key"]]})

    # 4. negative control: a recorder that lies about one run of every fifth input
    t_n, i_n = os.path.join(wd, "neg.ndjson"), os.path.join(wd, "neg-inputs.ndjson")
    vlib.harness("c16", ["record", "universe", "150", t_n, i_n], env={"C16_STUB": "salt"})
    neg_v = vlib.Verdicts(PID, control=True)
    neg_v.known = []
    neg_ev = vlib.Evidence(PID, tier, "exploration")
    nrecs, ninputs, nrejects, _ = validate(wd, "negative-control", t_n, i_n, "universe", neg_ev, neg_v)
    salted = {r["input"] for r in nrecs if r.get("salted")}
    neg_rejected = {p["input"] for p in nrejects}
    salted_ok_fams = {g for g in salted if ninputs[g - 1]["case"]["expect"] == "ok"}
    if not salted or not salted_ok_fams:
        vlib.tool_error("negative control: nothing was salted")
    if not salted <= neg_rejected:
        vlib.tool_error("negative control accepted: %d inputs with one salted run were not rejected" % len(salted - neg_rejected))
    ctx_neg = context_negative_controls(wd, tier)
    ev.set(negative_controls_rejected=len(salted & neg_rejected) + ctx_neg)

    # 5. vacuity guards
    cls = stats["classes"]
    if cls.get("ok", 0) == 0 or cls.get("err", 0) == 0:
        vlib.tool_error("vacuity: both accepted and rejected inputs must occur, classes seen: %s" % cls)
    if stats["unexpected_class"] > 0.05 * stats["inputs"]:
        vlib.tool_error("vacuity: %d of %d universe inputs did not get the class their family intends (generator out of date?)" % (
            stats["unexpected_class"], stats["inputs"]))
    multi_rate = stats["multi_with_ge2_errors"] / max(stats["multi_inputs"], 1)
    stops = sorted(f for f, v in stats["families"].items() if f.startswith("rej-") and v["max_nerr"] <= 1)
    if multi_rate < REJ_FAMS_MIN_MULTI:
        vlib.tool_error("vacuity: only %.0f%% of the multi-error inputs returned >= 2 errors" % (100 * multi_rate))
    if stats["before_max"] < 10:
        vlib.tool_error("vacuity: no run had >= 10 earlier compilations in its thread")

    ev.set(samples=samples,
           exhaustive=False,
           universe_size=usize,
           universe_fully_enumerated=(len(inputs) == usize),
           rule="inputs = Case(i) of SyltDeterminism (15 families x 18 (n,k) pairs x 4 declaration orders x 3 rotations x 2 sub-kinds = %d; "
                "quick: 40 per family, seeded; thorough: all) plus every .sy file under /repo/tests as a main file; each input is compiled "
                "9 times (6 in one process interleaved with all other inputs, 3 in separate processes with different HOME/LANG/TZ/"
                "RUST_BACKTRACE/cwd/thread count). distinct_nontrivial = distinct project texts (fnv of all files) whose first run had the "
                "class its family intends (corpus: distinct main files); hash seeds are sampled by repetition, not enumerated. "
                "Context universes of SyltDetContext (all index-addressed in TLA+, every recorded context re-derived by TLC): hist = %d "
                "library programs x %d process histories (fresh; P,P,P; W,P; W,W',P; W,P,W',P for %d warm-up programs W), one process per "
                "history; long = %d histories of 400/2500 (thorough 1200/6000) compilations in one thread; path = %d disk projects "
                "(rooted and relative imports of one module, sub-folders, exports.sy, 3 error kinds) x %d spellings of the main file / "
                "working directories, one process each, errors compared with file names normalised; seed = %d declarations with a "
                "member written 2-3 times (quick: 126, stratified), each compiled under %d (thorough %d) fresh hash keys; "
                "line = %d layout cases of SyltDetLayout (%d families x 9 (n,k) x %d layouts x 4 orders x 2 rotations; quick: 20 per "
                "family), %d (thorough %d) fresh hash keys each; pair = %d name-sharing programs, every target (quick: 60, stratified by the near "
                "names it defines) in %d process histories (fresh into a writer and with -o; t,t; after each of %d one-axis neighbours; "
                "after two neighbours; after a far program), accepted targets through -o into one file per process" % (
                    usize, sizes["progs"], sizes["shapes"], sizes["warm"], sizes["long"], sizes["disk"], sizes["spellings"],
                    sizes["seed_cases"], SEEDS_QUICK, SEEDS_THOROUGH, sizes["line_cases"], sizes["line_fams"], sizes["layouts"],
                    LINE_SEEDS, LINE_SEEDS_THOROUGH, sizes["xprogs"], sizes["pair_shapes"], sizes["x_neighbours"]),
           distinct_nontrivial=len(nontrivial) + len(corpus_nontrivial) + ctx_inputs,
           programs=len(inputs) + len(cinputs) + ctx_inputs,
           context_universes=ctx_meas,
           multi_error={"inputs_with_k_planted_errors": stats["multi_inputs"],
                        "inputs_returning_ge2_errors": stats["multi_with_ge2_errors"],
                        "rate": round(multi_rate, 3),
                        "families_where_the_compiler_stops_at_the_first_error": stops,
                        "inputs_whose_runs_report_different_first_errors": stats["multi_first_error_differs"],
                        "per_family": {f: {k: v[k] for k in ("inputs", "max_nerr", "ge2", "first_differs")}
                                       for f, v in sorted(stats["families"].items()) if f.startswith("rej-")}},
           inputs_rejected_by_tlc=len(rejected_inputs) + len(crejects) + ctx_rejected,
           known_findings_hit=verdicts.known_hits)
    ev.assume("-o FILE is driven through sylt::run_file_with_reader (what the binary calls) with an in-memory reader; all compilations "
              "of one process write to the same path, the Lua compared is what the file holds afterwards",
              "on-disk projects are compiled through sylt::compile_with_reader_to_writer with sylt::read_file (what the sylt binary "
              "calls) in a child process whose cwd and argument are the spelling; the binary's own argument parsing is not exercised",
              "for on-disk projects the spelling of file names inside errors may follow the spelling of the main file: error kinds, "
              "lines, columns, order and texts are compared after colour codes are removed and every *.sy path is normalised",
              "a per-run effect of probability p on a hash-keyed structure is seen in one input with probability 1-(1-p)^N-p^N "
              "(N seeds per input; table in coverage.context_universes.seed)",
              "TLC and the SyltDeterminism module are the reference; the recorder's FNV digests stand for the bytes "
              "(a 64-bit collision between two different results of one input would hide a violation)",
              "RandomState keys are sampled by repeating runs: an order-dependence that shows with probability p per run is missed "
              "with probability about (1-p)^8 per input; every family has >= 40 inputs per run",
              "the three separate processes differ in HOME, LANG/LC_ALL, TZ, RUST_BACKTRACE, TERM/NO_COLOR/COLUMNS, cwd, thread count "
              "and job order; other environment influences (locale files on disk, ulimits) are not varied")
    rc = verdicts.finish()
    ev.violations = len(verdicts.violations)
    ev.write()
    return rc
