"""C10 - function activations and closures do not interfere (re-entrancy).

(a) The recursion/closure-dense part of SyltGen's universe (expressions evaluated live across a recursive call on
    either side, in closures created per loop iteration, in blob methods; closure/counter/iterclo/casebindclo/
    nestedfn/twice/applyn templates everywhere) is executed by the reference semantics (TLC, SyltSem) and the
    compiled program's trace must equal the specified one.
(b) The interpreter's activation event log of every such run is validated by TLC against SyltActivation:
    NoInterference (no activation reads a global temporary last written by another activation) is evaluated at
    every event, so a shared temporary is caught even when the clobbered value never reaches a print.
"""
import importlib.util
import os
import vlib

PID = "C10"
DENSE = {"capture", "iife", "counter", "nestedfn", "twice", "rec", "iterclo", "casebindclo", "applyn", "meth",
         "fldthencall", "earlyret", "loopsum", "fold", "lmap", "lfilter", "bumpg", "ifx", "ifelif", "casex", "caseelse",
         "and", "or", "sif", "tick", "callinc"}


def load_c01():
    spec = importlib.util.spec_from_file_location("c01", os.path.join(vlib.ROOT, "checks", "C01.py"))
    m = importlib.util.module_from_spec(spec)
    spec.loader.exec_module(m)
    return m


def run(ctx):
    tier = ctx.tier
    wd = vlib.workdir(PID)
    ev = vlib.Evidence(PID, tier, "model_checking")
    verdicts = vlib.Verdicts(PID)
    c01 = load_c01()

    # spec self-test: SyltActivation alone; the invariant must hold for StackOk and be violable for NoInterference
    r0 = vlib.tlc("MC_Activation", cfg="MC_Activation.cfg", wd=wd, workers=4, timeout=600)
    vlib.require_tlc_ok(r0, "SyltActivation model")
    r1 = vlib.tlc("MC_Activation", cfg="MC_Activation_neg.cfg", wd=wd, workers=4, timeout=600,
                  out_file=os.path.join(wd, "tlc-act-neg.out"))
    if r1.invariant_violated != "NoInterference":
        vlib.tool_error("spec self-test: NoInterference is not violable in the free model (vacuous invariant?)")
    ev.set(spec_model={"states": r0.distinct, "actions": {k: v[1] for k, v in r0.coverage.items()}})

    if ctx.replay:
        import json
        cases = [json.load(open(ctx.replay))["replay"]]
    else:
        r = vlib.tlc("MC_Sem", wd=wd, env={"MODE": "pairs"}, timeout=2400, xmx="16g", workers=10, coverage=False)
        vlib.require_tlc_ok(r, "SyltSem over the pairwise-nesting universe")
        allcases = c01.collect(r)
        # SyltOrder's universes are always taken whole: effects interleaved with held operands (order) and values that
        # differ per activation, live across a re-entrant call (recdep)
        whole = [c for c in allcases if c["id"]["h"] in ("order", "orderstmt", "recdep", "recdepbig")]
        cases = [c for c in allcases
                 if c["id"]["h"] in ("recl", "recr", "loopclo", "method")
                 or c["id"]["h"] not in ("order", "orderstmt", "recdep", "recdepbig") and c["id"]["o"] in DENSE and c["id"]["i"] in DENSE]
        if tier == "quick":
            cases = cases[::3]
            whole = [c for k, c in enumerate(whole) if c["id"]["h"] in ("order", "orderstmt", "recdepbig") or c["id"]["pos"] == 0 or k % 2 == 0]
        cases = whole + cases
        ev.set(states=r.distinct, transitions=r.generated, universe_total=len(allcases))
        if len(cases) < 1000:
            vlib.tool_error("vacuity: only %d recursion/closure-dense programs" % len(cases))

    cf = os.path.join(wd, "cases.ndjson")
    rf = os.path.join(wd, "results.ndjson")
    ef = os.path.join(wd, "events.ndjson")
    vlib.write_ndjson(cf, cases)
    vlib.harness("c10", ["replay", cf, rf, ef], timeout=3000)
    results = vlib.read_ndjson(rf)
    events = vlib.read_ndjson(ef)
    counts = {}
    for res in results:
        v = res["verdict"]
        counts[v] = counts.get(v, 0) + 1
        case = cases[res["i"]]
        if v == "tool":
            vlib.tool_error("minilua unsupported: %s" % str(res.get("got"))[:300])
        if v in ("mismatch", "load_error", "panic"):
            verdicts.add(c01.signature(PID, case, res),
                         "%s: want %s got %s" % (v, str(res.get("want"))[:160], str(res.get("got", res.get("error")))[:200]),
                         {"id": case["id"], "tops": case["tops"], "out": case["out"], "status": case["status"],
                          "source": res.get("source")})
    # (b) event logs through TLC
    slim = [{"i": e["i"], "ev": e["ev"]} for e in events]
    tf = os.path.join(wd, "trace.ndjson")
    vlib.write_ndjson(tf, slim)
    # validated in slices: the whole thorough log does not fit TLC's heap at once
    CH = 1200
    rej, t = {}, None
    tdistinct = tgenerated = 0
    tcov = {}
    for off in range(0, len(slim), CH):
        stf = os.path.join(wd, "trace-%d.ndjson" % off)
        vlib.write_ndjson(stf, slim[off:off + CH])
        t = vlib.tlc("Trace_Activation", cfg="Trace_Activation.cfg", wd=wd, env={"TRACE": stf}, tags=("REJECT",),
                     timeout=7200, xmx="12g", out_file=os.path.join(wd, "tlc-trace-%d.out" % off))
        vlib.require_tlc_ok(t, "Trace_Activation")
        for (_, p) in t.records:
            p["rec"] += off
            rej[p["rec"]] = p
        tdistinct += t.distinct
        tgenerated += t.generated
        for k_, v_ in t.coverage.items():
            tcov[k_] = (tcov.get(k_, (0, 0))[0] + v_[0], tcov.get(k_, (0, 0))[1] + v_[1])
    t.distinct, t.generated, t.coverage = tdistinct, tgenerated, tcov
    for k, p in rej.items():
        e = events[k - 1]
        case = cases[e["i"]]
        if p["why"] == "malformed-log":
            vlib.tool_error("event log of program %d is not a behaviour of SyltActivation: %s" % (k, str(p)[:300]))
        cid = case["id"]
        sig = "C10|shared-temp|%s|%s|%s" % (cid.get("o"), cid.get("i"), cid.get("h"))
        verdicts.add(sig, "global temporaries read across activations: %s" % str(p["bad"])[:200],
                     {"id": cid, "tops": case["tops"], "out": case["out"], "status": case["status"],
                      "interference": p["bad"], "source": e.get("source")})
    for act in ("TEnter", "TExit", "TWrite", "TRead", "TClosure", "TFinish"):
        if t.coverage.get(act, (0, 0))[1] == 0:
            vlib.tool_error("vacuity: trace action %s never taken" % act)

    # negative control: a hand-made log with a clobbered temporary must be rejected, a clean one accepted
    neg = [{"i": 0, "ev": [{"e": "gw", "a": 0, "p": 0, "n": "V1"}, {"e": "enter", "a": 1, "p": 0, "n": ""},
                           {"e": "gr", "a": 1, "p": 0, "n": "V1"}, {"e": "gw", "a": 1, "p": 0, "n": "V5"},
                           {"e": "enter", "a": 2, "p": 1, "n": ""}, {"e": "gw", "a": 2, "p": 0, "n": "V5"},
                           {"e": "gr", "a": 2, "p": 0, "n": "V5"}, {"e": "exit", "a": 2, "p": 0, "n": ""},
                           {"e": "gr", "a": 1, "p": 0, "n": "V5"}, {"e": "exit", "a": 1, "p": 0, "n": ""}]},
           {"i": 1, "ev": [{"e": "enter", "a": 1, "p": 0, "n": ""}, {"e": "gw", "a": 1, "p": 0, "n": "V5"},
                           {"e": "gr", "a": 1, "p": 0, "n": "V5"}, {"e": "exit", "a": 1, "p": 0, "n": ""}]}]
    nf = os.path.join(wd, "neg.ndjson")
    vlib.write_ndjson(nf, neg)
    nt = vlib.tlc("Trace_Activation", cfg="Trace_Activation.cfg", wd=wd, env={"TRACE": nf}, tags=("REJECT",), workers=2,
                  out_file=os.path.join(wd, "tlc-neg.out"))
    vlib.require_tlc_ok(nt, "Trace_Activation negative control")
    nrej = {p["rec"] for (_, p) in nt.records}
    if nrej != {1}:
        vlib.tool_error("negative control: expected exactly the clobbered log to be rejected, got %s" % sorted(nrej))

    nev = sum(len(e["ev"]) for e in events)
    ev.add("states", t.distinct)
    ev.add("transitions", t.generated)
    ev.set(traces_validated_against_impl=len(events), programs=len(cases), evaluations=len(cases),
           distinct_nontrivial=sum(1 for e in events if e["depth"] >= 2 or e["closures"] >= 1),
           events_validated=nev, max_call_depth=max(e["depth"] for e in events),
           programs_with_closures=sum(1 for e in events if e["closures"] > 0),
           trace_actions={k: v[1] for k, v in t.coverage.items() if k.startswith("T")},
           verdict_counts=counts, negative_controls_rejected=1, known_findings_hit=verdicts.known_hits,
           rule="programs of SyltGen's universe in the harnesses recl/recr/loopclo/method or built from two recursion/closure "
                "constructs (quick: every third); non-trivial = call depth >= 2 or at least one closure created (measured from the event log)",
           samples=[{"id": cases[e["i"]]["id"], "events": len(e["ev"]), "depth": e["depth"], "closures": e["closures"]} for e in events[:3]])
    ev.assume("minilua's event log (Enter/Exit/GlobalRead/GlobalWrite/Closure) is faithful; only names V<digits> are logged",
              "globals written only by the main chunk are constants and exempt")
    rc = verdicts.finish()
    ev.violations = len(verdicts.violations)
    ev.write()
    return rc
